#!/usr/bin/env python3
"""writes MANIFEST.json from specs/props.json + specs/manifest_notes.json (claimed and not-applicable properties)"""
import json, os
V = os.path.dirname(os.path.abspath(__file__))
props = json.load(open(os.path.join(V, "specs/props.json")))
notes = json.load(open(os.path.join(V, "specs/manifest_notes.json")))
ids = [json.loads(l)["id"] for l in open(os.path.join(V, "properties.jsonl"))]
checks, na = [], []
for pid in ids:
    if pid in props and not props[pid].get("disabled"):
        n = notes.get(pid, {})
        checks.append({
            "property_id": pid,
            "quick_cmd": f"./check {pid} --tier quick",
            "thorough_cmd": f"./check {pid} --tier thorough",
            "evidence_file": f"/verif/evidence/{pid}.json",
            "replay_cmd_template": "./check --replay {path}",
            "engine": "sorobanvx+verus",
            "level_claimed": {"category": "proof", "text": n.get("text", ""), "design_ref": n.get("design_ref", "DESIGN.md §4")},
            "level_note": n.get("note", ""),
            "technique": n.get("technique", "contract-based deductive verification (Verus) of the functions extracted from /repo on every run"),
        })
    else:
        na.append({"property_id": pid, "reason": notes.get(pid, {}).get("na_reason", "not yet brought under contract in this build; no claim is made")})
m = {
    "version": 1,
    "setup_cmd": "cd /verif/tools/sorobanvx && RUSTUP_TOOLCHAIN=stable-x86_64-unknown-linux-gnu CARGO_NET_OFFLINE=true cargo build --offline --release",
    "hooks": {
        "guard": "stellar_contracts_verif",
        "enable": "no hooks: contracts live in /verif/specs and are spliced into functions extracted from /repo's working tree on every run",
        "baseline_off_cmd": "cd /repo && RUSTUP_TOOLCHAIN=stable-x86_64-unknown-linux-gnu cargo test --workspace --no-fail-fast --offline",
        "source_commits": [],
        "add_only": True,
    },
    "engines": [
        {"name": "sorobanvx+verus", "path": "/verif/check", "serves_properties": [c["property_id"] for c in checks],
         "kind_free_text": "mechanical translator (syn) + hand-written Soroban SDK model + spec packs, discharged by Verus/Z3; canaries for vacuity"},
    ],
    "checks": checks,
    "not_applicable": na,
    "notes": "exit 2 (no VIOLATION line) = undecided: lost anchor, unsupported construct, tool limit, vacuity or new assumption",
}
json.dump(m, open(os.path.join(V, "MANIFEST.json"), "w"), indent=1)
print(len(checks), "claimed;", len(na), "not applicable")
