#!/usr/bin/env python3
# developer helper: assemble one unit and run verus, print diagnostics
import sys, os, vx, json
unit = vx.load_unit(sys.argv[1])
scratch = "/var/tmp/vxdev"; os.makedirs(scratch, exist_ok=True)
try:
    asm = vx.assemble(unit, scratch, "A")
except vx.Undecided as e:
    print("UNDECIDED", e); sys.exit(2)
p = os.path.join(scratch, unit["name"] + ".rs")
open(p, "w").write(vx.shard_text(asm, "dev") if unit.get("borrowed_spec_files") else asm.text)
rc, js, err, dt, cmd = vx.run_verus(p, extra=sys.argv[2:])
print(cmd, "rc", rc, "%.1fs" % dt)
if js: print(json.dumps(js.get("verification-results"), indent=None))
ds = vx.parse_diagnostics(err)
for d in ds:
    if d["level"] == "error":
        key, kind = vx.fn_at(asm, d["line"] or 0)
        print("ERR", d["msg"], "line", d["line"], key, kind)
        if kind != "canary" or "postcondition" not in d["msg"]:
            print("\n".join(d["raw"][:30]))
