// ---- model fragment: the trapping / failing operations of the verifiers, STRICT flavour (TRUSTED): the conditions
//      under which the host / library would trap are PRECONDITIONS, so a unit verified against this fragment never
//      reaches such a trap.  Needs verifiers_ext. ----
impl Bytes {
    /// the host function `bytes_slice` traps unless `start <= end <= len`
    #[verifier::external_body]
    pub fn slice<R: VxRangeBounds<u32>>(&self, r: R) -> (res: Bytes)
        requires
            0 <= slice_lo(r.vx_start()) <= slice_hi(r.vx_end(), self@.len() as int) <= self@.len(),
            slice_lo(r.vx_start()) <= u32::MAX, slice_hi(r.vx_end(), self@.len() as int) <= u32::MAX,
        ensures
            res@ == self@.subrange(slice_lo(r.vx_start()), slice_hi(r.vx_end(), self@.len() as int)),
    { unimplemented!() }
    /// copies the contents into `[u8; B]` (`&mut buffer[0..len]` panics if `len > B`) and remembers the length
    #[verifier::external_body]
    pub fn to_buffer<const B: usize>(&self) -> (r: BytesBuffer<B>)
        requires self@.len() <= B,
        ensures r.s@ == self@,
    { unimplemented!() }
}

/// "serde_json_core parses the document as a `ClientDataJson`" (it starts with a JSON object that has the two string
/// members `challenge` and `type`, no duplicate of them, and every other member is well-formed JSON) — uninterpreted
pub uninterp spec fn json_client_data_parses(doc: Seq<u8>) -> bool;
/// as in verifiers_ops, plus: a document that parses yields `Ok` (ASSUMED — completeness of the external parser)
#[verifier::external_body]
pub fn from_slice<'a>(v: &'a [u8]) -> (r: Result<(ClientDataJson<'a>, usize), JsonDeError>)
    ensures
        json_client_data_parses(v@) ==> r is Ok,
        r is Ok ==> json_str_field(v@, "challenge"@) == Some(r->Ok_0.0.challenge.spec_bytes())
            && json_str_field(v@, "type"@) == Some(r->Ok_0.0.type_field.spec_bytes())
            && r->Ok_0.1 <= v@.len(),
{ unimplemented!() }
