// ---- model fragment: the SEP-41 token client as used by the merkle-airdrop example (M8; TRUSTED).
//      Same contract as `TokenClient::transfer` of fragment fee_ext (which cannot be listed next to merkle_ext:
//      both define `Val`).  Needs fragments core + xcall. ----
pub struct TokenClient { pub address: Address }
pub open spec fn fn_transfer() -> int { str_code("transfer"@) }
impl TokenClient {
    pub fn new(e: &Env, address: &Address) -> (r: TokenClient) ensures r.address == *address {
        TokenClient { address: address.clone() }
    }
    #[verifier::external_body]
    pub fn transfer(&self, e: &mut Env, from: &Address, to: &Address, amount: &i128)
        ensures xcall_post(old(e)@, final(e)@, self.address, fn_transfer(), seq![from.sv(), to.sv(), amount.sv()], SV::Void),
    { unimplemented!() }
}
/// the example's `#[contracttype] struct Receiver` is XDR-serializable (SDK blanket impl); the byte string is
/// uninterpreted, exactly like `ToXdr` of fragment merkle_ext
impl ToXdr for Receiver {
    uninterp spec fn xdr(&self) -> Seq<u8>;
    #[verifier::external_body]
    fn to_xdr(self, e: &Env) -> (r: Bytes) { unimplemented!() }
}
