// ---- model fragment: XDR deserialisation `soroban_sdk::xdr::FromXdr` (TRUSTED).  Needs core + bytes. ----
// `T::from_xdr(e, &bytes)` = host `deserialize_from_bytes` followed by `T::try_from_val`.  The model states the weakest
// honest fact: decoding is a FUNCTION of the byte string and the target type (uninterpreted `xdr_decode`); `Ok(v)` is
// returned exactly when that function is defined, with its value.  Nothing is assumed about which byte strings decode.
pub uninterp spec fn xdr_decode<T>(b: Seq<u8>) -> Option<T>;
pub struct XdrFromError;
/// soroban_sdk::xdr::FromXdr (blanket in the SDK: every `T: TryFromVal<Env, Val>`)
pub trait FromXdr: Sized {
    fn from_xdr(e: &Env, b: &Bytes) -> (r: Result<Self, XdrFromError>)
        ensures
            r is Ok ==> xdr_decode::<Self>(b@) == Some(r->Ok_0),
            r is Err ==> xdr_decode::<Self>(b@) is None;
}
impl<T: ToSV> FromXdr for T {
    #[verifier::external_body]
    fn from_xdr(e: &Env, b: &Bytes) -> (r: Result<Self, XdrFromError>) { unimplemented!() }
}
