// ---- model fragment: what the smart-account unit needs beyond the shared fragments (TRUSTED) ----
// needs fragments core, bytes, vec, xcall, crypto, authctx (Val, Context), map (SdkMap); refers to the
// `#[contracttype]` items `Signer`, `ContextRule` that the translator generates for the unit.
//
// (1) `#[contractclient]` clients.  Hand-written stand-ins for what soroban-sdk generates from
//       packages/accounts/src/policies/mod.rs   trait PolicyClientInterface   -> PolicyClient
//       packages/accounts/src/verifiers/mod.rs  trait VerifierClientInterface -> VerifierClient
//     Generated client methods take every argument by reference.  Each method carries exactly the generic
//     external-call contract `xcall_post` of model/xcall.rs (this contract's stores, ledger, events and
//     authorizations unchanged, one `Call` record appended, `ext` arbitrary, returned value arbitrary);
//     the `try_` variant may also fail (`xcall_failed`: recorded with ok == false).
pub open spec fn fn_can_enforce() -> int { 120143761706556544418734949int }   // "can_enforce"
pub open spec fn fn_enforce() -> int { 28550358883263333int }                  // "enforce"
pub open spec fn fn_install() -> int { 29676314707455084int }                  // "install"
pub open spec fn fn_uninstall() -> int { 2166225068282897067116int }           // "uninstall"
pub open spec fn fn_verify() -> int { 130178083284601int }                     // "verify"

pub struct PolicyClient { pub address: Address }
pub struct XCallError;

impl PolicyClient {
    pub fn new(e: &Env, a: &Address) -> (r: Self)
        ensures r.address == *a,
    { PolicyClient { address: a.clone() } }

    #[verifier::external_body]
    pub fn can_enforce(&self, e: &mut Env, context: &Context, authenticated_signers: &Vec<Signer>, context_rule: &ContextRule, smart_account: &Address) -> (r: bool)
        ensures xcall_post(old(e)@, final(e)@, self.address, fn_can_enforce(),
            seq![(*context).sv(), (*authenticated_signers).sv(), (*context_rule).sv(), (*smart_account).sv()], r.sv()),
    { unimplemented!() }

    #[verifier::external_body]
    pub fn enforce(&self, e: &mut Env, context: &Context, authenticated_signers: &Vec<Signer>, context_rule: &ContextRule, smart_account: &Address) -> (r: ())
        ensures xcall_post(old(e)@, final(e)@, self.address, fn_enforce(),
            seq![(*context).sv(), (*authenticated_signers).sv(), (*context_rule).sv(), (*smart_account).sv()], r.sv()),
    { unimplemented!() }

    #[verifier::external_body]
    pub fn install(&self, e: &mut Env, install_params: &Val, context_rule: &ContextRule, smart_account: &Address) -> (r: ())
        ensures xcall_post(old(e)@, final(e)@, self.address, fn_install(),
            seq![(*install_params).sv(), (*context_rule).sv(), (*smart_account).sv()], r.sv()),
    { unimplemented!() }

    /// `try_uninstall`: a failing callee does not trap the caller
    #[verifier::external_body]
    pub fn try_uninstall(&self, e: &mut Env, context_rule: &ContextRule, smart_account: &Address) -> (r: Result<(), XCallError>)
        ensures
            r.is_ok() ==> xcall_post(old(e)@, final(e)@, self.address, fn_uninstall(),
                seq![(*context_rule).sv(), (*smart_account).sv()], SV::Void),
            r.is_err() ==> xcall_failed(old(e)@, final(e)@, self.address, fn_uninstall(),
                seq![(*context_rule).sv(), (*smart_account).sv()]),
    { unimplemented!() }
}

pub struct VerifierClient { pub address: Address }

impl VerifierClient {
    pub fn new(e: &Env, a: &Address) -> (r: Self)
        ensures r.address == *a,
    { VerifierClient { address: a.clone() } }

    #[verifier::external_body]
    pub fn verify(&self, e: &mut Env, hash: &Bytes, key_data: &Val, sig_data: &Val) -> (r: bool)
        ensures xcall_post(old(e)@, final(e)@, self.address, fn_verify(),
            seq![(*hash).sv(), (*key_data).sv(), (*sig_data).sv()], r.sv()),
    { unimplemented!() }
}

// (2) conversions into raw host values.  `x.into_val(e)` keeps the encoded value; a 1-tuple becomes the
//     one-element argument vector.  `Hash<32>` converts as the 32-byte string it wraps.
impl<const N: usize> ToSV for Hash<N> {
    open spec fn sv(&self) -> SV { SV::Bytes(self.s@) }
    open spec fn unsv(v: SV) -> Self { match v { SV::Bytes(x) => Hash { s: Ghost(x) }, _ => arbitrary() } }
    proof fn lemma_rt(&self) {}
}
impl<const N: usize> Clone for Hash<N> {
    #[verifier::external_body]
    fn clone(&self) -> (r: Self) ensures r == *self { unimplemented!() }
}
/// the argument vector of a call as the sequence of host values it carries
pub open spec fn vals_sv(a: Seq<Val>) -> Seq<SV> { Seq::new(a.len(), |i: int| a[i].sv()) }
pub trait SaIntoVal: Sized + ToSV {
    fn into_val(self, e: &Env) -> (r: Val) ensures r.sv() == self.sv();
}
impl SaIntoVal for Bytes {
    #[verifier::external_body]
    fn into_val(self, e: &Env) -> (r: Val) { unimplemented!() }
}
pub trait SaIntoValVec: Sized {
    spec fn vals(&self) -> Seq<SV>;
    fn into_val(self, e: &Env) -> (r: Vec<Val>) ensures vals_sv(r@) == self.vals();
}
impl<A: ToSV> SaIntoValVec for (A,) {
    open spec fn vals(&self) -> Seq<SV> { seq![self.0.sv()] }
    #[verifier::external_body]
    fn into_val(self, e: &Env) -> (r: Vec<Val>) { unimplemented!() }
}
impl Env {
    /// `a.require_auth_for_args(args)`: returns only if the host accepted a's authorization for exactly these arguments
    #[verifier::external_body]
    pub fn require_auth_for_args(&mut self, a: &Address, args: Vec<Val>)
        ensures final(self)@ == w_auth_args(old(self)@, *a, vals_sv(args@)),
    { unimplemented!() }
}

// (3) containers: iteration over an SDK map (entries in the host's key order = the view), `Vec::from_iter` over a
//     vector, `rposition`, `binary_search`.
impl<K, V> SdkMap<K, V> {
    #[verifier::external_body]
    pub fn iter(&self) -> (r: VecIter<(K, V)>)
        ensures r.items@ == self@, r.pos@ == 0, r.rem() == self@, self@.len() <= u32::MAX,
    { unimplemented!() }
}
impl<T> Vec<T> {
    /// `Vec::from_iter(e, v)` for a vector `v` (IntoIterator of its items in order)
    #[verifier::external_body]
    pub fn from_iter(e: &Env, v: Vec<T>) -> (r: Vec<T>) ensures r@ == v@ { unimplemented!() }
}
impl<T> VecIter<T> {
    /// `Iterator::rposition` (eager; the closure must be pure): index of the LAST element satisfying `f`
    #[verifier::external_body]
    pub fn rposition<F: FnMut(T) -> bool>(&mut self, f: F) -> (r: Option<usize>)
        requires forall|i: int| 0 <= i < old(self).rem().len() ==> f.requires((#[trigger] old(self).rem()[i],)),
        ensures
            r.is_some() ==> (r.unwrap() as int) < old(self).rem().len()
                && f.ensures((old(self).rem()[r.unwrap() as int],), true)
                && forall|j: int| r.unwrap() < j < old(self).rem().len() ==> f.ensures((#[trigger] old(self).rem()[j],), false),
            r.is_none() ==> forall|j: int| 0 <= j < old(self).rem().len() ==> f.ensures((#[trigger] old(self).rem()[j],), false),
    { unimplemented!() }
}
// (4) `Vec::binary_search` against the host's (uninterpreted) total order: see model/vec.rs
