// ---- model fragment: cross-contract calls (M8, TRUSTED) ----
// No re-entrancy into this contract: a call leaves every store, the ledger, the event log and the
// authorization set of *this* contract unchanged, appends one record to `calls`, may change `ext`.
pub open spec fn xcall_post(w: World, w2: World, callee: Address, func: int, args: Seq<SV>, ret: SV) -> bool {
    w2 == (World { calls: w.calls.push(Call { callee: callee, func: func, args: args, ret: ret, ok: true }), ext: w2.ext, ..w })
}
/// a `try_` call that failed: recorded with ok == false, callee effects rolled back
pub open spec fn xcall_failed(w: World, w2: World, callee: Address, func: int, args: Seq<SV>) -> bool {
    w2 == (World { calls: w.calls.push(Call { callee: callee, func: func, args: args, ret: SV::Void, ok: false }), ..w })
}

/// soroban_sdk::Error / soroban_sdk::InvokeError as seen through a generated client's `try_` methods (only their shapes matter)
pub struct SdkError { pub code: u32 }
/// `soroban_sdk::Error` under its own name (the `E` of `try_invoke_contract::<T, Error>`)
pub type Error = SdkError;
pub enum InvokeError { Abort, Contract(u32) }
// For every client method `m` of a model fragment whose contract is the generic `xcall_post`, vx.py derives the SDK's `try_m`
// mechanically (same callee, function and arguments): Ok(Ok(v)) = the call returned v; Ok(Err(_)) = it returned a value that
// does not convert; Err(_) = the callee failed, its effects are rolled back, the caller goes on (`xcall_failed`).
