// ---- model fragment: Bytes / BytesN<N> / Symbol (M9, TRUSTED) ----
pub struct Bytes { pub s: Ghost<Seq<u8>> }
impl View for Bytes { type V = Seq<u8>; open spec fn view(&self) -> Seq<u8> { self.s@ } }
impl ToSV for Bytes {
    open spec fn sv(&self) -> SV { SV::Bytes(self.s@) }
    open spec fn unsv(v: SV) -> Self { match v { SV::Bytes(x) => Bytes { s: Ghost(x) }, _ => arbitrary() } }
    proof fn lemma_rt(&self) {}
}
impl Clone for Bytes {
    #[verifier::external_body]
    fn clone(&self) -> (r: Self) ensures r == *self { unimplemented!() }
}
impl PartialEqSpecImpl for Bytes {
    open spec fn obeys_eq_spec() -> bool { true }
    open spec fn eq_spec(&self, other: &Bytes) -> bool { self@ == other@ }
}
impl PartialEq for Bytes {
    #[verifier::external_body]
    fn eq(&self, other: &Bytes) -> (r: bool) { unimplemented!() }
}
impl Eq for Bytes {}
impl Bytes {
    #[verifier::external_body]
    pub fn new(e: &Env) -> (r: Self) ensures r@ == Seq::<u8>::empty() { unimplemented!() }
    #[verifier::external_body]
    pub fn from_array<const N: usize>(e: &Env, a: &[u8; N]) -> (r: Self) ensures r@ == a@ { unimplemented!() }
    #[verifier::external_body]
    pub fn from_slice(e: &Env, a: &[u8]) -> (r: Self) ensures r@ == a@ { unimplemented!() }
    #[verifier::external_body]
    pub fn len(&self) -> (r: u32) ensures r as int == self@.len() { unimplemented!() }
    #[verifier::external_body]
    pub fn is_empty(&self) -> (r: bool) ensures r == (self@.len() == 0) { unimplemented!() }
    #[verifier::external_body]
    pub fn get(&self, i: u32) -> (r: Option<u8>)
        ensures r == (if (i as int) < self@.len() { Some(self@[i as int]) } else { None::<u8> }),
    { unimplemented!() }
    /// traps when out of range
    #[verifier::external_body]
    pub fn get_unchecked(&self, i: u32) -> (r: u8) ensures (i as int) < self@.len(), r == self@[i as int] { unimplemented!() }
    #[verifier::external_body]
    pub fn first(&self) -> (r: Option<u8>) ensures r == (if self@.len() > 0 { Some(self@[0]) } else { None::<u8> }) { unimplemented!() }
    #[verifier::external_body]
    pub fn last(&self) -> (r: Option<u8>) ensures r == (if self@.len() > 0 { Some(self@[self@.len() - 1]) } else { None::<u8> }) { unimplemented!() }
    /// traps when empty
    #[verifier::external_body]
    pub fn first_unchecked(&self) -> (r: u8) ensures self@.len() > 0, r == self@[0] { unimplemented!() }
    /// traps when empty
    #[verifier::external_body]
    pub fn last_unchecked(&self) -> (r: u8) ensures self@.len() > 0, r == self@[self@.len() - 1] { unimplemented!() }
    /// traps when out of range
    #[verifier::external_body]
    pub fn set(&mut self, i: u32, x: u8) ensures (i as int) < old(self)@.len(), final(self)@ == old(self)@.update(i as int, x) { unimplemented!() }
    /// traps when i > len
    #[verifier::external_body]
    pub fn insert(&mut self, i: u32, x: u8) ensures (i as int) <= old(self)@.len(), final(self)@ == old(self)@.insert(i as int, x) { unimplemented!() }
    #[verifier::external_body]
    pub fn remove(&mut self, i: u32) -> (r: Option<()>)
        ensures (i as int) < old(self)@.len() ==> r.is_some() && final(self)@ == old(self)@.remove(i as int),
            (i as int) >= old(self)@.len() ==> r.is_none() && final(self)@ == old(self)@,
    { unimplemented!() }
    /// traps when out of range
    #[verifier::external_body]
    pub fn remove_unchecked(&mut self, i: u32) ensures (i as int) < old(self)@.len(), final(self)@ == old(self)@.remove(i as int) { unimplemented!() }
    #[verifier::external_body]
    pub fn pop_back(&mut self) -> (r: Option<u8>)
        ensures old(self)@.len() == 0 ==> r.is_none() && final(self)@ == old(self)@,
            old(self)@.len() > 0 ==> r == Some(old(self)@.last()) && final(self)@ == old(self)@.drop_last(),
    { unimplemented!() }
    /// traps when empty
    #[verifier::external_body]
    pub fn pop_back_unchecked(&mut self) -> (r: u8)
        ensures old(self)@.len() > 0, r == old(self)@.last(), final(self)@ == old(self)@.drop_last(),
    { unimplemented!() }
    #[verifier::external_body]
    pub fn append(&mut self, other: &Bytes) ensures final(self)@ == old(self)@ + other@ { unimplemented!() }
    #[verifier::external_body]
    pub fn push_back(&mut self, x: u8) ensures final(self)@ == old(self)@.push(x) { unimplemented!() }
    #[verifier::external_body]
    pub fn extend_from_array<const N: usize>(&mut self, a: &[u8; N]) ensures final(self)@ == old(self)@ + a@ { unimplemented!() }
    #[verifier::external_body]
    pub fn extend_from_slice(&mut self, a: &[u8]) ensures final(self)@ == old(self)@ + a@ { unimplemented!() }
}

pub struct BytesN<const N: usize> { pub s: Ghost<Seq<u8>> }
impl<const N: usize> View for BytesN<N> { type V = Seq<u8>; open spec fn view(&self) -> Seq<u8> { self.s@ } }
impl<const N: usize> ToSV for BytesN<N> {
    open spec fn sv(&self) -> SV { SV::Bytes(self.s@) }
    open spec fn unsv(v: SV) -> Self { match v { SV::Bytes(x) => BytesN { s: Ghost(x) }, _ => arbitrary() } }
    proof fn lemma_rt(&self) {}
}
impl<const N: usize> Clone for BytesN<N> {
    #[verifier::external_body]
    fn clone(&self) -> (r: Self) ensures r == *self { unimplemented!() }
}
impl<const N: usize> PartialEqSpecImpl for BytesN<N> {
    open spec fn obeys_eq_spec() -> bool { true }
    open spec fn eq_spec(&self, other: &BytesN<N>) -> bool { self@ == other@ }
}
impl<const N: usize> PartialEq for BytesN<N> {
    #[verifier::external_body]
    fn eq(&self, other: &BytesN<N>) -> (r: bool) { unimplemented!() }
}
impl<const N: usize> Eq for BytesN<N> {}
impl<const N: usize> BytesN<N> {
    /// a BytesN always has exactly N bytes (type invariant of the SDK, assumed)
    #[verifier::external_body]
    pub proof fn lemma_len(&self) ensures self@.len() == N { }
    #[verifier::external_body]
    pub fn from_array(e: &Env, a: &[u8; N]) -> (r: Self) ensures r@ == a@ { unimplemented!() }
    #[verifier::external_body]
    pub fn to_array(&self) -> (r: [u8; N]) ensures r@ == self@ { unimplemented!() }
    #[verifier::external_body]
    pub fn len(&self) -> (r: u32) ensures r as int == self@.len(), r as int == N { unimplemented!() }
    #[verifier::external_body]
    /// soroban-sdk implements `BytesN::is_empty` as the constant `false` (cross-checked: kani/sdkmodel)
    pub fn is_empty(&self) -> (r: bool) ensures !r { unimplemented!() }
    #[verifier::external_body]
    pub fn get(&self, i: u32) -> (r: Option<u8>)
        ensures r == (if (i as int) < self@.len() { Some(self@[i as int]) } else { None::<u8> }),
    { unimplemented!() }
    /// traps when out of range
    #[verifier::external_body]
    pub fn get_unchecked(&self, i: u32) -> (r: u8) ensures (i as int) < self@.len(), r == self@[i as int] { unimplemented!() }
    #[verifier::external_body]
    pub fn first(&self) -> (r: Option<u8>) ensures r == (if self@.len() > 0 { Some(self@[0]) } else { None::<u8> }) { unimplemented!() }
    #[verifier::external_body]
    pub fn last(&self) -> (r: Option<u8>) ensures r == (if self@.len() > 0 { Some(self@[self@.len() - 1]) } else { None::<u8> }) { unimplemented!() }
    #[verifier::external_body]
    pub fn to_bytes(&self) -> (r: Bytes) ensures r@ == self@ { unimplemented!() }
}

pub struct Symbol { pub code: Ghost<int> }
impl ToSV for Symbol {
    open spec fn sv(&self) -> SV { SV::Sym(self.code@) }
    open spec fn unsv(v: SV) -> Self { match v { SV::Sym(x) => Symbol { code: Ghost(x) }, _ => arbitrary() } }
    proof fn lemma_rt(&self) {}
}
impl Clone for Symbol {
    #[verifier::external_body]
    fn clone(&self) -> (r: Self) ensures r == *self { unimplemented!() }
}
impl PartialEqSpecImpl for Symbol {
    open spec fn obeys_eq_spec() -> bool { true }
    open spec fn eq_spec(&self, other: &Symbol) -> bool { self.code@ == other.code@ }
}
impl PartialEq for Symbol {
    #[verifier::external_body]
    fn eq(&self, other: &Symbol) -> (r: bool) { unimplemented!() }
}
impl Eq for Symbol {}
/// symbol of a string (injective: distinct strings are distinct symbols)
pub uninterp spec fn str_code(s: Seq<char>) -> int;
#[verifier::external_body]
pub proof fn lemma_str_code_inj(a: Seq<char>, b: Seq<char>) ensures str_code(a) == str_code(b) ==> a == b {}
impl Symbol {
    #[verifier::external_body]
    pub fn new(e: &Env, s: &str) -> (r: Symbol) ensures r.code@ == str_code(s@) { unimplemented!() }
    #[verifier::external_body]
    pub fn vx_short(s: &str) -> (r: Symbol) ensures r.code@ == str_code(s@) { unimplemented!() }
    #[verifier::external_body]
    pub const fn vx_const(s: &str) -> (r: Symbol) ensures r.code@ == str_code(s@) { Symbol { code: Ghost::assume_new() } }
}
