// ---- model fragment: `#[contractclient(name = "UpgradeableClient")]` of packages/contract-utils/src/upgradeable/mod.rs
//      trait Upgradeable, as used by the upgrader example (M8, TRUSTED; same style as rwa_clients).
//      Needs fragments core, bytes, xcall.  The method carries exactly the generic external-call contract `xcall_post`. ----
pub open spec fn fn_upgrade() -> int { str_code("upgrade"@) }
pub struct UpgradeableClient { pub address: Address }
impl UpgradeableClient {
    pub fn new(e: &Env, a: &Address) -> (r: Self)
        ensures r.address == *a,
    { UpgradeableClient { address: a.clone() } }

    #[verifier::external_body]
    pub fn upgrade(&self, e: &mut Env, new_wasm_hash: &BytesN<32>, operator: &Address) -> (r: ())
        ensures xcall_post(old(e)@, final(e)@, self.address, fn_upgrade(), seq![(*new_wasm_hash).sv(), (*operator).sv()], SV::Void),
    { unimplemented!() }
}
