// ---- model fragment: XDR serialisation (M7, TRUSTED). Needs core + bytes + crypto ----
/// XDR serialisation of a host value: an uninterpreted injective encoding (`ScVal` XDR is a
/// prefix-free canonical encoding; only injectivity is stated)
pub uninterp spec fn xdr_spec(v: SV) -> Seq<u8>;
#[verifier::external_body]
pub proof fn lemma_xdr_inj(a: SV, b: SV)
    ensures xdr_spec(a) == xdr_spec(b) ==> a == b,
{}
/// soroban_sdk::xdr::ToXdr (blanket: everything convertible to a host value)
pub trait ToXdr: ToSV {
    fn to_xdr(self, e: &Env) -> (r: Bytes) ensures r@ == xdr_spec(self.sv());
}
impl<T: ToSV> ToXdr for T {
    #[verifier::external_body]
    fn to_xdr(self, e: &Env) -> (r: Bytes) { unimplemented!() }
}
