// ---- model fragment: SDK items used by the RWA registry units (cti, token_binder, doc_manager, irs) that the other
//      fragments lack (M9, TRUSTED).  Needs fragments core + vec + string.  Do not list together with `merkle_ext`
//      (both define `IntoIterator for Vec<T>`). ----

// (`VxBorrow` - the SDK's `impl Borrow<T>` arguments - is defined in model/vec.rs)

impl<T> Vec<T> {
    /// `Vec::contains` with the SDK's real argument type `impl Borrow<T>` (the `vec` fragment only has the `&T` form);
    /// units select it with "rename_types": {"contains": "contains_b"}.  Host comparison of values is structural.
    #[verifier::external_body]
    pub fn contains_b<B: VxBorrow<T>>(&self, x: B) -> (r: bool) ensures r == self@.contains(x.bv()) { unimplemented!() }

    /// `Vec::from_iter(e, it)`: the remaining items of the (eager) model iterator, in order
    #[verifier::external_body]
    pub fn from_iter(e: &Env, it: VecIter<T>) -> (r: Self) ensures r@ == it.rem() { unimplemented!() }
}

/// `for x in v` on a host vector
impl<T> IntoIterator for Vec<T> {
    type Item = T;
    type IntoIter = VecIter<T>;
    #[verifier::external_body]
    fn into_iter(self) -> (r: VecIter<T>) ensures r.items@ == self@, r.pos@ == 0, r.rem() == self@, self@.len() <= u32::MAX { unimplemented!() }
}

/// the subsequence of `s` at the positions where `keep` is true (order preserved)
pub open spec fn seq_keep<T>(s: Seq<T>, keep: Seq<bool>) -> Seq<T>
    decreases s.len()
{
    if s.len() == 0 || keep.len() != s.len() { Seq::empty() } else {
        let r = seq_keep(s.drop_last(), keep.drop_last());
        if keep.last() { r.push(s.last()) } else { r }
    }
}

// eager adapter; the closure must be pure (it gets no access to Env state)
impl<T> VecIter<T> {
    /// `Iterator::filter`: the closure is run once on every remaining item, in order; the result iterates over the
    /// items for which it answered true.  Stated for every mask `m` that the closure's specification forces (whenever the
    /// closure may answer true on item i then m[i], whenever it may answer false then !m[i]): the answers actually
    /// given satisfy the closure's specification, hence equal such an `m`.
    #[verifier::external_body]
    pub fn filter<F: FnMut(&T) -> bool>(self, f: F) -> (r: VecIter<T>)
        requires forall|i: int| 0 <= i < self.rem().len() ==> f.requires((&#[trigger] self.rem()[i],)),
        ensures
            r.pos@ == 0,
            r.items@.len() <= self.rem().len(),
            forall|m: Seq<bool>| m.len() == self.rem().len()
                && (forall|i: int| 0 <= i < self.rem().len() ==>
                        (f.ensures((&#[trigger] self.rem()[i],), true) ==> m[i]) && (f.ensures((&self.rem()[i],), false) ==> !m[i]))
                ==> r.items@ == #[trigger] seq_keep(self.rem(), m),
    { unimplemented!() }
}

/// `core::cmp::min` at the one type the registry units use it (the translator drops the path prefix); verified, not trusted
pub fn min(a: u32, b: u32) -> (r: u32) ensures r == (if a <= b { a } else { b }) { if a <= b { a } else { b } }

/// `soroban_sdk::String::len` (needs fragment `string`)
impl String {
    #[verifier::external_body]
    pub fn len(&self) -> (r: u32) ensures r as int == self.s@.len() { unimplemented!() }
}
