// ---- model fragment: `#[contractclient]` clients used by the RWA identity verifier (M8, TRUSTED) ----
// Needs core + bytes + vec + xcall + map + cti_client, and the generated type `Claim`
// (list packages/tokens/src/rwa/identity_claims/storage.rs among the unit's files).
// Hand-written stand-ins for what soroban-sdk's `#[contractclient(name = ..)]` generates from the traits
//   identity_verifier/storage.rs      trait IdentityRegistryStorage -> IdentityRegistryStorageClient
//   identity_claims/mod.rs            trait IdentityClaims          -> IdentityClaimsClient
//   claim_topics_and_issuers/mod.rs   trait ClaimTopicsAndIssuers   -> ClaimTopicsAndIssuersClient (one more method)
//   claim_issuer/mod.rs               trait ClaimIssuer             -> ClaimIssuerClient (`try_` variant)
// Every plain method carries exactly the generic external-call contract `xcall_post` (returns only if the callee
// returned normally).  A `try_` method returns
//   Ok(Ok(v))   the callee returned normally and its result converted to the declared type: `xcall_post` with v
//   Ok(Err(_))  the callee returned normally but the result did not convert: `xcall_post` with an unknown,
//               non-convertible result (for the declared type `()`: anything but Void)
//   Err(_)      the callee failed (contract error or trap): `xcall_failed`, callee effects rolled back
pub open spec fn fn_stored_identity() -> int { 599475727975434478489353587314488441int }                 // "stored_identity"
pub open spec fn fn_get_recovered_to() -> int { 137437265870151677146271119112782443631int }             // "get_recovered_to"
pub open spec fn fn_get_claim() -> int { 1907325212567837698413int }                                     // "get_claim"
pub open spec fn fn_get_claim_ids_by_topic() -> int { 38685151208672875053124172322417070960952253256591715int } // "get_claim_ids_by_topic"
pub open spec fn fn_get_claim_topics_and_issuers() -> int { 10888902035509403314779756785199536660965242869020213953658184102515int } // "get_claim_topics_and_issuers"
pub open spec fn fn_is_claim_valid() -> int { 2138793768343967474125716088187236int }                    // "is_claim_valid"

pub struct IdentityRegistryStorageClient { pub address: Address }
impl IdentityRegistryStorageClient {
    pub fn new(e: &Env, a: &Address) -> (r: Self)
        ensures r.address == *a,
    { IdentityRegistryStorageClient { address: a.clone() } }

    #[verifier::external_body]
    pub fn stored_identity(&self, e: &mut Env, account: &Address) -> (r: Address)
        ensures xcall_post(old(e)@, final(e)@, self.address, fn_stored_identity(), seq![(*account).sv()], r.sv()),
    { unimplemented!() }

    #[verifier::external_body]
    pub fn get_recovered_to(&self, e: &mut Env, old_account: &Address) -> (r: Option<Address>)
        ensures xcall_post(old(e)@, final(e)@, self.address, fn_get_recovered_to(), seq![(*old_account).sv()], r.sv()),
    { unimplemented!() }
}

pub struct IdentityClaimsClient { pub address: Address }
impl IdentityClaimsClient {
    pub fn new(e: &Env, a: &Address) -> (r: Self)
        ensures r.address == *a,
    { IdentityClaimsClient { address: a.clone() } }

    #[verifier::external_body]
    pub fn get_claim(&self, e: &mut Env, claim_id: &BytesN<32>) -> (r: Claim)
        ensures xcall_post(old(e)@, final(e)@, self.address, fn_get_claim(), seq![(*claim_id).sv()], r.sv()),
    { unimplemented!() }

    #[verifier::external_body]
    pub fn get_claim_ids_by_topic(&self, e: &mut Env, topic: &u32) -> (r: Vec<BytesN<32>>)
        ensures xcall_post(old(e)@, final(e)@, self.address, fn_get_claim_ids_by_topic(), seq![(*topic).sv()], r.sv()),
    { unimplemented!() }
}

impl ClaimTopicsAndIssuersClient {
    #[verifier::external_body]
    pub fn get_claim_topics_and_issuers(&self, e: &mut Env) -> (r: SdkMap<u32, Vec<Address>>)
        ensures xcall_post(old(e)@, final(e)@, self.address, fn_get_claim_topics_and_issuers(), Seq::<SV>::empty(), r.sv()),
    { unimplemented!() }
}

/// soroban_sdk::ConversionError / soroban_sdk::Error / soroban_sdk::InvokeError (only their shapes matter)
// (`ConversionError` is in model/core.rs, `SdkError` / `InvokeError` in model/xcall.rs)

pub struct ClaimIssuerClient { pub address: Address }
impl ClaimIssuerClient {
    pub fn new(e: &Env, a: &Address) -> (r: Self)
        ensures r.address == *a,
    { ClaimIssuerClient { address: a.clone() } }

    /// the argument list of `ClaimIssuer::is_claim_valid`
    pub open spec fn is_claim_valid_args(identity: Address, claim_topic: u32, scheme: u32, sig_data: Bytes, claim_data: Bytes) -> Seq<SV> {
        seq![identity.sv(), claim_topic.sv(), scheme.sv(), sig_data.sv(), claim_data.sv()]
    }

    #[verifier::external_body]
    pub fn try_is_claim_valid(&self, e: &mut Env, identity: &Address, claim_topic: &u32, scheme: &u32, sig_data: &Bytes, claim_data: &Bytes)
        -> (r: Result<Result<(), ConversionError>, Result<SdkError, InvokeError>>)
        ensures
            match r {
                Ok(Ok(v)) => xcall_post(old(e)@, final(e)@, self.address, fn_is_claim_valid(),
                    Self::is_claim_valid_args(*identity, *claim_topic, *scheme, *sig_data, *claim_data), v.sv()),
                Ok(Err(_)) => final(e)@.calls.len() > 0 && final(e)@.calls.last().ret != SV::Void
                    && xcall_post(old(e)@, final(e)@, self.address, fn_is_claim_valid(),
                        Self::is_claim_valid_args(*identity, *claim_topic, *scheme, *sig_data, *claim_data), final(e)@.calls.last().ret),
                Err(_) => xcall_failed(old(e)@, final(e)@, self.address, fn_is_claim_valid(),
                    Self::is_claim_valid_args(*identity, *claim_topic, *scheme, *sig_data, *claim_data)),
            },
    { unimplemented!() }
}
