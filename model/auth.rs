// ---- model fragment: soroban_sdk::auth (custom accounts) and argument-bound authorization (M4, TRUSTED) ----
// needs fragments core, bytes, vec, invoke (Val)
pub struct ContractContext { pub contract: Address, pub fn_name: Symbol, pub args: Vec<Val> }
pub struct ContractExecutable { pub wasm: Ghost<Seq<u8>> }
pub struct CreateContractHostFnContext { pub executable: ContractExecutable, pub salt: BytesN<32> }
pub struct CreateContractWithConstructorHostFnContext { pub executable: ContractExecutable, pub salt: BytesN<32>, pub constructor_args: Vec<Val> }
pub enum Context {
    Contract(ContractContext),
    CreateContractHostFn(CreateContractHostFnContext),
    CreateContractWithCtorHostFn(CreateContractWithConstructorHostFnContext),
}
impl Clone for Context {
    #[verifier::external_body]
    fn clone(&self) -> (r: Self) ensures r == *self { unimplemented!() }
}
impl Clone for ContractContext {
    #[verifier::external_body]
    fn clone(&self) -> (r: Self) ensures r == *self { unimplemented!() }
}
impl Env {
    /// `a.require_auth_for_args(args)`: returns only if the host accepted a's authorization for exactly these arguments
    #[verifier::external_body]
    pub fn require_auth_for_args(&mut self, a: &Address, args: Vec<Val>)
        ensures final(self)@ == w_auth_args(old(self)@, *a, vals_sv(args@)),
    { unimplemented!() }
}
/// `(a, b, …).into_val(&e)` as the argument vector of a call
pub trait IntoValVec: Sized {
    spec fn vals(&self) -> Seq<SV>;
    fn into_val(self, e: &Env) -> (r: Vec<Val>) ensures vals_sv(r@) == self.vals();
}
impl<A: ToSV, B: ToSV, C: ToSV, D: ToSV, E: ToSV, F: ToSV> IntoValVec for (A, B, C, D, E, F) {
    open spec fn vals(&self) -> Seq<SV> { seq![self.0.sv(), self.1.sv(), self.2.sv(), self.3.sv(), self.4.sv(), self.5.sv()] }
    #[verifier::external_body]
    fn into_val(self, e: &Env) -> (r: Vec<Val>) { unimplemented!() }
}
// zip: pairs up to the shorter length (std semantics)
pub open spec fn zip_seq<A, B>(a: Seq<A>, b: Seq<B>) -> Seq<(A, B)> {
    Seq::new(if a.len() <= b.len() { a.len() } else { b.len() }, |i: int| (a[i], b[i]))
}
impl<T> VecIter<T> {
    #[verifier::external_body]
    pub fn zip<U>(self, other: Vec<U>) -> (r: VecIter<(T, U)>)
        ensures r.rem() == zip_seq(self.rem(), other@), r.items@ == zip_seq(self.rem(), other@), r.pos@ == 0,
    { unimplemented!() }
}
