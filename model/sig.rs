// ---- model fragment: signature-verification host functions (M7, TRUSTED).  Needs fragments core + bytes + crypto. ----
// `e.crypto().ed25519_verify(..)` / `e.crypto().secp256r1_verify(..)` return `()`; the host TRAPS on an invalid
// signature.  The model: the call returns ONLY IF the uninterpreted predicate `sig_ok` holds.  Nothing else is
// assumed about `sig_ok` (in particular not that it is a secure signature scheme, nor that it ever holds).
pub enum SigScheme { Ed25519, Secp256r1 }
/// "`sig` is a valid `scheme` signature of `msg` under public key `key`" (for Secp256r1 `msg` is the 32-byte digest
/// that is passed to the host function, as in the SDK)
pub uninterp spec fn sig_ok(scheme: SigScheme, key: Seq<u8>, msg: Seq<u8>, sig: Seq<u8>) -> bool;

impl Env {
    /// soroban_sdk::crypto::Crypto::ed25519_verify(&self, public_key: &BytesN<32>, message: &Bytes, signature: &BytesN<64>)
    #[verifier::external_body]
    pub fn crypto_ed25519_verify(&self, public_key: &BytesN<32>, message: &Bytes, signature: &BytesN<64>)
        ensures sig_ok(SigScheme::Ed25519, public_key@, message@, signature@),
    { unimplemented!() }
    /// soroban_sdk::crypto::Crypto::secp256r1_verify(&self, public_key: &BytesN<65>, message_digest: &Hash<32>, signature: &BytesN<64>)
    #[verifier::external_body]
    pub fn crypto_secp256r1_verify(&self, public_key: &BytesN<65>, message_digest: &Hash<32>, signature: &BytesN<64>)
        ensures sig_ok(SigScheme::Secp256r1, public_key@, message_digest@, signature@),
    { unimplemented!() }
}
