// ---- model fragment: `ClaimTopicsAndIssuersClient` (M8, TRUSTED).  Needs core + xcall. ----
// Hand-written stand-in for what `#[contractclient(name = "ClaimTopicsAndIssuersClient")]` generates from
//   packages/tokens/src/rwa/claim_topics_and_issuers/mod.rs  trait ClaimTopicsAndIssuers
// (only the methods the units call; `get_claim_topics_and_issuers` is added by fragment idv_clients, which
// needs the `map` fragment).  Generic external-call contract `xcall_post`: this contract's stores, ledger,
// events and authorizations unchanged, one `Call` record appended, `ext` may change, result arbitrary.
pub open spec fn fn_has_claim_topic() -> int { 541975407779136827477905747961997667int }     // "has_claim_topic"

pub struct ClaimTopicsAndIssuersClient { pub address: Address }

impl ClaimTopicsAndIssuersClient {
    pub fn new(e: &Env, a: &Address) -> (r: Self)
        ensures r.address == *a,
    { ClaimTopicsAndIssuersClient { address: a.clone() } }

    #[verifier::external_body]
    pub fn has_claim_topic(&self, e: &mut Env, issuer: &Address, claim_topic: &u32) -> (r: bool)
        ensures xcall_post(old(e)@, final(e)@, self.address, fn_has_claim_topic(),
            seq![(*issuer).sv(), (*claim_topic).sv()], r.sv()),
    { unimplemented!() }
}
