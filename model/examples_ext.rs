// ---- model fragment: SDK odds and ends used only by the expanded example contracts (TRUSTED) ----
/// the bytes of a Rust string slice (UTF-8 encoding, uninterpreted)
pub uninterp spec fn str_bytes(s: Seq<char>) -> Seq<u8>;
impl String {
    /// `String::from_str(e, "..")`: the host string holding the bytes of the slice
    #[verifier::external_body]
    pub fn from_str(e: &Env, s: &str) -> (r: Self) ensures r.s@ == str_bytes(s@) { unimplemented!() }
}

pub open spec fn fn_update_wasm() -> int { str_code("update_current_contract_wasm"@) }
/// the log entry that stands for `e.deployer().update_current_contract_wasm(hash)`
pub open spec fn wasm_update_call(w: World, hash: Seq<u8>) -> Call {
    Call { callee: w.this, func: fn_update_wasm(), args: seq![SV::Bytes(hash)], ret: SV::Void, ok: true }
}
impl Env {
    /// `e.deployer().update_current_contract_wasm(hash)` (needs fragment bytes): the host swaps this contract's executable
    /// for the following invocations; contract storage, authorizations and contract events are untouched.  The swap is
    /// recorded in the call log (as a call of the contract on itself) so that the installed hash is observable.
    #[verifier::external_body]
    pub fn deployer_update_current_contract_wasm(&mut self, hash: BytesN<32>)
        ensures final(self)@ == (World { calls: old(self)@.calls.push(wasm_update_call(old(self)@, hash@)), ..old(self)@ }),
    { unimplemented!() }
}
impl String {
    /// `String::len()`: number of bytes of the host string (a host object is shorter than 2^32 bytes)
    #[verifier::external_body]
    pub fn len(&self) -> (r: u32) ensures r as int == self.s@.len() { unimplemented!() }
}
