// ---- model fragment: SDK odds and ends used only by the expanded example contracts (TRUSTED) ----
impl String {
    /// `String::from_str(e, "..")`: some host string; its content is not modelled (weakest contract)
    #[verifier::external_body]
    pub fn from_str(e: &Env, s: &str) -> (r: Self) { unimplemented!() }
}
