// ---- model fragment: `#[contractclient(name = "ComplianceModuleClient")]` client used by the RWA compliance
//      dispatcher (M8, TRUSTED).  Needs fragments core + xcall. ----
// Hand-written stand-in for what soroban-sdk's `#[contractclient]` generates from
//   packages/tokens/src/rwa/compliance/mod.rs   trait ComplianceModule -> ComplianceModuleClient
// (only the five hook methods the dispatcher calls).  The generated client methods take every argument by reference.
// Each method carries exactly the generic external-call contract `xcall_post` of model/xcall.rs: this contract's
// stores, ledger, events and authorizations are unchanged, one `Call` record is appended, `ext` may change, the
// returned value is arbitrary.  Function names are the base-256 codes of the trait method names (vx.sym_code).
pub open spec fn fnm_on_transfer() -> int { 134711987121902684528338290int }                 // "on_transfer"
pub open spec fn fnm_on_created() -> int { 526218694909874719188324int }                     // "on_created"
pub open spec fn fnm_on_destroyed() -> int { 34486268407127506479916606820int }              // "on_destroyed"
pub open spec fn fnm_can_transfer() -> int { 30756802997960459679835776370int }              // "can_transfer"
pub open spec fn fnm_can_create() -> int { 469311569164054640555109int }                     // "can_create"

pub struct ComplianceModuleClient { pub address: Address }

impl ComplianceModuleClient {
    pub fn new(e: &Env, a: &Address) -> (r: Self)
        ensures r.address == *a,
    { ComplianceModuleClient { address: a.clone() } }

    #[verifier::external_body]
    pub fn on_transfer(&self, e: &mut Env, from: &Address, to: &Address, amount: &i128, token: &Address) -> (r: ())
        ensures xcall_post(old(e)@, final(e)@, self.address, fnm_on_transfer(),
            seq![(*from).sv(), (*to).sv(), (*amount).sv(), (*token).sv()], r.sv()),
    { unimplemented!() }

    #[verifier::external_body]
    pub fn on_created(&self, e: &mut Env, to: &Address, amount: &i128, token: &Address) -> (r: ())
        ensures xcall_post(old(e)@, final(e)@, self.address, fnm_on_created(),
            seq![(*to).sv(), (*amount).sv(), (*token).sv()], r.sv()),
    { unimplemented!() }

    #[verifier::external_body]
    pub fn on_destroyed(&self, e: &mut Env, from: &Address, amount: &i128, token: &Address) -> (r: ())
        ensures xcall_post(old(e)@, final(e)@, self.address, fnm_on_destroyed(),
            seq![(*from).sv(), (*amount).sv(), (*token).sv()], r.sv()),
    { unimplemented!() }

    #[verifier::external_body]
    pub fn can_transfer(&self, e: &mut Env, from: &Address, to: &Address, amount: &i128, token: &Address) -> (r: bool)
        ensures xcall_post(old(e)@, final(e)@, self.address, fnm_can_transfer(),
            seq![(*from).sv(), (*to).sv(), (*amount).sv(), (*token).sv()], r.sv()),
    { unimplemented!() }

    #[verifier::external_body]
    pub fn can_create(&self, e: &mut Env, to: &Address, amount: &i128, token: &Address) -> (r: bool)
        ensures xcall_post(old(e)@, final(e)@, self.address, fnm_can_create(),
            seq![(*to).sv(), (*amount).sv(), (*token).sv()], r.sv()),
    { unimplemented!() }
}
