// ---- model fragment: std items used by the votes module that have no vstd specification (TRUSTED) ----
/// `u32::div_ceil`: ceiling division; panics (= does not return) on a zero divisor
pub assume_specification [u32::div_ceil] (a: u32, rhs: u32) -> (r: u32)
    ensures rhs != 0, r as int == (a as int + rhs as int - 1) / (rhs as int);
// (`Option::map_or` is specified in model/stdauto.rs)
