// ---- model fragment: pieces of the SDK used by packages/fee-abstraction (M4, M8, M8a, M9; TRUSTED) ----
// `Val`, tuple -> Vec<Val> conversion, `require_auth_for_args`, `invoke_contract`, SEP-41 `TokenClient`.


/// the host values of a vector of `Val`s, element by element
pub open spec fn vals_sv(s: Seq<Val>) -> Seq<SV> { Seq::new(s.len(), |i: int| s[i].sv()) }

/// `IntoVal<Env, T>`: conversion into a host value keeps the encoding (the SDK converts element-wise)
pub trait IntoValM<T>: Sized {
    spec fn into_val_spec(&self, r: T) -> bool;
    fn into_val(&self, e: &Env) -> (r: T) ensures self.into_val_spec(r);
}
/// a 6-tuple converts into the `Vec<Val>` of its components, in order (soroban-sdk `tuple.rs`)
impl<A: ToSV, B: ToSV, C: ToSV, D: ToSV, E: ToSV, F: ToSV> IntoValM<Vec<Val>> for (A, B, C, D, E, F) {
    open spec fn into_val_spec(&self, r: Vec<Val>) -> bool {
        vals_sv(r@) == seq![self.0.sv(), self.1.sv(), self.2.sv(), self.3.sv(), self.4.sv(), self.5.sv()]
    }
    #[verifier::external_body]
    fn into_val(&self, e: &Env) -> (r: Vec<Val>) { unimplemented!() }
}

pub open spec fn w_xcall(w: World, callee: Address, func: int, args: Seq<SV>, ret: SV, ext2: int) -> World {
    World { calls: w.calls.push(Call { callee: callee, func: func, args: args, ret: ret, ok: true }), ext: ext2, ..w }
}

impl Env {
    /// M4: returns only if the host accepted `a`'s authorization of this invocation *for exactly `args`*
    #[verifier::external_body]
    pub fn require_auth_for_args(&mut self, a: &Address, args: Vec<Val>)
        ensures final(self)@ == w_auth_args(old(self)@, *a, vals_sv(args@)),
    { unimplemented!() }

    /// M8: generic cross-contract call; traps (no successor) when the callee fails
    #[verifier::external_body]
    pub fn invoke_contract<T: ToSV>(&mut self, target: &Address, func: &Symbol, args: Vec<Val>) -> (r: T)
        ensures xcall_post(old(self)@, final(self)@, *target, func.code@, vals_sv(args@), r.sv()),
    { unimplemented!() }
    /// `try_invoke_contract`: a failing callee does not trap the caller (its effects are rolled back: `xcall_failed`)
    #[verifier::external_body]
    pub fn try_invoke_contract<T: ToSV, E>(&mut self, target: &Address, func: &Symbol, args: Vec<Val>) -> (r: Result<Result<T, ConversionError>, Result<E, InvokeError>>)
        ensures match r {
            Ok(Ok(v)) => xcall_post(old(self)@, final(self)@, *target, func.code@, vals_sv(args@), v.sv()),
            Ok(Err(_)) => final(self)@.calls.len() > 0 && xcall_post(old(self)@, final(self)@, *target, func.code@, vals_sv(args@), final(self)@.calls.last().ret),
            Err(_) => xcall_failed(old(self)@, final(self)@, *target, func.code@, vals_sv(args@)),
        },
    { unimplemented!() }
}

// ---- SEP-41 token client (soroban_sdk::token::TokenClient) ----
pub struct TokenClient { pub address: Address }

pub open spec fn fn_allowance() -> int { str_code("allowance"@) }
pub open spec fn fn_approve() -> int { str_code("approve"@) }
pub open spec fn fn_transfer_from() -> int { str_code("transfer_from"@) }
pub open spec fn fn_transfer() -> int { str_code("transfer"@) }
pub open spec fn fn_balance() -> int { str_code("balance"@) }

impl TokenClient {
    pub fn new(e: &Env, address: &Address) -> (r: TokenClient) ensures r.address == *address {
        TokenClient { address: address.clone() }
    }
    #[verifier::external_body]
    pub fn allowance(&self, e: &mut Env, from: &Address, spender: &Address) -> (r: i128)
        ensures xcall_post(old(e)@, final(e)@, self.address, fn_allowance(), seq![from.sv(), spender.sv()], r.sv()),
    { unimplemented!() }
    /// only the generic M8 contract: what a conformant SEP-41 token additionally guarantees (it rejects an
    /// `expiration_ledger` below the current ledger unless `amount == 0`) is NOT assumed here; properties that
    /// need it take it as an explicit hypothesis (`sep41_approve_checks_expiry` in specs/fee/fee.rs)
    #[verifier::external_body]
    pub fn approve(&self, e: &mut Env, from: &Address, spender: &Address, amount: &i128, expiration_ledger: &u32)
        ensures xcall_post(old(e)@, final(e)@, self.address, fn_approve(),
                    seq![from.sv(), spender.sv(), amount.sv(), expiration_ledger.sv()], SV::Void),
    { unimplemented!() }
    #[verifier::external_body]
    pub fn transfer_from(&self, e: &mut Env, spender: &Address, from: &Address, to: &Address, amount: &i128)
        ensures xcall_post(old(e)@, final(e)@, self.address, fn_transfer_from(),
                    seq![spender.sv(), from.sv(), to.sv(), amount.sv()], SV::Void),
    { unimplemented!() }
    #[verifier::external_body]
    pub fn transfer(&self, e: &mut Env, from: &Address, to: &Address, amount: &i128)
        ensures xcall_post(old(e)@, final(e)@, self.address, fn_transfer(),
                    seq![from.sv(), to.sv(), amount.sv()], SV::Void),
    { unimplemented!() }
    #[verifier::external_body]
    pub fn balance(&self, e: &mut Env, id: &Address) -> (r: i128)
        ensures xcall_post(old(e)@, final(e)@, self.address, fn_balance(), seq![id.sv()], r.sv()),
    { unimplemented!() }
}
