// ---- model fragment (always included): std items without a vstd specification that code edits commonly reach for.
// TRUSTED; straightforward transcriptions of the std documentation. ----
pub assume_specification<T, F: FnOnce(T) -> bool> [Option::<T>::is_some_and] (o: Option<T>, f: F) -> (r: bool)
    requires o.is_some() ==> f.requires((o.unwrap(),)),
    ensures o.is_none() ==> !r, o.is_some() ==> f.ensures((o.unwrap(),), r);
pub assume_specification<T, F: FnOnce(T) -> bool> [Option::<T>::is_none_or] (o: Option<T>, f: F) -> (r: bool)
    requires o.is_some() ==> f.requires((o.unwrap(),)),
    ensures o.is_none() ==> r, o.is_some() ==> f.ensures((o.unwrap(),), r);
pub assume_specification<T, F: FnOnce(&T) -> bool> [Option::<T>::filter] (o: Option<T>, f: F) -> (r: Option<T>)
    requires o.is_some() ==> f.requires((&o.unwrap(),)),
    ensures o.is_none() ==> r.is_none(),
        o.is_some() ==> (f.ensures((&o.unwrap(),), true) ==> r == o) && (f.ensures((&o.unwrap(),), false) ==> r.is_none()) && (r.is_some() ==> r == o);
pub assume_specification [i128::abs] (a: i128) -> (r: i128)
    ensures a != i128::MIN, r as int == (if a < 0 { -(a as int) } else { a as int });
pub assume_specification [u32::abs_diff] (a: u32, b: u32) -> (r: u32)
    ensures r as int == (if a >= b { a as int - b as int } else { b as int - a as int });
pub assume_specification [i128::checked_neg] (a: i128) -> (r: Option<i128>)
    ensures a == i128::MIN ==> r.is_none(), a != i128::MIN ==> r.is_some() && r.unwrap() as int == -(a as int);
pub assume_specification [i128::checked_abs] (a: i128) -> (r: Option<i128>)
    ensures a == i128::MIN ==> r.is_none(), a != i128::MIN ==> r.is_some() && r.unwrap() as int == (if a < 0 { -(a as int) } else { a as int });
