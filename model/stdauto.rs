// ---- model fragment (always included): std items without a vstd specification that code edits commonly reach for.
// TRUSTED; straightforward transcriptions of the std documentation. ----
pub assume_specification<T, F: FnOnce(T) -> bool> [Option::<T>::is_some_and] (o: Option<T>, f: F) -> (r: bool)
    requires o.is_some() ==> f.requires((o.unwrap(),)),
    ensures o.is_none() ==> !r, o.is_some() ==> f.ensures((o.unwrap(),), r);
pub assume_specification<T, F: FnOnce(T) -> bool> [Option::<T>::is_none_or] (o: Option<T>, f: F) -> (r: bool)
    requires o.is_some() ==> f.requires((o.unwrap(),)),
    ensures o.is_none() ==> r, o.is_some() ==> f.ensures((o.unwrap(),), r);
pub assume_specification<T, F: FnOnce(&T) -> bool> [Option::<T>::filter] (o: Option<T>, f: F) -> (r: Option<T>)
    requires o.is_some() ==> f.requires((&o.unwrap(),)),
    ensures o.is_none() ==> r.is_none(),
        o.is_some() ==> (f.ensures((&o.unwrap(),), true) ==> r == o) && (f.ensures((&o.unwrap(),), false) ==> r.is_none()) && (r.is_some() ==> r == o);
pub assume_specification [i128::abs] (a: i128) -> (r: i128)
    ensures a != i128::MIN, r as int == (if a < 0 { -(a as int) } else { a as int });
pub assume_specification [u32::abs_diff] (a: u32, b: u32) -> (r: u32)
    ensures r as int == (if a >= b { a as int - b as int } else { b as int - a as int });
pub assume_specification [i128::checked_neg] (a: i128) -> (r: Option<i128>)
    ensures a == i128::MIN ==> r.is_none(), a != i128::MIN ==> r.is_some() && r.unwrap() as int == -(a as int);
pub assume_specification [i128::checked_abs] (a: i128) -> (r: Option<i128>)
    ensures a == i128::MIN ==> r.is_none(), a != i128::MIN ==> r.is_some() && r.unwrap() as int == (if a < 0 { -(a as int) } else { a as int });
pub assume_specification [u32::isqrt] (a: u32) -> (r: u32)
    ensures (r as int) * (r as int) <= a as int, (a as int) < (r as int + 1) * (r as int + 1);
pub assume_specification [u64::isqrt] (a: u64) -> (r: u64)
    ensures (r as int) * (r as int) <= a as int, (a as int) < (r as int + 1) * (r as int + 1);
pub assume_specification [u32::is_power_of_two] (a: u32) -> (r: bool)
    ensures r == (a > 0 && (a & ((a - 1) as u32)) == 0);
pub assume_specification [u64::abs_diff] (a: u64, b: u64) -> (r: u64)
    ensures r as int == (if a >= b { a as int - b as int } else { b as int - a as int });
pub assume_specification [i128::abs_diff] (a: i128, b: i128) -> (r: u128)
    ensures r as int == (if a >= b { a as int - b as int } else { b as int - a as int });
pub assume_specification [i128::unsigned_abs] (a: i128) -> (r: u128)
    ensures r as int == (if a < 0 { -(a as int) } else { a as int });
pub assume_specification [i128::signum] (a: i128) -> (r: i128)
    ensures r == (if a > 0 { 1i128 } else if a == 0 { 0i128 } else { -1i128 });
pub assume_specification [i128::is_positive] (a: i128) -> (r: bool) ensures r == (a > 0);
pub assume_specification [i128::is_negative] (a: i128) -> (r: bool) ensures r == (a < 0);
pub open spec fn i128_clamp(x: int) -> i128 { if x > i128::MAX { i128::MAX } else if x < i128::MIN { i128::MIN } else { x as i128 } }
pub assume_specification [i128::saturating_add] (a: i128, b: i128) -> (r: i128) ensures r == i128_clamp(a as int + b as int);
pub assume_specification [i128::saturating_sub] (a: i128, b: i128) -> (r: i128) ensures r == i128_clamp(a as int - b as int);
pub assume_specification [i128::saturating_mul] (a: i128, b: i128) -> (r: i128) ensures r == i128_clamp((a as int) * (b as int));
pub assume_specification [i128::saturating_neg] (a: i128) -> (r: i128) ensures r == i128_clamp(-(a as int));
pub assume_specification [i128::wrapping_neg] (a: i128) -> (r: i128) ensures r == (if a == i128::MIN { i128::MIN } else { (-(a as int)) as i128 });
/// traps on a zero divisor and on MIN / -1 (returns only otherwise); Euclidean: 0 <= remainder < |b|
pub assume_specification [i128::rem_euclid] (a: i128, b: i128) -> (r: i128)
    ensures b != 0, !(a == i128::MIN && b == -1), r as int == (a as int) % (b as int);
pub assume_specification [i128::div_euclid] (a: i128, b: i128) -> (r: i128)
    ensures b != 0, !(a == i128::MIN && b == -1), r as int == (a as int) / (b as int);
pub assume_specification<T> [Option::<T>::or] (o: Option<T>, p: Option<T>) -> (r: Option<T>)
    ensures r == (if o.is_some() { o } else { p });
pub assume_specification<T, U> [Option::<T>::and] (o: Option<T>, p: Option<U>) -> (r: Option<U>)
    ensures r == (if o.is_some() { p } else { None::<U> });
pub assume_specification<T> [Option::<T>::xor] (o: Option<T>, p: Option<T>) -> (r: Option<T>)
    ensures r == (if o.is_some() && p.is_none() { o } else if o.is_none() && p.is_some() { p } else { None::<T> });
pub assume_specification<T, U> [Option::<T>::zip] (o: Option<T>, p: Option<U>) -> (r: Option<(T, U)>)
    ensures r == (if o.is_some() && p.is_some() { Some((o.unwrap(), p.unwrap())) } else { None::<(T, U)> });
pub assume_specification<T, U, F: FnOnce(T) -> U> [Option::<T>::map_or] (o: Option<T>, default: U, f: F) -> (r: U)
    requires o.is_some() ==> f.requires((o.unwrap(),)),
    ensures o.is_none() ==> r == default, o.is_some() ==> f.ensures((o.unwrap(),), r);
pub assume_specification<T, F: FnOnce() -> Option<T>> [Option::<T>::or_else] (o: Option<T>, f: F) -> (r: Option<T>)
    requires o.is_none() ==> f.requires(()),
    ensures o.is_some() ==> r == o, o.is_none() ==> f.ensures((), r);
/// the workspace builds with overflow-checks on: `pow` traps (returns only) unless the mathematical power fits
pub assume_specification [i128::pow] (base: i128, exp: u32) -> (r: i128)
    ensures i128::MIN as int <= vstd::arithmetic::power::pow(base as int, exp as nat) <= i128::MAX as int,
        r as int == vstd::arithmetic::power::pow(base as int, exp as nat);
pub assume_specification [u32::pow] (base: u32, exp: u32) -> (r: u32)
    ensures vstd::arithmetic::power::pow(base as int, exp as nat) <= u32::MAX as int,
        r as int == vstd::arithmetic::power::pow(base as int, exp as nat);
pub assume_specification<T> [bool::then_some] (b: bool, t: T) -> (r: Option<T>)
    ensures r == (if b { Some(t) } else { None::<T> });
pub assume_specification [u128::abs_diff] (a: u128, b: u128) -> (r: u128)
    ensures r as int == (if a >= b { a as int - b as int } else { b as int - a as int });
/// traps on a zero divisor (returns only otherwise)
pub assume_specification [u32::rem_euclid] (a: u32, b: u32) -> (r: u32) ensures b != 0, r as int == (a as int) % (b as int);
pub assume_specification [u64::div_ceil] (a: u64, rhs: u64) -> (r: u64)
    ensures rhs != 0, r as int == (a as int + rhs as int - 1) / (rhs as int);
pub assume_specification [u64::pow] (base: u64, exp: u32) -> (r: u64)
    ensures vstd::arithmetic::power::pow(base as int, exp as nat) <= u64::MAX as int,
        r as int == vstd::arithmetic::power::pow(base as int, exp as nat);
pub assume_specification<T, U, D: FnOnce() -> U, F: FnOnce(T) -> U> [Option::<T>::map_or_else] (o: Option<T>, default: D, f: F) -> (r: U)
    requires o.is_some() ==> f.requires((o.unwrap(),)), o.is_none() ==> default.requires(()),
    ensures o.is_none() ==> default.ensures((), r), o.is_some() ==> f.ensures((o.unwrap(),), r);
pub assume_specification<T, E> [Result::<T, E>::unwrap_or] (res: Result<T, E>, default: T) -> (r: T)
    ensures r == (match res { Ok(v) => v, Err(_) => default });
pub assume_specification<T, E, F: FnOnce(E) -> T> [Result::<T, E>::unwrap_or_else] (res: Result<T, E>, f: F) -> (r: T)
    requires res is Err ==> f.requires((res->Err_0,)),
    ensures res is Ok ==> r == res->Ok_0, res is Err ==> f.ensures((res->Err_0,), r);
pub assume_specification<T, E, U, F: FnOnce(T) -> Result<U, E>> [Result::<T, E>::and_then] (res: Result<T, E>, f: F) -> (r: Result<U, E>)
    requires res is Ok ==> f.requires((res->Ok_0,)),
    ensures res is Ok ==> f.ensures((res->Ok_0,), r), res is Err ==> r is Err && r->Err_0 == res->Err_0;
