// ---- model fragment: I256 arithmetic, STRICT flavour (M10, TRUSTED) ----
// Same operations as `i256_ops`, but the conditions under which the host would trap are PRECONDITIONS: Verus must
// prove at every call site that the mathematical result fits in 256 bits, the divisor is non-zero and the division
// is not MIN / -1. A unit verified against this fragment never reaches a host trap in I256 arithmetic.
impl I256 {
    #[verifier::external_body]
    pub fn add(&self, o: &I256) -> (r: I256)
        requires i256_fits(self@ + o@),
        ensures r@ == self@ + o@,
    { unimplemented!() }

    #[verifier::external_body]
    pub fn sub(&self, o: &I256) -> (r: I256)
        requires i256_fits(self@ - o@),
        ensures r@ == self@ - o@,
    { unimplemented!() }

    #[verifier::external_body]
    pub fn mul(&self, o: &I256) -> (r: I256)
        requires i256_fits(self@ * o@),
        ensures r@ == self@ * o@,
    { unimplemented!() }

    /// truncating division (Rust `/` semantics on a 256-bit integer)
    #[verifier::external_body]
    pub fn div(&self, o: &I256) -> (r: I256)
        requires o@ != 0, !(self@ == -i256_hi() && o@ == -1),
        ensures r@ == rust_div(self@, o@),
    { unimplemented!() }

    /// Euclidean remainder: 0 <= r < |o|
    #[verifier::external_body]
    pub fn rem_euclid(&self, o: &I256) -> (r: I256)
        requires o@ != 0, !(self@ == -i256_hi() && o@ == -1),
        ensures r@ == self@ % o@,
    { unimplemented!() }
}
