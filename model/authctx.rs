// ---- model fragment: soroban_sdk::Val (opaque host value), TryFromVal, soroban_sdk::auth::Context (M9, TRUSTED) ----
// The data types mirror soroban-sdk-25.0.2/src/auth.rs item by item; their encodings follow rule T7
// (enum variant -> Vec[Sym(name), fields..], struct -> Vec[fields..]).


// (`ConversionError` is defined in model/core.rs)

/// `TryFromVal<Env, Val>`: the conversion succeeds exactly when the host value has the wanted type
pub trait TryFromVal: Sized {
    spec fn val_decodes(v: SV) -> Option<Self>;
    fn try_from_val(e: &Env, v: &Val) -> (r: Result<Self, ConversionError>)
        ensures
            r.is_ok() == Self::val_decodes(v@).is_some(),
            r.is_ok() ==> Some(r->Ok_0) == Self::val_decodes(v@);
}
impl TryFromVal for i128 {
    open spec fn val_decodes(v: SV) -> Option<i128> { match v { SV::I128(x) => Some(x), _ => None } }
    #[verifier::external_body]
    fn try_from_val(e: &Env, v: &Val) -> (r: Result<i128, ConversionError>) { unimplemented!() }
}

pub struct ContractContext { pub contract: Address, pub fn_name: Symbol, pub args: Vec<Val> }
pub enum ContractExecutable { Wasm(BytesN<32>) }
pub struct CreateContractHostFnContext { pub executable: ContractExecutable, pub salt: BytesN<32> }
pub struct CreateContractWithConstructorHostFnContext { pub executable: ContractExecutable, pub salt: BytesN<32>, pub constructor_args: Vec<Val> }
pub enum Context {
    Contract(ContractContext),
    CreateContractHostFn(CreateContractHostFnContext),
    CreateContractWithCtorHostFn(CreateContractWithConstructorHostFnContext),
}

impl ToSV for ContractContext {
    open spec fn sv(&self) -> SV { SV::Vec(seq![self.contract.sv(), self.fn_name.sv(), self.args.sv()]) }
    open spec fn unsv(v: SV) -> Self { match v { SV::Vec(s) => ContractContext { contract: <Address as ToSV>::unsv(s[0]), fn_name: <Symbol as ToSV>::unsv(s[1]), args: <Vec<Val> as ToSV>::unsv(s[2]) }, _ => arbitrary() } }
    proof fn lemma_rt(&self) { self.contract.lemma_rt(); self.fn_name.lemma_rt(); self.args.lemma_rt(); }
}
impl ToSV for ContractExecutable {
    open spec fn sv(&self) -> SV { match self { ContractExecutable::Wasm(x0) => SV::Vec(seq![SV::Sym(1466004333int), x0.sv()]) } }
    open spec fn unsv(v: SV) -> Self { match v { SV::Vec(s) => ContractExecutable::Wasm(<BytesN<32> as ToSV>::unsv(s[1])), _ => arbitrary() } }
    proof fn lemma_rt(&self) { match self { ContractExecutable::Wasm(x0) => { x0.lemma_rt(); } } }
}
impl ToSV for CreateContractHostFnContext {
    open spec fn sv(&self) -> SV { SV::Vec(seq![self.executable.sv(), self.salt.sv()]) }
    open spec fn unsv(v: SV) -> Self { match v { SV::Vec(s) => CreateContractHostFnContext { executable: <ContractExecutable as ToSV>::unsv(s[0]), salt: <BytesN<32> as ToSV>::unsv(s[1]) }, _ => arbitrary() } }
    proof fn lemma_rt(&self) { self.executable.lemma_rt(); self.salt.lemma_rt(); }
}
impl ToSV for CreateContractWithConstructorHostFnContext {
    open spec fn sv(&self) -> SV { SV::Vec(seq![self.executable.sv(), self.salt.sv(), self.constructor_args.sv()]) }
    open spec fn unsv(v: SV) -> Self { match v { SV::Vec(s) => CreateContractWithConstructorHostFnContext { executable: <ContractExecutable as ToSV>::unsv(s[0]), salt: <BytesN<32> as ToSV>::unsv(s[1]), constructor_args: <Vec<Val> as ToSV>::unsv(s[2]) }, _ => arbitrary() } }
    proof fn lemma_rt(&self) { self.executable.lemma_rt(); self.salt.lemma_rt(); self.constructor_args.lemma_rt(); }
}
impl ToSV for Context {
    open spec fn sv(&self) -> SV {
        match self {
            Context::Contract(x0) => SV::Vec(seq![SV::Sym(4859223969370301300int), x0.sv()]),
            Context::CreateContractHostFn(x0) => SV::Vec(seq![SV::Sym(385053498100814675521413845871019272297577203310int), x0.sv()]),
            Context::CreateContractWithCtorHostFn(x0) => SV::Vec(seq![SV::Sym(7102983334152335203969945029834095424427732063185616298851897198190int), x0.sv()]),
        }
    }
    open spec fn unsv(v: SV) -> Self {
        match v {
            SV::Vec(s) =>
                if s[0] == SV::Sym(4859223969370301300int) { Context::Contract(<ContractContext as ToSV>::unsv(s[1])) }
                else if s[0] == SV::Sym(385053498100814675521413845871019272297577203310int) { Context::CreateContractHostFn(<CreateContractHostFnContext as ToSV>::unsv(s[1])) }
                else { Context::CreateContractWithCtorHostFn(<CreateContractWithConstructorHostFnContext as ToSV>::unsv(s[1])) },
            _ => arbitrary(),
        }
    }
    proof fn lemma_rt(&self) {
        match self {
            Context::Contract(x0) => { x0.lemma_rt(); }
            Context::CreateContractHostFn(x0) => { x0.lemma_rt(); }
            Context::CreateContractWithCtorHostFn(x0) => { x0.lemma_rt(); }
        }
    }
}
impl Clone for ContractContext {
    #[verifier::external_body]
    fn clone(&self) -> (r: Self) ensures r == *self { unimplemented!() }
}
impl Clone for Context {
    #[verifier::external_body]
    fn clone(&self) -> (r: Self) ensures r == *self { unimplemented!() }
}
