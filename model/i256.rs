// ---- model fragment: soroban_sdk::I256 (M10, TRUSTED) ----
// A host object holding a 256-bit two's-complement integer. The model is an opaque struct whose view is a
// mathematical `int` in [-2^255, 2^255). Read off soroban-sdk-25.0.2/src/num.rs and
// soroban-env-host-25.0.1/src/host.rs (`impl_bignum_host_fns!(i256_mul, checked_mul, ..)` etc.): every arithmetic
// host function is the `checked_*` operation of a 256-bit integer and TRAPS (= the call does not return) when
// that yields None. This fragment holds the type, comparisons and conversions; the arithmetic comes from ONE of
// `i256_ops` (partial correctness: a call returns only when the mathematical result fits) or `i256_ops_strict`
// (the trap conditions are preconditions that Verus must discharge at every call site).
pub open spec fn i256_hi() -> int {
    0x8000_0000_0000_0000_0000_0000_0000_0000int * 0x1_0000_0000_0000_0000_0000_0000_0000_0000int   // 2^127 * 2^128 = 2^255
}
pub open spec fn i256_fits(v: int) -> bool { -i256_hi() <= v < i256_hi() }

#[verifier::external_body]
#[verifier::accept_recursive_types]
pub struct I256 { _handle: u64 }

impl View for I256 {
    type V = int;
    uninterp spec fn view(&self) -> int;
}

/// every I256 host object holds a value of the type's range
#[verifier::external_body]
pub proof fn axiom_i256_range(x: &I256)
    ensures i256_fits(x@),
{ }

impl PartialEqSpecImpl for I256 {
    open spec fn obeys_eq_spec() -> bool { true }
    open spec fn eq_spec(&self, o: &I256) -> bool { self@ == o@ }
}
impl PartialEq for I256 {
    #[verifier::external_body]
    fn eq(&self, o: &I256) -> (r: bool) { unimplemented!() }
}
impl Eq for I256 {}
impl vstd::std_specs::cmp::PartialOrdSpecImpl for I256 {
    open spec fn obeys_partial_cmp_spec() -> bool { true }
    open spec fn partial_cmp_spec(&self, o: &I256) -> Option<core::cmp::Ordering> {
        if self@ < o@ { Some(core::cmp::Ordering::Less) } else if self@ == o@ { Some(core::cmp::Ordering::Equal) } else { Some(core::cmp::Ordering::Greater) }
    }
}
impl PartialOrd for I256 {
    #[verifier::external_body]
    fn partial_cmp(&self, o: &I256) -> (r: Option<core::cmp::Ordering>) { unimplemented!() }
}
impl Clone for I256 {
    #[verifier::external_body]
    fn clone(&self) -> (r: Self) ensures r@ == self@ { unimplemented!() }
}

impl I256 {
    #[verifier::external_body]
    pub fn from_i32(e: &Env, i: i32) -> (r: I256)
        ensures r@ == i as int,
    { unimplemented!() }

    #[verifier::external_body]
    pub fn from_i128(e: &Env, i: i128) -> (r: I256)
        ensures r@ == i as int,
    { unimplemented!() }

    /// `Some` iff the value fits in i128
    #[verifier::external_body]
    pub fn to_i128(&self) -> (r: Option<i128>)
        ensures
            r.is_some() <==> (i128::MIN as int <= self@ <= i128::MAX as int),
            r.is_some() ==> r.unwrap() as int == self@,
    { unimplemented!() }
}

impl Env {
    /// `Env::default()`: a fresh environment about which nothing is known (used by the I256 helpers only to
    /// create constants)
    #[verifier::external_body]
    pub fn default() -> (r: Env)
    { unimplemented!() }
}
