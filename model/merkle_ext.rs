// ---- model fragment: SDK items used by the merkle unit that the other fragments lack (M9, TRUSTED).
//      Needs fragments core + bytes + vec. ----
use vstd::std_specs::cmp::PartialOrdSpecImpl;

/// a handle to the same host environment sees the same world
impl Clone for Env {
    #[verifier::external_body]
    fn clone(&self) -> (r: Self) ensures r@ == self@ { unimplemented!() }
}

impl From<u32> for Val {
    #[verifier::external_body]
    fn from(x: u32) -> (r: Val) ensures r.sv() == SV::U32(x) { unimplemented!() }
}

/// soroban_sdk::xdr::ToXdr: an uninterpreted (per type) serialization
pub trait ToXdr: Sized {
    spec fn xdr(&self) -> Seq<u8>;
    fn to_xdr(self, e: &Env) -> (r: Bytes) ensures r@ == self.xdr();
}

impl<const N: usize> From<&BytesN<N>> for Bytes {
    #[verifier::external_body]
    fn from(x: &BytesN<N>) -> (r: Bytes) ensures r@ == x@ { unimplemented!() }
}


/// the host compares byte strings lexicographically (a proper prefix is smaller)
pub open spec fn lex_gt(a: Seq<u8>, b: Seq<u8>) -> bool
    decreases a.len()
{
    if a.len() == 0 { false } else if b.len() == 0 { true } else if a[0] != b[0] { a[0] > b[0] } else { lex_gt(a.drop_first(), b.drop_first()) }
}
impl<const N: usize> PartialOrdSpecImpl for BytesN<N> {
    open spec fn obeys_partial_cmp_spec() -> bool { true }
    open spec fn partial_cmp_spec(&self, other: &BytesN<N>) -> Option<core::cmp::Ordering> {
        if self@ == other@ { Some(core::cmp::Ordering::Equal) } else if lex_gt(self@, other@) { Some(core::cmp::Ordering::Greater) } else { Some(core::cmp::Ordering::Less) }
    }
}
impl<const N: usize> PartialOrd for BytesN<N> {
    #[verifier::external_body]
    fn partial_cmp(&self, other: &BytesN<N>) -> (r: Option<core::cmp::Ordering>) { unimplemented!() }
}

/// `for x in v` on a host vector
impl<T> IntoIterator for Vec<T> {
    type Item = T;
    type IntoIter = VecIter<T>;
    #[verifier::external_body]
    fn into_iter(self) -> (r: VecIter<T>) ensures r.items@ == self@, r.pos@ == 0, r.rem() == self@, self@.len() <= u32::MAX { unimplemented!() }
}

/// T6: `a << b` on u32 with overflow checks on: panics when b >= 32, otherwise the bits shifted out are dropped
#[verifier::external_body]
pub fn ck_shl(a: u32, b: u32) -> (r: u32) ensures b < 32, r == a << b { a << b }
