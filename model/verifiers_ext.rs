// ---- model fragment: SDK / std / serde_json_core items used by the signature verifiers (packages/accounts/src/verifiers)
//      that the other fragments lack (M9, TRUSTED).  Needs fragments core + string + bytes + crypto. ----
use core::ops::{Bound, Range};
use vstd::string::StringSliceAdditionalSpecFns;

// -- soroban_sdk::String: construction from a Rust str (the UTF-8 bytes are copied to the host) and equality
//    (host object comparison = byte-wise equality of the contents)
impl String {
    #[verifier::external_body]
    pub fn from_str(e: &Env, s: &str) -> (r: String) ensures r.s@ == s.spec_bytes() { unimplemented!() }
}
impl PartialEqSpecImpl for String {
    open spec fn obeys_eq_spec() -> bool { true }
    open spec fn eq_spec(&self, other: &String) -> bool { self.s@ == other.s@ }
}
impl PartialEq for String {
    #[verifier::external_body]
    fn eq(&self, other: &String) -> (r: bool) { unimplemented!() }
}
impl Eq for String {}

// -- core::ops::RangeBounds.  vstd specifies `start_bound`/`end_bound` per implementing type only; a call through a
//    generic `impl RangeBounds<u32>` carries no contract.  The unit therefore renames the bound `RangeBounds` to this
//    model trait ("rename_types"), which is `core::ops::RangeBounds` with the two methods specified, implemented (and
//    VERIFIED, the bodies are those of core) for `Range<u32>`, the only range type the verifiers pass.
pub open spec fn bound_val<T>(b: Bound<&T>) -> Bound<T> {
    match b { Bound::Unbounded => Bound::Unbounded, Bound::Included(x) => Bound::Included(*x), Bound::Excluded(x) => Bound::Excluded(*x) }
}
pub trait VxRangeBounds<T>: Sized {
    spec fn vx_start(&self) -> Bound<T>;
    spec fn vx_end(&self) -> Bound<T>;
    fn start_bound(&self) -> (r: Bound<&T>) ensures bound_val(r) == self.vx_start();
    fn end_bound(&self) -> (r: Bound<&T>) ensures bound_val(r) == self.vx_end();
}
impl VxRangeBounds<u32> for Range<u32> {
    open spec fn vx_start(&self) -> Bound<u32> { Bound::Included(self.start) }
    open spec fn vx_end(&self) -> Bound<u32> { Bound::Excluded(self.end) }
    fn start_bound(&self) -> (r: Bound<&u32>) { Bound::Included(&self.start) }
    fn end_bound(&self) -> (r: Bound<&u32>) { Bound::Excluded(&self.end) }
}
impl VxRangeBounds<u32> for core::ops::RangeFull {
    open spec fn vx_start(&self) -> Bound<u32> { Bound::Unbounded }
    open spec fn vx_end(&self) -> Bound<u32> { Bound::Unbounded }
    fn start_bound(&self) -> (r: Bound<&u32>) { Bound::Unbounded }
    fn end_bound(&self) -> (r: Bound<&u32>) { Bound::Unbounded }
}
impl VxRangeBounds<u32> for core::ops::RangeFrom<u32> {
    open spec fn vx_start(&self) -> Bound<u32> { Bound::Included(self.start) }
    open spec fn vx_end(&self) -> Bound<u32> { Bound::Unbounded }
    fn start_bound(&self) -> (r: Bound<&u32>) { Bound::Included(&self.start) }
    fn end_bound(&self) -> (r: Bound<&u32>) { Bound::Unbounded }
}
impl VxRangeBounds<u32> for core::ops::RangeTo<u32> {
    open spec fn vx_start(&self) -> Bound<u32> { Bound::Unbounded }
    open spec fn vx_end(&self) -> Bound<u32> { Bound::Excluded(self.end) }
    fn start_bound(&self) -> (r: Bound<&u32>) { Bound::Unbounded }
    fn end_bound(&self) -> (r: Bound<&u32>) { Bound::Excluded(&self.end) }
}
pub assume_specification<'a, T: Clone>[ Bound::<&'a T>::cloned ](b: Bound<&'a T>) -> (r: Bound<T>) where T: Clone
    ensures r == bound_val(b);

// -- soroban_sdk::Bytes::slice / to_buffer, BytesBuffer::as_slice (read off soroban-sdk-25.0.2/src/bytes.rs); the two
//    Bytes methods themselves are in the fragments verifiers_ops (partial correctness) / verifiers_ops_strict (no trap)
/// first index of `Bytes::slice(r)`: `Excluded(s)` means `s + 1` (checked, traps on overflow)
pub open spec fn slice_lo(b: Bound<u32>) -> int {
    match b { Bound::Included(s) => s as int, Bound::Excluded(s) => s + 1, Bound::Unbounded => 0 }
}
/// end index (exclusive) of `Bytes::slice(r)` on a byte string of length `len`
pub open spec fn slice_hi(b: Bound<u32>, len: int) -> int {
    match b { Bound::Included(s) => s + 1, Bound::Excluded(s) => s as int, Bound::Unbounded => len }
}
pub struct BytesBuffer<const B: usize> { pub s: Ghost<Seq<u8>> }
impl<const B: usize> BytesBuffer<B> {
    /// `&self.buffer[..self.len]`
    #[verifier::external_body]
    pub fn as_slice(&self) -> (r: &[u8]) ensures r@ == self.s@ { unimplemented!() }
}
// -- core: `&[T] != [U; N]` (impl PartialEq<[U; N]> for &[T]).  vstd has no spec for this impl; the generic result
//    is left uninterpreted and fixed for `u8` (element-wise equality of bytes = equality of the sequences).
pub uninterp spec fn slice_arr_ne<T, U, const N: usize>(a: &[T], b: &[U; N]) -> bool;
pub assume_specification<'a, T, U, const N: usize>[ <&'a [T] as PartialEq<[U; N]>>::ne ](a: &&'a [T], b: &[U; N]) -> (r: bool)
    where T: PartialEq<U>
    ensures r == slice_arr_ne(*a, b);
#[verifier::external_body]
pub proof fn axiom_slice_arr_ne_u8<const N: usize>()
    ensures forall|a: &[u8], b: &[u8; N]| #[trigger] slice_arr_ne(a, b) == (a@ != b@)
{}

// -- serde_json_core::de::from_slice::<ClientDataJson> (external crate + `#[derive(serde::Deserialize)]`, ASSUMED);
//    the function itself is in the fragments verifiers_ops / verifiers_ops_strict.
/// the raw bytes (as they stand in the document, escape sequences NOT decoded — serde_json_core hands out a borrowed
/// sub-slice) of the string value of the top-level member `name` of the JSON object at the start of `doc`;
/// `None` if `doc` does not start with a JSON object having exactly one such string member.
pub uninterp spec fn json_str_field(doc: Seq<u8>, name: Seq<char>) -> Option<Seq<u8>>;
pub struct JsonDeError;
// (`Result::unwrap_or_else` is specified in model/stdauto.rs)
