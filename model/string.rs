// ---- model fragment: soroban_sdk::String / Symbol / Bytes as ghost sequences (M9, TRUSTED) ----
pub struct String { pub s: Ghost<Seq<u8>> }
impl ToSV for String {
    open spec fn sv(&self) -> SV { SV::Str(self.s@) }
    open spec fn unsv(v: SV) -> Self { match v { SV::Str(x) => String { s: Ghost(x) }, _ => arbitrary() } }
    proof fn lemma_rt(&self) {}
}
impl Clone for String {
    #[verifier::external_body]
    fn clone(&self) -> (r: Self) ensures r == *self { unimplemented!() }
}
