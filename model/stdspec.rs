// ---- model fragment: std items without a vstd specification (TRUSTED; cross-checked by Kani in the thorough tier where listed) ----
/// T4: `.unwrap()` / `.expect(..)` under partial correctness — returns only on Some / Ok
pub trait VxUnwrap<T>: Sized {
    spec fn vx_some(&self) -> bool;
    spec fn vx_val(&self) -> T;
    fn vx_unwrap(self) -> (r: T) ensures self.vx_some(), r == self.vx_val();
}
impl<T> VxUnwrap<T> for Option<T> {
    open spec fn vx_some(&self) -> bool { self.is_some() }
    open spec fn vx_val(&self) -> T { self->Some_0 }
    #[verifier::external_body]
    fn vx_unwrap(self) -> (r: T) { self.unwrap() }
}
impl<T, E> VxUnwrap<T> for Result<T, E> {
    open spec fn vx_some(&self) -> bool { self.is_ok() }
    open spec fn vx_val(&self) -> T { self->Ok_0 }
    #[verifier::external_body]
    fn vx_unwrap(self) -> (r: T) { unimplemented!() }
}
pub assume_specification<T, F: FnOnce(&T) -> ()> [Option::<T>::inspect] (o: Option<T>, f: F) -> (r: Option<T>)
    requires o.is_some() ==> f.requires((&o.unwrap(),)),
    ensures r == o;
