// ================================================================================================
// SDK model, core fragment (TRUSTED — DESIGN.md §2.2, items M1–M6).  Hand-written Verus; every
// `external_body` below is an assumption about soroban-sdk / soroban-env-host and is listed in
// the evidence of every check that includes this fragment.
// ================================================================================================

// ---- value universe (what the host stores) ----
pub enum SV {
    Void,
    Bool(bool),
    U32(u32),
    I32(i32),
    U64(u64),
    I64(i64),
    U128(u128),
    I128(i128),
    Big(int),            // U256 / I256
    Addr(Address),
    Sym(int),            // symbol / variant name, as its base-256 integer (injective)
    Str(Seq<u8>),
    Bytes(Seq<u8>),
    Vec(Seq<SV>),
    Map(Seq<(SV, SV)>),
    Opaque(int),
}

pub struct Address { pub id: u64 }

impl Clone for Address {
    fn clone(&self) -> (r: Self) ensures r == *self { Address { id: self.id } }
}
impl PartialEqSpecImpl for Address {
    open spec fn obeys_eq_spec() -> bool { true }
    open spec fn eq_spec(&self, other: &Address) -> bool { self.id == other.id }
}
impl PartialEq for Address {
    fn eq(&self, other: &Address) -> (r: bool) { self.id == other.id }
}
impl Eq for Address {}

pub struct MuxedAddress { pub addr: Address, pub mux: Option<u64> }
impl MuxedAddress {
    pub fn address(&self) -> (r: Address) ensures r == self.addr { self.addr.clone() }
    pub fn id(&self) -> (r: Option<u64>) ensures r == self.mux { self.mux }
}
impl Clone for MuxedAddress {
    fn clone(&self) -> (r: Self) ensures r == *self { MuxedAddress { addr: self.addr.clone(), mux: self.mux } }
}

/// spec encoding of a Rust value into the host value universe; `unsv` is its left inverse
pub trait ToSV: Sized {
    spec fn sv(&self) -> SV;
    spec fn unsv(v: SV) -> Self;
    proof fn lemma_rt(&self) ensures Self::unsv(self.sv()) == *self;
}

impl ToSV for () {
    open spec fn sv(&self) -> SV { SV::Void }
    open spec fn unsv(v: SV) -> Self { () }
    proof fn lemma_rt(&self) {}
}
impl ToSV for bool {
    open spec fn sv(&self) -> SV { SV::Bool(*self) }
    open spec fn unsv(v: SV) -> Self { match v { SV::Bool(x) => x, _ => arbitrary() } }
    proof fn lemma_rt(&self) {}
}
impl ToSV for u32 {
    open spec fn sv(&self) -> SV { SV::U32(*self) }
    open spec fn unsv(v: SV) -> Self { match v { SV::U32(x) => x, _ => arbitrary() } }
    proof fn lemma_rt(&self) {}
}
impl ToSV for i32 {
    open spec fn sv(&self) -> SV { SV::I32(*self) }
    open spec fn unsv(v: SV) -> Self { match v { SV::I32(x) => x, _ => arbitrary() } }
    proof fn lemma_rt(&self) {}
}
impl ToSV for u64 {
    open spec fn sv(&self) -> SV { SV::U64(*self) }
    open spec fn unsv(v: SV) -> Self { match v { SV::U64(x) => x, _ => arbitrary() } }
    proof fn lemma_rt(&self) {}
}
impl ToSV for i64 {
    open spec fn sv(&self) -> SV { SV::I64(*self) }
    open spec fn unsv(v: SV) -> Self { match v { SV::I64(x) => x, _ => arbitrary() } }
    proof fn lemma_rt(&self) {}
}
impl ToSV for u128 {
    open spec fn sv(&self) -> SV { SV::U128(*self) }
    open spec fn unsv(v: SV) -> Self { match v { SV::U128(x) => x, _ => arbitrary() } }
    proof fn lemma_rt(&self) {}
}
impl ToSV for i128 {
    open spec fn sv(&self) -> SV { SV::I128(*self) }
    open spec fn unsv(v: SV) -> Self { match v { SV::I128(x) => x, _ => arbitrary() } }
    proof fn lemma_rt(&self) {}
}
impl ToSV for Address {
    open spec fn sv(&self) -> SV { SV::Addr(*self) }
    open spec fn unsv(v: SV) -> Self { match v { SV::Addr(x) => x, _ => arbitrary() } }
    proof fn lemma_rt(&self) {}
}
/// NOTE (kani/sdkmodel, KNOWN_MISMATCH `option_encoding…`): the SDK encodes `Some(x)` as the value of `x` itself and `None` as Void;
/// this model wraps `Some(x)` as `[x]`. Both encodings are injective and round-trip on every `Option<T>` whose `T` never encodes
/// to Void and is not itself an `Option` - which holds for every Option-typed field, value and event member in /repo (no
/// `Option<Option<_>>`, no `Option<()>`; no storage KEY is Option-typed, so the `Some(k)` / `k` key collision cannot arise). The
/// proofs use only injectivity and the round trip, never the concrete shape.
impl<T: ToSV> ToSV for Option<T> {
    open spec fn sv(&self) -> SV { match self { None => SV::Void, Some(x) => SV::Vec(seq![x.sv()]) } }
    open spec fn unsv(v: SV) -> Self { match v { SV::Vec(s) => Some(T::unsv(s[0])), _ => None } }
    proof fn lemma_rt(&self) { match self { Some(x) => { x.lemma_rt(); } None => {} } }
}
impl<A: ToSV, B: ToSV> ToSV for (A, B) {
    open spec fn sv(&self) -> SV { SV::Vec(seq![self.0.sv(), self.1.sv()]) }
    open spec fn unsv(v: SV) -> Self { match v { SV::Vec(s) => (A::unsv(s[0]), B::unsv(s[1])), _ => arbitrary() } }
    proof fn lemma_rt(&self) { self.0.lemma_rt(); self.1.lemma_rt(); }
}
impl<A: ToSV, B: ToSV, C: ToSV> ToSV for (A, B, C) {
    open spec fn sv(&self) -> SV { SV::Vec(seq![self.0.sv(), self.1.sv(), self.2.sv()]) }
    open spec fn unsv(v: SV) -> Self { match v { SV::Vec(s) => (A::unsv(s[0]), B::unsv(s[1]), C::unsv(s[2])), _ => arbitrary() } }
    proof fn lemma_rt(&self) { self.0.lemma_rt(); self.1.lemma_rt(); self.2.lemma_rt(); }
}
impl<T: ToSV> ToSV for &T {
    open spec fn sv(&self) -> SV { (**self).sv() }
    uninterp spec fn unsv(v: SV) -> Self;
    #[verifier::external_body]
    proof fn lemma_rt(&self) {}
}

/// soroban_sdk::ConversionError (only its shape matters)
pub struct ConversionError;

// ---- ghost world ----
#[verifier::ext_equal]
pub struct Call {
    pub callee: Address,
    pub func: int,       // function name as its base-256 integer
    pub args: Seq<SV>,
    pub ret: SV,
    pub ok: bool,
}

/// ext_equal: `=~~=` on worlds compares the maps, sets and sequences extensionally, so an exact-successor-state
/// clause does not depend on the order in which independent entries were written
#[verifier::ext_equal]
pub struct World {
    pub instance: Map<SV, SV>,
    pub persistent: Map<SV, SV>,
    /// temporary entries: value and live-until ledger; an entry whose live_until < ledger_seq is
    /// absent for every reader (M2)
    pub temporary: Map<SV, SV>,
    pub temp_live: Map<SV, int>,
    pub ledger_seq: u32,
    pub timestamp: u64,
    pub max_entry_ttl: u32,
    pub min_temp_ttl: u32,
    pub network_id: Seq<u8>,
    pub this: Address,
    /// addresses whose require_auth returned in this invocation (M4)
    pub auths: Set<Address>,
    pub auth_args: Set<(Address, Seq<SV>)>,
    /// authorizations this contract granted to deeper calls (authorize_as_current_contract)
    pub self_auths: Seq<SV>,
    pub events: Seq<SV>,
    pub calls: Seq<Call>,
    /// opaque state of every other contract; changes only through cross-contract calls (M8)
    pub ext: int,
}

impl World {
    pub open spec fn temp_has(self, k: SV) -> bool {
        self.temporary.contains_key(k) && self.temp_live.contains_key(k) && self.temp_live[k] >= self.ledger_seq
    }
    /// the host's `max_live_until_ledger`: `sequence_number.checked_add(max_entry_ttl.saturating_sub(1))` (soroban-env-host
    /// ledger_info.rs); may exceed u32::MAX as a number - the host function then traps (cross-checked: kani/sdkmodel)
    pub open spec fn max_live_until(self) -> int {
        self.ledger_seq as int + (if self.max_entry_ttl >= 1 { self.max_entry_ttl as int - 1 } else { 0 })
    }
    /// same contract state, different authorization/event/call logs
    pub open spec fn same_storage(self, o: World) -> bool {
        self.instance == o.instance && self.persistent == o.persistent && self.temporary == o.temporary
            && self.temp_live == o.temp_live
    }
    pub open spec fn same_ledger(self, o: World) -> bool {
        self.ledger_seq == o.ledger_seq && self.timestamp == o.timestamp && self.max_entry_ttl == o.max_entry_ttl
            && self.min_temp_ttl == o.min_temp_ttl && self.network_id == o.network_id && self.this == o.this
    }
    /// live-until of a freshly created temporary entry (the network minimum is at least one ledger)
    pub open spec fn min_live(self) -> int {
        self.ledger_seq as int + (if self.min_temp_ttl >= 1 { self.min_temp_ttl as int } else { 1 }) - 1
    }
    pub open spec fn ledger_ok(self) -> bool {
        self.min_temp_ttl >= 1 && self.max_entry_ttl >= self.min_temp_ttl
    }
}

pub struct Env { pub w: Ghost<World> }

impl View for Env {
    type V = World;
    open spec fn view(&self) -> World { self.w@ }
}

/// temporary-store write (M2): an existing live entry keeps its live_until, a new one gets the
/// network minimum
pub open spec fn temp_set(w: World, k: SV, v: SV) -> World {
    World {
        temporary: w.temporary.insert(k, v),
        temp_live: if w.temp_has(k) { w.temp_live } else { w.temp_live.insert(k, w.min_live()) },
        ..w
    }
}
pub open spec fn temp_remove(w: World, k: SV) -> World {
    World { temporary: w.temporary.remove(k), temp_live: w.temp_live.remove(k), ..w }
}
/// extend_ttl (M2) — only called on a live entry (traps otherwise)
pub open spec fn temp_extend(w: World, k: SV, threshold: u32, extend_to: u32) -> World {
    let cur = w.temp_live[k];
    let new_live = w.ledger_seq as int + extend_to as int;
    if cur - w.ledger_seq as int <= threshold as int && new_live > cur {
        World { temp_live: w.temp_live.insert(k, new_live), ..w }
    } else { w }
}


// ---- soroban_sdk::Val: an opaque host value ----
pub struct Val { pub v: Ghost<SV> }
impl View for Val {
    type V = SV;
    open spec fn view(&self) -> SV { self.v@ }
}
impl ToSV for Val {
    open spec fn sv(&self) -> SV { self.v@ }
    open spec fn unsv(v: SV) -> Self { Val { v: Ghost(v) } }
    proof fn lemma_rt(&self) {}
}
impl Clone for Val {
    #[verifier::external_body]
    fn clone(&self) -> (r: Self) ensures r == *self { unimplemented!() }
}

// ---- shared world transformers (ghost) ----
pub open spec fn w_auth(w: World, a: Address) -> World { World { auths: w.auths.insert(a), ..w } }
pub open spec fn w_event(w: World, ev: SV) -> World { World { events: w.events.push(ev), ..w } }
pub open spec fn w_auth_args(w: World, a: Address, args: Seq<SV>) -> World { World { auth_args: w.auth_args.insert((a, args)), ..w } }

// ---- typed-key layer over the three stores: reads and writes by a key of an encodable type ----
pub open spec fn iget<K: ToSV>(w: World, k: K) -> Option<SV> { if w.instance.contains_key(k.sv()) { Some(w.instance[k.sv()]) } else { None } }
pub open spec fn iset<K: ToSV>(w: World, k: K, v: SV) -> World { World { instance: w.instance.insert(k.sv(), v), ..w } }
pub open spec fn idel<K: ToSV>(w: World, k: K) -> World { World { instance: w.instance.remove(k.sv()), ..w } }
pub open spec fn pget<K: ToSV>(w: World, k: K) -> Option<SV> { if w.persistent.contains_key(k.sv()) { Some(w.persistent[k.sv()]) } else { None } }
pub open spec fn pset<K: ToSV>(w: World, k: K, v: SV) -> World { World { persistent: w.persistent.insert(k.sv(), v), ..w } }
pub open spec fn pdel<K: ToSV>(w: World, k: K) -> World { World { persistent: w.persistent.remove(k.sv()), ..w } }
pub open spec fn tget<K: ToSV>(w: World, k: K) -> Option<SV> { if w.temp_has(k.sv()) { Some(w.temporary[k.sv()]) } else { None } }
pub open spec fn tset<K: ToSV>(w: World, k: K, v: SV) -> World { temp_set(w, k.sv(), v) }
pub open spec fn tdel<K: ToSV>(w: World, k: K) -> World { temp_remove(w, k.sv()) }
pub open spec fn text<K: ToSV>(w: World, k: K, threshold: u32, extend_to: u32) -> World { temp_extend(w, k.sv(), threshold, extend_to) }
/// live-until ledger of a temporary entry
pub open spec fn tlive<K: ToSV>(w: World, k: K) -> int { w.temp_live[k.sv()] }
/// typed read
pub open spec fn dec<V: ToSV>(o: Option<SV>) -> Option<V> { match o { Some(v) => Some(V::unsv(v)), None => None } }

pub proof fn lemma_sv_inj<T: ToSV>(a: T, b: T)
    ensures a.sv() == b.sv() ==> a == b,
{ a.lemma_rt(); b.lemma_rt(); }

pub broadcast proof fn lemma_unsv_sv<V: ToSV>(x: V)
    ensures #[trigger] V::unsv(x.sv()) == x,
{ x.lemma_rt(); }

pub broadcast proof fn lemma_iget_iset<K: ToSV>(w: World, k: K, v: SV, k2: K)
    ensures #[trigger] iget(iset(w, k, v), k2) == (if k2 == k { Some(v) } else { iget(w, k2) }),
{ k.lemma_rt(); k2.lemma_rt(); }
pub broadcast proof fn lemma_iget_idel<K: ToSV>(w: World, k: K, k2: K)
    ensures #[trigger] iget(idel(w, k), k2) == (if k2 == k { None } else { iget(w, k2) }),
{ k.lemma_rt(); k2.lemma_rt(); }
pub broadcast proof fn lemma_pget_pset<K: ToSV>(w: World, k: K, v: SV, k2: K)
    ensures #[trigger] pget(pset(w, k, v), k2) == (if k2 == k { Some(v) } else { pget(w, k2) }),
{ k.lemma_rt(); k2.lemma_rt(); }
pub broadcast proof fn lemma_pget_pdel<K: ToSV>(w: World, k: K, k2: K)
    ensures #[trigger] pget(pdel(w, k), k2) == (if k2 == k { None } else { pget(w, k2) }),
{ k.lemma_rt(); k2.lemma_rt(); }
pub broadcast proof fn lemma_tget_tset<K: ToSV>(w: World, k: K, v: SV, k2: K)
    ensures #[trigger] tget(tset(w, k, v), k2) == (if k2 == k { Some(v) } else { tget(w, k2) }),
        k2 != k ==> tlive(tset(w, k, v), k2) == tlive(w, k2),
{ k.lemma_rt(); k2.lemma_rt(); }
pub broadcast proof fn lemma_tget_tdel<K: ToSV>(w: World, k: K, k2: K)
    ensures #[trigger] tget(tdel(w, k), k2) == (if k2 == k { None } else { tget(w, k2) }),
{ k.lemma_rt(); k2.lemma_rt(); }
pub broadcast proof fn lemma_tget_text<K: ToSV>(w: World, k: K, th: u32, to: u32, k2: K)
    requires tget(w, k).is_some(),
    ensures #[trigger] tget(text(w, k, th, to), k2) == tget(w, k2),
        k2 != k ==> tlive(text(w, k, th, to), k2) == tlive(w, k2),
{ k.lemma_rt(); k2.lemma_rt(); }
pub broadcast group sdk_store {
    lemma_unsv_sv, lemma_iget_iset, lemma_iget_idel, lemma_pget_pset, lemma_pget_pdel, lemma_tget_tset, lemma_tget_tdel, lemma_tget_text,
}
/// keys of different types: no interference when their encodings differ
pub proof fn lemma_pget_pset_other<K1: ToSV, K2: ToSV>(w: World, k: K1, v: SV, k2: K2)
    requires k.sv() != k2.sv()
    ensures pget(pset(w, k, v), k2) == pget(w, k2), pget(pdel(w, k), k2) == pget(w, k2),
{}
pub proof fn lemma_iget_iset_other<K1: ToSV, K2: ToSV>(w: World, k: K1, v: SV, k2: K2)
    requires k.sv() != k2.sv()
    ensures iget(iset(w, k, v), k2) == iget(w, k2), iget(idel(w, k), k2) == iget(w, k2),
{}
/// tag of an encoded enum key (its variant name)
pub open spec fn sv_tag(v: SV) -> int {
    match v { SV::Vec(s) => if s.len() > 0 { match s[0] { SV::Sym(c) => c, _ => -1 } } else { -1 }, _ => -2 }
}

impl Env {
    // ---------------- instance ----------------
    #[verifier::external_body]
    pub fn storage_instance_get<K: ToSV, V: ToSV>(&self, key: &K) -> (r: Option<V>)
        ensures
            r.is_some() <==> self@.instance.contains_key(key.sv()),
            r.is_some() ==> r.unwrap().sv() == self@.instance[key.sv()],
            r.is_some() ==> r.unwrap() == V::unsv(self@.instance[key.sv()]),
            r == dec::<V>(iget(self@, *key)),
    { unimplemented!() }
    #[verifier::external_body]
    pub fn storage_instance_has<K: ToSV>(&self, key: &K) -> (r: bool)
        ensures r == self@.instance.contains_key(key.sv()), r == iget(self@, *key).is_some(),
    { unimplemented!() }
    #[verifier::external_body]
    pub fn storage_instance_set<K: ToSV, V: ToSV>(&mut self, key: &K, val: &V)
        ensures final(self)@ == (World { instance: old(self)@.instance.insert(key.sv(), val.sv()), ..old(self)@ }),
            final(self)@ == iset(old(self)@, *key, val.sv()),
    { unimplemented!() }
    #[verifier::external_body]
    pub fn storage_instance_remove<K: ToSV>(&mut self, key: &K)
        ensures final(self)@ == (World { instance: old(self)@.instance.remove(key.sv()), ..old(self)@ }),
            final(self)@ == idel(old(self)@, *key),
    { unimplemented!() }
    /// instance / persistent TTL extension never changes values (archival only makes calls fail)
    #[verifier::external_body]
    pub fn storage_instance_extend_ttl(&self, threshold: u32, extend_to: u32)
    { unimplemented!() }

    // ---------------- persistent ----------------
    #[verifier::external_body]
    pub fn storage_persistent_get<K: ToSV, V: ToSV>(&self, key: &K) -> (r: Option<V>)
        ensures
            r.is_some() <==> self@.persistent.contains_key(key.sv()),
            r.is_some() ==> r.unwrap().sv() == self@.persistent[key.sv()],
            r.is_some() ==> r.unwrap() == V::unsv(self@.persistent[key.sv()]),
            r == dec::<V>(pget(self@, *key)),
    { unimplemented!() }
    #[verifier::external_body]
    pub fn storage_persistent_has<K: ToSV>(&self, key: &K) -> (r: bool)
        ensures r == self@.persistent.contains_key(key.sv()), r == pget(self@, *key).is_some(),
    { unimplemented!() }
    #[verifier::external_body]
    pub fn storage_persistent_set<K: ToSV, V: ToSV>(&mut self, key: &K, val: &V)
        ensures final(self)@ == (World { persistent: old(self)@.persistent.insert(key.sv(), val.sv()), ..old(self)@ }),
            final(self)@ == pset(old(self)@, *key, val.sv()),
    { unimplemented!() }
    #[verifier::external_body]
    pub fn storage_persistent_remove<K: ToSV>(&mut self, key: &K)
        ensures final(self)@ == (World { persistent: old(self)@.persistent.remove(key.sv()), ..old(self)@ }),
            final(self)@ == pdel(old(self)@, *key),
    { unimplemented!() }
    /// returns only if the entry exists (the host traps on a missing entry)
    #[verifier::external_body]
    pub fn storage_persistent_extend_ttl<K: ToSV>(&self, key: &K, threshold: u32, extend_to: u32)
        ensures self@.persistent.contains_key(key.sv()), pget(self@, *key).is_some(),
    { unimplemented!() }

    // ---------------- temporary ----------------
    #[verifier::external_body]
    pub fn storage_temporary_get<K: ToSV, V: ToSV>(&self, key: &K) -> (r: Option<V>)
        ensures
            r.is_some() <==> self@.temp_has(key.sv()),
            r.is_some() ==> r.unwrap().sv() == self@.temporary[key.sv()],
            r.is_some() ==> r.unwrap() == V::unsv(self@.temporary[key.sv()]),
            r == dec::<V>(tget(self@, *key)),
    { unimplemented!() }
    #[verifier::external_body]
    pub fn storage_temporary_has<K: ToSV>(&self, key: &K) -> (r: bool)
        ensures r == self@.temp_has(key.sv()), r == tget(self@, *key).is_some(),
    { unimplemented!() }
    #[verifier::external_body]
    pub fn storage_temporary_set<K: ToSV, V: ToSV>(&mut self, key: &K, val: &V)
        ensures final(self)@ == temp_set(old(self)@, key.sv(), val.sv()), final(self)@ == tset(old(self)@, *key, val.sv()),
    { unimplemented!() }
    #[verifier::external_body]
    pub fn storage_temporary_remove<K: ToSV>(&mut self, key: &K)
        ensures final(self)@ == temp_remove(old(self)@, key.sv()), final(self)@ == tdel(old(self)@, *key),
    { unimplemented!() }
    /// M2: traps if the entry is absent, if threshold > extend_to, or if the new live-until would
    /// exceed the network maximum
    #[verifier::external_body]
    pub fn storage_temporary_extend_ttl<K: ToSV>(&mut self, key: &K, threshold: u32, extend_to: u32)
        ensures
            old(self)@.temp_has(key.sv()),
            threshold <= extend_to,
            old(self)@.ledger_seq as int + extend_to as int <= old(self)@.max_live_until(),
            final(self)@ == temp_extend(old(self)@, key.sv(), threshold, extend_to),
            final(self)@ == text(old(self)@, *key, threshold, extend_to),
    { unimplemented!() }

    // ---------------- ledger ----------------
    #[verifier::external_body]
    pub fn ledger_sequence(&self) -> (r: u32) ensures r == self@.ledger_seq { unimplemented!() }
    #[verifier::external_body]
    pub fn ledger_timestamp(&self) -> (r: u64) ensures r == self@.timestamp { unimplemented!() }
    #[verifier::external_body]
    pub fn ledger_max_live_until_ledger(&self) -> (r: u32) ensures self@.max_live_until() <= u32::MAX, r as int == self@.max_live_until() { unimplemented!() }
    #[verifier::external_body]
    pub fn current_contract_address(&self) -> (r: Address) ensures r == self@.this { unimplemented!() }

    // ---------------- authorization (M4) ----------------
    #[verifier::external_body]
    pub fn require_auth(&mut self, a: &Address)
        ensures final(self)@ == (World { auths: old(self)@.auths.insert(*a), ..old(self)@ }),
    { unimplemented!() }

    // ---------------- events (M5) ----------------
    #[verifier::external_body]
    pub fn publish_event(&mut self, ev: Ghost<SV>)
        ensures final(self)@ == (World { events: old(self)@.events.push(ev@), ..old(self)@ }),
    { unimplemented!() }
}

// ---- failure (M6 / T4): a revert has no successor state ----
#[verifier::external_body]
pub fn sdk_panic(code: u32) -> !
    ensures false
{ panic!() }

// ---- T6: arithmetic with overflow checks on (Cargo profile `overflow-checks = true`) ----
pub trait CkArith: Sized {
    spec fn ai(self) -> int;
    fn ck_add_(self, o: Self) -> (r: Self) ensures r.ai() == self.ai() + o.ai();
    fn ck_sub_(self, o: Self) -> (r: Self) ensures r.ai() == self.ai() - o.ai();
    fn ck_mul_(self, o: Self) -> (r: Self) ensures r.ai() == self.ai() * o.ai();
    /// Rust `/`: truncation toward zero; panics on division by zero / MIN / -1
    fn ck_div_(self, o: Self) -> (r: Self) ensures o.ai() != 0, r.ai() == rust_div(self.ai(), o.ai());
    fn ck_rem_(self, o: Self) -> (r: Self) ensures o.ai() != 0, r.ai() == rust_rem(self.ai(), o.ai());
}
pub open spec fn rust_div(a: int, b: int) -> int {
    if b == 0 { 0 } else if a >= 0 && b > 0 { a / b } else if a < 0 && b > 0 { -((-a) / b) }
    else if a >= 0 && b < 0 { -(a / (-b)) } else { (-a) / (-b) }
}
pub open spec fn rust_rem(a: int, b: int) -> int { a - rust_div(a, b) * b }

macro_rules! impl_ck {
    ($($t:ty),*) => { verus! { $(
        impl CkArith for $t {
            open spec fn ai(self) -> int { self as int }
            #[verifier::external_body] fn ck_add_(self, o: Self) -> (r: Self) { self + o }
            #[verifier::external_body] fn ck_sub_(self, o: Self) -> (r: Self) { self - o }
            #[verifier::external_body] fn ck_mul_(self, o: Self) -> (r: Self) { self * o }
            #[verifier::external_body] fn ck_div_(self, o: Self) -> (r: Self) { self / o }
            #[verifier::external_body] fn ck_rem_(self, o: Self) -> (r: Self) { self % o }
        }
    )* } }
}
impl_ck!(u8, u32, u64, u128, i32, i64, i128, usize);

pub fn ck_add<T: CkArith>(a: T, b: T) -> (r: T) ensures r.ai() == a.ai() + b.ai() { a.ck_add_(b) }
pub fn ck_sub<T: CkArith>(a: T, b: T) -> (r: T) ensures r.ai() == a.ai() - b.ai() { a.ck_sub_(b) }
pub fn ck_mul<T: CkArith>(a: T, b: T) -> (r: T) ensures r.ai() == a.ai() * b.ai() { a.ck_mul_(b) }
pub fn ck_div<T: CkArith>(a: T, b: T) -> (r: T) ensures b.ai() != 0, r.ai() == rust_div(a.ai(), b.ai()) { a.ck_div_(b) }
pub fn ck_rem<T: CkArith>(a: T, b: T) -> (r: T) ensures b.ai() != 0, r.ai() == rust_rem(a.ai(), b.ai()) { a.ck_rem_(b) }

impl Env {
    /// `panic_with_error!` after macro expansion: `(&e).panic_with_error(err)`
    #[verifier::external_body]
    pub fn panic_with_error<E>(&self, err: E) -> !
        ensures false
    { panic!() }
}
