// ---- model fragment: soroban_sdk::Map<K, V> as a ghost association sequence (M9, TRUSTED) ----
// Named `SdkMap` because `Map` is vstd's ghost map in this file; units that use it set
// "rename_types": {"Map": "SdkMap"} so that the extracted text refers to this type.
// The view is the sequence of entries in the host's iteration order (= key order of the host, which
// the model leaves uninterpreted: `smap_pos` is the place the host's order gives a new key).
pub struct SdkMap<K, V> { pub s: Ghost<Seq<(K, V)>> }
impl<K, V> View for SdkMap<K, V> {
    type V = Seq<(K, V)>;
    open spec fn view(&self) -> Seq<(K, V)> { self.s@ }
}
/// index of the first entry with key `k`, or -1
pub open spec fn smap_idx<K, V>(s: Seq<(K, V)>, k: K) -> int
    decreases s.len()
{
    if s.len() == 0 { -1 } else if s[0].0 == k { 0 } else {
        let r = smap_idx(s.drop_first(), k);
        if r < 0 { -1 } else { r + 1 }
    }
}
pub open spec fn smap_get<K, V>(s: Seq<(K, V)>, k: K) -> Option<V> {
    let i = smap_idx(s, k);
    if i >= 0 { Some(s[i].1) } else { None }
}
/// keys are pairwise distinct (true of every host map; the model does not assume it — lemmas that need it
/// take it as a hypothesis and `smap_set` is proved to preserve it)
pub open spec fn smap_wf<K, V>(s: Seq<(K, V)>) -> bool {
    forall|i: int, j: int| 0 <= i < s.len() && 0 <= j < s.len() && i != j ==> (#[trigger] s[i]).0 != (#[trigger] s[j]).0
}
pub open spec fn smap_vals<K, V>(s: Seq<(K, V)>) -> Seq<V> { Seq::new(s.len(), |i: int| s[i].1) }
pub open spec fn smap_keys<K, V>(s: Seq<(K, V)>) -> Seq<K> { Seq::new(s.len(), |i: int| s[i].0) }
/// where the host's key order inserts a key that is not yet present (uninterpreted; only its range is assumed)
pub uninterp spec fn smap_pos<K, V>(s: Seq<(K, V)>, k: K) -> int;
#[verifier::external_body]
pub proof fn lemma_smap_pos<K, V>(s: Seq<(K, V)>, k: K) ensures 0 <= smap_pos(s, k) <= s.len() {}
pub open spec fn smap_set<K, V>(s: Seq<(K, V)>, k: K, v: V) -> Seq<(K, V)> {
    let i = smap_idx(s, k);
    if i >= 0 { s.update(i, (k, v)) } else { s.insert(smap_pos(s, k), (k, v)) }
}
impl<K: ToSV, V: ToSV> ToSV for SdkMap<K, V> {
    open spec fn sv(&self) -> SV { SV::Map(Seq::new(self@.len(), |i: int| (self@[i].0.sv(), self@[i].1.sv()))) }
    open spec fn unsv(v: SV) -> Self { match v { SV::Map(s) => SdkMap { s: Ghost(Seq::new(s.len(), |i: int| (K::unsv(s[i].0), V::unsv(s[i].1)))) }, _ => arbitrary() } }
    #[verifier::external_body]
    proof fn lemma_rt(&self) {}
}
impl<K, V> Clone for SdkMap<K, V> {
    #[verifier::external_body]
    fn clone(&self) -> (r: Self) ensures r == *self { unimplemented!() }
}
impl<K, V> SdkMap<K, V> {
    #[verifier::external_body]
    pub fn new(e: &Env) -> (r: Self) ensures r@ == Seq::<(K, V)>::empty() { unimplemented!() }
    #[verifier::external_body]
    pub fn len(&self) -> (r: u32) ensures r as int == self@.len() { unimplemented!() }
    #[verifier::external_body]
    pub fn is_empty(&self) -> (r: bool) ensures r == (self@.len() == 0) { unimplemented!() }
    /// host comparison of keys is structural
    #[verifier::external_body]
    pub fn get(&self, k: K) -> (r: Option<V>) ensures r == smap_get(self@, k) { unimplemented!() }
    #[verifier::external_body]
    pub fn contains_key(&self, k: K) -> (r: bool) ensures r == smap_get(self@, k).is_some() { unimplemented!() }
    #[verifier::external_body]
    pub fn set(&mut self, k: K, v: V) ensures final(self)@ == smap_set(old(self)@, k, v) { unimplemented!() }
    /// traps when the key is absent
    #[verifier::external_body]
    pub fn get_unchecked(&self, k: K) -> (r: V) ensures smap_get(self@, k) == Some(r) { unimplemented!() }
    #[verifier::external_body]
    pub fn remove(&mut self, k: K) -> (r: Option<()>)
        ensures r.is_some() == (smap_idx(old(self)@, k) >= 0),
            final(self)@ == (if smap_idx(old(self)@, k) >= 0 { old(self)@.remove(smap_idx(old(self)@, k)) } else { old(self)@ }),
    { unimplemented!() }
    /// traps when the key is absent
    #[verifier::external_body]
    pub fn remove_unchecked(&mut self, k: K)
        ensures smap_idx(old(self)@, k) >= 0, final(self)@ == old(self)@.remove(smap_idx(old(self)@, k)),
    { unimplemented!() }
    /// values / keys in iteration order
    #[verifier::external_body]
    pub fn values(&self) -> (r: Vec<V>) ensures r@ == smap_vals(self@) { unimplemented!() }
    #[verifier::external_body]
    pub fn keys(&self) -> (r: Vec<K>) ensures r@ == smap_keys(self@) { unimplemented!() }
}
