// ---- model fragment: soroban_sdk::Vec<T> as a ghost sequence (M9, TRUSTED) ----
pub struct Vec<T> { pub s: Ghost<Seq<T>> }
impl<T> View for Vec<T> {
    type V = Seq<T>;
    open spec fn view(&self) -> Seq<T> { self.s@ }
}
impl<T: ToSV> ToSV for Vec<T> {
    open spec fn sv(&self) -> SV { SV::Vec(Seq::new(self@.len(), |i: int| self@[i].sv())) }
    open spec fn unsv(v: SV) -> Self { match v { SV::Vec(s) => Vec { s: Ghost(Seq::new(s.len(), |i: int| T::unsv(s[i]))) }, _ => arbitrary() } }
    #[verifier::external_body]
    proof fn lemma_rt(&self) {}
}
impl<T> Clone for Vec<T> {
    #[verifier::external_body]
    fn clone(&self) -> (r: Self) ensures r == *self { unimplemented!() }
}
/// `impl RangeBounds<u32>` arguments of `Vec::slice`: the range literals `a..b`, `a..`, `..b`, `a..=b`
pub trait VecRange { spec fn vlo(&self) -> int; spec fn vhi(&self, len: int) -> int; }
impl VecRange for core::ops::Range<u32> {
    open spec fn vlo(&self) -> int { self.start as int }
    open spec fn vhi(&self, len: int) -> int { self.end as int }
}
impl VecRange for core::ops::RangeFrom<u32> {
    open spec fn vlo(&self) -> int { self.start as int }
    open spec fn vhi(&self, len: int) -> int { len }
}
impl VecRange for core::ops::RangeFull {
    open spec fn vlo(&self) -> int { 0 }
    open spec fn vhi(&self, len: int) -> int { len }
}
impl VecRange for core::ops::RangeTo<u32> {
    open spec fn vlo(&self) -> int { 0 }
    open spec fn vhi(&self, len: int) -> int { self.end as int }
}
/// the SDK takes `impl Borrow<T>` where it compares values: both `x` and `&x` are accepted
pub trait VxBorrow<T> { spec fn bv(&self) -> T; }
impl<T> VxBorrow<T> for T { open spec fn bv(&self) -> T { *self } }
impl<T> VxBorrow<T> for &T { open spec fn bv(&self) -> T { **self } }
pub open spec fn seq_index_of<T>(s: Seq<T>, x: T) -> int
    decreases s.len()
{
    if s.len() == 0 { -1 } else if s[0] == x { 0 } else {
        let r = seq_index_of(s.drop_first(), x);
        if r < 0 { -1 } else { r + 1 }
    }
}
impl<T> Vec<T> {
    /// host vectors are indexed by u32 (type invariant of the SDK, assumed)
    #[verifier::external_body]
    pub proof fn lemma_len_u32(&self) ensures self@.len() <= u32::MAX {}
    #[verifier::external_body]
    pub fn new(e: &Env) -> (r: Self) ensures r@ == Seq::<T>::empty() { unimplemented!() }
    #[verifier::external_body]
    pub fn from_array<const N: usize>(e: &Env, a: [T; N]) -> (r: Self) ensures r@ == a@ { unimplemented!() }
    #[verifier::external_body]
    pub fn len(&self) -> (r: u32) ensures r as int == self@.len() { unimplemented!() }
    #[verifier::external_body]
    pub fn is_empty(&self) -> (r: bool) ensures r == (self@.len() == 0) { unimplemented!() }
    #[verifier::external_body]
    pub fn get(&self, i: u32) -> (r: Option<T>)
        ensures r == (if (i as int) < self@.len() { Some(self@[i as int]) } else { None::<T> }),
    { unimplemented!() }
    /// traps when out of range
    #[verifier::external_body]
    pub fn get_unchecked(&self, i: u32) -> (r: T)
        ensures (i as int) < self@.len(), r == self@[i as int],
    { unimplemented!() }
    #[verifier::external_body]
    pub fn first(&self) -> (r: Option<T>)
        ensures r == (if self@.len() > 0 { Some(self@[0]) } else { None::<T> }),
    { unimplemented!() }
    #[verifier::external_body]
    pub fn last(&self) -> (r: Option<T>)
        ensures r == (if self@.len() > 0 { Some(self@[self@.len() - 1]) } else { None::<T> }),
    { unimplemented!() }
    #[verifier::external_body]
    pub fn push_back(&mut self, x: T) ensures final(self)@ == old(self)@.push(x) { unimplemented!() }
    #[verifier::external_body]
    pub fn push_front(&mut self, x: T) ensures final(self)@ == seq![x] + old(self)@ { unimplemented!() }
    #[verifier::external_body]
    pub fn pop_back(&mut self) -> (r: Option<T>)
        ensures old(self)@.len() == 0 ==> r.is_none() && final(self)@ == old(self)@,
            old(self)@.len() > 0 ==> r == Some(old(self)@.last()) && final(self)@ == old(self)@.drop_last(),
    { unimplemented!() }
    #[verifier::external_body]
    pub fn pop_front(&mut self) -> (r: Option<T>)
        ensures old(self)@.len() == 0 ==> r.is_none() && final(self)@ == old(self)@,
            old(self)@.len() > 0 ==> r == Some(old(self)@[0]) && final(self)@ == old(self)@.drop_first(),
    { unimplemented!() }
    /// traps when empty
    #[verifier::external_body]
    pub fn pop_back_unchecked(&mut self) -> (r: T)
        ensures old(self)@.len() > 0, r == old(self)@.last(), final(self)@ == old(self)@.drop_last(),
    { unimplemented!() }
    /// traps when empty
    #[verifier::external_body]
    pub fn pop_front_unchecked(&mut self) -> (r: T)
        ensures old(self)@.len() > 0, r == old(self)@[0], final(self)@ == old(self)@.drop_first(),
    { unimplemented!() }
    /// traps when empty
    #[verifier::external_body]
    pub fn first_unchecked(&self) -> (r: T)
        ensures self@.len() > 0, r == self@[0],
    { unimplemented!() }
    /// traps when empty
    #[verifier::external_body]
    pub fn last_unchecked(&self) -> (r: T)
        ensures self@.len() > 0, r == self@[self@.len() - 1],
    { unimplemented!() }
    /// traps when out of range
    #[verifier::external_body]
    pub fn set(&mut self, i: u32, x: T)
        ensures (i as int) < old(self)@.len(), final(self)@ == old(self)@.update(i as int, x),
    { unimplemented!() }
    #[verifier::external_body]
    pub fn remove(&mut self, i: u32) -> (r: Option<()>)
        ensures (i as int) < old(self)@.len() ==> r.is_some() && final(self)@ == old(self)@.remove(i as int),
            (i as int) >= old(self)@.len() ==> r.is_none() && final(self)@ == old(self)@,
    { unimplemented!() }
    #[verifier::external_body]
    pub fn remove_unchecked(&mut self, i: u32)
        ensures (i as int) < old(self)@.len(), final(self)@ == old(self)@.remove(i as int),
    { unimplemented!() }
    /// traps when i > len
    #[verifier::external_body]
    pub fn insert(&mut self, i: u32, x: T)
        ensures (i as int) <= old(self)@.len(), final(self)@ == old(self)@.insert(i as int, x),
    { unimplemented!() }
    #[verifier::external_body]
    pub fn extend_from_array<const N: usize>(&mut self, a: [T; N]) ensures final(self)@ == old(self)@ + a@ { unimplemented!() }
    /// `Vec::slice(range)`: the host traps unless start <= end <= len
    #[verifier::external_body]
    pub fn slice<R: VecRange>(&self, r: R) -> (res: Vec<T>)
        ensures 0 <= r.vlo() <= r.vhi(self@.len() as int) <= self@.len(),
            res@ == self@.subrange(r.vlo(), r.vhi(self@.len() as int)),
    { unimplemented!() }
    #[verifier::external_body]
    pub fn append(&mut self, other: &Vec<T>) ensures final(self)@ == old(self)@ + other@ { unimplemented!() }
    /// host comparison of values is structural
    #[verifier::external_body]
    pub fn contains<B: VxBorrow<T>>(&self, x: B) -> (r: bool) ensures r == self@.contains(x.bv()) { unimplemented!() }
    /// host comparison of values is structural
    #[verifier::external_body]
    pub fn last_index_of<B: VxBorrow<T>>(&self, x: B) -> (r: Option<u32>)
        ensures match r {
            Some(p) => (p as int) < self@.len() && self@[p as int] == x.bv() && forall|q: int| (p as int) < q < self@.len() ==> self@[q] != x.bv(),
            None => !self@.contains(x.bv()),
        },
    { unimplemented!() }
    #[verifier::external_body]
    pub fn first_index_of<B: VxBorrow<T>>(&self, x: B) -> (r: Option<u32>)
        ensures r.is_some() <==> self@.contains(x.bv()),
            r.is_some() ==> r.unwrap() as int == seq_index_of(self@, x.bv()),
            r.is_some() ==> (r.unwrap() as int) < self@.len() && self@[r.unwrap() as int] == x.bv()
                && forall|j: int| 0 <= j < r.unwrap() ==> self@[j] != x.bv(),
    { unimplemented!() }
    #[verifier::external_body]
    pub fn iter(&self) -> (r: VecIter<T>) ensures r.items@ == self@, r.pos@ == 0, r.rem() == self@, self@.len() <= u32::MAX { unimplemented!() }
    #[verifier::external_body]
    pub fn into_iter(self) -> (r: VecIter<T>) ensures r.items@ == self@, r.pos@ == 0, r.rem() == self@, self@.len() <= u32::MAX { unimplemented!() }
}

pub struct VecIter<T> { pub items: Ghost<Seq<T>>, pub pos: Ghost<int> }
impl<T> VecIter<T> {
    pub open spec fn rem(&self) -> Seq<T> {
        if 0 <= self.pos@ <= self.items@.len() { self.items@.subrange(self.pos@, self.items@.len() as int) } else { Seq::empty() }
    }
}
impl<T> Iterator for VecIter<T> {
    type Item = T;
    #[verifier::external_body]
    fn next(&mut self) -> (r: Option<T>) { unimplemented!() }
}
impl<T> IteratorSpecImpl for VecIter<T> {
    open spec fn obeys_prophetic_iter_laws(&self) -> bool { true }
    open spec fn remaining(&self) -> Seq<T> { self.rem() }
    open spec fn will_return_none(&self) -> bool { true }
    open spec fn decrease(&self) -> Option<nat> { Some(self.rem().len()) }
    open spec fn peek(&self, i: int) -> Option<T> {
        if 0 <= i < self.rem().len() { Some(self.rem()[i]) } else { None }
    }
}
// eager adapters over the model iterator; the closure must be pure (it gets no access to Env state)
impl<T> VecIter<T> {
    #[verifier::external_body]
    pub fn position<F: FnMut(T) -> bool>(&mut self, f: F) -> (r: Option<usize>)
        requires forall|i: int| 0 <= i < old(self).rem().len() ==> f.requires((#[trigger] old(self).rem()[i],)),
        ensures
            r.is_some() ==> (r.unwrap() as int) < old(self).rem().len()
                && f.ensures((old(self).rem()[r.unwrap() as int],), true)
                && forall|j: int| 0 <= j < r.unwrap() ==> f.ensures((#[trigger] old(self).rem()[j],), false),
            r.is_none() ==> forall|j: int| 0 <= j < old(self).rem().len() ==> f.ensures((#[trigger] old(self).rem()[j],), false),
    { unimplemented!() }
    /// `Iterator::all`: stops at the first element the closure rejects
    #[verifier::external_body]
    pub fn all<F: FnMut(T) -> bool>(&mut self, f: F) -> (r: bool)
        requires forall|i: int| 0 <= i < old(self).rem().len() ==> f.requires((#[trigger] old(self).rem()[i],)),
        ensures
            r ==> forall|j: int| 0 <= j < old(self).rem().len() ==> f.ensures((#[trigger] old(self).rem()[j],), true),
            !r ==> exists|j: int| 0 <= j < old(self).rem().len() && f.ensures((#[trigger] old(self).rem()[j],), false),
    { unimplemented!() }
    /// `Iterator::find` (the closure sees a reference): the first element it accepts
    #[verifier::external_body]
    pub fn find<F: FnMut(&T) -> bool>(&mut self, f: F) -> (r: Option<T>)
        requires forall|i: int| 0 <= i < old(self).rem().len() ==> f.requires((&#[trigger] old(self).rem()[i],)),
        ensures
            r.is_some() ==> exists|k: int| 0 <= k < old(self).rem().len() && old(self).rem()[k] == r.unwrap()
                && f.ensures((&old(self).rem()[k],), true)
                && forall|j: int| 0 <= j < k ==> f.ensures((&#[trigger] old(self).rem()[j],), false),
            r.is_none() ==> forall|j: int| 0 <= j < old(self).rem().len() ==> f.ensures((&#[trigger] old(self).rem()[j],), false),
    { unimplemented!() }
    /// `Iterator::count` / `last` / `nth` on the remaining items
    #[verifier::external_body]
    pub fn count(self) -> (r: usize) ensures r as int == self.rem().len() { unimplemented!() }
    #[verifier::external_body]
    pub fn last(self) -> (r: Option<T>) ensures r == (if self.rem().len() > 0 { Some(self.rem().last()) } else { None::<T> }) { unimplemented!() }
    #[verifier::external_body]
    pub fn nth(&mut self, n: usize) -> (r: Option<T>)
        ensures r == (if (n as int) < old(self).rem().len() { Some(old(self).rem()[n as int]) } else { None::<T> }),
    { unimplemented!() }
    #[verifier::external_body]
    pub fn any<F: FnMut(T) -> bool>(&mut self, f: F) -> (r: bool)
        requires forall|i: int| 0 <= i < old(self).rem().len() ==> f.requires((#[trigger] old(self).rem()[i],)),
        ensures
            r ==> exists|j: int| 0 <= j < old(self).rem().len() && f.ensures((#[trigger] old(self).rem()[j],), true),
            !r ==> forall|j: int| 0 <= j < old(self).rem().len() ==> f.ensures((#[trigger] old(self).rem()[j],), false),
    { unimplemented!() }
}

// ---- the host's total order on values (`obj_cmp`), uninterpreted (no order axiom is assumed or needed).  `Vec::binary_search` is specified against it: an `Ok(i)` always points at
//     an equal element; on a strictly sorted vector the answer is the exact one.
pub uninterp spec fn host_lt(a: SV, b: SV) -> bool;
pub open spec fn host_sorted<T: ToSV>(s: Seq<T>) -> bool {
    forall|i: int, j: int| 0 <= i < j < s.len() ==> host_lt(#[trigger] s[i].sv(), #[trigger] s[j].sv())
}
/// the host function is deterministic: its answer is a function of the vector and the item
pub uninterp spec fn bs_spec<T>(s: Seq<T>, x: T) -> Result<u32, u32>;
impl<T: ToSV> Vec<T> {
    #[verifier::external_body]
    pub fn binary_search<B: VxBorrow<T>>(&self, x: B) -> (r: Result<u32, u32>)
        ensures
            r == bs_spec(self@, x.bv()),
            r is Ok ==> (r->Ok_0 as int) < self@.len() && self@[r->Ok_0 as int] == x.bv(),
            r is Err ==> (r->Err_0 as int) <= self@.len(),
            host_sorted(self@) && r is Err ==> !self@.contains(x.bv())
                && (forall|i: int| 0 <= i < r->Err_0 ==> host_lt(#[trigger] self@[i].sv(), x.bv().sv()))
                && (forall|i: int| r->Err_0 <= i < self@.len() ==> host_lt(x.bv().sv(), #[trigger] self@[i].sv())),
    { unimplemented!() }
}
