// ---- model fragment: host signature primitives (M7, TRUSTED).  Needs core + bytes + crypto. ----
// `ed25519_verify`, `secp256r1_verify` trap unless the signature is valid; `secp256k1_recover` traps unless a public
// key can be recovered.  "Valid" is an UNINTERPRETED predicate `sig_ok(scheme, key, msg, sig)`: the model says nothing
// about which signatures are valid (no unforgeability, no uniqueness), only that the primitive returned because the
// host accepted exactly these four inputs.
pub open spec fn SIG_ED25519() -> int { 1 }
pub open spec fn SIG_SECP256R1() -> int { 2 }
pub open spec fn SIG_SECP256K1() -> int { 3 }
/// the host accepts `sig` as a signature by `key` over `msg` under the scheme (for the two ECDSA schemes `msg` is the
/// 32-byte digest handed to the primitive)
pub uninterp spec fn sig_ok(scheme: int, key: Seq<u8>, msg: Seq<u8>, sig: Seq<u8>) -> bool;
/// the SEC-1 uncompressed public key the host recovers from (digest, signature, recovery id)
pub uninterp spec fn secp256k1_recover_spec(digest: Seq<u8>, sig: Seq<u8>, recovery_id: u32) -> Seq<u8>;

impl Env {
    /// `e.crypto().ed25519_verify(pk, msg, sig)`: returns only if the host accepted the signature
    #[verifier::external_body]
    pub fn crypto_ed25519_verify(&self, public_key: &BytesN<32>, message: &Bytes, signature: &BytesN<64>)
        ensures sig_ok(SIG_ED25519(), public_key@, message@, signature@),
    { unimplemented!() }
    /// `e.crypto().secp256r1_verify(pk, digest, sig)`: returns only if the host accepted the signature over the digest
    #[verifier::external_body]
    pub fn crypto_secp256r1_verify(&self, public_key: &BytesN<65>, message_digest: &Hash<32>, signature: &BytesN<64>)
        ensures sig_ok(SIG_SECP256R1(), public_key@, message_digest@, signature@),
    { unimplemented!() }
    /// `e.crypto().secp256k1_recover(digest, sig, recovery_id)`: returns only if recovery succeeded; the recovered key
    /// is a function of the three inputs, and the signature is valid for the digest under the recovered key
    #[verifier::external_body]
    pub fn crypto_secp256k1_recover(&self, message_digest: &Hash<32>, signature: &BytesN<64>, recovery_id: u32) -> (r: BytesN<65>)
        ensures r@ == secp256k1_recover_spec(message_digest@, signature@, recovery_id),
            sig_ok(SIG_SECP256K1(), r@, message_digest@, signature@),
    { unimplemented!() }
}
