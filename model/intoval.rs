// ---- model fragment: `x.into_val(&e)` to a single opaque host value (TRUSTED): the value carries x's encoding ----
pub trait VxIntoVal: ToSV {
    fn into_val(&self, e: &Env) -> (r: Val) ensures r.sv() == self.sv();
}
impl<T: ToSV> VxIntoVal for T {
    #[verifier::external_body]
    fn into_val(&self, e: &Env) -> (r: Val) { unimplemented!() }
}
