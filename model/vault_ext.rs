// ---- model fragment: pieces of the SDK / core used by packages/tokens/src/vault (M8, M8a; TRUSTED) ----
// SEP-41 `token::Client` (= soroban_sdk::token::TokenClient) with the generic cross-contract-call contract
// `xcall_post` only: the call is recorded with its exact arguments and its answer, `ext` may change arbitrarily.
// What a *conformant* SEP-41 asset additionally guarantees (balance answers = ledger, transfers move exactly
// `amount`) is NOT assumed here; specs/vault/vault.rs states it as an explicit hypothesis of the rate lemmas.
// Do not list together with `fee_ext` (both define `TokenClient`).

pub open spec fn fn_transfer_from() -> int { str_code("transfer_from"@) }
pub open spec fn fn_transfer() -> int { str_code("transfer"@) }
pub open spec fn fn_balance() -> int { str_code("balance"@) }
pub open spec fn fn_decimals() -> int { str_code("decimals"@) }

/// `impl Into<MuxedAddress>` argument of `TokenClient::transfer`: a plain address (by value or by reference)
/// converts into the muxed address without id, whose host value is the address itself
pub trait IntoMuxedM: Sized {
    spec fn muxed_sv(&self) -> SV;
    spec fn muxed_addr(&self) -> Address;
}
impl IntoMuxedM for Address {
    open spec fn muxed_sv(&self) -> SV { self.sv() }
    open spec fn muxed_addr(&self) -> Address { *self }
}
impl<'a> IntoMuxedM for &'a Address {
    open spec fn muxed_sv(&self) -> SV { (**self).sv() }
    open spec fn muxed_addr(&self) -> Address { **self }
}

pub struct TokenClient { pub address: Address }

impl TokenClient {
    pub fn new(e: &Env, address: &Address) -> (r: TokenClient) ensures r.address == *address {
        TokenClient { address: address.clone() }
    }
    #[verifier::external_body]
    pub fn transfer_from(&self, e: &mut Env, spender: &Address, from: &Address, to: &Address, amount: &i128)
        ensures xcall_post(old(e)@, final(e)@, self.address, fn_transfer_from(),
                    seq![spender.sv(), from.sv(), to.sv(), amount.sv()], SV::Void),
    { unimplemented!() }
    #[verifier::external_body]
    pub fn transfer<T: IntoMuxedM>(&self, e: &mut Env, from: &Address, to: T, amount: &i128)
        ensures xcall_post(old(e)@, final(e)@, self.address, fn_transfer(),
                    seq![from.sv(), to.muxed_sv(), amount.sv()], SV::Void),
    { unimplemented!() }
    #[verifier::external_body]
    pub fn balance(&self, e: &mut Env, id: &Address) -> (r: i128)
        ensures xcall_post(old(e)@, final(e)@, self.address, fn_balance(), seq![id.sv()], r.sv()),
    { unimplemented!() }
    #[verifier::external_body]
    pub fn decimals(&self, e: &mut Env) -> (r: u32)
        ensures xcall_post(old(e)@, final(e)@, self.address, fn_decimals(), Seq::<SV>::empty(), r.sv()),
    { unimplemented!() }
}

// ---- core::i128::checked_pow (no vstd spec): Some(base^exp) iff the mathematical power fits in i128 ----
pub open spec fn fits_i128_pow(v: int) -> bool { i128::MIN as int <= v && v <= i128::MAX as int }
pub assume_specification[ i128::checked_pow ](base: i128, exp: u32) -> (r: Option<i128>)
    ensures
        r == (if fits_i128_pow(vstd::arithmetic::power::pow(base as int, exp as nat)) {
                  Some(vstd::arithmetic::power::pow(base as int, exp as nat) as i128) } else { None::<i128> });
