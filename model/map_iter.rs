// ---- model fragment: iteration over soroban_sdk::Map (M9, TRUSTED).  Needs core + vec + map. ----
impl<K, V> SdkMap<K, V> {
    /// `Map::iter`: the entries in the host's iteration order (= the view of the model map)
    #[verifier::external_body]
    pub fn iter(&self) -> (r: VecIter<(K, V)>)
        ensures r.items@ == self@, r.pos@ == 0, r.rem() == self@, self@.len() <= u32::MAX,
    { unimplemented!() }
}
