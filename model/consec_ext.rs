// ---- model fragment: what the consecutive NFT extension needs beyond core/vec (TRUSTED) ----
/// T6: `a << b` on u32 with overflow checks on: panics when b >= 32, otherwise the bits shifted out are dropped
/// (same contract as model/merkle_ext.rs; the two fragments are not meant to be listed together)
#[verifier::external_body]
pub fn ck_shl(a: u32, b: u32) -> (r: u32) ensures b < 32, r == a << b { a << b }

impl<T> Vec<T> {
    /// `Vec::from_slice(e, &[..])`: a host vector with the elements of the slice, in order
    #[verifier::external_body]
    pub fn from_slice(e: &Env, a: &[T]) -> (r: Self) ensures r@ == a@ { unimplemented!() }
}

/// `pub const IDS_IN_ITEM: usize = mem::size_of::<u32>() * 8;` in the source — Verus cannot evaluate
/// `core::mem::size_of` in a const, so the unit skips that one constant ("skip_consts") and takes the value from
/// here. The Kani harness `consts_as_modelled` (kani/consec) checks the value on the verbatim source text.
pub const IDS_IN_ITEM: usize = 32;

/// `Base::compose_uri_for_token` (base URI ++ decimal token id; string formatting over byte slices) is outside the
/// unit: declared opaque with NO contract, so `Consecutive::token_uri` is verified only for *when it returns*
/// (the token exists), not for the text it returns. `Base` is declared by the unit ("extra_items").
impl Base {
    #[verifier::external_body]
    pub fn compose_uri_for_token(e: &Env, base_uri: String, token_id: u32) -> (r: String) { unimplemented!() }
}
