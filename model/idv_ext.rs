// ---- model fragment: SDK / std items used by the identity-verifier and claim-issuer units that the other
//      fragments lack (M9, TRUSTED).  Needs core + bytes + vec (+ map for `SdkMap::iter`). ----
/// big-endian byte strings of the fixed-width integers (definitions, not assumptions)
pub open spec fn be_u32(x: u32) -> Seq<u8> {
    seq![((x as int / 0x1000000) % 256) as u8, ((x as int / 0x10000) % 256) as u8, ((x as int / 0x100) % 256) as u8, (x as int % 256) as u8]
}
pub open spec fn be_u64(x: u64) -> Seq<u8> {
    seq![((x as int / 0x100000000000000) % 256) as u8, ((x as int / 0x1000000000000) % 256) as u8,
         ((x as int / 0x10000000000) % 256) as u8, ((x as int / 0x100000000) % 256) as u8,
         ((x as int / 0x1000000) % 256) as u8, ((x as int / 0x10000) % 256) as u8, ((x as int / 0x100) % 256) as u8, (x as int % 256) as u8]
}
/// value of a big-endian byte string
pub open spec fn be_val(s: Seq<u8>) -> int
    decreases s.len()
{
    if s.len() == 0 { 0 } else { be_val(s.drop_last()) * 256 + s.last() as int }
}
/// `x.to_be_bytes()` (translator rule T15 renames the std method, whose result type an `assume_specification` cannot
/// name, to this trait method)
pub trait VxBeBytes<const N: usize>: Sized {
    spec fn be(self) -> Seq<u8>;
    fn vx_to_be_bytes(self) -> (r: [u8; N]) ensures r@ == self.be();
}
impl VxBeBytes<4> for u32 {
    open spec fn be(self) -> Seq<u8> { be_u32(self) }
    #[verifier::external_body]
    fn vx_to_be_bytes(self) -> (r: [u8; 4]) { self.to_be_bytes() }
}
impl VxBeBytes<8> for u64 {
    open spec fn be(self) -> Seq<u8> { be_u64(self) }
    #[verifier::external_body]
    fn vx_to_be_bytes(self) -> (r: [u8; 8]) { self.to_be_bytes() }
}
/// `u64::from_be_bytes` / `u32::from_be_bytes` (unit option "rename_calls")
#[verifier::external_body]
pub fn vx_u64_from_be_bytes(b: [u8; 8]) -> (r: u64) ensures r as int == be_val(b@) { u64::from_be_bytes(b) }
#[verifier::external_body]
pub fn vx_u32_from_be_bytes(b: [u8; 4]) -> (r: u32) ensures r as int == be_val(b@) { u32::from_be_bytes(b) }

// eager adapter over the model iterator; the closure must be pure (it gets no access to Env state)
impl<T> VecIter<T> {
    /// `Iterator::map` on the model iterator, evaluated eagerly: item i of the result is what the closure returns
    /// for the i-th remaining item.  (The real adapter is lazy; for a closure without side effects the sequence of
    /// produced items is the same.)
    #[verifier::external_body]
    pub fn map<U, F: FnMut(T) -> U>(self, f: F) -> (r: VecIter<U>)
        requires forall|i: int| 0 <= i < self.rem().len() ==> f.requires((#[trigger] self.rem()[i],)),
        ensures r.pos@ == 0, r.items@.len() == self.rem().len(),
            forall|i: int| 0 <= i < r.items@.len() ==> f.ensures((self.rem()[i],), #[trigger] r.items@[i]),
    { unimplemented!() }
}
