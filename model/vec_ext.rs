// ---- model fragment: further eager adapters over the model iterator of soroban_sdk::Vec (M9, TRUSTED) ----
impl<T> VecIter<T> {
    /// `Iterator::enumerate` on a fresh iterator: the i-th item is (i, v[i])
    #[verifier::external_body]
    pub fn enumerate(self) -> (r: VecIter<(usize, T)>)
        requires self.pos@ == 0,
        ensures r.pos@ == 0, r.items@.len() == self.items@.len(),
            forall|i: int| 0 <= i < r.items@.len() ==> #[trigger] r.items@[i] == (i as usize, self.items@[i]),
    { unimplemented!() }
}
