// ---- model fragment: I256 arithmetic, PARTIAL-CORRECTNESS flavour (M10, TRUSTED) ----
// The host function behind each method is the `checked_*` operation of a 256-bit integer and traps when it yields
// None, so a call RETURNS only when the mathematical result fits (and the divisor is non-zero): that is what the
// `ensures` say. `div` truncates toward zero; `rem_euclid` is the Euclidean remainder (0 <= r < |o|).
impl I256 {
    #[verifier::external_body]
    pub fn add(&self, o: &I256) -> (r: I256)
        ensures i256_fits(self@ + o@), r@ == self@ + o@,
    { unimplemented!() }

    #[verifier::external_body]
    pub fn sub(&self, o: &I256) -> (r: I256)
        ensures i256_fits(self@ - o@), r@ == self@ - o@,
    { unimplemented!() }

    #[verifier::external_body]
    pub fn mul(&self, o: &I256) -> (r: I256)
        ensures i256_fits(self@ * o@), r@ == self@ * o@,
    { unimplemented!() }

    /// truncating division (Rust `/` semantics on a 256-bit integer)
    #[verifier::external_body]
    pub fn div(&self, o: &I256) -> (r: I256)
        ensures o@ != 0, i256_fits(rust_div(self@, o@)), r@ == rust_div(self@, o@),
    { unimplemented!() }

    /// Euclidean remainder: 0 <= r < |o|
    #[verifier::external_body]
    pub fn rem_euclid(&self, o: &I256) -> (r: I256)
        ensures o@ != 0, !(self@ == -i256_hi() && o@ == -1), r@ == self@ % o@,
    { unimplemented!() }
}
