// ---- model fragment: `#[contractclient]` clients used by the RWA token (M8, TRUSTED) ----
// Hand-written stand-ins for what soroban-sdk's `#[contractclient(name = ..)]` generates from the traits
//   packages/tokens/src/rwa/compliance/mod.rs         trait Compliance        -> ComplianceClient
//   packages/tokens/src/rwa/identity_verifier/mod.rs  trait IdentityVerifier  -> IdentityVerifierClient
// (only the methods the token calls).  The generated client methods take every argument by reference.
// Each method carries exactly the generic external-call contract `xcall_post` of model/xcall.rs: this
// contract's stores, ledger, events and authorizations are unchanged, one `Call` record is appended,
// `ext` may change, the returned value is arbitrary.  Function names are the base-256 codes of the
// trait method names (vx.sym_code), as for every other symbol of the model.
pub open spec fn fn_transferred() -> int { 140775542147336826038412644int }                 // "transferred"
pub open spec fn fn_created() -> int { 27991802446636388int }                                // "created"
pub open spec fn fn_destroyed() -> int { 1851984722025952929124int }                         // "destroyed"
pub open spec fn fn_can_transfer() -> int { 30756802997960459679835776370int }               // "can_transfer"
pub open spec fn fn_can_create() -> int { 469311569164054640555109int }                      // "can_create"
pub open spec fn fn_verify_identity() -> int { 614748617307414736235247921365873785int }     // "verify_identity"
pub open spec fn fn_recovery_target() -> int { 593978243326996488107977086140376436int }     // "recovery_target"

pub struct ComplianceClient { pub address: Address }

impl ComplianceClient {
    pub fn new(e: &Env, a: &Address) -> (r: Self)
        ensures r.address == *a,
    { ComplianceClient { address: a.clone() } }

    #[verifier::external_body]
    pub fn transferred(&self, e: &mut Env, from: &Address, to: &Address, amount: &i128, token: &Address) -> (r: ())
        ensures xcall_post(old(e)@, final(e)@, self.address, fn_transferred(),
            seq![(*from).sv(), (*to).sv(), (*amount).sv(), (*token).sv()], r.sv()),
    { unimplemented!() }

    #[verifier::external_body]
    pub fn created(&self, e: &mut Env, to: &Address, amount: &i128, token: &Address) -> (r: ())
        ensures xcall_post(old(e)@, final(e)@, self.address, fn_created(),
            seq![(*to).sv(), (*amount).sv(), (*token).sv()], r.sv()),
    { unimplemented!() }

    #[verifier::external_body]
    pub fn destroyed(&self, e: &mut Env, from: &Address, amount: &i128, token: &Address) -> (r: ())
        ensures xcall_post(old(e)@, final(e)@, self.address, fn_destroyed(),
            seq![(*from).sv(), (*amount).sv(), (*token).sv()], r.sv()),
    { unimplemented!() }

    #[verifier::external_body]
    pub fn can_transfer(&self, e: &mut Env, from: &Address, to: &Address, amount: &i128, token: &Address) -> (r: bool)
        ensures xcall_post(old(e)@, final(e)@, self.address, fn_can_transfer(),
            seq![(*from).sv(), (*to).sv(), (*amount).sv(), (*token).sv()], r.sv()),
    { unimplemented!() }

    #[verifier::external_body]
    pub fn can_create(&self, e: &mut Env, to: &Address, amount: &i128, token: &Address) -> (r: bool)
        ensures xcall_post(old(e)@, final(e)@, self.address, fn_can_create(),
            seq![(*to).sv(), (*amount).sv(), (*token).sv()], r.sv()),
    { unimplemented!() }
}

pub struct IdentityVerifierClient { pub address: Address }

impl IdentityVerifierClient {
    pub fn new(e: &Env, a: &Address) -> (r: Self)
        ensures r.address == *a,
    { IdentityVerifierClient { address: a.clone() } }

    #[verifier::external_body]
    pub fn verify_identity(&self, e: &mut Env, account: &Address) -> (r: ())
        ensures xcall_post(old(e)@, final(e)@, self.address, fn_verify_identity(), seq![(*account).sv()], r.sv()),
    { unimplemented!() }

    #[verifier::external_body]
    pub fn recovery_target(&self, e: &mut Env, old_account: &Address) -> (r: Option<Address>)
        ensures xcall_post(old(e)@, final(e)@, self.address, fn_recovery_target(), seq![(*old_account).sv()], r.sv()),
    { unimplemented!() }
}
