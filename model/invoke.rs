// ---- model fragment: raw host values and `Env::invoke_contract` (M8, TRUSTED) ----
// needs fragments core, bytes (Symbol), vec, xcall
/// the argument vector of a call as the sequence of host values it carries
pub open spec fn vals_sv(a: Seq<Val>) -> Seq<SV> { Seq::new(a.len(), |i: int| a[i].sv()) }

impl Env {
    /// M8: returns only if the callee returned normally (a trap in the callee traps the caller);
    /// no re-entrancy, so this contract's stores, ledger, events and authorizations are unchanged;
    /// one record is appended to `calls`; `ext` may change arbitrarily; the result is an arbitrary
    /// value of the requested type.
    #[verifier::external_body]
    pub fn invoke_contract<T: ToSV>(&mut self, contract: &Address, func: &Symbol, args: Vec<Val>) -> (r: T)
        ensures xcall_post(old(self)@, final(self)@, *contract, func.code@, vals_sv(args@), r.sv()),
    { unimplemented!() }
    /// `try_invoke_contract`: a failing callee does not trap the caller (its effects are rolled back: `xcall_failed`)
    #[verifier::external_body]
    pub fn try_invoke_contract<T: ToSV, E>(&mut self, contract: &Address, func: &Symbol, args: Vec<Val>) -> (r: Result<Result<T, ConversionError>, Result<E, InvokeError>>)
        ensures match r {
            Ok(Ok(v)) => xcall_post(old(self)@, final(self)@, *contract, func.code@, vals_sv(args@), v.sv()),
            Ok(Err(_)) => final(self)@.calls.len() > 0 && xcall_post(old(self)@, final(self)@, *contract, func.code@, vals_sv(args@), final(self)@.calls.last().ret),
            Err(_) => xcall_failed(old(self)@, final(self)@, *contract, func.code@, vals_sv(args@)),
        },
    { unimplemented!() }
}
