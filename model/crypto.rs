// ---- model fragment: host crypto (M7, TRUSTED).  Needs fragments core + bytes. ----
// The hash functions are UNINTERPRETED total functions on byte strings.  Nothing about collisions is
// assumed here: a unit that needs the ideal-hash assumption states it as its own named axiom.
pub uninterp spec fn sha256_spec(b: Seq<u8>) -> Seq<u8>;
pub uninterp spec fn keccak256_spec(b: Seq<u8>) -> Seq<u8>;
/// both digests are exactly 32 bytes long (a fact about SHA-256 / Keccak-256, assumed)
#[verifier::external_body]
pub proof fn lemma_sha256_len(b: Seq<u8>) ensures sha256_spec(b).len() == 32 {}
#[verifier::external_body]
pub proof fn lemma_keccak256_len(b: Seq<u8>) ensures keccak256_spec(b).len() == 32 {}

/// soroban_sdk::crypto::Hash<N>: a digest produced by the host
pub struct Hash<const N: usize> { pub s: Ghost<Seq<u8>> }
impl<const N: usize> View for Hash<N> { type V = Seq<u8>; open spec fn view(&self) -> Seq<u8> { self.s@ } }
impl<const N: usize> Hash<N> {
    #[verifier::external_body]
    pub fn to_bytes(&self) -> (r: BytesN<N>) ensures r@ == self@ { unimplemented!() }
    #[verifier::external_body]
    pub fn to_array(&self) -> (r: [u8; N]) ensures r@ == self@ { unimplemented!() }
}
impl<const N: usize> From<Hash<N>> for BytesN<N> {
    #[verifier::external_body]
    fn from(h: Hash<N>) -> (r: BytesN<N>) ensures r@ == h@ { unimplemented!() }
}
impl<const N: usize> From<Hash<N>> for Bytes {
    #[verifier::external_body]
    fn from(h: Hash<N>) -> (r: Bytes) ensures r@ == h@ { unimplemented!() }
}
impl Env {
    /// `e.crypto().sha256(&b)` (T2: `e.crypto_sha256(&b)`)
    #[verifier::external_body]
    pub fn crypto_sha256(&self, b: &Bytes) -> (r: Hash<32>) ensures r@ == sha256_spec(b@) { unimplemented!() }
    #[verifier::external_body]
    pub fn crypto_keccak256(&self, b: &Bytes) -> (r: Hash<32>) ensures r@ == keccak256_spec(b@) { unimplemented!() }
}
