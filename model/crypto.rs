// ---- model fragment: hashing and XDR serialisation (M7, TRUSTED) ----
// `sha256` / `keccak256` are uninterpreted TOTAL functions from byte strings to 32-byte digests:
// the only fact the model gives is determinism (equal inputs, equal digests).  Collision freedom
// ("ideal hash") is NOT assumed here; a unit that needs it must state it as its own listed axiom.
pub uninterp spec fn sha256_spec(data: Seq<u8>) -> Seq<u8>;
pub uninterp spec fn keccak256_spec(data: Seq<u8>) -> Seq<u8>;
/// digests are 32 bytes long
#[verifier::external_body]
pub proof fn lemma_digest_len(data: Seq<u8>)
    ensures sha256_spec(data).len() == 32, keccak256_spec(data).len() == 32,
{}

/// soroban_sdk::crypto::Hash<N>
pub struct Hash<const N: usize> { pub s: Ghost<Seq<u8>> }
impl<const N: usize> View for Hash<N> { type V = Seq<u8>; open spec fn view(&self) -> Seq<u8> { self.s@ } }
impl<const N: usize> Hash<N> {
    #[verifier::external_body]
    pub fn to_bytes(&self) -> (r: BytesN<N>) ensures r@ == self@ { unimplemented!() }
    #[verifier::external_body]
    pub fn to_array(&self) -> (r: [u8; N]) ensures r@ == self@ { unimplemented!() }
}
impl<const N: usize> From<Hash<N>> for BytesN<N> {
    #[verifier::external_body]
    fn from(h: Hash<N>) -> (r: BytesN<N>) ensures r@ == h@ { unimplemented!() }
}
impl<const N: usize> From<Hash<N>> for Bytes {
    #[verifier::external_body]
    fn from(h: Hash<N>) -> (r: Bytes) ensures r@ == h@ { unimplemented!() }
}
impl<const N: usize> From<BytesN<N>> for Bytes {
    #[verifier::external_body]
    fn from(b: BytesN<N>) -> (r: Bytes) ensures r@ == b@ { unimplemented!() }
}

impl Env {
    #[verifier::external_body]
    pub fn crypto_sha256(&self, data: &Bytes) -> (r: Hash<32>) ensures r@ == sha256_spec(data@) { unimplemented!() }
    #[verifier::external_body]
    pub fn crypto_keccak256(&self, data: &Bytes) -> (r: Hash<32>) ensures r@ == keccak256_spec(data@) { unimplemented!() }
}

/// both digests are exactly 32 bytes long (a fact about SHA-256 / Keccak-256, assumed)
#[verifier::external_body]
pub proof fn lemma_sha256_len(b: Seq<u8>) ensures sha256_spec(b).len() == 32 {}
#[verifier::external_body]
pub proof fn lemma_keccak256_len(b: Seq<u8>) ensures keccak256_spec(b).len() == 32 {}
