// ---- model fragment: what the expanded multisig smart-account example needs beyond smartacct_ext (TRUSTED) ----
// needs fragments core, string, bytes (Symbol), vec, xcall, authctx (Val), smartacct_ext (vals_sv)
/// the bytes of a Rust string slice (UTF-8 encoding, uninterpreted)
pub uninterp spec fn str_bytes(s: Seq<char>) -> Seq<u8>;
impl String {
    /// `String::from_str(e, "..")`: the host string holding the bytes of the slice
    #[verifier::external_body]
    pub fn from_str(e: &Env, s: &str) -> (r: Self) ensures r.s@ == str_bytes(s@) { unimplemented!() }
}
impl Env {
    /// M8 (same contract as model/invoke.rs, which cannot be listed next to smartacct_ext: both define `vals_sv`):
    /// returns only if the callee returned normally; this contract's stores, ledger, events and authorizations are
    /// unchanged; one record is appended to `calls`; `ext` may change arbitrarily; the result is arbitrary.
    #[verifier::external_body]
    pub fn invoke_contract<T: ToSV>(&mut self, contract: &Address, func: &Symbol, args: Vec<Val>) -> (r: T)
        ensures xcall_post(old(self)@, final(self)@, *contract, func.code@, vals_sv(args@), r.sv()),
    { unimplemented!() }
    /// `try_invoke_contract`: a failing callee does not trap the caller (its effects are rolled back: `xcall_failed`)
    #[verifier::external_body]
    pub fn try_invoke_contract<T: ToSV, E>(&mut self, contract: &Address, func: &Symbol, args: Vec<Val>) -> (r: Result<Result<T, ConversionError>, Result<E, InvokeError>>)
        ensures match r {
            Ok(Ok(v)) => xcall_post(old(self)@, final(self)@, *contract, func.code@, vals_sv(args@), v.sv()),
            Ok(Err(_)) => final(self)@.calls.len() > 0 && xcall_post(old(self)@, final(self)@, *contract, func.code@, vals_sv(args@), final(self)@.calls.last().ret),
            Err(_) => xcall_failed(old(self)@, final(self)@, *contract, func.code@, vals_sv(args@)),
        },
    { unimplemented!() }
}
