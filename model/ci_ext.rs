// ---- model fragment: SDK / std items used by the claim-issuer unit that the other fragments lack (M9, TRUSTED).
//      Needs core + bytes + vec. ----
impl Env {
    #[verifier::external_body]
    pub fn ledger_network_id(&self) -> (r: BytesN<32>) ensures r@ == self@.network_id { unimplemented!() }
}

/// core::ops::RangeBounds<u32> as far as `Bytes::slice` needs it: the half-open interval a range denotes on a
/// byte string of length `len`
pub trait RangeBounds<T> {
    spec fn lo(&self) -> int;
    spec fn hi(&self, len: int) -> int;
}
impl RangeBounds<u32> for core::ops::Range<u32> {
    open spec fn lo(&self) -> int { self.start as int }
    open spec fn hi(&self, len: int) -> int { self.end as int }
}
impl RangeBounds<u32> for core::ops::RangeTo<u32> {
    open spec fn lo(&self) -> int { 0 }
    open spec fn hi(&self, len: int) -> int { self.end as int }
}
impl RangeBounds<u32> for core::ops::RangeFrom<u32> {
    open spec fn lo(&self) -> int { self.start as int }
    open spec fn hi(&self, len: int) -> int { len }
}

/// soroban_sdk::BytesBuffer<N> (result of `Bytes::to_buffer`): a fixed buffer holding a copy of the bytes
pub struct BytesBuffer<const N: usize> { pub s: Ghost<Seq<u8>> }
impl<const N: usize> BytesBuffer<N> {
    #[verifier::external_body]
    pub fn as_slice(&self) -> (r: &[u8]) ensures r@ == self.s@ { unimplemented!() }
}
impl Bytes {
    /// `Bytes::slice`: the host traps unless start <= end <= len
    #[verifier::external_body]
    pub fn slice<R: RangeBounds<u32>>(&self, r: R) -> (res: Bytes)
        ensures 0 <= r.lo() <= r.hi(self@.len() as int) <= self@.len(),
            res@ == self@.subrange(r.lo(), r.hi(self@.len() as int)),
    { unimplemented!() }
    /// `Bytes::to_buffer::<N>()`: panics when the bytes do not fit into N
    #[verifier::external_body]
    pub fn to_buffer<const N: usize>(&self) -> (r: BytesBuffer<N>)
        ensures self@.len() <= N, r.s@ == self@,
    { unimplemented!() }
}
impl<T> Vec<T> {
    /// `Vec::from_iter(e, it)`: the remaining items of the (model) iterator, in order
    #[verifier::external_body]
    pub fn from_iter(e: &Env, it: VecIter<T>) -> (r: Self) ensures r@ == it.rem() { unimplemented!() }
}
