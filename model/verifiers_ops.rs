// ---- model fragment: the trapping / failing operations of the verifiers, PARTIAL-CORRECTNESS flavour (TRUSTED):
//      a call returns only if the host / library did not trap.  Needs verifiers_ext. ----
impl Bytes {
    /// the host function `bytes_slice` traps unless `start <= end <= len`
    #[verifier::external_body]
    pub fn slice<R: VxRangeBounds<u32>>(&self, r: R) -> (res: Bytes)
        ensures
            0 <= slice_lo(r.vx_start()) <= slice_hi(r.vx_end(), self@.len() as int) <= self@.len(),
            res@ == self@.subrange(slice_lo(r.vx_start()), slice_hi(r.vx_end(), self@.len() as int)),
    { unimplemented!() }
    /// copies the contents into `[u8; B]` (`&mut buffer[0..len]` panics if `len > B`) and remembers the length
    #[verifier::external_body]
    pub fn to_buffer<const B: usize>(&self) -> (r: BytesBuffer<B>)
        ensures self@.len() <= B, r.s@ == self@,
    { unimplemented!() }
}


/// `ClientDataJson { challenge, #[serde(rename = "type")] type_field }`: both members are required, unknown members are
/// skipped, the second component is the number of bytes consumed (trailing bytes after the object are NOT an error).
#[verifier::external_body]
pub fn from_slice<'a>(v: &'a [u8]) -> (r: Result<(ClientDataJson<'a>, usize), JsonDeError>)
    ensures
        r is Ok ==> json_str_field(v@, "challenge"@) == Some(r->Ok_0.0.challenge.spec_bytes())
            && json_str_field(v@, "type"@) == Some(r->Ok_0.0.type_field.spec_bytes())
            && r->Ok_0.1 <= v@.len(),
{ unimplemented!() }

