#!/usr/bin/env bash
# Kani cross-checks of the assumed std specifications (DESIGN §2.2).  Usage:  kani/stdspec/run.sh [harness ...]
#   KANI_TIMEOUT=<s>  per-harness wall-clock limit (default 120)      KANI_JOBS=<n>  harnesses run concurrently (default 6)
# Prints one line per harness:  <name> <SUCCESS|FAILURE|TIMEOUT> <seconds>
# Exit 0 iff no FAILURE (a TIMEOUT is an unchecked assumption: reported, does not fail); 2 on build failure.
# `control_*` harnesses are negative controls: Kani must REJECT them; the line says SUCCESS when it does.
set -u
cd "$(dirname "$(readlink -f "$0")")"
# build output records absolute paths: a target directory that was built at another location (a copied tree, a removed
# worktree) is discarded
if [ -d target ] && [ "$(cat target/.verif-path 2>/dev/null)" != "$PWD" ]; then rm -rf target; fi
mkdir -p target; echo "$PWD" > target/.verif-path
export CARGO_NET_OFFLINE=true
T="${KANI_TIMEOUT:-120}"
J="${KANI_JOBS:-6}"
LOGDIR="${KANI_LOGDIR:-/var/tmp/kani_stdspec_logs}"; mkdir -p "$LOGDIR"
ulimit -v 25165824 2>/dev/null || true                    # 24 GB address space per process

if ! timeout 600 cargo kani --only-codegen > "$LOGDIR/build.log" 2>&1; then
    echo "BUILD FAILURE (see $LOGDIR/build.log)"; tail -n 20 "$LOGDIR/build.log"; exit 2
fi
# long-running ones first so that the concurrent slots are used well
ALL="i128_div_is_rust_div_unfinished i128_rem_is_rust_rem_unfinished i128_checked_pow_step_unfinished u32_div_ceil_unfinished
     i128_checked_pow_exp_le2 i16_div_is_rust_div i16_rem_is_rust_rem_unfinished i16_checked_pow_step u16_div_ceil_unfinished
     i64_mul_exact i64_mul_overflow_never_returns u32_overflow_never_returns i8_checked_pow_step u32_add_sub_mul_exact
     option_is_some_and option_is_none_or option_filter option_inspect option_map_or option_unwrap
     option_unwrap_none_never_returns result_unwrap_or_else bound_cloned slice_ne_array_u8_bounded
     i128_abs i128_abs_min_never_returns control_marker_detects_return u32_abs_diff i128_checked_neg i128_checked_abs
     u32_div_ceil_via_divrem u8_div_ceil u32_div_ceil_rhs0_never_returns
     i128_checked_pow_zero i128_checked_pow_base10 i16_checked_pow_zero i8_checked_pow_zero
     i128_divrem_by0_never_returns i128_divrem_min_m1_never_returns i16_divrem_by0_never_returns
     i16_divrem_min_m1_never_returns i8_div_is_rust_div i8_rem_is_rust_rem i8_divrem_by0_never_returns
     i8_divrem_min_m1_never_returns i8_divrem_division_free
     i128_add_sub_exact i128_add_overflow_never_returns i128_sub_overflow_never_returns
     u32_shl u32_shl_ge32_never_returns u32_to_be_bytes u64_to_be_bytes u32_from_be_bytes u64_from_be_bytes"
HARNESSES="${*:-$ALL}"
# the list above must name every harness of src/lib.rs: #[kani::proof] occurrences, minus the 6 inside the two macro
# definitions, plus 2 per pow_harnesses! use and 4 per divrem_harnesses! use
N=$(grep -c '^ *#\[kani::proof\]' src/lib.rs)
NP=$(grep -c '^pow_harnesses!' src/lib.rs); ND=$(grep -c '^divrem_harnesses!' src/lib.rs)
if [ "$(echo $ALL | wc -w)" -ne $((N - 6 + 2 * NP + 4 * ND)) ]; then echo "HARNESS LIST OUT OF DATE"; exit 2; fi

run_one() {
    h=$1; t0=$(date +%s.%N)
    timeout -k 5 "$T" cargo kani --exact --harness "$h" > "$LOGDIR/$h.log" 2>&1
    st=$?
    dt=$(printf "%.1f" "$(echo "$(date +%s.%N) - $t0" | bc)")
    ok=0; [ $st -eq 0 ] && grep -q "^VERIFICATION:- SUCCESSFUL" "$LOGDIR/$h.log" && grep -q "1 successfully verified harnesses, 0 failures, 1 total" "$LOGDIR/$h.log" && ok=1
    if [ $st -eq 124 ] || [ $st -eq 137 ]; then res=TIMEOUT
    elif [ $ok -eq 1 ]; then res=SUCCESS
    else res=FAILURE; fi
    case "$h" in control_*)      # negative control: expected to be rejected, and for the stated reason
        if [ "$res" = FAILURE ] && grep -q "^VERIFICATION:- FAILED (encountered failures other than panics" "$LOGDIR/$h.log"; then res=SUCCESS
        elif [ "$res" = SUCCESS ]; then res=FAILURE; fi;;
    esac
    echo "$h $res $dt" > "$LOGDIR/$h.res"
}
export -f run_one; export T LOGDIR
for h in $HARNESSES; do rm -f "$LOGDIR/$h.res"; done
printf '%s\n' $HARNESSES | xargs -P "$J" -I{} bash -c 'run_one {}'
rc=0
if [ $# -eq 0 ] && command -v verus >/dev/null 2>&1; then    # the integer lemma used by u32_div_ceil_via_divrem (Verus, not Kani)
    t0=$(date +%s.%N)
    if timeout "$T" verus lemma_div_ceil.rs > "$LOGDIR/lemma_div_ceil.log" 2>&1 && grep -q "verified, 0 errors" "$LOGDIR/lemma_div_ceil.log"; then res=SUCCESS; else res=FAILURE; rc=1; fi
    echo "lemma_div_ceil(verus) $res $(printf "%.1f" "$(echo "$(date +%s.%N) - $t0" | bc)")"
fi
for h in $HARNESSES; do
    line=$(cat "$LOGDIR/$h.res" 2>/dev/null || echo "$h FAILURE 0.0")
    echo "$line"
    case "$line" in *" FAILURE "*) rc=1;; esac
done
exit $rc
