//! Kani cross-checks of the specifications that the framework's SDK model ASSUMES for core/std items
//! (`assume_specification` in /verif/model/*.rs, and the `external_body` arithmetic helpers `ck_*`, `rust_div`,
//! `rust_rem`, `ck_shl`, `vx_*_be_bytes`).  The code under check is the real `core` shipped with the Kani toolchain.
//!
//! Conventions
//! * every harness has fully symbolic inputs (`kani::any()`) and asserts exactly the `ensures` of the assumed spec,
//!   transcribed into a Rust `bool`.  Verus `int` expressions are transcribed either into a wider machine type (u32 ->
//!   u64/i64 …) or, for i128, into overflow-free equivalent forms (the equivalence is stated at the harness).
//! * the model works under partial correctness with overflow checks on (Cargo profile `overflow-checks = true`):
//!   an `ensures P(inputs)` that speaks about inputs only (`ensures a != i128::MIN`, `ensures rhs != 0`, `b < 32`)
//!   means "the call does not return when !P".  That half is checked by the `*_never_returns` harnesses:
//!   `#[kani::should_panic]` + `returned()` after the call.  `returned()` raises a failure of a non-panic class, and a
//!   `should_panic` harness fails on any failure "other than panics"; so such a harness succeeds iff for EVERY input
//!   satisfying the `assume` the call panics (and there is at least one such input).  `control_marker_detects_return`
//!   is the negative control of this device (run.sh expects Kani to reject it).
//! * closure-taking functions are instantiated with a closure over a symbolic parameter (`|x| x > t`, …); for that
//!   closure `f.requires(..)` is `true` and `f.ensures((x,), r)` is `r == body(x)`.
//! * narrowed harnesses (`i8_*`, `i16_*`, `u8_*`, `i64_mul_*`, `*_bounded`, `*_base10`, `*_exp*`) are
//!   cross-checks on a smaller domain, NOT proofs of the i128 / u32 specification; README.md says which are which.
//!   `*_unfinished` harnesses are the full-width statements CBMC does not decide within the time limit.
#![cfg(kani)]
#![allow(clippy::all)]
use core::ops::Bound;

const MIN: i128 = i128::MIN;
const MAX: i128 = i128::MAX;

/// reaching this is a failure of class `arithmetic_overflow` (not a panic) — see the module comment
fn returned() {
    unsafe {
        let _ = 255u8.unchecked_add(1);
    }
}

// ------------------------------------------------------------------------------------------------------------
// model/stdauto.rs
// ------------------------------------------------------------------------------------------------------------

/// Option::is_some_and   ensures o.is_none() ==> !r, o.is_some() ==> f.ensures((o.unwrap(),), r)
#[kani::proof]
fn option_is_some_and() {
    let o: Option<u32> = kani::any();
    let t: u32 = kani::any();
    let r = o.is_some_and(|x| x > t);
    assert!(!o.is_none() || !r);
    assert!(!o.is_some() || r == (o.unwrap() > t));
}

/// Option::is_none_or   ensures o.is_none() ==> r, o.is_some() ==> f.ensures((o.unwrap(),), r)
#[kani::proof]
fn option_is_none_or() {
    let o: Option<u32> = kani::any();
    let t: u32 = kani::any();
    let r = o.is_none_or(|x| x > t);
    assert!(!o.is_none() || r);
    assert!(!o.is_some() || r == (o.unwrap() > t));
}

/// Option::filter   ensures o.is_none() ==> r.is_none(),
///   o.is_some() ==> (f.ensures((&o.unwrap(),), true) ==> r == o) && (f.ensures((&o.unwrap(),), false) ==> r.is_none())
///                   && (r.is_some() ==> r == o)
#[kani::proof]
fn option_filter() {
    let o: Option<u32> = kani::any();
    let t: u32 = kani::any();
    let r = o.filter(|x: &u32| *x > t);
    assert!(!o.is_none() || r.is_none());
    if o.is_some() {
        let fx = o.unwrap() > t; // f.ensures((&x,), b)  <=>  b == fx
        assert!(!(true == fx) || r == o);
        assert!(!(false == fx) || r.is_none());
        assert!(!r.is_some() || r == o);
    }
}

/// i128::abs   ensures a != i128::MIN, r as int == (if a < 0 { -(a as int) } else { a as int })
/// int form -> i128 form: for a < 0, `r == -a` over int  <=>  `r + a == 0` over int  <=>  r.checked_add(a) == Some(0)
#[kani::proof]
fn i128_abs() {
    let a: i128 = kani::any();
    kani::assume(a != MIN);
    let r = a.abs();
    assert!(if a < 0 { r.checked_add(a) == Some(0) } else { r == a });
}
#[kani::proof]
#[kani::should_panic]
fn i128_abs_min_never_returns() {
    let a: i128 = kani::any();
    kani::assume(a == MIN);
    let _ = a.abs();
    returned();
}
#[kani::proof]
#[kani::should_panic]
fn control_marker_detects_return() {
    let a: i128 = kani::any(); // returns for a != MIN: Kani must reject this harness
    let _ = a.abs();
    returned();
}

/// u32::abs_diff   ensures r as int == (if a >= b { a as int - b as int } else { b as int - a as int })
#[kani::proof]
fn u32_abs_diff() {
    let a: u32 = kani::any();
    let b: u32 = kani::any();
    let r = a.abs_diff(b);
    assert!(r as i64 == if a >= b { a as i64 - b as i64 } else { b as i64 - a as i64 });
}

/// i128::checked_neg   ensures a == MIN ==> r.is_none(), a != MIN ==> r.is_some() && r.unwrap() as int == -(a as int)
#[kani::proof]
fn i128_checked_neg() {
    let a: i128 = kani::any();
    let r = a.checked_neg();
    assert!(a != MIN || r.is_none());
    assert!(a == MIN || (r.is_some() && r.unwrap().checked_add(a) == Some(0)));
}

/// i128::checked_abs   ensures a == MIN ==> r.is_none(),
///                             a != MIN ==> r.is_some() && r.unwrap() as int == (if a < 0 { -(a as int) } else { a as int })
#[kani::proof]
fn i128_checked_abs() {
    let a: i128 = kani::any();
    let r = a.checked_abs();
    assert!(a != MIN || r.is_none());
    assert!(a == MIN || (r.is_some() && if a < 0 { r.unwrap().checked_add(a) == Some(0) } else { r.unwrap() == a }));
}

// ------------------------------------------------------------------------------------------------------------
// model/stdspec.rs
// ------------------------------------------------------------------------------------------------------------

/// Option::inspect   ensures r == o        (closure FnOnce(&T) -> (); here it records what it was shown)
#[kani::proof]
fn option_inspect() {
    let o: Option<u32> = kani::any();
    let mut seen: Option<u32> = None;
    let r = o.inspect(|x: &u32| seen = Some(*x));
    assert!(r == o);
    assert!(seen == o); // not part of the assumed spec: the closure is called exactly on the payload
}

/// VxUnwrap for Option (external_body `self.unwrap()`)   ensures self.is_some(), r == self->Some_0
#[kani::proof]
fn option_unwrap() {
    let o: Option<u32> = kani::any();
    kani::assume(o.is_some());
    let r = o.unwrap();
    assert!(Some(r) == o);
}
#[kani::proof]
#[kani::should_panic]
fn option_unwrap_none_never_returns() {
    let o: Option<u32> = kani::any();
    kani::assume(o.is_none());
    let _ = o.unwrap();
    returned();
}

// ------------------------------------------------------------------------------------------------------------
// model/votes_ext.rs
// ------------------------------------------------------------------------------------------------------------

/// u32::div_ceil   ensures rhs != 0, r as int == (a as int + rhs as int - 1) / (rhs as int)
/// (`/` on non-negative ints = u64 `/`)
#[kani::proof]
fn u32_div_ceil_unfinished() {
    let a: u32 = kani::any();
    let rhs: u32 = kani::any();
    kani::assume(rhs != 0);
    let r = a.div_ceil(rhs);
    assert!(r as u64 == (a as u64 + rhs as u64 - 1) / (rhs as u64));
}
/// the core code computes  a / rhs + (1 if a % rhs > 0)  (unsigned `/`, `%` = Euclidean division of naturals, as in
/// vstd).  What remains to reach the assumed formula is the integer lemma
///   a >= 0, b > 0  ==>  (a + b - 1) / b == a / b + (if a % b > 0 { 1 } else { 0 })
/// which is not a statement about core; it is proved by Verus in lemma_div_ceil.rs (run.sh runs it when `verus` exists).
#[kani::proof]
#[kani::solver(z3)]
fn u32_div_ceil_via_divrem() {
    let a: u32 = kani::any();
    let rhs: u32 = kani::any();
    kani::assume(rhs != 0);
    let r = a.div_ceil(rhs);
    assert!(r as u64 == (a / rhs) as u64 + if a % rhs > 0 { 1 } else { 0 });
}
/// narrower literal cross-checks (u16::div_ceil / u8::div_ceil are the same `uint_impl!` macro body as u32::div_ceil)
#[kani::proof]
fn u16_div_ceil_unfinished() {
    let a: u16 = kani::any();
    let rhs: u16 = kani::any();
    kani::assume(rhs != 0);
    let r = a.div_ceil(rhs);
    assert!(r as u32 == (a as u32 + rhs as u32 - 1) / (rhs as u32));
}
#[kani::proof]
fn u8_div_ceil() {
    let a: u8 = kani::any();
    let rhs: u8 = kani::any();
    kani::assume(rhs != 0);
    let r = a.div_ceil(rhs);
    assert!(r as u16 == (a as u16 + rhs as u16 - 1) / (rhs as u16));
}
#[kani::proof]
#[kani::should_panic]
fn u32_div_ceil_rhs0_never_returns() {
    let a: u32 = kani::any();
    let rhs: u32 = kani::any();
    kani::assume(rhs == 0);
    let _ = a.div_ceil(rhs);
    returned();
}

/// Option::map_or   ensures o.is_none() ==> r == default, o.is_some() ==> f.ensures((o.unwrap(),), r)
#[kani::proof]
fn option_map_or() {
    let o: Option<u32> = kani::any();
    let default: u64 = kani::any();
    let k: u64 = kani::any();
    let r = o.map_or(default, |x| (x as u64) ^ k);
    assert!(!o.is_none() || r == default);
    assert!(!o.is_some() || r == (o.unwrap() as u64) ^ k);
}

// ------------------------------------------------------------------------------------------------------------
// model/verifiers_ext.rs
// ------------------------------------------------------------------------------------------------------------

/// Bound::<&T>::cloned   ensures r == bound_val(b)
#[kani::proof]
fn bound_cloned() {
    let x: u32 = kani::any();
    let which: u8 = kani::any();
    let b: Bound<&u32> = match which % 3 {
        0 => Bound::Unbounded,
        1 => Bound::Included(&x),
        _ => Bound::Excluded(&x),
    };
    let r: Bound<u32> = b.cloned();
    let bound_val = match b {
        Bound::Unbounded => Bound::Unbounded,
        Bound::Included(x) => Bound::Included(*x),
        Bound::Excluded(x) => Bound::Excluded(*x),
    };
    assert!(r == bound_val);
}

/// Result::unwrap_or_else   ensures x is Ok ==> res == x->Ok_0, x is Err ==> f.ensures((x->Err_0,), res)
#[kani::proof]
fn result_unwrap_or_else() {
    let x: Result<u32, u8> = kani::any();
    let k: u32 = kani::any();
    let res = x.unwrap_or_else(|e| (e as u32) ^ k);
    match x {
        Ok(v) => {
            assert!(res == v);
        }
        Err(e) => {
            assert!(res == (e as u32) ^ k);
        }
    }
}

/// `<&[T] as PartialEq<[U; N]>>::ne` with axiom_slice_arr_ne_u8:  r == (a@ != b@)   (sequence inequality)
/// BOUNDED: T = U = u8, N = 4, slice length 0..=6 (the implementation loops over the elements / calls memcmp).
#[kani::proof]
#[kani::unwind(8)]
fn slice_ne_array_u8_bounded() {
    let buf: [u8; 6] = kani::any();
    let len: usize = kani::any();
    kani::assume(len <= 6);
    let a: &[u8] = &buf[..len];
    let b: [u8; 4] = kani::any();
    let r = a != b;
    let seq_eq = len == 4 && buf[0] == b[0] && buf[1] == b[1] && buf[2] == b[2] && buf[3] == b[3];
    assert!(r == !seq_eq);
}

// ------------------------------------------------------------------------------------------------------------
// model/vault_ext.rs   i128::checked_pow
//   ensures r == (if fits_i128(pow(base, exp)) { Some(pow(base, exp) as i128) } else { None })
// The mathematical `pow` is characterised inductively:  pow(b, 0) = 1,  pow(b, e + 1) = pow(b, e) * b.  With
//   P(e):  checked_pow(b, e) == (if pow(b, e) fits { Some(pow(b, e)) } else { None })
// the two harnesses `*_zero` and `*_step` establish P(0) and P(e) ==> P(e + 1):
//   - checked_pow(b, e) == Some(p): by P(e) p = pow(b, e), so pow(b, e+1) = p * b and it fits iff p.checked_mul(b) is Some
//   - checked_pow(b, e) == None:    by P(e) pow(b, e) does not fit, hence |b| >= 2 and |pow(b, e+1)| > |pow(b, e)|: no fit.
// (`checked_mul` has a vstd specification; it is the reference here.)
// The implementation is square-and-multiply with a loop over the bits of `exp` (<= 32 iterations): the harnesses are
// fully unwound with unwinding assertions, which is as complete as loop-free.
// ------------------------------------------------------------------------------------------------------------
macro_rules! pow_harnesses {
    ($t:ty, $zero:ident, $step:ident) => {
        #[kani::proof]
        fn $zero() {
            let b: $t = kani::any();
            assert!(b.checked_pow(0) == Some(1));
        }
        #[kani::proof]
        #[kani::unwind(34)]
        fn $step() {
            let b: $t = kani::any();
            let e: u32 = kani::any();
            kani::assume(e < u32::MAX);
            let next = b.checked_pow(e + 1);
            match b.checked_pow(e) {
                Some(p) => {
                    assert!(next == p.checked_mul(b));
                }
                None => {
                    assert!(next.is_none());
                }
            }
        }
    };
}
pow_harnesses!(i128, i128_checked_pow_zero, i128_checked_pow_step_unfinished);
// narrower cross-checks (iN::checked_pow is the same `int_impl!` macro body for every width); i32 does not finish either
pow_harnesses!(i16, i16_checked_pow_zero, i16_checked_pow_step);
pow_harnesses!(i8, i8_checked_pow_zero, i8_checked_pow_step);

/// i128, small exponents, all bases: the spec unfolded (pow(b,1) = b, pow(b,2) = b*b)
#[kani::proof]
#[kani::unwind(4)]
fn i128_checked_pow_exp_le2() {
    let b: i128 = kani::any();
    assert!(b.checked_pow(1) == Some(b));
    assert!(b.checked_pow(2) == b.checked_mul(b));
}

/// i128, base 10 (the only call sites: `10_i128.checked_pow(decimals_offset)` in tokens/src/vault/storage.rs), ALL
/// exponents: 10^e for e <= 38 from a table of literals, None for e >= 39 (10^39 > i128::MAX).
#[kani::proof]
#[kani::unwind(34)]
fn i128_checked_pow_base10() {
    const P10: [i128; 39] = {
        let mut t = [1i128; 39];
        let mut i = 1;
        while i < 39 {
            t[i] = t[i - 1] * 10; // const evaluation: an overflow here is a compile error
            i += 1;
        }
        t
    };
    let e: u32 = kani::any();
    let r = 10i128.checked_pow(e);
    if e <= 38 {
        assert!(r == Some(P10[e as usize]));
    } else {
        assert!(r.is_none());
    }
}

// ------------------------------------------------------------------------------------------------------------
// model/core.rs   rust_div / rust_rem  (specification of exec `/` and `%` on signed integers: ck_div, ck_rem)
//   rust_div(a, b) = if b == 0 {0} else if a >= 0 && b > 0 { a / b } else if a < 0 && b > 0 { -((-a) / b) }
//                    else if a >= 0 && b < 0 { -(a / (-b)) } else { (-a) / (-b) }          (`/` only on naturals)
//   rust_rem(a, b) = a - rust_div(a, b) * b
// Transcription: division of naturals is `/` of the unsigned type on the magnitudes (`unsigned_abs`), i.e.
//   rust_div(a, b) = s * (|a| / |b|) with s = -1 iff exactly one operand is negative, and therefore
//   rust_rem(a, b) = a - s*(|a| / |b|)*b = sgn(a) * (|a| - (|a| / |b|)*|b|) = sgn(a) * (|a| % |b|).
// NOTE: `/` and `%` are compiler primitives; Kani maps them to CBMC's division, the hardware/compiler-builtins
// (`__divti3`) implementation is not what is executed here.
// ------------------------------------------------------------------------------------------------------------
macro_rules! divrem_harnesses {
    ($t:ty, $u:ty, $div:ident, $rem:ident, $div0:ident, $ovf:ident) => {
        #[kani::proof]
        fn $div() {
            let a: $t = kani::any();
            let b: $t = kani::any();
            kani::assume(b != 0 && !(a == <$t>::MIN && b == -1));
            let q = a / b;
            let m: $u = a.unsigned_abs() / b.unsigned_abs();
            let negative = (a < 0) != (b < 0);
            // q as int == (if negative { -m } else { m })
            assert!(q.unsigned_abs() == m && (m == 0 || (q < 0) == negative));
        }
        #[kani::proof]
        fn $rem() {
            let a: $t = kani::any();
            let b: $t = kani::any();
            kani::assume(b != 0 && !(a == <$t>::MIN && b == -1));
            let r = a % b;
            let m: $u = a.unsigned_abs() % b.unsigned_abs();
            assert!(r.unsigned_abs() == m && (m == 0 || (r < 0) == (a < 0)));
        }
        /// ck_div / ck_rem `ensures o.ai() != 0`
        #[kani::proof]
        #[kani::should_panic]
        fn $div0() {
            let a: $t = kani::any();
            let b: $t = kani::any();
            let sel: bool = kani::any();
            kani::assume(b == 0);
            let _ = if sel { a / b } else { a % b };
            returned();
        }
        /// MIN / -1 and MIN % -1 panic (the model's contract `r.ai() == rust_div(..)` = 2^127 is unsatisfiable for `/`;
        /// for `%` the model says `r == 0` — Rust panics instead, which partial correctness permits)
        #[kani::proof]
        #[kani::should_panic]
        fn $ovf() {
            let a: $t = kani::any();
            let b: $t = kani::any();
            let sel: bool = kani::any();
            kani::assume(a == <$t>::MIN && b == -1);
            let _ = if sel { a / b } else { a % b };
            returned();
        }
    };
}
divrem_harnesses!(i128, u128, i128_div_is_rust_div_unfinished, i128_rem_is_rust_rem_unfinished, i128_divrem_by0_never_returns, i128_divrem_min_m1_never_returns);
// narrower cross-checks (same compiler primitive at another width; NOT a proof of the i128 statement); i32, i64 do not finish
divrem_harnesses!(i16, u16, i16_div_is_rust_div, i16_rem_is_rust_rem_unfinished, i16_divrem_by0_never_returns, i16_divrem_min_m1_never_returns);
divrem_harnesses!(i8, u8, i8_div_is_rust_div, i8_rem_is_rust_rem, i8_divrem_by0_never_returns, i8_divrem_min_m1_never_returns);

/// division-free form, i8 in i32 arithmetic: q = a / b, r = a % b are THE truncating quotient and remainder:
/// `rust_rem` literally (r == a - q*b), |r| < |b|, r == 0 or sign(r) == sign(a)
#[kani::proof]
fn i8_divrem_division_free() {
    let a: i8 = kani::any();
    let b: i8 = kani::any();
    kani::assume(b != 0 && !(a == i8::MIN && b == -1));
    let (q, r) = ((a / b) as i32, (a % b) as i32);
    let (a, b) = (a as i32, b as i32);
    assert!(r == a - q * b);
    assert!(r.abs() < b.abs());
    assert!(r == 0 || (r < 0) == (a < 0));
}

// ------------------------------------------------------------------------------------------------------------
// model/core.rs   ck_add / ck_sub / ck_mul  (`+ - *` with overflow checks on):  ensures r.ai() == a.ai() ∘ b.ai()
// i.e. returns the exact result, and does not return when the exact result does not fit.
// ------------------------------------------------------------------------------------------------------------
/// i128: the exact sum fits iff !(b > 0 && a > MAX - b) && !(b < 0 && a < MIN - b); then it is the wrapping sum
#[kani::proof]
fn i128_add_sub_exact() {
    let a: i128 = kani::any();
    let b: i128 = kani::any();
    if !((b > 0 && a > MAX - b) || (b < 0 && a < MIN - b)) {
        let r = a + b;
        assert!(r == a.wrapping_add(b) && (b >= 0) == (r >= a));
    }
    if !((b < 0 && a > MAX + b) || (b > 0 && a < MIN + b)) {
        let r = a - b;
        assert!(r == a.wrapping_sub(b) && (b >= 0) == (r <= a));
    }
}
#[kani::proof]
#[kani::should_panic]
fn i128_add_overflow_never_returns() {
    let a: i128 = kani::any();
    let b: i128 = kani::any();
    kani::assume((b > 0 && a > MAX - b) || (b < 0 && a < MIN - b));
    let _ = a + b;
    returned();
}
#[kani::proof]
#[kani::should_panic]
fn i128_sub_overflow_never_returns() {
    let a: i128 = kani::any();
    let b: i128 = kani::any();
    kani::assume((b < 0 && a > MAX + b) || (b > 0 && a < MIN + b));
    let _ = a - b;
    returned();
}
/// u32 in i128 arithmetic (exact)
#[kani::proof]
fn u32_add_sub_mul_exact() {
    let a: u32 = kani::any();
    let b: u32 = kani::any();
    let (ia, ib) = (a as i128, b as i128);
    if ia + ib <= u32::MAX as i128 {
        assert!((a + b) as i128 == ia + ib);
    }
    if ia - ib >= 0 {
        assert!((a - b) as i128 == ia - ib);
    }
    if ia * ib <= u32::MAX as i128 {
        assert!((a * b) as i128 == ia * ib);
    }
}
#[kani::proof]
#[kani::should_panic]
fn u32_overflow_never_returns() {
    let a: u32 = kani::any();
    let b: u32 = kani::any();
    let sel: u8 = kani::any();
    let (ia, ib) = (a as i128, b as i128);
    match sel % 3 {
        0 => {
            kani::assume(ia + ib > u32::MAX as i128);
            let _ = a + b;
        }
        1 => {
            kani::assume(ia - ib < 0);
            let _ = a - b;
        }
        _ => {
            kani::assume(ia * ib > u32::MAX as i128);
            let _ = a * b;
        }
    }
    returned();
}
/// `*` on i128 has no wider machine type to compare with; i64 in i128 arithmetic is the narrower cross-check
#[kani::proof]
fn i64_mul_exact() {
    let a: i64 = kani::any();
    let b: i64 = kani::any();
    let p = a as i128 * b as i128;
    if i64::MIN as i128 <= p && p <= i64::MAX as i128 {
        assert!((a * b) as i128 == p);
    }
}
#[kani::proof]
#[kani::should_panic]
fn i64_mul_overflow_never_returns() {
    let a: i64 = kani::any();
    let b: i64 = kani::any();
    let p = a as i128 * b as i128;
    kani::assume(!(i64::MIN as i128 <= p && p <= i64::MAX as i128));
    let _ = a * b;
    returned();
}

// ------------------------------------------------------------------------------------------------------------
// model/merkle_ext.rs   ck_shl(a: u32, b: u32)   ensures b < 32, r == a << b   (bits shifted out are dropped)
// ------------------------------------------------------------------------------------------------------------
#[kani::proof]
fn u32_shl() {
    let a: u32 = kani::any();
    let b: u32 = kani::any();
    kani::assume(b < 32);
    let r = a << b;
    // (a * 2^b) mod 2^32, computed without a 32-bit shift
    assert!(r as u64 == ((a as u64) * (1u64 << b)) % (1u64 << 32));
}
#[kani::proof]
#[kani::should_panic]
fn u32_shl_ge32_never_returns() {
    let a: u32 = kani::any();
    let b: u32 = kani::any();
    kani::assume(b >= 32);
    let _ = a << b;
    returned();
}

// ------------------------------------------------------------------------------------------------------------
// model/idv_ext.rs   to_be_bytes / from_be_bytes
//   be_u32(x) = [x/2^24 % 256, x/2^16 % 256, x/2^8 % 256, x % 256]   (be_u64 likewise)
//   be_val(s) = be_val(s.drop_last()) * 256 + s.last()
// ------------------------------------------------------------------------------------------------------------
#[kani::proof]
fn u32_to_be_bytes() {
    let x: u32 = kani::any();
    let r = x.to_be_bytes();
    let v = x as u64;
    assert!(r == [((v / 0x1000000) % 256) as u8, ((v / 0x10000) % 256) as u8, ((v / 0x100) % 256) as u8, (v % 256) as u8]);
}
#[kani::proof]
fn u64_to_be_bytes() {
    let x: u64 = kani::any();
    let r = x.to_be_bytes();
    let v = x as u128;
    assert!(
        r == [
            ((v / 0x100000000000000) % 256) as u8,
            ((v / 0x1000000000000) % 256) as u8,
            ((v / 0x10000000000) % 256) as u8,
            ((v / 0x100000000) % 256) as u8,
            ((v / 0x1000000) % 256) as u8,
            ((v / 0x10000) % 256) as u8,
            ((v / 0x100) % 256) as u8,
            (v % 256) as u8
        ]
    );
}
#[kani::proof]
fn u32_from_be_bytes() {
    let b: [u8; 4] = kani::any();
    let r = u32::from_be_bytes(b);
    let be_val = (((b[0] as u64) * 256 + b[1] as u64) * 256 + b[2] as u64) * 256 + b[3] as u64;
    assert!(r as u64 == be_val);
}
#[kani::proof]
fn u64_from_be_bytes() {
    let b: [u8; 8] = kani::any();
    let r = u64::from_be_bytes(b);
    let mut be_val: u128 = 0;
    be_val = be_val * 256 + b[0] as u128;
    be_val = be_val * 256 + b[1] as u128;
    be_val = be_val * 256 + b[2] as u128;
    be_val = be_val * 256 + b[3] as u128;
    be_val = be_val * 256 + b[4] as u128;
    be_val = be_val * 256 + b[5] as u128;
    be_val = be_val * 256 + b[6] as u128;
    be_val = be_val * 256 + b[7] as u128;
    assert!(r as u128 == be_val);
}
