// Verus proof of the integer lemma that links harness `u32_div_ceil_via_divrem` to the assumed specification of
// `u32::div_ceil` in model/votes_ext.rs (`r == (a + rhs - 1) / rhs`).  Run:  verus kani/stdspec/lemma_div_ceil.rs
use vstd::prelude::*;
verus! {
pub proof fn lemma_div_ceil(a: int, b: int)
    requires a >= 0, b > 0,
    ensures (a + b - 1) / b == a / b + (if a % b > 0 { 1int } else { 0int }),
{
    let q = a / b;
    let m = a % b;
    vstd::arithmetic::div_mod::lemma_fundamental_div_mod(a, b);      // a == b * q + m
    vstd::arithmetic::div_mod::lemma_mod_bound(a, b);                // 0 <= m < b
    assert(b * q == q * b) by (nonlinear_arith);
    if m > 0 {
        // a + b - 1 == (q + 1) * b + (m - 1),  0 <= m - 1 < b
        assert((q + 1) * b == q * b + b) by (nonlinear_arith);
        vstd::arithmetic::div_mod::lemma_fundamental_div_mod_converse(a + b - 1, b, q + 1, m - 1);
    } else {
        // a + b - 1 == q * b + (b - 1)
        vstd::arithmetic::div_mod::lemma_fundamental_div_mod_converse(a + b - 1, b, q, b - 1);
    }
}
fn main() {}
}
