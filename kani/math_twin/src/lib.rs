//! Counterexample twin of C12: the division-free floor / ceiling characterisation asserted over the verbatim
//! `div_floor` / `div_ceil` of the repository (see build.rs for what exactly is extracted).
//!
//!   div_floor(a, b) == None   <=>  b == 0 || (a == i128::MIN && b == -1)          (likewise div_ceil)
//!   div_floor(a, b) == Some(q) ==>  b > 0:  q*b <= a <  (q+1)*b        b < 0:  q*b >= a >  (q+1)*b
//!   div_ceil (a, b) == Some(q) ==>  b > 0:  (q-1)*b <  a <= q*b        b < 0:  (q-1)*b >  a >= q*b
//!
//! The products are taken in i128; the operand ranges of the `char` harnesses are chosen so that for every q that
//! satisfies the characterisation no intermediate overflows, and a `checked_*` overflow therefore is a violation:
//!   * `*_char_i8range`:   a, b in [-128, 127]  — the one range on which CBMC finishes the UNSAT proof (the function under
//!                         check divides 128-bit values whatever the range of the inputs)
//!   * `*_char_i64range_unfinished`:  a, b in [i64::MIN, i64::MAX]      (|q*b| <= |a| + |b| < 2^65)
//!   * `*_char_i128_unfinished`:      |a|, |b| <= 2^125                 (|q*b| <= |a| + |b| <= 2^126, |q*b ± b| < 2^127)
//! `*_none_iff` (finishes) and `*_vs_trunc_i128_unfinished` run on all of i128 x i128.
//! The `_unfinished` harnesses time out on the unmodified repository (no verdict: NOT a proof); their use is the other
//! direction — on a wrong `div_floor`/`div_ceil` they produce a concrete failing input within seconds (README.md).
#![cfg(kani)]
mod helpers {
    #![allow(dead_code)]
    include!(concat!(env!("OUT_DIR"), "/i128_fixed_point_helpers.rs"));
    pub fn floor(a: i128, b: i128) -> Option<i128> {
        div_floor(a, b)
    }
    pub fn ceil(a: i128, b: i128) -> Option<i128> {
        div_ceil(a, b)
    }
}
use helpers::{ceil, floor};

const MIN: i128 = i128::MIN;

/// q*b <= a < (q+1)*b  (b > 0)   /   q*b >= a > (q+1)*b  (b < 0);  any overflow = violation (see module comment)
fn is_floor(q: i128, a: i128, b: i128) -> bool {
    let Some(p) = q.checked_mul(b) else { return false };
    let Some(p1) = p.checked_add(b) else { return false }; // (q+1)*b
    if b > 0 {
        p <= a && a < p1
    } else {
        p >= a && a > p1
    }
}
/// (q-1)*b < a <= q*b  (b > 0)   /   (q-1)*b > a >= q*b  (b < 0)
fn is_ceil(q: i128, a: i128, b: i128) -> bool {
    let Some(p) = q.checked_mul(b) else { return false };
    let Some(p0) = p.checked_sub(b) else { return false }; // (q-1)*b
    if b > 0 {
        p0 < a && a <= p
    } else {
        p0 > a && a >= p
    }
}
fn any_i64range() -> i128 {
    let x: i64 = kani::any();
    x as i128
}
fn any_i8range() -> i128 {
    let x: i8 = kani::any();
    x as i128
}
fn any_le_2p125() -> i128 {
    let x: i128 = kani::any();
    kani::assume(-(1i128 << 125) <= x && x <= (1i128 << 125));
    x
}

#[kani::proof]
fn div_floor_none_iff() {
    let (a, b): (i128, i128) = (kani::any(), kani::any());
    assert!(floor(a, b).is_none() == (b == 0 || (a == MIN && b == -1)));
}
#[kani::proof]
fn div_ceil_none_iff() {
    let (a, b): (i128, i128) = (kani::any(), kani::any());
    assert!(ceil(a, b).is_none() == (b == 0 || (a == MIN && b == -1)));
}

#[kani::proof]
fn div_floor_char_i64range_unfinished() {
    let (a, b) = (any_i64range(), any_i64range());
    if let Some(q) = floor(a, b) {
        assert!(is_floor(q, a, b));
    }
}
#[kani::proof]
fn div_ceil_char_i64range_unfinished() {
    let (a, b) = (any_i64range(), any_i64range());
    if let Some(q) = ceil(a, b) {
        assert!(is_ceil(q, a, b));
    }
}
#[kani::proof]
fn div_floor_char_i8range() {
    let (a, b) = (any_i8range(), any_i8range());
    if let Some(q) = floor(a, b) {
        assert!(is_floor(q, a, b));
    }
}
#[kani::proof]
fn div_ceil_char_i8range() {
    let (a, b) = (any_i8range(), any_i8range());
    if let Some(q) = ceil(a, b) {
        assert!(is_ceil(q, a, b));
    }
}
#[kani::proof]
fn div_floor_char_i128_unfinished() {
    let (a, b) = (any_le_2p125(), any_le_2p125());
    if let Some(q) = floor(a, b) {
        assert!(is_floor(q, a, b));
    }
}
#[kani::proof]
fn div_ceil_char_i128_unfinished() {
    let (a, b) = (any_le_2p125(), any_le_2p125());
    if let Some(q) = ceil(a, b) {
        assert!(is_ceil(q, a, b));
    }
}

/// all of i128 x i128, relative to Rust's truncating `/` and `%` (q0 = a / b, r0 = a % b: a == q0*b + r0, |r0| < |b|,
/// r0 == 0 or sign(r0) == sign(a)):   floor = q0 - [r0 != 0 && sign(r0) != sign(b)],  ceil = q0 + [r0 != 0 && sign(r0) == sign(b)]
#[kani::proof]
fn div_floor_vs_trunc_i128_unfinished() {
    let (a, b): (i128, i128) = (kani::any(), kani::any());
    kani::assume(b != 0 && !(a == MIN && b == -1));
    let (q0, r0) = (a / b, a % b);
    let adj = r0 != 0 && ((r0 < 0) != (b < 0));
    assert!(floor(a, b) == q0.checked_sub(if adj { 1 } else { 0 }));
}
#[kani::proof]
fn div_ceil_vs_trunc_i128_unfinished() {
    let (a, b): (i128, i128) = (kani::any(), kani::any());
    kani::assume(b != 0 && !(a == MIN && b == -1));
    let (q0, r0) = (a / b, a % b);
    let adj = r0 != 0 && ((r0 < 0) == (b < 0));
    assert!(ceil(a, b) == q0.checked_add(if adj { 1 } else { 0 }));
}
