#!/usr/bin/env bash
# Counterexample twin of C12 (fixed-point mul-div helpers).  Usage:  kani/math_twin/run.sh [harness ...]
#   VERIF_REPO=<dir>  repository whose i128_fixed_point.rs is checked (default /repo)
#   KANI_TIMEOUT=<s>  per-harness limit (default 120)     KANI_JOBS=<n> concurrent harnesses (default 8)
# Prints one line per harness:  <name> <SUCCESS|FAILURE|TIMEOUT> <seconds>; after a FAILURE line, the failed check and
# the concrete input found by Kani (`--concrete-playback=print`: decimal values in the order of the kani::any() calls,
# i.e. first `a` (= r of the repository function) then `b` (= z)).  Exit 0 iff no FAILURE; 2 on build / source mismatch.
set -u
cd "$(dirname "$(readlink -f "$0")")"
# build output records absolute paths: a target directory that was built at another location (a copied tree, a removed
# worktree) is discarded
if [ -d target ] && [ "$(cat target/.verif-path 2>/dev/null)" != "$PWD" ]; then rm -rf target; fi
mkdir -p target; echo "$PWD" > target/.verif-path
export VERIF_REPO="${VERIF_REPO:-/repo}"
export CARGO_NET_OFFLINE=true
T="${KANI_TIMEOUT:-120}"
J="${KANI_JOBS:-8}"
LOGDIR="${KANI_LOGDIR:-/var/tmp/kani_math_twin_logs}"; mkdir -p "$LOGDIR"
ulimit -v 25165824 2>/dev/null || true                    # 24 GB address space per process
SRC="$VERIF_REPO/packages/contract-utils/src/math/i128_fixed_point.rs"

if ! timeout 600 cargo kani --only-codegen > "$LOGDIR/build.log" 2>&1; then
    echo "BUILD FAILURE (see $LOGDIR/build.log)"; tail -n 20 "$LOGDIR/build.log"; exit 2
fi
# the compiled text is the repository's text: independent extraction (line ranges `/// …` + `fn NAME(` … first `}` at column 0)
COPY=$(ls -t target/kani/*/debug/build/verif-kani-math-twin*/*/out/i128_fixed_point_helpers.rs target/kani/*/debug/build/verif-kani-math-twin-*/out/i128_fixed_point_helpers.rs 2>/dev/null | head -n 1)
for name in div_floor div_ceil; do
    awk -v n="$name" '/^\/\/\//{doc=doc $0 "\n"; next} $0 ~ "^fn " n "\\(" {printf "%s", doc; p=1} {if(!p) doc=""} p{print} p&&/^}/{exit}' "$SRC" > "$LOGDIR/$name.expected"
    awk -v n="$name" '/^\/\/\//{doc=doc $0 "\n"; next} $0 ~ "^fn " n "\\(" {printf "%s", doc; p=1} {if(!p) doc=""} p{print} p&&/^}/{exit}' "$COPY" > "$LOGDIR/$name.compiled"
    if ! [ -s "$LOGDIR/$name.expected" ] || ! cmp -s "$LOGDIR/$name.expected" "$LOGDIR/$name.compiled"; then
        echo "SOURCE MISMATCH $name ($SRC vs $COPY)"; exit 2
    fi
done
echo "# source: $SRC  fn div_floor + fn div_ceil (verbatim extract: $COPY)"

ALL="div_floor_char_i128_unfinished div_ceil_char_i128_unfinished div_floor_char_i64range_unfinished div_ceil_char_i64range_unfinished
     div_floor_vs_trunc_i128_unfinished div_ceil_vs_trunc_i128_unfinished div_floor_char_i8range div_ceil_char_i8range
     div_floor_none_iff div_ceil_none_iff"
HARNESSES="${*:-$ALL}"

run_one() {
    h=$1; t0=$(date +%s.%N)
    timeout -k 5 "$T" cargo kani --exact --harness "$h" -Z concrete-playback --concrete-playback=print > "$LOGDIR/$h.log" 2>&1
    st=$?
    dt=$(printf "%.1f" "$(echo "$(date +%s.%N) - $t0" | bc)")
    if [ $st -eq 124 ] || [ $st -eq 137 ]; then res=TIMEOUT
    elif [ $st -eq 0 ] && grep -q "^VERIFICATION:- SUCCESSFUL" "$LOGDIR/$h.log" && grep -q "1 successfully verified harnesses, 0 failures, 1 total" "$LOGDIR/$h.log"; then res=SUCCESS
    else res=FAILURE; fi
    {
        echo "$h $res $dt"
        if [ "$res" = FAILURE ]; then
            grep -A3 "^Failed Checks:" "$LOGDIR/$h.log" | sed 's/^/    /'
            # decimal values printed by concrete playback as `// <value>` above each byte vector
            vals=$(awk '/^Concrete playback unit test/{p=1} p' "$LOGDIR/$h.log" | grep -oE '^ *// -?[0-9]+$' | tr -d ' /' | tr '\n' ' ')
            if [ -n "$vals" ]; then echo "    counterexample (kani::any() order: a b): $vals"
            else echo "    (no concrete playback in $LOGDIR/$h.log)"; tail -n 5 "$LOGDIR/$h.log" | sed 's/^/    /'; fi
        fi
    } > "$LOGDIR/$h.res"
}
export -f run_one; export T LOGDIR
for h in $HARNESSES; do rm -f "$LOGDIR/$h.res"; done
printf '%s\n' $HARNESSES | xargs -P "$J" -I{} bash -c 'run_one {}'
rc=0
for h in $HARNESSES; do
    if [ -f "$LOGDIR/$h.res" ]; then cat "$LOGDIR/$h.res"; else echo "$h FAILURE 0.0"; fi
    grep -q "^$h FAILURE" "$LOGDIR/$h.res" 2>/dev/null && rc=1
    [ -f "$LOGDIR/$h.res" ] || rc=1
done
exit $rc
