//! Extracts, TEXTUALLY and unchanged, the two private free functions `div_floor` and `div_ceil` from
//! `$VERIF_REPO/packages/contract-utils/src/math/i128_fixed_point.rs` (default /repo) into
//! `$OUT_DIR/i128_fixed_point_helpers.rs`.  The rest of that file (the `SorobanMulDiv for i128` impl, `mul_div_i128`,
//! `checked_mul_div_i128`) needs `soroban_sdk::{Env, I256, panic_with_error}` and is NOT compiled here.
//!
//! What is extracted for each NAME in {div_floor, div_ceil}: the unique line starting with `fn NAME(` at column 0,
//! the contiguous block of `///` lines directly above it, and everything up to and including the `}` that closes the
//! first `{` after `fn NAME(` (brace matching; `//` comments are skipped, the functions contain no string/char
//! literals — the build fails if a `"` or `'` occurs inside, rather than guessing).  Nothing is rewritten.
use std::{env, fs, path::PathBuf};

fn extract(src: &str, name: &str) -> String {
    let pat = format!("\nfn {name}(");
    let hits: Vec<usize> = src.match_indices(&pat).map(|(i, _)| i + 1).collect();
    assert!(hits.len() == 1, "expected exactly one `fn {name}(` at column 0, found {}", hits.len());
    let fn_start = hits[0];
    // doc comment block directly above
    let mut start = fn_start;
    loop {
        let before = &src[..start];
        let prev_line_start = before[..before.len().saturating_sub(1)].rfind('\n').map(|i| i + 1).unwrap_or(0);
        let prev_line = &src[prev_line_start..start];
        if start > 0 && prev_line.starts_with("///") {
            start = prev_line_start;
        } else {
            break;
        }
    }
    // brace matching from the first `{`
    let bytes = src.as_bytes();
    let mut i = fn_start + src[fn_start..].find('{').expect("no body");
    let mut depth = 0usize;
    loop {
        match bytes[i] {
            b'/' if bytes.get(i + 1) == Some(&b'/') => {
                while bytes[i] != b'\n' {
                    i += 1;
                }
                continue;
            }
            b'"' | b'\'' => panic!("literal inside `{name}`: the textual extractor does not handle it"),
            b'{' => depth += 1,
            b'}' => {
                depth -= 1;
                if depth == 0 {
                    break;
                }
            }
            _ => {}
        }
        i += 1;
    }
    src[start..=i].to_string()
}

fn main() {
    let repo = env::var("VERIF_REPO").unwrap_or_else(|_| "/repo".to_string());
    let path = PathBuf::from(&repo).join("packages/contract-utils/src/math/i128_fixed_point.rs");
    println!("cargo:rerun-if-env-changed=VERIF_REPO");
    println!("cargo:rerun-if-changed={}", path.display());
    println!("cargo:rerun-if-changed=build.rs");
    let src = fs::read_to_string(&path).unwrap_or_else(|e| panic!("cannot read {}: {e}", path.display()));
    let out = format!("{}\n\n{}\n", extract(&src, "div_floor"), extract(&src, "div_ceil"));
    let dst = PathBuf::from(env::var("OUT_DIR").unwrap()).join("i128_fixed_point_helpers.rs");
    fs::write(&dst, out).unwrap();
}
