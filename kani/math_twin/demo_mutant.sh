#!/usr/bin/env bash
# Demonstration that the twin yields concrete inputs: runs it on a scratch copy of i128_fixed_point.rs in which
# div_floor no longer subtracts 1 (`if remainder > 0 { 1 }` -> `{ 0 }`).  Nothing under /repo or /verif is modified;
# the scratch directory (mutated file + a copy of this crate with its own target dir) is deleted afterwards.
# Expected: FAILURE lines for the div_floor_* harnesses, each followed by `counterexample (...): <a> <b>`; exit status 1.
set -u
HERE="$(dirname "$(readlink -f "$0")")"
REPO="${VERIF_REPO:-/repo}"
S=$(mktemp -d /var/tmp/math_twin_demo.XXXXXX); trap 'rm -rf "$S"' EXIT
mkdir -p "$S/repo/packages/contract-utils/src/math" "$S/crate"
F=packages/contract-utils/src/math/i128_fixed_point.rs
sed 's|(r / z).checked_sub(if remainder > 0 { 1 } else { 0 })|(r / z).checked_sub(if remainder > 0 { 0 } else { 0 })|' "$REPO/$F" > "$S/repo/$F"
if cmp -s "$REPO/$F" "$S/repo/$F"; then echo "mutation did not apply"; exit 2; fi
diff "$REPO/$F" "$S/repo/$F"
cp "$HERE"/{Cargo.toml,build.rs,run.sh} "$S/crate/"; cp -r "$HERE/src" "$S/crate/"
VERIF_REPO="$S/repo" KANI_LOGDIR="$S/logs" KANI_TIMEOUT="${KANI_TIMEOUT:-60}" "$S/crate/run.sh" ${@:-div_floor_char_i128_unfinished div_floor_char_i64range_unfinished div_floor_vs_trunc_i128_unfinished div_floor_char_i8range div_floor_none_iff}
