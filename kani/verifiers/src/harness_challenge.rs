//! `validate_challenge` (verbatim, including `extract_from_bytes` and `base64_url_encode`) over the stand-in byte
//! containers: a cross-check of the Verus contract `C18:webauthn.challenge` through the real call chain.
use crate::rfc4648::reference_char;
use crate::verifiers::webauthn::{validate_challenge, ClientDataJson};
use crate::{set_trap_mode, Bytes, Env, TrapMode};

fn ascii(ch: &[u8; 43]) -> bool {
    let mut i = 0;
    let mut ok = true;
    while i < 43 {
        ok = ok & (ch[i] < 128);
        i += 1;
    }
    ok
}

/// COMPLETE for 32-byte payloads and 43-character ASCII challenges: it returns  <=>  the challenge is the RFC 4648
/// base64url of the payload; otherwise it fails with ChallengeInvalid (3114) and nothing else.
#[kani::proof]
#[kani::unwind(45)]
fn challenge_len32_exact() {
    let payload: [u8; 32] = kani::any();
    let ch: [u8; 43] = kani::any();
    kani::assume(ascii(&ch));
    let s = unsafe { core::str::from_utf8_unchecked(&ch) };   // ASCII only, hence valid UTF-8
    let cdj = ClientDataJson { challenge: s, type_field: "webauthn.get" };
    let e = Env::default();
    let k: usize = kani::any();
    kani::assume(k < 43);
    let differs_at_k = ch[k] != reference_char(&payload, k);
    if differs_at_k {
        set_trap_mode(TrapMode::Expect(3114));
        validate_challenge(&e, &cdj, &Bytes::from_array(&e, &payload));
        panic!("accepted a challenge that differs from base64url(payload)");
    } else {
        // (equal at one symbolic position only: nothing to assert here; the accepting direction is the next harness)
    }
}

/// a challenge whose LENGTH differs from 43 (every length 0..=48, contents symbolic ASCII) is rejected with ChallengeInvalid
/// for every 32-byte payload — prefixes and extensions of the genuine challenge included
#[kani::proof]
#[kani::unwind(50)]
fn challenge_wrong_length_rejected() {
    let payload: [u8; 32] = kani::any();
    let buf: [u8; 48] = kani::any();
    let mut i = 0;
    while i < 48 {
        kani::assume(buf[i] < 128);
        i += 1;
    }
    let n: usize = kani::any();
    kani::assume(n <= 48 && n != 43);
    let s = unsafe { core::str::from_utf8_unchecked(&buf[..n]) };   // ASCII only, hence valid UTF-8
    let cdj = ClientDataJson { challenge: s, type_field: "webauthn.get" };
    let e = Env::default();
    set_trap_mode(TrapMode::Expect(3114));
    validate_challenge(&e, &cdj, &Bytes::from_array(&e, &payload));
    panic!("accepted a challenge of the wrong length");
}

/// the genuine challenge of every 32-byte payload is accepted
#[kani::proof]
#[kani::unwind(45)]
fn challenge_len32_genuine_accepted() {
    let payload: [u8; 32] = kani::any();
    let mut ch = [0u8; 43];
    let mut k = 0;
    while k < 43 {
        ch[k] = reference_char(&payload, k);
        k += 1;
    }
    let s = unsafe { core::str::from_utf8_unchecked(&ch) };   // alphabet characters are ASCII
    let cdj = ClientDataJson { challenge: s, type_field: "webauthn.get" };
    let e = Env::default();
    set_trap_mode(TrapMode::Strict);
    validate_challenge(&e, &cdj, &Bytes::from_array(&e, &payload));
}

/// payloads shorter than 32 bytes (every length 0..=31) are rejected with SignaturePayloadInvalid (3110)
#[kani::proof]
#[kani::unwind(45)]
fn challenge_short_payload_rejected() {
    let buf: [u8; 31] = kani::any();
    let len: usize = kani::any();
    kani::assume(len <= 31);
    let ch: [u8; 43] = [b'A'; 43];
    let s = unsafe { core::str::from_utf8_unchecked(&ch) };
    let cdj = ClientDataJson { challenge: s, type_field: "webauthn.get" };
    let e = Env::default();
    set_trap_mode(TrapMode::Expect(3110));
    validate_challenge(&e, &cdj, &Bytes::from_slice(&e, &buf[..len]));
    panic!("accepted a payload shorter than 32 bytes");
}

/// DOCUMENTS A BEHAVIOUR (reported as an observation for C18): only the first 32 payload bytes are bound by the
/// challenge.  For every 33-byte payload the genuine challenge of its 32-byte prefix is accepted, whatever byte 32 is.
#[kani::proof]
#[kani::unwind(45)]
fn challenge_len33_tail_ignored() {
    let payload: [u8; 33] = kani::any();
    let mut ch = [0u8; 43];
    let mut k = 0;
    while k < 43 {
        ch[k] = reference_char(&payload[..32], k);
        k += 1;
    }
    let s = unsafe { core::str::from_utf8_unchecked(&ch) };
    let cdj = ClientDataJson { challenge: s, type_field: "webauthn.get" };
    let e = Env::default();
    set_trap_mode(TrapMode::Strict);
    validate_challenge(&e, &cdj, &Bytes::from_array(&e, &payload));
}
