//! The three WebAuthn flag validators (verbatim) for ALL 256 values of the flags byte, both directions:
//! a validator returns exactly when the flag condition holds, and otherwise fails with exactly its own error code.
use crate::verifiers::webauthn::{
    validate_backup_eligibility_and_state, validate_user_present_bit_set, validate_user_verified_bit_set,
};
use crate::{set_trap_mode, Env, TrapMode};

/// bit `k` of the flags byte, arithmetically (https://www.w3.org/TR/webauthn-2/#flags: bit 0 UP, 2 UV, 3 BE, 4 BS)
fn bit(flags: u8, k: u32) -> bool { (flags / (1u8 << k)) % 2 == 1 }
fn up(f: u8) -> bool { bit(f, 0) }
fn uv(f: u8) -> bool { bit(f, 2) }
fn backup_consistent(f: u8) -> bool { !bit(f, 4) || bit(f, 3) }

macro_rules! exact {
    ($name:ident, $validator:ident, $good:ident, $code:expr) => {
        #[kani::proof]
        fn $name() {
            let flags: u8 = kani::any();
            let e = Env::default();
            if $good(flags) {
                set_trap_mode(TrapMode::Strict);          // any contract error is a failure
                $validator(&e, flags);
            } else {
                set_trap_mode(TrapMode::Expect($code));   // must fail, with exactly this code
                $validator(&e, flags);
                panic!("validator accepted a flags byte it must reject");
            }
        }
    };
}
exact!(flags_user_present_exact, validate_user_present_bit_set, up, 3116);
exact!(flags_user_verified_exact, validate_user_verified_bit_set, uv, 3117);
exact!(flags_backup_state_exact, validate_backup_eligibility_and_state, backup_consistent, 3118);

/// the sequence `verify` runs: all three return  <=>  UP and UV set and (BS => BE)
#[kani::proof]
fn flags_all_three_exact() {
    let flags: u8 = kani::any();
    let e = Env::default();
    let ok = up(flags) && uv(flags) && backup_consistent(flags);
    set_trap_mode(if ok { TrapMode::Strict } else { TrapMode::Revert });
    validate_user_present_bit_set(&e, flags);
    validate_user_verified_bit_set(&e, flags);
    validate_backup_eligibility_and_state(&e, flags);
    assert!(ok, "all three validators returned on a bad flags byte");
}
