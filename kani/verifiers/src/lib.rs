//! Kani harnesses for property C18 over the VERBATIM verifier sources of the repository (see build.rs).
#![allow(dead_code, unused_imports, static_mut_refs)]
extern crate self as soroban_sdk;   // `use soroban_sdk::{..}` in the mounted sources resolves to the stand-in below
mod sdk_stub;
pub use sdk_stub::*;
pub use verif_sdk_stub_macros::{contracterror, contracttype};

include!(concat!(env!("OUT_DIR"), "/wiring.rs"));   // pub mod verifiers { ed25519, utils, webauthn } = copies of the real files

pub mod rfc4648;
#[cfg(kani)]
mod harness_base64;
#[cfg(kani)]
mod harness_flags;
#[cfg(kani)]
mod harness_challenge;
