//! Independent reference for RFC 4648 section 5 (base64url) WITHOUT padding, written from the RFC text:
//! character-by-character and arithmetic (bit string of the input, 6 bits per output character, most significant
//! bit first, missing bits zero) — deliberately NOT the 3-bytes-into-a-word / table-lookup structure of the code.

/// Table 2 of RFC 4648: 0..25 'A'..'Z', 26..51 'a'..'z', 52..61 '0'..'9', 62 '-', 63 '_'
pub fn url_char(v: u8) -> u8 {
    if v < 26 { b'A' + v } else if v < 52 { b'a' + (v - 26) } else if v < 62 { b'0' + (v - 52) } else if v == 62 { b'-' } else { b'_' }
}
/// number of characters of the unpadded encoding of `n` octets
pub fn encoded_len(n: usize) -> usize { (n * 8 + 5) / 6 }
/// bit `i` (0 = most significant bit of octet 0) of the input, zero beyond the end
fn bit(src: &[u8], i: usize) -> u8 {
    if i / 8 < src.len() { (src[i / 8] / (1u8 << (7 - (i % 8) as u32))) % 2 } else { 0 }
}
/// the `k`-th output character
pub fn reference_char(src: &[u8], k: usize) -> u8 {
    let mut v = 0u8;
    let mut j = 0;
    while j < 6 {
        v = v * 2 + bit(src, 6 * k + j);
        j += 1;
    }
    url_char(v)
}
