//! Minimal stand-in for the parts of `soroban_sdk` that the verifier sources name, over plain Rust data, so that the
//! VERBATIM files compile and run under Kani.  Only what the harnesses exercise has to be faithful:
//!   * `panic_with_error!(e, err)` -> `trap(err as u32)` (see `TrapMode`);
//!   * `Bytes` / `BytesN` / `BytesBuffer`: byte containers with the SDK's slicing / copying behaviour
//!     (read off soroban-sdk-25.0.2/src/bytes.rs);
//!   * the crypto functions are NOT modelled (they abort the path): no harness depends on them.
use core::ops::{Bound, RangeBounds};

#[derive(Clone, Copy, PartialEq, Eq, Debug)]
pub enum TrapMode {
    /// a contract error is a verification failure (used to show "never rejects ...")
    Strict,
    /// a contract error ends the execution path silently: partial correctness ("if it returns, then ...")
    Revert,
    /// a contract error must carry exactly this code; the path then ends
    Expect(u32),
}
static mut TRAP_MODE: TrapMode = TrapMode::Strict;
pub fn set_trap_mode(m: TrapMode) { unsafe { TRAP_MODE = m } }

pub fn trap(code: u32) -> ! {
    match unsafe { TRAP_MODE } {
        TrapMode::Strict => panic!("contract error {}", code),
        TrapMode::Revert => end_path(),
        TrapMode::Expect(c) => {
            assert!(code == c, "unexpected contract error code");
            end_path()
        }
    }
}
#[cfg(kani)]
fn end_path() -> ! { kani::assume(false); loop {} }
#[cfg(not(kani))]
fn end_path() -> ! { panic!("reverted") }

#[macro_export]
macro_rules! panic_with_error {
    ($e:expr, $err:expr) => {{ let _ = &$e; $crate::trap($err as u32) }};
}

#[derive(Clone, Debug, Default)]
pub struct Env;
impl Env {
    pub fn crypto(&self) -> Crypto { Crypto }
}
pub struct Crypto;
pub struct Hash<const N: usize>([u8; N]);
impl<const N: usize> Hash<N> {
    pub fn to_array(&self) -> [u8; N] { self.0 }
}
impl Crypto {
    pub fn sha256(&self, _data: &Bytes) -> Hash<32> { end_path() }
    pub fn ed25519_verify(&self, _k: &BytesN<32>, _m: &Bytes, _s: &BytesN<64>) { end_path() }
    pub fn secp256r1_verify(&self, _k: &BytesN<65>, _d: &Hash<32>, _s: &BytesN<64>) { end_path() }
}

#[derive(Clone, Debug, PartialEq, Eq)]
pub struct Bytes(pub Vec<u8>);
impl Bytes {
    pub fn from_slice(_e: &Env, s: &[u8]) -> Self { Bytes(s.to_vec()) }
    pub fn from_array<const N: usize>(_e: &Env, a: &[u8; N]) -> Self { Bytes(a.to_vec()) }
    pub fn len(&self) -> u32 { self.0.len() as u32 }
    pub fn get(&self, i: u32) -> Option<u8> { self.0.get(i as usize).copied() }
    pub fn extend_from_array<const N: usize>(&mut self, a: &[u8; N]) { self.0.extend_from_slice(a) }
    /// same bound arithmetic as the SDK; the host traps unless start <= end <= len
    pub fn slice(&self, r: impl RangeBounds<u32>) -> Self {
        let start = match r.start_bound() {
            Bound::Included(s) => *s,
            Bound::Excluded(s) => s.checked_add(1).expect("attempt to add with overflow"),
            Bound::Unbounded => 0,
        };
        let end = match r.end_bound() {
            Bound::Included(s) => s.checked_add(1).expect("attempt to add with overflow"),
            Bound::Excluded(s) => *s,
            Bound::Unbounded => self.len(),
        };
        assert!(start <= end && end <= self.len(), "host: bytes_slice out of bounds");
        Bytes(self.0[start as usize..end as usize].to_vec())
    }
    pub fn to_buffer<const B: usize>(&self) -> BytesBuffer<B> {
        let mut buffer = [0u8; B];
        let len = self.0.len();
        buffer[0..len].copy_from_slice(&self.0);
        BytesBuffer { buffer, len }
    }
}
#[derive(Debug, Clone, PartialEq, Eq)]
pub struct BytesBuffer<const B: usize> { buffer: [u8; B], len: usize }
impl<const B: usize> BytesBuffer<B> {
    pub fn as_slice(&self) -> &[u8] { &self.buffer[..self.len] }
}

#[derive(Clone, Debug, PartialEq, Eq)]
pub struct BytesN<const N: usize>(pub [u8; N]);
impl<const N: usize> BytesN<N> {
    pub fn from_array(_e: &Env, a: &[u8; N]) -> Self { BytesN(*a) }
    pub fn to_array(&self) -> [u8; N] { self.0 }
}

#[derive(Clone, Debug, PartialEq, Eq)]
pub struct String(pub Vec<u8>);
impl String {
    pub fn from_str(_e: &Env, s: &str) -> Self { String(s.as_bytes().to_vec()) }
}
