//! `base64_url_encode` (verbatim) against the independent RFC 4648 section 5 reference of `crate::rfc4648`.
use crate::rfc4648::{encoded_len, reference_char};
use crate::verifiers::utils::base64_url_encode;

/// COMPLETE for the production configuration of `validate_challenge`: every `src: [u8; 32]` (fully symbolic) into a
/// zeroed `[u8; 43]`.  The encoder loop runs 10 times; it is fully unwound (unwinding assertions are on, so a bound
/// that is too small is a FAILURE, not a silent truncation).  Every output position is checked (symbolic index).
#[kani::proof]
#[kani::unwind(12)]
fn base64_len32_complete() {
    let src: [u8; 32] = kani::any();
    let mut dst = [0u8; 43];
    assert!(encoded_len(32) == 43);
    base64_url_encode(&mut dst, &src);
    let k: usize = kani::any();
    kani::assume(k < 43);
    assert!(dst[k] == reference_char(&src, k));
}

/// BOUNDED: every source length 0..=12 (symbolic length, all residues mod 3, up to four full groups), symbolic
/// contents, destination = exactly the encoded length plus two symbolic guard bytes that must stay untouched.
#[kani::proof]
#[kani::unwind(8)]
fn base64_len0to12_bounded() {
    let src_buf: [u8; 12] = kani::any();
    let len: usize = kani::any();
    kani::assume(len <= 12);
    let src = &src_buf[..len];
    let n = encoded_len(len);
    let orig: [u8; 18] = kani::any();
    let mut dst_buf = orig;
    base64_url_encode(&mut dst_buf[..n + 2], src);
    let k: usize = kani::any();
    kani::assume(k < n + 2);
    if k < n {
        assert!(dst_buf[k] == reference_char(src, k));
    } else {
        assert!(dst_buf[k] == orig[k]);
    }
}

/// the length formula of the reference equals the usual closed form 4*(n/3) + {0,2,3}[n%3] (all n up to 4096)
#[kani::proof]
fn base64_encoded_len_formula() {
    let n: usize = kani::any();
    kani::assume(n <= 4096);
    let tail = if n % 3 == 0 { 0 } else { n % 3 + 1 };
    assert!(encoded_len(n) == (n / 3) * 4 + tail);
}
