// Copies the verifier sources byte-for-byte from $VERIF_REPO (default /repo) into OUT_DIR and writes the module
// wiring (`#[path]` needs a literal, so the wiring file is generated with absolute paths).
use std::{env, fs, path::PathBuf};
const FILES: &[&str] = &["webauthn.rs", "ed25519.rs", "utils/mod.rs", "utils/base64_url.rs", "utils/extract_from_bytes.rs"];
fn main() {
    println!("cargo:rerun-if-env-changed=VERIF_REPO");
    let repo = env::var("VERIF_REPO").unwrap_or_else(|_| "/repo".to_string());
    let src = PathBuf::from(&repo).join("packages/accounts/src/verifiers");
    let out = PathBuf::from(env::var("OUT_DIR").unwrap()).join("verifiers");
    fs::create_dir_all(out.join("utils")).unwrap();
    for f in FILES {
        let from = src.join(f);
        println!("cargo:rerun-if-changed={}", from.display());
        let bytes = fs::read(&from).unwrap_or_else(|e| panic!("cannot read {}: {e}", from.display()));
        fs::write(out.join(f), bytes).unwrap();
    }
    let wiring = format!(
        "pub mod verifiers {{\n    #[path = {:?}] pub mod ed25519;\n    #[path = {:?}] pub mod utils;\n    #[path = {:?}] pub mod webauthn;\n}}\n",
        out.join("ed25519.rs"), out.join("utils/mod.rs"), out.join("webauthn.rs"));
    fs::write(PathBuf::from(env::var("OUT_DIR").unwrap()).join("wiring.rs"), wiring).unwrap();
    println!("cargo:rustc-env=VERIF_SRC_COPY={}", out.display());
}
