//! `#[contracttype]` / `#[contracterror]` as identity attribute macros: the annotated item is kept unchanged
//! (the real macros add Val/XDR conversions, which the harnesses do not use).
use proc_macro::TokenStream;
#[proc_macro_attribute]
pub fn contracttype(_attr: TokenStream, item: TokenStream) -> TokenStream { item }
#[proc_macro_attribute]
pub fn contracterror(_attr: TokenStream, item: TokenStream) -> TokenStream { item }
