#!/usr/bin/env bash
# Kani harnesses of property C18 (signature verifiers).  Usage:  kani/verifiers/run.sh [harness ...]
#   VERIF_REPO=<dir>   repository whose sources are checked (default /repo); the files are copied verbatim by build.rs
#   KANI_TIMEOUT=<s>   per-harness wall-clock limit (default 240)
# Prints one line per harness:  <name> <SUCCESS|FAILURE|TIMEOUT> <seconds>   and exits 0 iff every harness succeeded.
set -u
cd "$(dirname "$(readlink -f "$0")")"
# build output records absolute paths: a target directory that was built at another location (a copied tree, a removed
# worktree) is discarded
if [ -d target ] && [ "$(cat target/.verif-path 2>/dev/null)" != "$PWD" ]; then rm -rf target; fi
mkdir -p target; echo "$PWD" > target/.verif-path
export VERIF_REPO="${VERIF_REPO:-/repo}"
export CARGO_NET_OFFLINE=true
T="${KANI_TIMEOUT:-240}"
LOGDIR="${KANI_LOGDIR:-/var/tmp/kani_verifiers_logs}"; mkdir -p "$LOGDIR"
[ -f Cargo.lock ] || cp "$VERIF_REPO/Cargo.lock" .       # pins serde / serde-json-core to the versions of the repository
ulimit -v 25165824 2>/dev/null || true                    # 24 GB address space per process (machine: 62 GB, no swap)

ALL="base64_len32_complete base64_len0to12_bounded base64_encoded_len_formula
     flags_user_present_exact flags_user_verified_exact flags_backup_state_exact flags_all_three_exact
     challenge_len32_exact challenge_wrong_length_rejected challenge_len32_genuine_accepted challenge_short_payload_rejected challenge_len33_tail_ignored"
HARNESSES="${*:-$ALL}"

# build once (so that the per-harness times below are verification times) and show that the checked text is the real text
if ! timeout 600 cargo kani --only-codegen > "$LOGDIR/build.log" 2>&1; then
    echo "BUILD FAILURE (see $LOGDIR/build.log)"; tail -n 20 "$LOGDIR/build.log"; exit 2
fi
COPY=$(ls -dt target/kani/*/debug/build/verif-kani-verifiers-*/out/verifiers target/kani/*/debug/build/verif-kani-verifiers/*/out/verifiers 2>/dev/null | head -n 1)
for f in webauthn.rs ed25519.rs utils/mod.rs utils/base64_url.rs utils/extract_from_bytes.rs; do
    if ! cmp -s "$COPY/$f" "$VERIF_REPO/packages/accounts/src/verifiers/$f"; then
        echo "SOURCE MISMATCH $f (copy in $COPY)"; exit 2
    fi
done
echo "# sources: $VERIF_REPO/packages/accounts/src/verifiers (verbatim copies in $COPY)"

rc=0
for h in $HARNESSES; do
    t0=$(date +%s.%N)
    timeout "$T" cargo kani --harness "$h" > "$LOGDIR/$h.log" 2>&1
    st=$?
    dt=$(printf "%.1f" "$(echo "$(date +%s.%N) - $t0" | bc)")
    if [ $st -eq 124 ]; then res=TIMEOUT
    elif [ $st -eq 0 ] && grep -q "^VERIFICATION:- SUCCESSFUL" "$LOGDIR/$h.log" && grep -q "1 successfully verified harnesses, 0 failures, 1 total" "$LOGDIR/$h.log"; then res=SUCCESS
    else res=FAILURE; fi
    [ "$res" = SUCCESS ] || rc=1
    echo "$h $res $dt"
done
exit $rc
