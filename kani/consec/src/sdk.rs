//! Minimal Kani-flavoured stand-in for the parts of soroban-sdk that `Consecutive::owner_of`,
//! `Consecutive::get_persistent_entry`, `find_bit_in_bucket` and `find_bit_in_item` use. TRUSTED (it plays the role
//! model/core.rs + model/vec.rs play for Verus): persistent storage is a finite table, a host vector is a bounded
//! array, `panic_with_error!` ends the execution without a successor state (partial correctness: the path is
//! pruned with `kani::assume(false)`), TTL extension is a no-op on values.
#![allow(dead_code)]

/// capacity of the shim's host vectors = the bound on the number of items per ownership bucket explored by Kani
/// (the real buckets have 100 items; see run.sh for why 100 is out of reach for CBMC here)
pub const VEC_CAP: usize = 8;

#[derive(Clone, Copy, PartialEq, Eq, Debug)]
pub struct Address(pub u8);

/// host vector of at most VEC_CAP items
#[derive(Clone, Copy)]
pub struct Vec<T: Copy> {
    pub items: [T; VEC_CAP],
    pub len: u32,
}
impl<T: Copy> Vec<T> {
    pub fn of(a: [T; VEC_CAP], len: u32) -> Self { Vec { items: a, len } }
    pub fn len(&self) -> u32 { self.len }
    pub fn get(&self, i: u32) -> Option<T> {
        if i < self.len { Some(self.items[i as usize]) } else { None }
    }
}

/// what a storage entry can hold here
#[derive(Clone, Copy)]
pub enum Val { Bool(bool), Addr(Address), VecU32(Vec<u32>) }

pub trait TryFromVal<E, V>: Sized {
    fn try_from_val(e: &E, v: &V) -> Result<Self, ()>;
}
impl TryFromVal<Env, Val> for bool {
    fn try_from_val(_e: &Env, v: &Val) -> Result<Self, ()> { if let Val::Bool(b) = v { Ok(*b) } else { Err(()) } }
}
impl TryFromVal<Env, Val> for Address {
    fn try_from_val(_e: &Env, v: &Val) -> Result<Self, ()> { if let Val::Addr(a) = v { Ok(*a) } else { Err(()) } }
}
impl TryFromVal<Env, Val> for Vec<u32> {
    fn try_from_val(_e: &Env, v: &Val) -> Result<Self, ()> { if let Val::VecU32(x) = v { Ok(*x) } else { Err(()) } }
}

/// the encoding of a storage key: (variant, argument)
#[derive(Clone, Copy, PartialEq, Eq)]
pub enum KeyKind { Approval, Owner, OwnershipBucket, BurnedToken }
pub trait StorageKey { fn parts(&self) -> (KeyKind, u32); }

pub const MAX_BUCKETS: usize = 2;
pub const MAX_MARKERS: usize = 3;

/// contract state: the id counter, at most MAX_BUCKETS ownership buckets (indices 0..MAX_BUCKETS), at most
/// MAX_MARKERS `Owner(id)` entries, one `BurnedToken(id)` entry (id symbolic)
pub struct Env {
    pub next_id: u32,
    pub buckets: [Option<Vec<u32>>; MAX_BUCKETS],
    pub owners: [Option<(u32, Address)>; MAX_MARKERS],
    pub burned: Option<(u32, bool)>,
}
pub struct Storage<'a> { e: &'a Env }
pub struct Persistent<'a> { e: &'a Env }
impl Env {
    pub fn storage(&self) -> Storage<'_> { Storage { e: self } }
    /// the entry stored under a key, if any
    pub fn lookup(&self, k: (KeyKind, u32)) -> Option<Val> {
        match k.0 {
            KeyKind::OwnershipBucket => {
                if (k.1 as usize) < MAX_BUCKETS { self.buckets[k.1 as usize].map(Val::VecU32) } else { None }
            }
            KeyKind::Owner => {
                let mut i = 0;
                while i < MAX_MARKERS {
                    if let Some((id, a)) = self.owners[i] { if id == k.1 { return Some(Val::Addr(a)); } }
                    i += 1;
                }
                None
            }
            KeyKind::BurnedToken => match self.burned { Some((id, b)) if id == k.1 => Some(Val::Bool(b)), _ => None },
            KeyKind::Approval => None,
        }
    }
}
impl<'a> Storage<'a> {
    pub fn persistent(&self) -> Persistent<'a> { Persistent { e: self.e } }
}
impl<'a> Persistent<'a> {
    pub fn get<K: StorageKey, T: TryFromVal<Env, Val>>(&self, key: &K) -> Option<T> {
        match self.e.lookup(key.parts()) {
            // a wrongly typed read traps in the host: no successor state
            Some(v) => match T::try_from_val(self.e, &v) { Ok(t) => Some(t), Err(()) => revert() },
            None => None,
        }
    }
    /// returns only if the entry exists; values are untouched
    pub fn extend_ttl<K: StorageKey>(&self, key: &K, _threshold: u32, _extend_to: u32) {
        if self.e.lookup(key.parts()).is_none() { revert() }
    }
}

/// a revert: the invocation has no successor state
pub fn revert() -> ! {
    #[cfg(kani)]
    kani::assume(false);
    panic!("revert")
}
#[macro_export]
macro_rules! panic_with_error {
    ($e:expr, $err:expr) => {{ let _ = &$e; let _ = $err; $crate::sdk::revert() }};
}
pub use crate::panic_with_error;

#[derive(Clone, Copy)]
pub enum NonFungibleTokenError { NonExistentToken = 200, IncorrectOwner = 201, InvalidAmount = 212 }

pub mod sequential {
    use super::Env;
    /// `sequential::next_token_id`: the stored counter, 0 when unset
    pub fn next_token_id(e: &Env) -> u32 { e.next_id }
}

pub const TOKEN_TTL_THRESHOLD: u32 = 1; pub const TOKEN_EXTEND_AMOUNT: u32 = 2;
pub const OWNER_TTL_THRESHOLD: u32 = 1; pub const OWNER_EXTEND_AMOUNT: u32 = 2;
pub const OWNERSHIP_TTL_THRESHOLD: u32 = 1; pub const OWNERSHIP_EXTEND_AMOUNT: u32 = 2;
