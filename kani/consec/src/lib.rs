//! Bounded Kani stand-ins for the two iterator-chain functions of the consecutive NFT extension that Verus cannot
//! take (`Consecutive::owner_of`, `find_bit_in_bucket`) plus the complete proof of `find_bit_in_item`.
//! The function text is copied verbatim from the repository by build.rs; see src/sdk.rs for the (trusted) shim.
#![allow(dead_code, unused_imports)]
pub mod sdk;
pub mod code {
    include!(concat!(env!("OUT_DIR"), "/consec_verbatim.rs"));
    impl StorageKey for NFTConsecutiveStorageKey {
        fn parts(&self) -> (KeyKind, u32) {
            match self {
                NFTConsecutiveStorageKey::Approval(i) => (KeyKind::Approval, *i),
                NFTConsecutiveStorageKey::Owner(i) => (KeyKind::Owner, *i),
                NFTConsecutiveStorageKey::OwnershipBucket(i) => (KeyKind::OwnershipBucket, *i),
                NFTConsecutiveStorageKey::BurnedToken(i) => (KeyKind::BurnedToken, *i),
            }
        }
    }
}
#[cfg(kani)]
mod harness;
