//! Kani harnesses. Partial-correctness reading throughout: a revert prunes the path (sdk::revert).
use crate::code::*;
use crate::sdk::*;

/// MSB-first bit p of a bucket — the definition `sbit` of specs/nft_consec/consec.rs
fn sbit(v: &Vec<u32>, p: u32) -> bool {
    p < v.len * 32 && (v.items[(p / 32) as usize] & (1u32 << (31 - p % 32))) != 0
}
/// token k carries a marker — the definition `bit` of specs/nft_consec/consec.rs
fn bit(e: &Env, k: u32) -> bool {
    let b = (k / 3200) as usize;
    if b < MAX_BUCKETS { match &e.buckets[b] { Some(v) => sbit(v, k % 3200), None => false } } else { false }
}

/// the constant the Verus model takes from model/consec_ext.rs instead of evaluating `mem::size_of`
#[kani::proof]
fn consts_as_modelled() {
    assert!(IDS_IN_ITEM == 32);
    assert!(ITEMS_IN_BUCKET == 100);
    assert!(IDS_IN_BUCKET == 3200);
    assert!(MAX_TOKENS_IN_BATCH == 32_000);
}

/// COMPLETE (all 2^32 x 2^32 inputs, and None): the result is the first set bit at or after `start`, MSB first
#[kani::proof]
#[kani::unwind(34)]
fn find_bit_in_item_complete() {
    let num: u32 = kani::any();
    let start: u32 = kani::any();
    assert!(find_bit_in_item(None, start).is_none());
    let r = find_bit_in_item(Some(num), start);
    let j: u32 = kani::any();
    match r {
        Some(p) => {
            assert!(p >= start && p < 32);
            assert!(num & (1u32 << (31 - p)) != 0);
            if j >= start && j < p { assert!(num & (1u32 << (31 - j)) == 0); }
        }
        None => {
            if j >= start && j < 32 { assert!(num & (1u32 << (31 - j)) == 0); }
        }
    }
    kani::cover!(r.is_some());
    kani::cover!(r.is_none() && start < 32);
}

/// closed form of `find_bit_in_item` (no loop), used by the oracle of `owner_of_bounded`; equal to the real function
/// on every input by `find_bit_in_item_equals_closed_form`
fn fbi_model(input: Option<u32>, start: u32) -> Option<u32> {
    match input {
        None => None,
        Some(num) => {
            if start >= 32 { return None; }
            let masked = num & (u32::MAX >> start);
            if masked == 0 { None } else { Some(masked.leading_zeros()) }
        }
    }
}
/// COMPLETE: `find_bit_in_item` == its closed form, all inputs
#[kani::proof]
#[kani::unwind(34)]
fn find_bit_in_item_equals_closed_form() {
    let input: Option<u32> = kani::any();
    let start: u32 = kani::any();
    assert!(find_bit_in_item(input, start) == fbi_model(input, start));
}

/// fully symbolic bucket vector of symbolic length <= VEC_CAP
fn any_bucket() -> Vec<u32> {
    let items: [u32; VEC_CAP] = kani::any();
    let len: u32 = kani::any();
    kani::assume(len <= VEC_CAP as u32);
    Vec { items, len }
}

/// BOUNDED (host vectors of up to VEC_CAP = 8 items; length, contents and start fully symbolic):
/// the result is the first set bit at or after `start` — the `@trusted` contract `fbb` of the Verus unit in the
/// "least position" form (`lemma_fbb_char`)
#[kani::proof]
#[kani::unwind(10)]
#[kani::stub(crate::code::find_bit_in_item, fbi_model)]
fn find_bit_in_bucket_bounded() {
    let v = any_bucket();
    let start: u32 = kani::any();
    let r = find_bit_in_bucket(v, start);
    let q: u32 = kani::any();
    match r {
        Some(p) => {
            assert!(p >= start && sbit(&v, p));
            if q >= start && q < p { assert!(!sbit(&v, q)); }
        }
        None => {
            if q >= start { assert!(!sbit(&v, q)); }
        }
    }
    kani::cover!(r.is_some() && r.unwrap() > start + 40);
    kani::cover!(r.is_none() && start < v.len * 32);
}

fn any_env() -> Env {
    let next_id: u32 = kani::any();
    kani::assume(next_id <= (MAX_BUCKETS as u32) * 3200);
    let mut buckets: [Option<Vec<u32>>; MAX_BUCKETS] = [None; MAX_BUCKETS];
    let mut b = 0;
    while b < MAX_BUCKETS {
        if kani::any() { buckets[b] = Some(any_bucket()); }
        b += 1;
    }
    let mut owners: [Option<(u32, Address)>; MAX_MARKERS] = [None; MAX_MARKERS];
    let mut i = 0;
    while i < MAX_MARKERS {
        if kani::any() { owners[i] = Some((kani::any(), Address(kani::any()))); }
        i += 1;
    }
    let burned = if kani::any() { Some((kani::any(), kani::any())) } else { None };
    Env { next_id, buckets, owners, burned }
}

/// BOUNDED (ids < 6400 = 2 buckets, each absent or a vector of up to 8 fully symbolic items = up to 256 marker
/// positions per bucket; at most 3 `Owner` entries at symbolic ids; one `BurnedToken` entry at a symbolic id;
/// symbolic counter and token id): if `owner_of` returns r then the id is minted and not burned, and r is the
/// `Owner` entry stored at the FIRST marked id m in [token_id, end of the bucket of the last minted id) — the
/// `@trusted` contract (`cowner`, in the "least marked id" form of `lemma_fm_char`) of the Verus unit.
/// The witness m is chosen by the solver; "first" is checked for every q.
#[kani::proof]
#[kani::unwind(10)]
#[kani::stub(crate::code::find_bit_in_item, fbi_model)]
fn owner_of_bounded() {
    let e = any_env();
    let t: u32 = kani::any();
    let r = Consecutive::owner_of(&e, t);
    // it returned: the id is minted and not burned
    assert!(t < e.next_id);
    assert!(!matches!(e.lookup((KeyKind::BurnedToken, t)), Some(Val::Bool(true))));
    let lim = ((e.next_id - 1) / 3200 + 1) * 3200;
    // oracle for the first marked id in [t, lim): item by item over the (at most 2 x 8) stored items
    let mut first: Option<u32> = None;
    let mut b = 0u32;
    while b < MAX_BUCKETS as u32 {
        if let Some(v) = &e.buckets[b as usize] {
            let mut i = 0u32;
            while i < v.len {
                let base = b * 3200 + i * 32;
                if first.is_none() && base + 31 >= t {
                    let off = if t > base { t - base } else { 0 };
                    if let Some(p) = fbi_model(Some(v.items[i as usize]), off) {
                        if base + p < lim { first = Some(base + p); }
                    }
                }
                i += 1;
            }
        }
        b += 1;
    }
    let q: u32 = kani::any();
    match first {
        Some(m) => {
            // the oracle is the least marked id >= t below lim (for every q)
            assert!(m >= t && m < lim && bit(&e, m));
            if q >= t && q < m { assert!(!bit(&e, q)); }
            // and the result is the Owner entry stored at that marker
            assert!(matches!(e.lookup((KeyKind::Owner, m)), Some(Val::Addr(a)) if a == r));
        }
        None => {
            if q >= t && q < lim { assert!(!bit(&e, q)); }
            // no marker: owner_of cannot have returned
            assert!(false);
        }
    }
    kani::cover!(true);
    kani::cover!(first.is_some() && first.unwrap() >= 3200 && t < 3200);
    kani::cover!(first.is_some() && first.unwrap() > t + 40 && first.unwrap() < 3200);
}
