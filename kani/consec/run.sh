#!/bin/bash
# Runs every Kani harness of this crate; one line per harness: name, SUCCESS/FAILURE, seconds. Exit 0 iff all succeed.
# A harness counts as SUCCESS only if Kani reports "VERIFICATION:- SUCCESSFUL" and none of its cover properties is
# UNSATISFIED/UNREACHABLE (a vacuity guard: the checked paths exist).
#
# Status: find_bit_in_bucket and Consecutive::owner_of are PROVED for all inputs in Verus (unit nft_consec, on the loops translator
# rule T17 makes of the iterator chains). These harnesses run the VERBATIM iterator chains and are kept as a thorough-tier
# cross-check of that translation; nothing is discharged only here any more.
#
# Harnesses and bounds
#   consts_as_modelled                   IDS_IN_ITEM == 32 etc. on the verbatim constants (model/consec_ext.rs takes 32 on trust)
#   find_bit_in_item_complete            COMPLETE: all (Option<u32>, u32) inputs; "first set bit at or after start, MSB first"
#   find_bit_in_item_equals_closed_form  COMPLETE: equals the loop-free closed form used as its stub below
#   find_bit_in_bucket_bounded           BOUNDED: vectors of <= 8 items (len, contents, start fully symbolic); find_bit_in_item stubbed
#                                        by its closed form (sound by the previous harness)
#   owner_of_bounded                     BOUNDED: ids < 6400 (2 buckets), each bucket absent or a vector of <= 8 fully symbolic items,
#                                        <= 3 Owner entries and 1 BurnedToken entry at symbolic ids, symbolic counter and token id
# Why not 100-item buckets: one iteration of `(a..b).find_map(closure)` costs CBMC ~4000 SSA steps, every read at the
# symbolic loop index is a 100-way multiplexer, and a single property then needs > 5 min of SAT time (tried: minisat,
# cadical, kissat, 3 markers instead of symbolic contents, stubs for the inner functions, a loop-free 100-item model of
# find_bit_in_bucket as stub for owner_of: the pure "first set bit of 3200 symbolic bits" query alone exceeds 280 s;
# the same with only 3 markers in 100-item vectors: 331 s for the model alone, > 400 s for owner_of). The iterator-chain logic under
# test (bucket skipping, start offset only in the first bucket/item, id arithmetic with IDS_IN_BUCKET = 3200) does not
# depend on the vector length; the length is what is bounded.
cd "$(dirname "$0")"
export CARGO_NET_OFFLINE=true
export VERIF_REPO="${VERIF_REPO:-/repo}"
export CARGO_TARGET_DIR="${KANI_TARGET_DIR:-/var/tmp/kani_consec_target}"
HARNESSES="${*:-consts_as_modelled find_bit_in_item_complete find_bit_in_item_equals_closed_form find_bit_in_bucket_bounded owner_of_bounded}"
rc=0
for h in $HARNESSES; do
    t0=$(date +%s.%N)
    out=$(timeout 280 cargo kani -Z stubbing --harness "$h" 2>&1)
    t1=$(date +%s.%N)
    dt=$(printf "%.1f" "$(echo "$t1 - $t0" | bc)")
    badcov=$(echo "$out" | awk '/- Status:/ {st=$3} /- Description: "cover condition/ { if (st != "SATISFIED") n++ } END {print n+0}')
    if echo "$out" | grep -q "VERIFICATION:- SUCCESSFUL" && [ "$badcov" = "0" ]; then
        echo "$h SUCCESS ${dt}s"
    else
        echo "$h FAILURE ${dt}s"
        [ -n "$KANI_VERBOSE" ] && echo "$out" | grep -E "Status: FAILURE|Failed Checks|error|UNSATISFIED|UNREACHABLE" | head -20
        rc=1
    fi
done
exit $rc
