#!/usr/bin/env bash
# Differential cross-check of the trusted SDK model (model/*.rs) against the real soroban-sdk that /repo pins (DESIGN §8.1).
# Plain `cargo test` (no Kani); lives under kani/ because it is reported like the other bounded cross-checks.
# Usage:  kani/sdkmodel/run.sh [test-name-filter ...]
#   SDKMODEL_JOBS=<n> tests run concurrently (default 8)    SDKMODEL_TIMEOUT=<s> per test (default 600)
# Prints one line per test:  <name> <SUCCESS|FAILURE|KNOWN_MISMATCH> <seconds>
#   KNOWN_MISMATCH: an `#[ignore]`d test that documents a model clause found to differ from the SDK (explained above the
#   test); it is still run, and reported SUCCESS should it start to pass.
# Exit 0 iff no FAILURE; 2 on build failure.
set -u
cd "$(dirname "$(readlink -f "$0")")"
export RUSTUP_TOOLCHAIN="${RUSTUP_TOOLCHAIN:-stable-x86_64-unknown-linux-gnu}"
export CARGO_TARGET_DIR="${SDKMODEL_TARGET_DIR:-/var/tmp/sdkmodel_target}"
export CARGO_NET_OFFLINE=true
unset RUST_BACKTRACE
J="${SDKMODEL_JOBS:-8}"; T="${SDKMODEL_TIMEOUT:-600}"
LOGDIR="${SDKMODEL_LOGDIR:-/var/tmp/sdkmodel_logs}"; mkdir -p "$LOGDIR"
if ! timeout 1800 cargo test --offline --test crosscheck --no-run --message-format=json > "$LOGDIR/build.json" 2> "$LOGDIR/build.log"; then
    echo "BUILD FAILURE (see $LOGDIR/build.log)"; tail -n 20 "$LOGDIR/build.log"; exit 2
fi
BIN=$(grep -o '"executable":"[^"]*crosscheck-[^"]*"' "$LOGDIR/build.json" | tail -n 1 | cut -d'"' -f4)
[ -x "$BIN" ] || { echo "BUILD FAILURE (test binary not found)"; exit 2; }
ALL=$("$BIN" --list --format terse 2>/dev/null | sed -n 's/: test$//p')
IGN=$("$BIN" --list --format terse --ignored 2>/dev/null | sed -n 's/: test$//p')
TESTS=""
for t in $ALL; do
    if [ $# -eq 0 ]; then TESTS="$TESTS $t"; else for f in "$@"; do case "$t" in *"$f"*) TESTS="$TESTS $t";; esac; done; fi
done
[ -n "$TESTS" ] || { echo "NO TESTS SELECTED"; exit 2; }
run_one() {
    t=$1; log="$LOGDIR/$(echo "$t" | tr ':' '_').log"; t0=$(date +%s.%N)
    timeout -k 5 "$T" "$BIN" --exact "$t" --include-ignored --test-threads 1 > "$log" 2>&1
    st=$?
    dt=$(printf "%.1f" "$(echo "$(date +%s.%N) - $t0" | bc)")
    if [ $st -eq 0 ] && grep -q "^test result: ok. 1 passed" "$log"; then res=SUCCESS; else res=FAILURE; fi
    if [ "$res" = FAILURE ] && echo " $IGN " | tr '\n' ' ' | grep -q " $t "; then res=KNOWN_MISMATCH; fi
    echo "$t $res $dt" > "$log.res"
}
export -f run_one; export BIN LOGDIR T IGN
for t in $TESTS; do rm -f "$LOGDIR/$(echo "$t" | tr ':' '_').log.res"; done
printf '%s\n' $TESTS | xargs -P "$J" -I{} bash -c 'run_one {}'
rc=0
for t in $TESTS; do
    line=$(cat "$LOGDIR/$(echo "$t" | tr ':' '_').log.res" 2>/dev/null || echo "$t FAILURE 0.0")
    echo "$line"
    case "$line" in *" FAILURE "*) rc=1;; esac
done
exit $rc
