//! model/bytes.rs (+ Bytes::slice / to_buffer of model/ci_ext.rs, the conversions of model/crypto.rs) against soroban_sdk::{Bytes, BytesN}
use soroban_sdk::{Bytes, BytesN, Env};
use verif_sdkmodel_crosscheck::*;

type S = Vec<u8>;
fn view(b: &Bytes) -> S { (0..b.len()).map(|i| b.get_unchecked(i)).collect() }
fn mk(e: &Env, s: &[u8]) -> Bytes { Bytes::from_slice(e, s) }
/// all byte strings up to length 4 over {0, 7, 255} (121) + 300 pseudo-random ones (length <= 40)
fn cases() -> Vec<S> {
    let mut c = all_seqs(4, &[0u8, 7, 255]);
    let mut g = Lcg(0xb17e5);
    for _ in 0..300 { let n = g.below(41); c.push((0..n).map(|_| g.below(256) as u8).collect()); }
    c
}
/// all indices 0..=len+1 and u32::MAX for the short strings; a sample around the ends for the long pseudo-random ones
fn indices(len: usize) -> Vec<u32> {
    let n = len as u32;
    if n <= 4 { let mut v: Vec<u32> = (0..=(n + 1)).collect(); v.push(u32::MAX); v } else { vec![0, n / 2, n - 1, n, n + 1] }
}

// model/bytes.rs:24 `new(e) ensures r@ == Seq::empty()`; :26 `from_array(e, a) ensures r@ == a@`; :28 `from_slice(e, a) ensures r@ == a@`;
// :30 `len()`; :32 `is_empty()`; :11 `clone() ensures r == *self`; :13-20 `==` is equality of the byte sequences
#[test]
fn bytes_new_from_array_from_slice_len_eq() {
    let e = env();
    assert_eq!(view(&Bytes::new(&e)), S::new());
    assert_eq!(view(&Bytes::from_array(&e, &[])), S::new());
    assert_eq!(view(&Bytes::from_array(&e, &[9u8])), vec![9]);
    assert_eq!(view(&Bytes::from_array(&e, &[9u8, 0, 255, 9, 1])), vec![9, 0, 255, 9, 1]);
    let all = cases();
    for s in &all {
        let b = mk(&e, s);
        assert_eq!(view(&b), *s);
        assert_eq!(b.len() as usize, s.len());
        assert_eq!(b.is_empty(), s.is_empty());
        assert_eq!(view(&b.clone()), *s);
    }
    for a in all.iter().take(150) { for b in all.iter().take(150) { assert_eq!(mk(&e, a) == mk(&e, b), a == b); } }
}

// model/bytes.rs:34-35 `get(i)`; :39 `get_unchecked(i) ensures i < len, r == self@[i]` (traps); :41 `first()`; :43 `last()`;
// :46 `first_unchecked() ensures len > 0, r == self@[0]`; :49 `last_unchecked() ensures len > 0, r == self@[len-1]` (trap when empty)
#[test]
fn bytes_accessors_and_their_traps() {
    let e = env();
    for s in cases() {
        let b = mk(&e, &s);
        let n = s.len();
        for i in indices(n) {
            assert_eq!(b.get(i), if (i as usize) < n { Some(s[i as usize]) } else { None });
            if let Some(x) = returns_iff((i as usize) < n, "Bytes::get_unchecked", || b.get_unchecked(i)) { assert_eq!(x, s[i as usize]); }
        }
        assert_eq!(b.first(), s.first().cloned());
        assert_eq!(b.last(), s.last().cloned());
        if let Some(x) = returns_iff(n > 0, "Bytes::first_unchecked", || b.first_unchecked()) { assert_eq!(x, s[0]); }
        if let Some(x) = returns_iff(n > 0, "Bytes::last_unchecked", || b.last_unchecked()) { assert_eq!(x, s[n - 1]); }
    }
}

// model/bytes.rs:52 `set(i, x) ensures i < old.len(), final == old.update(i, x)`; :55 `insert(i, x) ensures i <= old.len(), final == old.insert(i, x)`;
// :57-59 `remove(i)` (Some and removed / None and unchanged); :63 `remove_unchecked(i) ensures i < old.len(), final == old.remove(i)`
#[test]
fn bytes_set_insert_remove_and_their_traps() {
    let e = env();
    for s in cases().into_iter().take(121 + 80) {
        let n = s.len();
        for i in indices(n) {
            let iu = i as usize;
            let mut b = mk(&e, &s);
            if returns_iff(iu < n, "Bytes::set", || b.set(i, 42)).is_some() { assert_eq!(view(&b), update(&s, iu, 42)); }
            let mut b = mk(&e, &s);
            if returns_iff(iu <= n, "Bytes::insert", || b.insert(i, 42)).is_some() { assert_eq!(view(&b), insert(&s, iu, 42)); }
            let mut b = mk(&e, &s);
            let r = b.remove(i);
            if iu < n { assert_eq!(r, Some(())); assert_eq!(view(&b), remove(&s, iu)); } else { assert_eq!(r, None); assert_eq!(view(&b), s); }
            let mut b = mk(&e, &s);
            if returns_iff(iu < n, "Bytes::remove_unchecked", || b.remove_unchecked(i)).is_some() { assert_eq!(view(&b), remove(&s, iu)); }
        }
    }
}

// model/bytes.rs:65-67 `pop_back()`; :71-72 `pop_back_unchecked() ensures old.len() > 0, r == old.last(), final == old.drop_last()`;
// :77 `push_back(x) ensures final == old.push(x)`
#[test]
fn bytes_push_back_pop_back() {
    let e = env();
    for s in cases() {
        let mut b = mk(&e, &s);
        let r = b.pop_back();
        if s.is_empty() { assert!(r.is_none()); assert_eq!(view(&b), s); } else { assert_eq!(r, s.last().cloned()); assert_eq!(view(&b), drop_last(&s)); }
        let mut b = mk(&e, &s);
        if let Some(x) = returns_iff(!s.is_empty(), "Bytes::pop_back_unchecked", || b.pop_back_unchecked()) { assert_eq!(x, *s.last().unwrap()); assert_eq!(view(&b), drop_last(&s)); }
        for x in [0u8, 1, 255] { let mut b = mk(&e, &s); b.push_back(x); assert_eq!(view(&b), push(&s, x)); }
    }
}

// model/bytes.rs:75 `append(other) ensures final == old + other@`; :79 `extend_from_array(a) ensures final == old + a@`;
// :81 `extend_from_slice(a) ensures final == old + a@`
#[test]
fn bytes_append_extend() {
    let e = env();
    let all = cases();
    for (i, a) in all.iter().enumerate() {
        for b in all.iter().skip(i % 7).step_by(7) {
            let mut x = mk(&e, a);
            let o = mk(&e, b);
            x.append(&o);
            assert_eq!(view(&x), add(a, b));
            assert_eq!(view(&o), *b);
            let mut x = mk(&e, a);
            x.extend_from_slice(b);
            assert_eq!(view(&x), add(a, b));
        }
        let mut x = mk(&e, a); x.extend_from_array(&[]); assert_eq!(view(&x), *a);
        let mut x = mk(&e, a); x.extend_from_array(&[1, 2, 3]); assert_eq!(view(&x), add(a, &[1, 2, 3]));
        let mut x = mk(&e, a); let c = x.clone(); x.append(&c); assert_eq!(view(&x), add(a, a));
    }
}

// model/ci_ext.rs:36-38 `Bytes::slice(r) ensures 0 <= r.lo() <= r.hi(len) <= len, res@ == self@.subrange(r.lo(), r.hi(len))` with
// :14-25 `a..b` -> (a, b), `..b` -> (0, b), `a..` -> (a, len)   (the host traps unless start <= end <= len)
#[test]
fn bytes_slice_traps_unless_start_le_end_le_len() {
    let e = env();
    let check = |s: &S, a: u32, b: u32| {
        let x = mk(&e, s);
        let n = s.len();
        if let Some(r) = returns_iff(a <= b && (b as usize) <= n, "Bytes::slice(a..b)", || x.slice(a..b)) { assert_eq!(view(&r), subrange(s, a as usize, b as usize)); }
        if let Some(r) = returns_iff((a as usize) <= n, "Bytes::slice(a..)", || x.slice(a..)) { assert_eq!(view(&r), subrange(s, a as usize, n)); }
        if let Some(r) = returns_iff((b as usize) <= n, "Bytes::slice(..b)", || x.slice(..b)) { assert_eq!(view(&r), subrange(s, 0, b as usize)); }
        assert_eq!(view(&x), *s);
    };
    for s in all_seqs(3, &[0u8, 7, 255]) {
        for a in 0..=(s.len() as u32 + 1) { for b in 0..=(s.len() as u32 + 1) { check(&s, a, b); } }
        for (a, b) in [(0, u32::MAX), (u32::MAX, u32::MAX), (u32::MAX, 0)] { check(&s, a, b); }
    }
    let mut g = Lcg(4711);
    for s in cases().into_iter().skip(121) {
        let a = g.u32_below(s.len() as u32 + 2);
        let b = g.u32_below(s.len() as u32 + 2);
        check(&s, a, b);
    }
}

// model/ci_ext.rs:42-43 `to_buffer::<N>() ensures self@.len() <= N, r.s@ == self@` (panics when the bytes do not fit), :31 `as_slice() ensures r@ == self.s@`
#[test]
fn bytes_to_buffer_traps_when_too_long() {
    let e = env();
    for s in cases().into_iter().step_by(2) {
        let b = mk(&e, &s);
        if let Some(buf) = returns_iff(s.len() <= 3, "Bytes::to_buffer::<3>", || b.to_buffer::<3>()) { assert_eq!(buf.as_slice(), &s[..]); }
        if let Some(buf) = returns_iff(s.len() <= 16, "Bytes::to_buffer::<16>", || b.to_buffer::<16>()) { assert_eq!(buf.as_slice(), &s[..]); }
    }
}

macro_rules! bytesn_case {
    ($e:expr, $g:expr, $n:literal) => {{
        for round in 0..40 {
            let mut a = [0u8; $n];
            for x in a.iter_mut() { *x = if round == 0 { 0 } else if round == 1 { 255 } else { $g.below(256) as u8 }; }
            let b: BytesN<$n> = BytesN::from_array($e, &a);
            // bytes.rs:109 from_array ensures r@ == a@; :111 to_array ensures r@ == self@; :107 lemma_len: self@.len() == N; :113 len() == self@.len() == N
            assert_eq!(b.to_array(), a);
            assert_eq!(b.len() as usize, $n);
            if $n > 0 { assert_eq!(b.is_empty(), $n == 0); } // N == 0: see bytesn0_is_empty
            // :117-118 get; :122 get_unchecked traps out of range; :124 first; :126 last
            for i in (0..=($n as u32 + 1)).chain([u32::MAX]) {
                assert_eq!(b.get(i), a.get(i as usize).cloned());
                if let Some(x) = returns_iff((i as usize) < $n, "BytesN::get_unchecked", || b.get_unchecked(i)) { assert_eq!(x, a[i as usize]); }
            }
            assert_eq!(b.first(), a.first().cloned());
            assert_eq!(b.last(), a.last().cloned());
            // :128 to_bytes ensures r@ == self@; crypto.rs:32 `From<BytesN<N>> for Bytes ensures r@ == b@`
            assert_eq!(view(&b.to_bytes()), a.to_vec());
            assert_eq!(view(&Bytes::from(b.clone())), a.to_vec());
            // :91-101 clone and `==` (equality of the byte sequences)
            assert!(b.clone() == b);
            let mut a2 = a;
            if $n > 0 { a2[$n - 1] ^= 1; assert!(BytesN::<$n>::from_array($e, &a2) != b); }
        }
    }};
}

// model/bytes.rs:104-128: BytesN<N> from_array / to_array / len / is_empty / get / get_unchecked / first / last / to_bytes, clone, ==, for N in {0,1,2,4,32,64}
#[test]
fn bytesn_accessors_from_array_to_array() {
    let e = env();
    let mut g = Lcg(3232);
    bytesn_case!(&e, g, 0);
    bytesn_case!(&e, g, 1);
    bytesn_case!(&e, g, 2);
    bytesn_case!(&e, g, 4);
    bytesn_case!(&e, g, 32);
    bytesn_case!(&e, g, 64);
}

// model/bytes.rs:115 `BytesN::is_empty() ensures r == (self@.len() == 0)` together with :107/:113 (`self@.len() == N`): for N == 0 the model
// says `true`.
// (FIXED in the model after this test found it.) soroban-sdk 25.0.2 bytes.rs:1230 implements `BytesN::is_empty` as the constant `false`, so
// `BytesN::<0>::from_array(&e, &[]).is_empty()` is false in the SDK and true in the model.  (No contract in /repo uses BytesN<0>.)
#[test]
fn bytesn0_is_empty() {
    let e = env();
    let b: BytesN<0> = BytesN::from_array(&e, &[]);
    assert_eq!(b.len(), 0);
    assert!(!b.is_empty());   // model/bytes.rs: `BytesN::is_empty ensures !r` (fixed after this test found the mismatch)
}
