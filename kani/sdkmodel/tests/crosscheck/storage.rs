//! model/core.rs: the typed storage layer (instance / persistent / temporary with TTL) and the ledger accessors, against
//! the test host of soroban-sdk.  The model world is transcribed literally (`W`, `temp_set`, `temp_remove`, `temp_extend`).
use soroban_sdk::testutils::storage::Temporary as _;
use soroban_sdk::testutils::{Ledger as _, LedgerInfo};
use soroban_sdk::{contract, Address, Env};
use std::collections::BTreeMap;
use verif_sdkmodel_crosscheck::*;

#[contract]
pub struct Holder;

/// model/core.rs:140-162, the fields the storage layer reads; keys and values are u32
#[derive(Clone, Debug, PartialEq)]
struct W {
    instance: BTreeMap<u32, u32>,
    persistent: BTreeMap<u32, u32>,
    temporary: BTreeMap<u32, u32>,
    temp_live: BTreeMap<u32, i128>,
    ledger_seq: u32,
    max_entry_ttl: u32,
    min_temp_ttl: u32,
}
impl W {
    fn new(seq: u32, min: u32, max: u32) -> W {
        W { instance: BTreeMap::new(), persistent: BTreeMap::new(), temporary: BTreeMap::new(), temp_live: BTreeMap::new(), ledger_seq: seq, max_entry_ttl: max, min_temp_ttl: min }
    }
    /// core.rs:165-167
    fn temp_has(&self, k: u32) -> bool {
        self.temporary.contains_key(&k) && self.temp_live.contains_key(&k) && self.temp_live[&k] >= self.ledger_seq as i128
    }
    /// core.rs:168-172
    fn max_live_until(&self) -> i128 {
        self.ledger_seq as i128 + (if self.max_entry_ttl >= 1 { self.max_entry_ttl as i128 - 1 } else { 0 })
    }
    /// core.rs:183-185
    fn min_live(&self) -> i128 {
        self.ledger_seq as i128 + (if self.min_temp_ttl >= 1 { self.min_temp_ttl as i128 } else { 1 }) - 1
    }
    /// core.rs:248 `tget`
    fn tget(&self, k: u32) -> Option<u32> { if self.temp_has(k) { Some(self.temporary[&k]) } else { None } }
}
/// core.rs:200-206
fn temp_set(w: &W, k: u32, v: u32) -> W {
    let mut r = w.clone();
    r.temporary.insert(k, v);
    if !w.temp_has(k) { r.temp_live.insert(k, w.min_live()); }
    r
}
/// core.rs:207-209
fn temp_remove(w: &W, k: u32) -> W { let mut r = w.clone(); r.temporary.remove(&k); r.temp_live.remove(&k); r }
/// core.rs:211-217
fn temp_extend(w: &W, k: u32, threshold: u32, extend_to: u32) -> W {
    let cur = w.temp_live[&k];
    let new_live = w.ledger_seq as i128 + extend_to as i128;
    if cur - w.ledger_seq as i128 <= threshold as i128 && new_live > cur {
        let mut r = w.clone(); r.temp_live.insert(k, new_live); r
    } else { w.clone() }
}

struct Real { e: Env, id: Address }
impl Real {
    fn new() -> Real { let e = env(); let id = e.register(Holder, ()); Real { e, id } }
    fn ledger(&self, w: &W) {
        let (s, mi, ma) = (w.ledger_seq, w.min_temp_ttl, w.max_entry_ttl);
        self.e.ledger().with_mut(|li: &mut LedgerInfo| { li.sequence_number = s; li.min_temp_entry_ttl = mi; li.max_entry_ttl = ma; li.min_persistent_entry_ttl = if ma < 2 { ma } else { 2 }; });
    }
    fn c<T>(&self, f: impl FnOnce(&Env) -> T) -> T { self.e.as_contract(&self.id, || f(&self.e)) }
    fn t_has(&self, k: u32) -> bool { self.c(|e| e.storage().temporary().has(&k)) }
    fn t_get(&self, k: u32) -> Option<u32> { self.c(|e| e.storage().temporary().get::<u32, u32>(&k)) }
    fn t_set(&self, k: u32, v: u32) { self.c(|e| e.storage().temporary().set(&k, &v)) }
    fn t_remove(&self, k: u32) { self.c(|e| e.storage().temporary().remove(&k)) }
    /// `None` iff the host trapped.  The trap is caught INSIDE the contract frame: a panic that unwinds through
    /// `as_contract` leaves the test host's frame on its context stack.  A trapping host call has changed nothing.
    fn t_extend(&self, k: u32, th: u32, to: u32) -> Option<()> { self.c(|e| returns(|| e.storage().temporary().extend_ttl(&k, th, to))) }
    #[track_caller]
    fn t_extend_iff(&self, cond: bool, ctx: &str, k: u32, th: u32, to: u32) -> bool {
        let r = self.t_extend(k, th, to);
        assert_eq!(r.is_some(), cond, "{ctx}: the model says temporary().extend_ttl returns only if the condition ({cond}) holds, the host {}", if r.is_some() { "returned" } else { "trapped" });
        r.is_some()
    }
    /// live-until ledger of a live temporary entry, as the test host reports it
    fn t_live(&self, k: u32) -> i128 { self.c(|e| e.ledger().sequence() as i128 + e.storage().temporary().get_ttl(&k) as i128) }
    /// every reader's view of the temporary store agrees with the model world (core.rs:366-375 get/has, :253 tlive)
    #[track_caller]
    fn agrees_temp(&self, w: &W, keys: &[u32], ctx: &str) {
        for &k in keys {
            assert_eq!(self.t_has(k), w.temp_has(k), "has({k}) {ctx} {w:?}");
            assert_eq!(self.t_get(k), w.tget(k), "get({k}) {ctx} {w:?}");
            if w.temp_has(k) { assert_eq!(self.t_live(k), w.temp_live[&k], "tlive({k}) {ctx} {w:?}"); }
        }
    }
}

// model/core.rs:399 `ledger_sequence() ensures r == self@.ledger_seq`; :401 `ledger_timestamp() ensures r == self@.timestamp`
#[test]
fn ledger_sequence_and_timestamp() {
    let r = Real::new();
    let mut g = Lcg(5);
    for i in 0..300u32 {
        let (s, t) = if i < 4 { ([0, 1, u32::MAX - 1, u32::MAX][i as usize], [0, 1, u64::MAX - 1, u64::MAX][i as usize]) } else { (g.next() as u32, g.next() << 31 | g.next()) };
        r.e.ledger().set_sequence_number(s);
        r.e.ledger().set_timestamp(t);
        assert_eq!(r.e.ledger().sequence(), s);
        assert_eq!(r.e.ledger().timestamp(), t);
        // inside a contract frame (not at the very end of the u32 range, where the test host cannot restore the contract instance)
        if s < u32::MAX - 10_000 { assert_eq!(r.c(|e| (e.ledger().sequence(), e.ledger().timestamp())), (s, t)); }
    }
}

// model/core.rs:403 `ledger_max_live_until_ledger() ensures r == self@.max_live_until()` with :168-172
// `max_live_until = min(ledger_seq + max_entry_ttl, u32::MAX) - 1` — on the configurations the model calls `ledger_ok`
// (:186-188, max_entry_ttl >= min_temp_ttl >= 1) and where ledger_seq + max_entry_ttl does not exceed u32::MAX
#[test]
fn ledger_max_live_until_ledger_on_ok_configurations() {
    let r = Real::new();
    let mut g = Lcg(6);
    let mut cases: Vec<(u32, u32)> = vec![];
    for s in [0u32, 1, 2, 100, u32::MAX - 10] { for m in 1..=8u32 { cases.push((s, m)); } }
    cases.push((0, u32::MAX)); cases.push((1, u32::MAX - 1)); cases.push((1000, 6_312_000));
    for _ in 0..300 { let s = g.next() as u32; let m = 1 + g.u32_below(u32::MAX - s.max(1)); cases.push((s, m)); }
    for (s, m) in cases {
        assert!(s as u64 + m as u64 <= u32::MAX as u64);
        let w = W::new(s, 1, m);
        r.ledger(&w);
        assert_eq!(r.e.ledger().max_live_until_ledger() as i128, w.max_live_until(), "seq {s} max_entry_ttl {m}");
    }
}

// model/core.rs:403 with :168-172 on the remaining configurations: the clause is unconditional, so it also speaks about
// max_entry_ttl == 0 and about ledger_seq + max_entry_ttl > u32::MAX (where the host either returns or traps:
// `sequence_number.checked_add(max_entry_ttl.saturating_sub(1))`, soroban-env-host ledger_info.rs:25-30)
//
// (FIXED in the model after this test found it: the model WAS off by one where `ledger_ok` fails or the sum reaches 2^32.)  The host computes
// seq + (max_entry_ttl saturating- 1) and traps on overflow; the model computes min(seq + max_entry_ttl, u32::MAX) - 1.  Counterexamples:
//   seq 5, max_entry_ttl 0: host 5, model 4;   seq u32::MAX-3, max_entry_ttl 4: host u32::MAX, model u32::MAX-1;
//   seq 1, max_entry_ttl u32::MAX: host u32::MAX, model u32::MAX-1.
// (No real network is configured like this; `ledger_ok` is what the contracts of the units assume.)
#[test]
fn ledger_max_live_until_ledger_on_edge_configurations() {
    let r = Real::new();
    let mut bad = vec![];
    for (s, m) in [(0u32, 0u32), (5, 0), (u32::MAX, 0), (u32::MAX, 1), (1, u32::MAX), (u32::MAX - 3, 4), (u32::MAX - 3, 5), (u32::MAX, u32::MAX), (7, u32::MAX)] {
        let w = W::new(s, 1, m);
        r.ledger(&w);
        match returns(|| r.e.ledger().max_live_until_ledger()) {
            Some(x) => if x as i128 != w.max_live_until() { bad.push(format!("seq {s} max_entry_ttl {m}: host returns {x}, model {}", w.max_live_until())) },
            None => {} // the host does not return: the model clause says nothing
        }
    }
    assert!(bad.is_empty(), "model/core.rs:168-172 differs from the host: {bad:#?}");
}

// model/core.rs:378-379 `storage_temporary_set ensures final == temp_set(old, key, val)` with :200-206 (an existing LIVE entry keeps
// its live_until, a new or expired one gets `min_live` = ledger_seq + max(min_temp_ttl,1) - 1, :183-185);
// :366-375 get/has see an entry iff `temp_has` (:165-167: present and live_until >= ledger_seq): the entry is visible at
// ledger == live_until and absent for every reader from live_until + 1 on
#[test]
fn temporary_set_and_expiry_boundary() {
    let r = Real::new();
    let mut base = 10u32;
    let mut key = 0u32;
    for min in 0..=4u32 {
        for max in [min.max(1), min.max(1) + 1, 50] {
            for rewrite_after in 0..=(min + 1) {
                base += 40; key += 1;
                let mut w = W::new(base, min, max);
                r.ledger(&w);
                r.agrees_temp(&w, &[key], "fresh key");
                r.t_set(key, 7); w = temp_set(&w, key, 7);
                assert_eq!(w.temp_live[&key], base as i128 + (min.max(1) as i128) - 1);
                r.agrees_temp(&w, &[key], "after set");
                // rewrite later: live entry keeps its live_until, an expired one starts afresh
                w.ledger_seq = base + rewrite_after; r.ledger(&w);
                r.agrees_temp(&w, &[key], "before rewrite");
                r.t_set(key, 8); w = temp_set(&w, key, 8);
                r.agrees_temp(&w, &[key], "after rewrite");
                // boundary
                let live = w.temp_live[&key] as u32;
                w.ledger_seq = live; r.ledger(&w);
                assert!(w.temp_has(key)); r.agrees_temp(&w, &[key], "at live_until");
                w.ledger_seq = live + 1; r.ledger(&w);
                assert!(!w.temp_has(key)); r.agrees_temp(&w, &[key], "one past live_until");
            }
        }
    }
}

// model/core.rs:388-395 `storage_temporary_extend_ttl ensures old.temp_has(key), threshold <= extend_to,
// old.ledger_seq + extend_to <= old.max_live_until(), final == temp_extend(old, key, threshold, extend_to)` (traps if the entry is
// absent/expired, if threshold > extend_to, or if the new live-until would exceed the network maximum) with :211-217
// `temp_extend`: live_until := ledger_seq + extend_to iff (live_until - ledger_seq <= threshold && ledger_seq + extend_to > live_until)
#[test]
fn temporary_extend_ttl_exhaustive_small() {
    let r = Real::new();
    let mut base = 10u32;
    let mut key = 0u32;
    let mut n = 0;
    for min in 1..=3u32 {
        for max in [min, min + 1, min + 3] {
            for age in 0..=min {
                for th in 0..=5u32 {
                    for to in 0..=(max + 1).min(6) {
                        base += 20; key += 1; n += 1;
                        let mut w = W::new(base, min, max);
                        r.ledger(&w);
                        r.t_set(key, 1); w = temp_set(&w, key, 1);
                        w.ledger_seq = base + age; r.ledger(&w);
                        let cond = w.temp_has(key) && th <= to && (w.ledger_seq as i128 + to as i128) <= w.max_live_until();
                        let ctx = format!("min {min} max {max} age {age} extend_ttl(th {th}, to {to})");
                        if r.t_extend_iff(cond, &ctx, key, th, to) { w = temp_extend(&w, key, th, to); }
                        r.agrees_temp(&w, &[key], &ctx);
                        if w.temp_has(key) {
                            let live = w.temp_live[&key] as u32;
                            w.ledger_seq = live; r.ledger(&w); r.agrees_temp(&w, &[key], &ctx);
                            w.ledger_seq = live + 1; r.ledger(&w); r.agrees_temp(&w, &[key], &ctx);
                        }
                    }
                }
            }
        }
    }
    assert_eq!(n, 876);
}

// model/core.rs:388-395 on an entry that was never written / was removed, and with extreme arguments
#[test]
fn temporary_extend_ttl_absent_and_extreme_arguments() {
    let r = Real::new();
    let mut w = W::new(100, 2, 10);
    r.ledger(&w);
    assert!(r.t_extend(1, 0, 1).is_none(), "extend_ttl on a missing entry must trap");
    r.t_set(1, 5); w = temp_set(&w, 1, 5);
    r.t_remove(1); w = temp_remove(&w, 1);
    assert!(r.t_extend(1, 0, 1).is_none(), "extend_ttl on a removed entry must trap");
    r.t_set(2, 5); w = temp_set(&w, 2, 5);
    for (th, to) in [(0, u32::MAX), (u32::MAX, u32::MAX), (u32::MAX, 0), (0, 9), (0, 10), (9, 9), (10, 10), (u32::MAX - 100, u32::MAX - 100)] {
        let cond = w.temp_has(2) && th <= to && (w.ledger_seq as i128 + to as i128) <= w.max_live_until();
        if r.t_extend_iff(cond, &format!("extend_ttl({th}, {to})"), 2, th, to) { w = temp_extend(&w, 2, th, to); }
        r.agrees_temp(&w, &[1, 2], "extreme");
    }
    assert_eq!(w.temp_live[&2], 109);
}

// model/core.rs:382-383 `storage_temporary_remove ensures final == temp_remove(old, key)` (:207-209), :378-395 set/extend, :366-375 get/has,
// and the frame clauses of :277-288 (an operation on key k changes neither value nor live-until of k2 != k): pseudo-random operation
// sequences over 3 keys with an advancing ledger and changing TTL settings, model world compared after every step
#[test]
fn temporary_random_operation_sequences() {
    let r = Real::new();
    let mut g = Lcg(424242);
    let mut seq = 10u32;
    for run in 0..300u32 {
        seq += 60;
        let keys = [run * 3, run * 3 + 1, run * 3 + 2];
        let min = 1 + g.u32_below(3);
        let mut w = W::new(seq, min, min + g.u32_below(6));
        r.ledger(&w);
        for step in 0..14 {
            let k = keys[g.below(3) as usize];
            let ctx = format!("run {run} step {step}");
            match g.below(7) {
                0 | 1 => { let v = g.u32_below(100); r.t_set(k, v); w = temp_set(&w, k, v); }
                2 => { r.t_remove(k); w = temp_remove(&w, k); }
                3 | 4 => {
                    let (th, to) = (g.u32_below(7), g.u32_below(8));
                    let cond = w.temp_has(k) && th <= to && (w.ledger_seq as i128 + to as i128) <= w.max_live_until();
                    if r.t_extend_iff(cond, &format!("{ctx} extend_ttl({k}, {th}, {to}) {w:?}"), k, th, to) { w = temp_extend(&w, k, th, to); }
                }
                5 => { w.ledger_seq += g.u32_below(4); seq = w.ledger_seq; r.ledger(&w); }
                _ => { w.min_temp_ttl = 1 + g.u32_below(3); w.max_entry_ttl = w.min_temp_ttl + g.u32_below(6); r.ledger(&w); }
            }
            r.agrees_temp(&w, &keys, &ctx);
        }
    }
}

// model/core.rs:337-357 persistent get/has/set/remove over `World.persistent` (pget/pset/pdel :245-247, frame :271-276) and
// :360-361 `storage_persistent_extend_ttl ensures self@.persistent.contains_key(key)` (returns only if the entry exists; never changes values)
#[test]
fn persistent_random_operation_sequences() {
    let r = Real::new();
    let mut g = Lcg(99);
    let mut w = W::new(10, 2, 30);
    r.ledger(&w);
    let mut next_key = 0u32;
    for _run in 0..120 {
        let keys = [next_key, next_key + 1, next_key + 2];
        next_key += 3;
        for _ in 0..12 {
            let k = keys[g.below(3) as usize];
            match g.below(6) {
                0 | 1 => { let v = g.u32_below(100); r.c(|e| e.storage().persistent().set(&k, &v)); w.persistent.insert(k, v); }
                2 => { r.c(|e| e.storage().persistent().remove(&k)); w.persistent.remove(&k); }
                3 => {
                    let (th, to) = (g.u32_below(6), g.u32_below(40));
                    let ret = r.c(|e| returns(|| e.storage().persistent().extend_ttl(&k, th, to))).is_some();
                    if ret { assert!(w.persistent.contains_key(&k), "extend_ttl returned on a missing persistent entry"); }
                    // precision (not needed for soundness): the only other trap is threshold > extend_to
                    assert_eq!(ret, w.persistent.contains_key(&k) && th <= to, "extend_ttl({k}, {th}, {to})");
                }
                4 => { w.ledger_seq += g.u32_below(5); r.ledger(&w); }
                _ => {}
            }
            for &k2 in &keys {
                assert_eq!(r.c(|e| e.storage().persistent().has(&k2)), w.persistent.contains_key(&k2));
                assert_eq!(r.c(|e| e.storage().persistent().get::<u32, u32>(&k2)), w.persistent.get(&k2).cloned());
            }
        }
    }
}

// model/core.rs:309-333 instance get/has/set/remove over `World.instance` (iget/iset/idel :242-244, frame :265-270);
// :332 `storage_instance_extend_ttl` has no effect on values
#[test]
fn instance_random_operation_sequences() {
    let r = Real::new();
    let mut g = Lcg(1234);
    let mut w = W::new(10, 2, 30);
    r.ledger(&w);
    let keys = [0u32, 1, 2, 3];
    for _ in 0..600 {
        let k = keys[g.below(4) as usize];
        match g.below(6) {
            0 | 1 => { let v = g.u32_below(100); r.c(|e| e.storage().instance().set(&k, &v)); w.instance.insert(k, v); }
            2 => { r.c(|e| e.storage().instance().remove(&k)); w.instance.remove(&k); }
            3 => { let to = g.u32_below(30); let th = g.u32_below(to + 1); r.c(|e| e.storage().instance().extend_ttl(th, to)); }
            4 => { w.ledger_seq += g.u32_below(5); r.ledger(&w); }
            _ => {}
        }
        for &k2 in &keys {
            assert_eq!(r.c(|e| e.storage().instance().has(&k2)), w.instance.contains_key(&k2));
            assert_eq!(r.c(|e| e.storage().instance().get::<u32, u32>(&k2)), w.instance.get(&k2).cloned());
        }
    }
}

// model/core.rs:140-146: instance, persistent and temporary are three separate maps — the same key in one store is
// invisible in the others (every set/remove ensures `..old(self)@` for the other fields, :322, :350, :379)
#[test]
fn the_three_stores_are_independent() {
    let r = Real::new();
    let w = W::new(10, 4, 30);
    r.ledger(&w);
    let obs = |k: u32| r.c(|e| (e.storage().instance().get::<u32, u32>(&k), e.storage().persistent().get::<u32, u32>(&k), e.storage().temporary().get::<u32, u32>(&k)));
    assert_eq!(obs(1), (None, None, None));
    r.c(|e| e.storage().instance().set(&1u32, &10u32));
    assert_eq!(obs(1), (Some(10), None, None));
    r.c(|e| e.storage().temporary().set(&1u32, &30u32));
    assert_eq!(obs(1), (Some(10), None, Some(30)));
    r.c(|e| e.storage().persistent().set(&1u32, &20u32));
    assert_eq!(obs(1), (Some(10), Some(20), Some(30)));
    r.c(|e| e.storage().instance().remove(&1u32));
    assert_eq!(obs(1), (None, Some(20), Some(30)));
    r.c(|e| e.storage().temporary().remove(&1u32));
    assert_eq!(obs(1), (None, Some(20), None));
    r.c(|e| e.storage().persistent().remove(&1u32));
    assert_eq!(obs(1), (None, None, None));
    assert_eq!(obs(2), (None, None, None));
}
