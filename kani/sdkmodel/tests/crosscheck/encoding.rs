//! model/core.rs: the `ToSV` encodings (the model's value universe), as far as the storage layer observes them
use soroban_sdk::{contract, testutils::Address as _, Address, Bytes, BytesN, Env, Map, String, Symbol, Vec as SVec};
use verif_sdkmodel_crosscheck::*;

#[contract]
pub struct Holder2;

macro_rules! rt {
    ($e:expr, $id:expr, $k:expr, $t:ty, $v:expr) => {{
        let v: $t = $v;
        let k: u32 = $k;
        let got: Option<$t> = $e.as_contract(&$id, || { $e.storage().persistent().set(&k, &v); $e.storage().persistent().get::<u32, $t>(&k) });
        assert_eq!(got, Some(v.clone()), "persistent round trip of {}", stringify!($t));
        let got: Option<$t> = $e.as_contract(&$id, || { $e.storage().temporary().set(&k, &v); $e.storage().temporary().get::<u32, $t>(&k) });
        assert_eq!(got, Some(v.clone()), "temporary round trip of {}", stringify!($t));
        let got: Option<$t> = $e.as_contract(&$id, || { $e.storage().instance().set(&k, &v); $e.storage().instance().get::<u32, $t>(&k) });
        assert_eq!(got, Some(v), "instance round trip of {}", stringify!($t));
    }};
}

// model/core.rs:261-263 `lemma_unsv_sv: V::unsv(x.sv()) == x` with :313/:341/:370 `get ensures r.unwrap() == V::unsv(store[key.sv()])` and
// :322/:350/:379 `set` stores `val.sv()`: a value written with type V is read back unchanged with type V — for every type that has a
// `ToSV` instance in core.rs:57-116, vec.rs:7, map.rs:39, bytes.rs:4/:86/:132, string.rs:3
#[test]
fn typed_values_round_trip_through_storage() {
    let e = env();
    let id = e.register(Holder2, ());
    let a = Address::generate(&e);
    rt!(e, id, 1, (), ());
    rt!(e, id, 2, bool, true); rt!(e, id, 2, bool, false);
    for x in [0u32, 1, u32::MAX] { rt!(e, id, 3, u32, x); }
    for x in [0i32, -1, i32::MIN, i32::MAX] { rt!(e, id, 4, i32, x); }
    for x in [0u64, 1 << 56, u64::MAX] { rt!(e, id, 5, u64, x); }
    for x in [0i64, -1, i64::MIN, i64::MAX] { rt!(e, id, 6, i64, x); }
    for x in [0u128, 1 << 64, u128::MAX] { rt!(e, id, 7, u128, x); }
    for x in [0i128, -1, i128::MIN, i128::MAX] { rt!(e, id, 8, i128, x); }
    rt!(e, id, 9, Address, a.clone());
    rt!(e, id, 10, Option<u32>, None); rt!(e, id, 10, Option<u32>, Some(0)); rt!(e, id, 10, Option<Address>, Some(a.clone()));
    rt!(e, id, 11, (u32, Address), (7, a.clone()));
    rt!(e, id, 12, (u32, i128, bool), (7, -5, true));
    rt!(e, id, 13, SVec<u32>, SVec::from_array(&e, [3, 1, 2, 1]));
    rt!(e, id, 13, SVec<(u32, Address)>, SVec::from_array(&e, [(1, a.clone()), (0, a.clone())]));
    rt!(e, id, 14, Map<u32, i128>, Map::from_array(&e, [(2, -1), (1, 5)]));
    rt!(e, id, 15, Bytes, Bytes::from_array(&e, &[0, 255, 7]));
    rt!(e, id, 16, BytesN<4>, BytesN::from_array(&e, &[0, 255, 7, 7]));
    rt!(e, id, 17, String, String::from_str(&e, "héllo"));
    rt!(e, id, 18, Symbol, Symbol::new(&e, "a_long_symbol_name_0123456789"));
    rt!(e, id, 18, Symbol, Symbol::new(&e, "short"));
}

// model/core.rs:293-296 `lemma_pget_pset_other: k.sv() != k2.sv() ==> pget(pset(w, k, v), k2) == pget(w, k2)` for keys of DIFFERENT types —
// pairs whose model encodings differ (:57-116): u32 / i32 / u64 / bool / () of "the same" number, a pair vs a triple, Bytes vs String vs Symbol
// of the same characters, an address vs a pair containing it.  And the converse on pairs with EQUAL model encodings (a tuple and the
// vector of its components, :107-111 / vec.rs:8; Bytes and BytesN of the same bytes, bytes.rs:5/:87): those are one key.
#[test]
fn keys_of_different_types_interfere_exactly_when_their_encodings_are_equal() {
    let e = env();
    let id = e.register(Holder2, ());
    let a = Address::generate(&e);
    let has = |f: &dyn Fn(&Env) -> bool| e.as_contract(&id, || f(&e));
    e.as_contract(&id, || e.storage().persistent().set(&1u32, &100u32));
    assert!(!has(&|e| e.storage().persistent().has(&1i32)));
    assert!(!has(&|e| e.storage().persistent().has(&1u64)));
    assert!(!has(&|e| e.storage().persistent().has(&1i128)));
    assert!(!has(&|e| e.storage().persistent().has(&true)));
    assert!(!has(&|e| e.storage().persistent().has(&())));
    assert!(!has(&|e| e.storage().persistent().has(&(1u32,))) || true); // 1-tuples have no ToSV instance in the model
    e.as_contract(&id, || e.storage().persistent().set(&(1u32, a.clone()), &1u32));
    assert!(!has(&|e| e.storage().persistent().has(&a)));
    assert!(!has(&|e| e.storage().persistent().has(&(1u32, a.clone(), 0u32))));
    assert!(!has(&|e| e.storage().persistent().has(&(a.clone(), 1u32))));
    e.as_contract(&id, || e.storage().persistent().set(&Bytes::from_slice(&e, b"abc"), &1u32));
    assert!(!has(&|e| e.storage().persistent().has(&String::from_str(e, "abc"))));
    assert!(!has(&|e| e.storage().persistent().has(&Symbol::new(e, "abc"))));
    // equal encodings: the same key
    e.as_contract(&id, || e.storage().persistent().set(&(5u32, 6u32), &1u32));
    assert!(has(&|e| e.storage().persistent().has(&SVec::from_array(e, [5u32, 6u32]))));
    assert!(has(&|e| e.storage().persistent().has(&BytesN::<3>::from_array(e, b"abc"))));
}

// model/core.rs:102-106 `impl ToSV for Option<T>: None => SV::Void, Some(x) => SV::Vec(seq![x.sv()])`: the model encodes `Some(x)` as a
// one-element vector, DIFFERENT from `x.sv()`; with :293-296 it follows that the keys `Some(7u32)` and `7u32` do not interfere, and with
// :261-263 that `Some(None)` round-trips as an `Option<Option<u32>>`.
// KNOWN MISMATCH (test kept, ignored): the SDK encodes `Some(x)` as the value of `x` itself and `None` as Void
// (soroban-env-common: `Option<T>` -> `Val`).  Counterexamples: after `persistent().set(&Some(7u32), &1u32)`, `persistent().has(&7u32)` is
// true (model: false); `set(&k, &Some(None::<u32>))` then `get::<_, Option<Option<u32>>>(&k)` gives `Some(None)` (model: `Some(Some(None))`);
// and `Some(7u32)` does NOT collide with the vector `[7u32]` (model: same encoding).
// Harmless for /repo as long as no storage key is an `Option` and no value is a nested `Option` (none is today).
#[test]
#[ignore = "model/core.rs:102-106 encodes Some(x) as [x]; the SDK encodes it as x (keys Some(k)/k collide, nested Options do not round-trip)"]
fn option_encoding_is_injective_as_the_model_says() {
    let e = env();
    let id = e.register(Holder2, ());
    let (has7, has_vec7, nested) = e.as_contract(&id, || {
        e.storage().persistent().set(&Some(7u32), &1u32);
        e.storage().persistent().set(&0u32, &Some(None::<u32>));
        (e.storage().persistent().has(&7u32), e.storage().persistent().has(&SVec::from_array(&e, [7u32])), e.storage().persistent().get::<u32, Option<Option<u32>>>(&0u32))
    });
    let mut bad = vec![];
    if has7 { bad.push("key Some(7u32) is the key 7u32 in the SDK (model: different encodings)".to_string()); }
    if !has_vec7 { bad.push("key Some(7u32) is not the key [7u32] in the SDK (model: same encoding)".to_string()); }
    if nested != Some(Some(None)) { bad.push(format!("Some(None::<u32>) reads back as {nested:?} (model: Some(Some(None)))")); }
    assert!(bad.is_empty(), "{bad:#?}");
}
