//! Differential cross-check of the trusted SDK model (model/*.rs) against the real soroban-sdk (see ../../run.sh).
//! Every test quotes the model clause it checks (file:line).
mod vec;
mod storage;
mod map;
mod bytes;
mod encoding;
