//! model/map.rs + model/map_iter.rs against soroban_sdk::Map.  The model's view `m@` is the sequence of entries in the
//! host's iteration order; `smap_pos` (where a new key goes) is uninterpreted in the model, only its range is assumed.
use soroban_sdk::{testutils::Address as _, Address, Env, IntoVal, Map, TryFromVal, Val};
use std::collections::HashMap;
use verif_sdkmodel_crosscheck::*;

fn view<K, V>(m: &Map<K, V>) -> Vec<(K, V)>
where K: IntoVal<Env, Val> + TryFromVal<Env, Val> + Clone, V: IntoVal<Env, Val> + TryFromVal<Env, Val> + Clone {
    m.iter().collect()
}
fn vview<T>(v: &soroban_sdk::Vec<T>) -> Vec<T>
where T: IntoVal<Env, Val> + TryFromVal<Env, Val> {
    (0..v.len()).map(|i| v.get_unchecked(i)).collect()
}
/// all maps reachable by at most 4 `set` calls over keys {0,1,2,5} and values {0,1} (built by the SDK itself), plus random ones
fn build_scripts() -> Vec<Vec<(u32, u32)>> {
    let mut ops = vec![];
    for k in [0u32, 1, 2, 5] { for v in [0u32, 1] { ops.push((k, v)); } }
    let mut c = all_seqs(3, &ops);
    let mut g = Lcg(808);
    for _ in 0..300 { let n = g.below(9); c.push((0..n).map(|_| (g.u32_below(12), g.u32_below(3))).collect()); }
    c
}
fn build(e: &Env, script: &[(u32, u32)]) -> Map<u32, u32> { let mut m = Map::new(e); for (k, v) in script { m.set(*k, *v); } m }
const KEYS: [u32; 7] = [0, 1, 2, 3, 5, 11, 99];

/// model/map.rs:35-38 `smap_set` with the uninterpreted `smap_pos` existentially: existing key -> update in place;
/// new key -> inserted at SOME position 0..=len (map.rs:34), every other entry keeps its place in the order
fn check_set<K: PartialEq + Clone + std::fmt::Debug, V: PartialEq + Clone + std::fmt::Debug>(old: &[(K, V)], new: &[(K, V)], k: &K, v: &V) -> Option<usize> {
    let i = smap_idx(old, k);
    if i >= 0 { assert_eq!(new, &update(old, i as usize, (k.clone(), v.clone()))[..]); None } else {
        let p = (0..=old.len()).find(|p| new == &insert(old, *p, (k.clone(), v.clone()))[..]);
        assert!(p.is_some(), "set({k:?},{v:?}) on {old:?} gave {new:?}: not an insertion of the new entry");
        p
    }
}

// model/map.rs:51 `new(e) ensures r@ == Seq::empty()`; :53 `len() ensures r == self@.len()`; :55 `is_empty()`; :47 `clone() ensures r == *self`;
// :26-28 `smap_wf` (keys pairwise distinct: "true of every host map")
#[test]
fn map_new_len_is_empty_clone_wf() {
    let e = env();
    assert_eq!(view(&Map::<u32, u32>::new(&e)), vec![]);
    for sc in build_scripts() {
        let m = build(&e, &sc);
        let s = view(&m);
        assert_eq!(m.len() as usize, s.len());
        assert_eq!(m.is_empty(), s.len() == 0);
        assert!(smap_wf(&s));
        assert_eq!(view(&m.clone()), s);
    }
}

// model/map.rs:58 `get(k) ensures r == smap_get(self@, k)`; :60 `contains_key(k) ensures r == smap_get(self@, k).is_some()`
// (:12-23: the value of the first entry whose key is k)
#[test]
fn map_get_contains_key() {
    let e = env();
    for sc in build_scripts() {
        let m = build(&e, &sc);
        let s = view(&m);
        for k in KEYS {
            assert_eq!(m.get(k), smap_get(&s, &k));
            assert_eq!(m.contains_key(k), smap_get(&s, &k).is_some());
        }
    }
}

// model/map.rs:62 `set(k, v) ensures final(self)@ == smap_set(old(self)@, k, v)` with :35-38: an existing key is updated in place
// (order unchanged), a new key is inserted at `smap_pos(old, k)` in 0..=len (:32-34) and all other entries keep their order;
// `smap_pos` is a function of (old, k): the same map and key always give the same place
#[test]
fn map_set_existing_and_new_key_keeps_key_order() {
    let e = env();
    let mut pos: HashMap<(Vec<(u32, u32)>, u32), usize> = HashMap::new();
    for sc in build_scripts() {
        let m0 = build(&e, &sc);
        let s = view(&m0);
        for k in KEYS {
            for v in [0u32, 7] {
                let mut m = m0.clone();
                m.set(k, v);
                let n = view(&m);
                if let Some(p) = check_set(&s, &n, &k, &v) {
                    let q = *pos.entry((s.clone(), k)).or_insert(p);
                    assert_eq!(p, q, "smap_pos is not a function of (map, key)");
                }
                assert!(smap_wf(&n));
                assert_eq!(view(&m0), s);
            }
        }
    }
}

// model/map.rs:65 `get_unchecked(k) ensures smap_get(self@, k) == Some(r)` (traps when the key is absent)
#[test]
fn map_get_unchecked_traps_on_absent_key() {
    let e = env();
    for sc in build_scripts().into_iter().step_by(3) {
        let m = build(&e, &sc);
        let s = view(&m);
        for k in KEYS {
            let r = returns_iff(smap_get(&s, &k).is_some(), "Map::get_unchecked", || m.get_unchecked(k));
            if let Some(x) = r { assert_eq!(smap_get(&s, &k), Some(x)); }
        }
    }
}

// model/map.rs:67-69 `remove(k) ensures r.is_some() == (smap_idx(old, k) >= 0), final == if smap_idx(old,k) >= 0 { old.remove(smap_idx(old,k)) } else { old }`
#[test]
fn map_remove() {
    let e = env();
    for sc in build_scripts() {
        let m0 = build(&e, &sc);
        let s = view(&m0);
        for k in KEYS {
            let mut m = m0.clone();
            let r = m.remove(k);
            let i = smap_idx(&s, &k);
            assert_eq!(r.is_some(), i >= 0);
            assert_eq!(view(&m), if i >= 0 { remove(&s, i as usize) } else { s.clone() });
        }
    }
}

// model/map.rs:73-74 `remove_unchecked(k) ensures smap_idx(old, k) >= 0, final == old.remove(smap_idx(old, k))` (traps when the key is absent)
#[test]
fn map_remove_unchecked_traps_on_absent_key() {
    let e = env();
    for sc in build_scripts().into_iter().step_by(3) {
        let m0 = build(&e, &sc);
        let s = view(&m0);
        for k in KEYS {
            let mut m = m0.clone();
            let i = smap_idx(&s, &k);
            if returns_iff(i >= 0, "Map::remove_unchecked", || m.remove_unchecked(k)).is_some() { assert_eq!(view(&m), remove(&s, i as usize)); }
        }
    }
}

// model/map.rs:78 `values() ensures r@ == smap_vals(self@)`; :80 `keys() ensures r@ == smap_keys(self@)` (both in iteration order);
// model/map_iter.rs:5-6 `iter() ensures r.items@ == self@, r.pos@ == 0`
#[test]
fn map_keys_values_iter_order() {
    let e = env();
    for sc in build_scripts() {
        let m = build(&e, &sc);
        let s = view(&m);
        assert_eq!(vview(&m.keys()), smap_keys(&s));
        assert_eq!(vview(&m.values()), smap_vals(&s));
        let mut got = vec![];
        for (k, v) in m.iter() { got.push((k, v)); }
        assert_eq!(got, s);
        // the view is determined by the contents, not by the order of the `set` calls that built the map
        let mut rev = sc.clone(); rev.reverse();
        let mut last: Vec<(u32, u32)> = vec![];
        for (k, v) in &rev { if !last.iter().any(|x| x.0 == *k) { last.push((*k, *v)); } }
        last.reverse();
        assert_eq!(view(&build(&e, &last)), s);
    }
}

// model/map.rs:58-80 as a whole on Address keys (the host's key order is not the creation order): random sequences of
// set / remove / get against the model sequence
#[test]
fn map_random_operation_sequences_address_keys() {
    let e = env();
    let addrs: Vec<Address> = (0..6).map(|_| Address::generate(&e)).collect();
    let mut g = Lcg(515);
    for _ in 0..300 {
        let mut m: Map<Address, i128> = Map::new(&e);
        let mut s: Vec<(Address, i128)> = vec![];
        for _ in 0..12 {
            let k = addrs[g.below(6) as usize].clone();
            let v = g.below(5) as i128 - 2;
            match g.below(4) {
                0 | 1 => {
                    m.set(k.clone(), v);
                    let n = view(&m);
                    check_set(&s, &n, &k, &v);
                    s = n;
                }
                2 => {
                    let r = m.remove(k.clone());
                    let i = smap_idx(&s, &k);
                    assert_eq!(r.is_some(), i >= 0);
                    if i >= 0 { s = remove(&s, i as usize); }
                }
                _ => { assert_eq!(m.get(k.clone()), smap_get(&s, &k)); assert_eq!(m.contains_key(k.clone()), smap_idx(&s, &k) >= 0); }
            }
            assert_eq!(view(&m), s);
            assert_eq!(vview(&m.keys()), smap_keys(&s));
            assert_eq!(vview(&m.values()), smap_vals(&s));
            assert!(smap_wf(&s));
        }
    }
}
