//! model/vec.rs (+ the Vec items of model/vec_ext.rs, ci_ext.rs, consec_ext.rs) against soroban_sdk::Vec
use soroban_sdk::{testutils::Address as _, Address, Env, Vec as SVec};
use verif_sdkmodel_crosscheck::*;

type S = std::vec::Vec<u32>;

/// the model's view `v@`: the items in index order
fn view<T>(v: &SVec<T>) -> std::vec::Vec<T>
where T: soroban_sdk::IntoVal<Env, soroban_sdk::Val> + soroban_sdk::TryFromVal<Env, soroban_sdk::Val> {
    (0..v.len()).map(|i| v.get_unchecked(i)).collect()
}
fn mk(e: &Env, s: &[u32]) -> SVec<u32> { SVec::from_slice(e, s) }

/// all vectors up to length 4 over {0,1,2} (121) + 300 pseudo-random ones (length <= 9 over 4 values)
fn cases() -> std::vec::Vec<S> {
    let mut c = all_seqs(4, &[0u32, 1, 2]);
    let mut g = Lcg(0x5dc0de);
    for _ in 0..300 { c.push(g.seq(9, 4)); }
    c
}
/// all indices 0..=len+1, and the extremes of u32
fn indices(len: usize) -> std::vec::Vec<u32> { let mut v: std::vec::Vec<u32> = (0..=(len as u32 + 1)).collect(); v.push(u32::MAX - 1); v.push(u32::MAX); v }
const XS: [u32; 5] = [0, 1, 2, 3, 9];

// model/vec.rs:48 `new(e) ensures r@ == Seq::empty()`; :50 `from_array(e, a) ensures r@ == a@`;
// :52 `len() ensures r == self@.len()`; :54 `is_empty() ensures r == (self@.len() == 0)`;
// consec_ext.rs:10 `from_slice(e, a) ensures r@ == a@`; :15 `clone() ensures r == *self`
#[test]
fn vec_new_from_array_from_slice_len_is_empty_clone() {
    let e = env();
    assert_eq!(view(&SVec::<u32>::new(&e)), S::new());
    assert_eq!(view(&SVec::from_array(&e, [7u32])), vec![7]);
    assert_eq!(view(&SVec::from_array(&e, [7u32, 7, 1, 0])), vec![7, 7, 1, 0]);
    assert_eq!(view(&SVec::<u32>::from_array(&e, [])), S::new());
    for s in cases() {
        let v = mk(&e, &s);
        assert_eq!(view(&v), s);
        assert_eq!(v.len() as usize, s.len());
        assert_eq!(v.is_empty(), s.len() == 0);
        let c = v.clone();
        assert_eq!(view(&c), s);
        assert!(c == v);
    }
}

// model/vec.rs:56-57 `get(i) ensures r == (if i < self@.len() { Some(self@[i]) } else { None })`
#[test]
fn vec_get() {
    let e = env();
    for s in cases() {
        let v = mk(&e, &s);
        for i in indices(s.len()) {
            assert_eq!(v.get(i), if (i as usize) < s.len() { Some(s[i as usize]) } else { None }, "{s:?} {i}");
        }
    }
}

// model/vec.rs:61-62 `get_unchecked(i) ensures i < self@.len(), r == self@[i]` (traps when out of range)
#[test]
fn vec_get_unchecked_traps_out_of_range() {
    let e = env();
    for s in cases() {
        let v = mk(&e, &s);
        for i in indices(s.len()) {
            let r = returns_iff((i as usize) < s.len(), "Vec::get_unchecked", || v.get_unchecked(i));
            if let Some(x) = r { assert_eq!(x, s[i as usize]); }
        }
    }
}

// model/vec.rs:65-66 `first() ensures r == (if len > 0 { Some(self@[0]) } else { None })`; :69-70 `last()` likewise with self@[len-1]
#[test]
fn vec_first_last() {
    let e = env();
    for s in cases() {
        let v = mk(&e, &s);
        assert_eq!(v.first(), if s.len() > 0 { Some(s[0]) } else { None });
        assert_eq!(v.last(), if s.len() > 0 { Some(s[s.len() - 1]) } else { None });
    }
}

// model/vec.rs:98-99 `first_unchecked() ensures self@.len() > 0, r == self@[0]`; :103-104 `last_unchecked() ensures self@.len() > 0, r == self@[len-1]` (trap when empty)
#[test]
fn vec_first_last_unchecked_trap_when_empty() {
    let e = env();
    for s in cases() {
        let v = mk(&e, &s);
        if let Some(x) = returns_iff(s.len() > 0, "Vec::first_unchecked", || v.first_unchecked()) { assert_eq!(x, s[0]); }
        if let Some(x) = returns_iff(s.len() > 0, "Vec::last_unchecked", || v.last_unchecked()) { assert_eq!(x, s[s.len() - 1]); }
    }
}

// model/vec.rs:73 `push_back(x) ensures final(self)@ == old(self)@.push(x)`; :75 `push_front(x) ensures final(self)@ == seq![x] + old(self)@`
#[test]
fn vec_push_back_push_front() {
    let e = env();
    for s in cases() {
        for x in XS {
            let mut v = mk(&e, &s);
            v.push_back(x);
            assert_eq!(view(&v), push(&s, x));
            let mut v = mk(&e, &s);
            v.push_front(x);
            assert_eq!(view(&v), add(&[x], &s));
        }
    }
}

// model/vec.rs:77-79 `pop_back()`: len == 0 ==> None and unchanged; len > 0 ==> Some(old.last()) and final == old.drop_last();
// :82-84 `pop_front()`: len > 0 ==> Some(old[0]) and final == old.drop_first()
#[test]
fn vec_pop_back_pop_front() {
    let e = env();
    for s in cases() {
        let mut v = mk(&e, &s);
        let r = v.pop_back();
        if s.len() == 0 { assert!(r.is_none()); assert_eq!(view(&v), s); } else { assert_eq!(r, Some(*s.last().unwrap())); assert_eq!(view(&v), drop_last(&s)); }
        let mut v = mk(&e, &s);
        let r = v.pop_front();
        if s.len() == 0 { assert!(r.is_none()); assert_eq!(view(&v), s); } else { assert_eq!(r, Some(s[0])); assert_eq!(view(&v), drop_first(&s)); }
    }
}

// model/vec.rs:88-89 `pop_back_unchecked() ensures old.len() > 0, r == old.last(), final == old.drop_last()`;
// :93-94 `pop_front_unchecked() ensures old.len() > 0, r == old[0], final == old.drop_first()` (trap when empty)
#[test]
fn vec_pop_unchecked_trap_when_empty() {
    let e = env();
    for s in cases() {
        let mut v = mk(&e, &s);
        if let Some(x) = returns_iff(s.len() > 0, "Vec::pop_back_unchecked", || v.pop_back_unchecked()) { assert_eq!(x, *s.last().unwrap()); assert_eq!(view(&v), drop_last(&s)); }
        let mut v = mk(&e, &s);
        if let Some(x) = returns_iff(s.len() > 0, "Vec::pop_front_unchecked", || v.pop_front_unchecked()) { assert_eq!(x, s[0]); assert_eq!(view(&v), drop_first(&s)); }
    }
}

// model/vec.rs:108-109 `set(i, x) ensures i < old.len(), final == old.update(i, x)` (traps when out of range)
#[test]
fn vec_set_traps_out_of_range() {
    let e = env();
    for s in cases() {
        for i in indices(s.len()) {
            let mut v = mk(&e, &s);
            if returns_iff((i as usize) < s.len(), "Vec::set", || v.set(i, 9)).is_some() { assert_eq!(view(&v), update(&s, i as usize, 9)); }
        }
    }
}

// model/vec.rs:112-114 `remove(i)`: i < len ==> Some(()) and final == old.remove(i); i >= len ==> None and final == old
#[test]
fn vec_remove() {
    let e = env();
    for s in cases() {
        for i in indices(s.len()) {
            let mut v = mk(&e, &s);
            let r = v.remove(i);
            if (i as usize) < s.len() { assert_eq!(r, Some(())); assert_eq!(view(&v), remove(&s, i as usize)); } else { assert_eq!(r, None); assert_eq!(view(&v), s); }
        }
    }
}

// model/vec.rs:117-118 `remove_unchecked(i) ensures i < old.len(), final == old.remove(i)`
#[test]
fn vec_remove_unchecked_traps_out_of_range() {
    let e = env();
    for s in cases() {
        for i in indices(s.len()) {
            let mut v = mk(&e, &s);
            if returns_iff((i as usize) < s.len(), "Vec::remove_unchecked", || v.remove_unchecked(i)).is_some() { assert_eq!(view(&v), remove(&s, i as usize)); }
        }
    }
}

// model/vec.rs:122-123 `insert(i, x) ensures i <= old.len(), final == old.insert(i, x)` (traps when i > len)
#[test]
fn vec_insert_traps_beyond_len() {
    let e = env();
    for s in cases() {
        for i in indices(s.len()) {
            let mut v = mk(&e, &s);
            if returns_iff((i as usize) <= s.len(), "Vec::insert", || v.insert(i, 9)).is_some() { assert_eq!(view(&v), insert(&s, i as usize, 9)); }
        }
    }
}

// model/vec.rs:126 `concat(&self, other: &Vec<T>) ensures r@ == self@ + other@`.
// NOTE: soroban-sdk 25.0.2 has no two-vector `concat`; the only `concat` is `Vec<Vec<T>>::concat(&self) -> Vec<T>`
// (vec.rs:916).  What can be checked is its counterpart: flattening [a, b] is a + b (and the flattening of any list
// of vectors is their concatenation in order).
#[test]
fn vec_concat_flattens_in_order() {
    let e = env();
    let small = all_seqs(3, &[0u32, 1, 2]);
    for a in &small {
        for b in &small {
            let vv: SVec<SVec<u32>> = SVec::from_array(&e, [mk(&e, a), mk(&e, b)]);
            assert_eq!(view(&vv.concat()), add(a, b));
        }
    }
    let mut g = Lcg(11);
    for _ in 0..200 {
        let parts: std::vec::Vec<S> = (0..g.below(5)).map(|_| g.seq(4, 3)).collect();
        let mut vv: SVec<SVec<u32>> = SVec::new(&e);
        for p in &parts { vv.push_back(mk(&e, p)); }
        assert_eq!(view(&vv.concat()), parts.concat());
    }
}

// model/vec.rs:128 `extend_from_array(a) ensures final == old + a@`; :136 `append(other) ensures final == old + other@`
#[test]
fn vec_append_extend_from_array() {
    let e = env();
    let small = all_seqs(3, &[0u32, 1, 2]);
    for a in cases() {
        for b in &small {
            let mut v = mk(&e, &a);
            let o = mk(&e, b);
            v.append(&o);
            assert_eq!(view(&v), add(&a, b));
            assert_eq!(view(&o), *b);
        }
        let mut v = mk(&e, &a); v.extend_from_array([]); assert_eq!(view(&v), a);
        let mut v = mk(&e, &a); v.extend_from_array([5]); assert_eq!(view(&v), add(&a, &[5]));
        let mut v = mk(&e, &a); v.extend_from_array([5, 0, 5]); assert_eq!(view(&v), add(&a, &[5, 0, 5]));
    }
    // a vector appended to itself
    for a in cases() { let mut v = mk(&e, &a); let c = v.clone(); v.append(&c); assert_eq!(view(&v), add(&a, &a)); }
}

// model/vec.rs:131-133 `slice(r) ensures 0 <= r.vlo() <= r.vhi(len) <= len, res@ == self@.subrange(r.vlo(), r.vhi(len))` with
// :19-30 `a..b` -> (a, b), `a..` -> (a, len), `..b` -> (0, b)   (the host traps unless start <= end <= len)
#[test]
fn vec_slice_traps_unless_start_le_end_le_len() {
    let e = env();
    let check = |s: &S, a: u32, b: u32| {
        let v = mk(&e, s);
        let n = s.len();
        let ok = a <= b && (b as usize) <= n;
        if let Some(r) = returns_iff(ok, "Vec::slice(a..b)", || v.slice(a..b)) { assert_eq!(view(&r), subrange(s, a as usize, b as usize)); }
        if let Some(r) = returns_iff((a as usize) <= n, "Vec::slice(a..)", || v.slice(a..)) { assert_eq!(view(&r), subrange(s, a as usize, n)); }
        if let Some(r) = returns_iff((b as usize) <= n, "Vec::slice(..b)", || v.slice(..b)) { assert_eq!(view(&r), subrange(s, 0, b as usize)); }
        assert_eq!(view(&v), *s);
    };
    // exhaustive: every vector up to length 3 over 3 values, every a, b in 0..=len+1 (a trapped call costs ~5 ms on the test host)
    for s in all_seqs(3, &[0u32, 1, 2]) {
        for a in 0..=(s.len() as u32 + 1) { for b in 0..=(s.len() as u32 + 1) { check(&s, a, b); } }
        for (a, b) in [(0, u32::MAX), (u32::MAX, u32::MAX), (u32::MAX, 0), (1, u32::MAX - 1)] { check(&s, a, b); }
    }
    // pseudo-random: longer vectors, bounds drawn from 0..=len+1
    let mut g = Lcg(31337);
    for _ in 0..400 {
        let s = g.seq(9, 4);
        let a = g.u32_below(s.len() as u32 + 2);
        let b = g.u32_below(s.len() as u32 + 2);
        check(&s, a, b);
    }
}

// model/vec.rs:139 `contains(x) ensures r == self@.contains(x.bv())`, :33-34 `x` and `&x` are both accepted and mean the same
#[test]
fn vec_contains_u32_value_and_reference() {
    let e = env();
    for s in cases() {
        let v = mk(&e, &s);
        for x in XS {
            assert_eq!(v.contains(x), s.contains(&x));
            assert_eq!(v.contains(&x), s.contains(&x));
        }
    }
}

// model/vec.rs:139 `contains` on `Vec<(u32, Address)>` (host comparison of values is structural), value vs reference
// arguments (:33-34); also :149-153 first_index_of and :142-146 last_index_of on the same element type
#[test]
fn vec_contains_pair_u32_address_value_and_reference() {
    let e = env();
    let addrs = [Address::generate(&e), Address::generate(&e), Address::generate(&e)];
    let mut elems: std::vec::Vec<(u32, Address)> = vec![];
    for n in [0u32, 1] { for a in &addrs[..2] { elems.push((n, a.clone())); } }
    let probes: std::vec::Vec<(u32, Address)> = { let mut p = elems.clone(); p.push((0, addrs[2].clone())); p.push((7, addrs[0].clone())); p };
    for s in all_seqs(3, &elems) {
        let v: SVec<(u32, Address)> = SVec::from_slice(&e, &s);
        assert_eq!(view(&v), s);
        for x in &probes {
            let want = s.contains(x);
            assert_eq!(v.contains(x.clone()), want);
            assert_eq!(v.contains(x), want);
            // an equal address obtained by another route (string round trip) is the same value for the host
            let y = (x.0, Address::from_string(&x.1.to_string()));
            assert_eq!(v.contains(&y), want);
            assert_eq!(v.contains(y), want);
            let fi = seq_index_of(&s, x);
            assert_eq!(v.first_index_of(x), if fi >= 0 { Some(fi as u32) } else { None });
            assert_eq!(v.first_index_of(x.clone()), if fi >= 0 { Some(fi as u32) } else { None });
            assert_eq!(v.last_index_of(x), s.iter().rposition(|y| y == x).map(|p| p as u32));
        }
    }
}

// model/vec.rs:142-146 `last_index_of(x)`: Some(p) => p < len && self@[p] == x && forall q in (p, len): self@[q] != x;  None => !self@.contains(x)
#[test]
fn vec_last_index_of() {
    let e = env();
    for s in cases() {
        let v = mk(&e, &s);
        for x in XS {
            for r in [v.last_index_of(x), v.last_index_of(&x)] {
                match r {
                    Some(p) => { let p = p as usize; assert!(p < s.len() && s[p] == x && (p + 1..s.len()).all(|q| s[q] != x), "{s:?} {x} {p}"); }
                    None => assert!(!s.contains(&x)),
                }
            }
        }
    }
}

// model/vec.rs:149-153 `first_index_of(x)`: is_some <==> self@.contains(x); Some(i) => i == seq_index_of(self@, x), i < len, self@[i] == x, forall j < i: self@[j] != x
#[test]
fn vec_first_index_of() {
    let e = env();
    for s in cases() {
        let v = mk(&e, &s);
        for x in XS {
            for r in [v.first_index_of(x), v.first_index_of(&x)] {
                assert_eq!(r.is_some(), s.contains(&x));
                if let Some(i) = r {
                    assert_eq!(i as i64, seq_index_of(&s, &x));
                    let i = i as usize;
                    assert!(i < s.len() && s[i] == x && (0..i).all(|j| s[j] != x));
                }
            }
        }
    }
}

// model/vec.rs:156 `iter() ensures r.items@ == self@, r.pos@ == 0, r.rem() == self@`; :158 `into_iter()` likewise;
// :172-180 the iterator yields `remaining()` in order and then None (will_return_none); ci_ext.rs:50 `from_iter(e, it) ensures r@ == it.rem()`
#[test]
fn vec_iter_yields_the_view_in_order() {
    let e = env();
    for s in cases() {
        let v = mk(&e, &s);
        assert_eq!(v.iter().collect::<S>(), s);
        assert_eq!(v.clone().into_iter().collect::<S>(), s);
        let mut got = vec![];
        for x in v.iter() { got.push(x); }
        assert_eq!(got, s);
        let mut it = v.iter();
        for _ in 0..s.len() { assert!(it.next().is_some()); }
        assert_eq!(it.next(), None);
        assert_eq!(it.next(), None);
        for k in 0..=s.len() {
            let mut it = v.iter();
            for _ in 0..k { it.next(); }
            assert_eq!(view(&SVec::from_iter(&e, it)), s[k..].to_vec());
        }
    }
}

// model/vec.rs:184-225 and vec_ext.rs:4-8: the eager adapters on a (possibly advanced) iterator, stated over `rem()`:
// position (first accepted index, earlier ones rejected), all, any, find (first accepted item), count == rem.len(),
// last == rem.last(), nth(n) == rem[n] / None, enumerate on a fresh iterator: i-th item is (i, v[i])
#[test]
fn vec_iter_adapters_over_the_remaining_items() {
    let e = env();
    for s in cases() {
        let v = mk(&e, &s);
        assert_eq!(v.iter().enumerate().collect::<std::vec::Vec<(usize, u32)>>(), s.iter().cloned().enumerate().collect::<std::vec::Vec<_>>());
        for k in 0..=s.len() {
            let rem = &s[k..];
            let adv = || { let mut it = v.iter(); for _ in 0..k { it.next(); } it };
            for t in [0u32, 1, 2, 3] {
                let f = |x: u32| x == t;
                match adv().position(f) {
                    Some(p) => assert!(p < rem.len() && f(rem[p]) && (0..p).all(|j| !f(rem[j]))),
                    None => assert!(rem.iter().all(|x| !f(*x))),
                }
                let r = adv().all(f);
                if r { assert!(rem.iter().all(|x| f(*x))) } else { assert!(rem.iter().any(|x| !f(*x))) }
                let r = adv().any(f);
                if r { assert!(rem.iter().any(|x| f(*x))) } else { assert!(rem.iter().all(|x| !f(*x))) }
                match adv().find(|x| f(*x)) {
                    Some(y) => assert!((0..rem.len()).any(|k2| rem[k2] == y && f(rem[k2]) && (0..k2).all(|j| !f(rem[j])))),
                    None => assert!(rem.iter().all(|x| !f(*x))),
                }
            }
            assert_eq!(adv().count(), rem.len());
            assert_eq!(adv().last(), rem.last().cloned());
            for n in 0..=rem.len() + 1 { assert_eq!(adv().nth(n), rem.get(n).cloned()); }
        }
    }
}

/// the host's order on values (`obj_cmp`), observed on one-element vectors
fn host_lt<T>(e: &Env, a: &T, b: &T) -> bool
where T: soroban_sdk::IntoVal<Env, soroban_sdk::Val> + soroban_sdk::TryFromVal<Env, soroban_sdk::Val> + Clone {
    SVec::from_array(e, [a.clone()]) < SVec::from_array(e, [b.clone()])
}
fn check_binary_search<T>(e: &Env, s: &[T], probes: &[T])
where T: soroban_sdk::IntoVal<Env, soroban_sdk::Val> + soroban_sdk::TryFromVal<Env, soroban_sdk::Val> + Clone + PartialEq + std::fmt::Debug {
    let v: SVec<T> = SVec::from_slice(e, s);
    let sorted = (0..s.len()).all(|i| (i + 1..s.len()).all(|j| host_lt(e, &s[i], &s[j])));
    for x in probes {
        let r = v.binary_search(x);
        // deterministic: a function of the vector contents and the item (also for by-value arguments and for another equal vector)
        assert_eq!(v.binary_search(x.clone()), r);
        assert_eq!(SVec::from_slice(e, s).binary_search(x), r);
        match r {
            Ok(i) => assert!((i as usize) < s.len() && s[i as usize] == *x, "{s:?} {x:?} Ok({i})"),
            Err(i) => {
                assert!(i as usize <= s.len());
                if sorted {
                    assert!(!s.contains(x), "{s:?} {x:?} Err({i})");
                    assert!((0..i as usize).all(|k| host_lt(e, &s[k], x)), "{s:?} {x:?} Err({i})");
                    assert!((i as usize..s.len()).all(|k| host_lt(e, x, &s[k])), "{s:?} {x:?} Err({i})");
                }
            }
        }
    }
}

// model/vec.rs:238-245 `binary_search(x)`: r == bs_spec(self@, x) (deterministic); Ok(i) ==> i < len && self@[i] == x (on EVERY vector,
// sorted or not); Err(i) ==> i <= len; host_sorted(self@) && Err(i) ==> !contains(x), everything before i is host_lt x, everything from i on is host_gt x
#[test]
fn vec_binary_search() {
    let e = env();
    // the host order on u32 is the numeric one (sanity of the oracle)
    for a in XS { for b in XS { assert_eq!(host_lt(&e, &a, &b), a < b); } }
    for s in cases() { check_binary_search(&e, &s, &XS); }
    // strictly sorted vectors of u32, every probe
    let mut g = Lcg(77);
    for _ in 0..300 {
        let mut s = g.seq(12, 40); s.sort(); s.dedup();
        let probes: S = (0..42).collect();
        check_binary_search(&e, &s, &probes);
    }
    // (u32, Address) elements: sorted by the host's own order
    let addrs: std::vec::Vec<Address> = (0..4).map(|_| Address::generate(&e)).collect();
    let mut elems: std::vec::Vec<(u32, Address)> = vec![];
    for n in [0u32, 1, 2] { for a in &addrs { elems.push((n, a.clone())); } }
    for _ in 0..200 {
        let mut s: std::vec::Vec<(u32, Address)> = (0..g.below(7)).map(|_| elems[g.below(elems.len() as u64) as usize].clone()).collect();
        if g.below(4) != 0 {
            s.sort_by(|a, b| if host_lt(&e, a, b) { std::cmp::Ordering::Less } else if host_lt(&e, b, a) { std::cmp::Ordering::Greater } else { std::cmp::Ordering::Equal });
            s.dedup();
        }
        check_binary_search(&e, &s, &elems);
    }
}

// model/vec.rs:73-136 as a whole: random sequences of mutating calls keep the SDK vector equal to the model sequence
#[test]
fn vec_random_operation_sequences() {
    let e = env();
    let mut g = Lcg(2026);
    for _ in 0..300 {
        let mut s = g.seq(4, 3);
        let mut v = mk(&e, &s);
        for _ in 0..12 {
            let i = g.u32_below(s.len() as u32 + 2);
            let x = g.u32_below(4);
            match g.below(9) {
                0 => { v.push_back(x); s = push(&s, x); }
                1 => { v.push_front(x); s = add(&[x], &s); }
                2 => { let r = v.pop_back(); assert_eq!(r, s.last().cloned()); if !s.is_empty() { s = drop_last(&s); } }
                3 => { let r = v.pop_front(); assert_eq!(r, s.first().cloned()); if !s.is_empty() { s = drop_first(&s); } }
                4 => { if returns_iff((i as usize) < s.len(), "set", || v.set(i, x)).is_some() { s = update(&s, i as usize, x); } }
                5 => { let r = v.remove(i); assert_eq!(r.is_some(), (i as usize) < s.len()); if r.is_some() { s = remove(&s, i as usize); } }
                6 => { if returns_iff((i as usize) <= s.len(), "insert", || v.insert(i, x)).is_some() { s = insert(&s, i as usize, x); } }
                7 => { let o = g.seq(3, 3); v.append(&mk(&e, &o)); s = add(&s, &o); }
                _ => { let j = g.u32_below(s.len() as u32 + 2); if let Some(r) = returns_iff(i <= j && (j as usize) <= s.len(), "slice", || v.slice(i..j)) { v = r; s = subrange(&s, i as usize, j as usize); } }
            }
            assert_eq!(view(&v), s);
            assert_eq!(v.len() as usize, s.len());
        }
    }
}
