//! Helpers of the differential cross-check of model/*.rs against the real soroban-sdk.
//!
//! The spec side is written over `std::vec::Vec` as the image of vstd's `Seq` (`push`, `insert`, `remove`,
//! `update`, `subrange`, `+` have the same meaning there) and the recursive spec functions of the model
//! (`seq_index_of`, `smap_idx`, ...) are transcribed literally.
use std::cell::Cell;
use std::panic::{catch_unwind, AssertUnwindSafe};
use std::sync::Once;

thread_local! { static QUIET: Cell<bool> = const { Cell::new(false) }; }
static HOOK: Once = Once::new();

/// Runs `f`; `None` iff it did not return (the host trapped / the SDK panicked).  The panic message of an
/// expected trap is not printed; panics of other threads (failing assertions) still are.
pub fn returns<T>(f: impl FnOnce() -> T) -> Option<T> {
    HOOK.call_once(|| {
        let prev = std::panic::take_hook();
        std::panic::set_hook(Box::new(move |info| {
            if !QUIET.with(|q| q.get()) {
                prev(info)
            }
        }));
    });
    QUIET.with(|q| q.set(true));
    let r = catch_unwind(AssertUnwindSafe(f));
    QUIET.with(|q| q.set(false));
    if let Err(p) = &r {
        // a trap must be the one under test, never the metering of the test host
        let msg = p.downcast_ref::<String>().cloned().or_else(|| p.downcast_ref::<&str>().map(|s| s.to_string())).unwrap_or_default();
        assert!(!msg.contains("Budget"), "the test host ran out of budget: {msg}");
    }
    r.ok()
}

/// a test Env without metering limits (so that the only traps are the ones under test)
pub fn env() -> soroban_sdk::Env {
    // no test_snapshots/*.json written into the source tree
    let e = soroban_sdk::Env::new_with_config(soroban_sdk::testutils::EnvTestConfig { capture_snapshot_at_drop: false });
    e.cost_estimate().budget().reset_unlimited();
    e
}

/// "the call returns only if `cond`", checked in both directions: it must trap precisely when `!cond`
#[track_caller]
pub fn returns_iff<T>(cond: bool, what: &str, f: impl FnOnce() -> T) -> Option<T> {
    let r = returns(f);
    assert_eq!(r.is_some(), cond, "{what}: the model says the call returns only if the condition ({cond}) holds, the SDK {}", if r.is_some() { "returned" } else { "trapped" });
    r
}

/// fixed-seed linear congruential generator (Knuth's MMIX constants)
pub struct Lcg(pub u64);
impl Lcg {
    pub fn next(&mut self) -> u64 {
        self.0 = self.0.wrapping_mul(6364136223846793005).wrapping_add(1442695040888963407);
        self.0 >> 33
    }
    pub fn below(&mut self, n: u64) -> u64 { self.next() % n }
    pub fn u32_below(&mut self, n: u32) -> u32 { self.below(n as u64) as u32 }
    pub fn seq(&mut self, max_len: u64, nvals: u32) -> Vec<u32> {
        let n = self.below(max_len + 1);
        (0..n).map(|_| self.u32_below(nvals)).collect()
    }
}

/// all sequences of length 0..=max_len over `vals`
pub fn all_seqs<T: Clone>(max_len: usize, vals: &[T]) -> Vec<Vec<T>> {
    let mut out: Vec<Vec<T>> = vec![vec![]];
    let mut layer: Vec<Vec<T>> = vec![vec![]];
    for _ in 0..max_len {
        let mut next = vec![];
        for s in &layer {
            for v in vals {
                let mut t = s.clone();
                t.push(v.clone());
                next.push(t);
            }
        }
        out.extend(next.iter().cloned());
        layer = next;
    }
    out
}

// ---- vstd Seq operations on std::vec::Vec ----
pub fn update<T: Clone>(s: &[T], i: usize, x: T) -> Vec<T> { let mut r = s.to_vec(); r[i] = x; r }
pub fn insert<T: Clone>(s: &[T], i: usize, x: T) -> Vec<T> { let mut r = s.to_vec(); r.insert(i, x); r }
pub fn remove<T: Clone>(s: &[T], i: usize) -> Vec<T> { let mut r = s.to_vec(); r.remove(i); r }
pub fn push<T: Clone>(s: &[T], x: T) -> Vec<T> { let mut r = s.to_vec(); r.push(x); r }
pub fn add<T: Clone>(a: &[T], b: &[T]) -> Vec<T> { let mut r = a.to_vec(); r.extend_from_slice(b); r }
pub fn subrange<T: Clone>(s: &[T], lo: usize, hi: usize) -> Vec<T> { s[lo..hi].to_vec() }
pub fn drop_first<T: Clone>(s: &[T]) -> Vec<T> { s[1..].to_vec() }
pub fn drop_last<T: Clone>(s: &[T]) -> Vec<T> { s[..s.len() - 1].to_vec() }

/// model/vec.rs:35 `seq_index_of`, transcribed
pub fn seq_index_of<T: PartialEq + Clone>(s: &[T], x: &T) -> i64 {
    if s.is_empty() { -1 } else if s[0] == *x { 0 } else {
        let r = seq_index_of(&s[1..], x);
        if r < 0 { -1 } else { r + 1 }
    }
}
/// model/map.rs:12 `smap_idx`, transcribed
pub fn smap_idx<K: PartialEq, V>(s: &[(K, V)], k: &K) -> i64 {
    if s.is_empty() { -1 } else if s[0].0 == *k { 0 } else {
        let r = smap_idx(&s[1..], k);
        if r < 0 { -1 } else { r + 1 }
    }
}
/// model/map.rs:20 `smap_get`
pub fn smap_get<K: PartialEq, V: Clone>(s: &[(K, V)], k: &K) -> Option<V> {
    let i = smap_idx(s, k);
    if i >= 0 { Some(s[i as usize].1.clone()) } else { None }
}
/// model/map.rs:26 `smap_wf`
pub fn smap_wf<K: PartialEq, V>(s: &[(K, V)]) -> bool {
    (0..s.len()).all(|i| (0..s.len()).all(|j| i == j || s[i].0 != s[j].0))
}
/// model/map.rs:29,30
pub fn smap_vals<K, V: Clone>(s: &[(K, V)]) -> Vec<V> { s.iter().map(|e| e.1.clone()).collect() }
pub fn smap_keys<K: Clone, V>(s: &[(K, V)]) -> Vec<K> { s.iter().map(|e| e.0.clone()).collect() }
