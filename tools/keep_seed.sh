#!/bin/bash
# keep_seed.sh <out_dir> <name> "<confirmation text>" — file a confirmed seeded change under /verif/seeded/<name>/
set -e
OUT=$1; NAME=$2; CONF=$3
D=$(dirname "$0")/../seeded/$NAME
mkdir -p "$D"
cp "$OUT/patch.diff" "$D/patch.diff"; cp "$OUT/demo.diff" "$D/demo.diff"
python3 - "$OUT/meta.json" "$D/meta.json" "$CONF" <<'PY'
import json, sys
m = json.load(open(sys.argv[1]))
m.update({"expect": "violation", "origin": "independent sub-agent given only the property text and a scratch worktree of /repo", "confirmed_by_hand": sys.argv[3]})
json.dump(m, open(sys.argv[2], "w"), indent=1)
PY
echo kept $D
