#!/usr/bin/env python3
"""mkmutant.py <name> <prop[,prop]> <expect: violation|clean> <repo-relative file> <old text> <new text> [what]
writes tests/mutants/<name>/{patch.diff,meta.json} (a unified diff against /repo's current text)"""
import sys, os, json, difflib
name, props, expect, rel, old, new = sys.argv[1:7]
what = sys.argv[7] if len(sys.argv) > 7 else ""
src = open(os.path.join("/repo", rel)).read()
assert src.count(old) == 1, f"old text occurs {src.count(old)} times"
dst = src.replace(old, new)
d = os.path.join(os.path.dirname(os.path.dirname(os.path.abspath(__file__))), "tests", "mutants", name)
os.makedirs(d, exist_ok=True)
diff = "".join(difflib.unified_diff(src.splitlines(True), dst.splitlines(True), "a/" + rel, "b/" + rel))
open(os.path.join(d, "patch.diff"), "w").write(diff)
pl = props.split(",")
json.dump({"property": pl[0], "check_properties": pl, "expect": expect, "what": what, "origin": "own mutant"}, open(os.path.join(d, "meta.json"), "w"), indent=1)
print("wrote", d)
