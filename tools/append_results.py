#!/usr/bin/env python3
"""append_results.py <log with selftest lines> - rows for changes that are not yet in seeded/RESULTS.md (run one by one after
the last complete tools/selftest_report.py run) are appended under their own heading; rows already present are left alone"""
import sys, os, json, re
V = os.path.dirname(os.path.dirname(os.path.abspath(__file__)))
rp = os.path.join(V, "seeded", "RESULTS.md")
text = open(rp).read()
rows = []
for l in open(sys.argv[1]):
    if " expect=" not in l:
        continue
    name, prop = l.split()[0], l.split()[1]
    if f"| `{name}` |" in text:
        continue
    meta = {}
    for base in ("seeded", "tests/mutants"):
        mp = os.path.join(V, base, name, "meta.json")
        if os.path.exists(mp):
            meta = json.load(open(mp))
    res = "reported (exit 1, VIOLATION)" if " OK violation" in l else ("quiet (exit 0)" if " OK clean" in l else ("undecided as expected (exit 2)" if " OK undecided" in l else "**NOT AS EXPECTED**: " + l.split("expect=")[1].strip()))
    if meta.get("known_miss"):
        res = "**" + meta["known_miss"] + "**"
    hist = meta.get("history")
    if hist:
        res += " — " + (" / ".join(hist) if isinstance(hist, list) else hist)
    detail = l.split("s  ", 1)[1].strip() if "s  " in l else ""
    if detail.startswith("OK property") or "UNDECIDED" in detail or "VACUOUS" in detail:
        detail = ""
    what = (meta.get("needs_to_manifest") or meta.get("summary") or meta.get("note") or meta.get("why_equivalent") or "")[:260].replace("|", "/")
    rows.append(f"| `{name}` | {prop} | {what} | {res} | {detail.replace(',', ', ')[:300]} |")
if rows:
    head = "\n## Added after the last complete run (run one by one with `./selftest --only <name>`)\n\n| change | property | what it is / needs to manifest | result | failing obligations reported |\n|---|---|---|---|---|\n"
    if "## Added after the last complete run" in text:
        text = text.rstrip("\n") + "\n" + "\n".join(rows) + "\n"
    else:
        text = text.rstrip("\n") + "\n" + head + "\n".join(rows) + "\n"
    open(rp, "w").write(text)
print(len(rows), "rows appended")
