#!/usr/bin/env python3
"""import_harmless.py <out_dir> <tag>: copies h<k>.diff/.json (behaviour-preserving refactorings written by an independent
sub-agent) into tests/mutants/<tag>_h<k>/ with expect=clean and the property chosen from the touched file"""
import sys, os, json, glob, shutil, re
MAP = [("examples/timelock-controller", "C09"), ("examples/fungible-vault", "C05"), ("examples/fungible-merkle-airdrop", "C17"), ("examples/fee-forwarder", "C19"), ("examples/nft-access-control", "C06"), ("examples/multisig-smart-account/account", "C03"), ("examples/fungible-allowlist", "C16"), ("examples/upgradeable", "C16"), ("base64_url", "C18"), ("i256_fixed_point", "C12"), ("fungible/extensions/votes", "C13"), ("fungible/storage.rs", "C01"), ("capped", "C16"), ("allowlist", "C16"), ("blocklist", "C16"), ("vault/", "C05"), ("rwa/storage.rs", "C04"),
       ("access_control", "C06"), ("ownable", "C07"), ("role_transfer", "C07"), ("timelock", "C08"), ("governance/src/votes", "C13"),
       ("non_fungible/storage.rs", "C11"), ("enumerable", "C10"), ("consecutive", "C10"), ("claim_topics_and_issuers", "C20"), ("token_binder", "C20"),
       ("identity_verifier", "C15"), ("identity_registry_storage", "C20"), ("simple_threshold", "C14"), ("upgradeable", "C16"), ("compliance", "C04"), ("math/", "C12"), ("claim_issuer", "C15"), ("smart_account", "C03"), ("spending_limit", "C14"), ("weighted_threshold", "C14"),
       ("webauthn", "C18"), ("i128_fixed_point", "C12"), ("crypto/merkle", "C17"), ("merkle_distributor", "C17"), ("pausable", "C16"), ("fee-abstraction", "C19")]
out, tag = sys.argv[1], sys.argv[2]
V = os.path.dirname(os.path.dirname(os.path.abspath(__file__)))
for d in sorted(glob.glob(os.path.join(out, "h*.diff"))):
    k = os.path.basename(d)[:-5]
    meta = json.load(open(d[:-5] + ".json")) if os.path.exists(d[:-5] + ".json") else {}
    txt = open(d).read()
    m = re.search(r"^\+\+\+ b/(\S+)", txt, re.M)
    path = m.group(1) if m else meta.get("file", "")
    prop = next((p for (frag, p) in MAP if frag in path), None)
    if not prop:
        print("no property for", path); continue
    dst = os.path.join(V, "tests", "mutants", f"{tag}_{k}")
    os.makedirs(dst, exist_ok=True)
    shutil.copy(d, os.path.join(dst, "patch.diff"))
    meta.update({"property": prop, "expect": "clean", "origin": "behaviour-preserving refactoring written by an independent sub-agent (no access to /verif)"})
    json.dump(meta, open(os.path.join(dst, "meta.json"), "w"), indent=1)
    print("imported", dst, prop)
