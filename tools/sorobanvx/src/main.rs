//! sorobanvx — mechanical extractor/rewriter: "Rust against soroban_sdk" -> "Rust against the
//! state-passing SDK model" (DESIGN.md §2.1).  Reads a job (JSON) naming source files of /repo
//! and the items wanted; prints JSON with the rewritten function bodies (original token trees
//! except for the documented rules), structured descriptions of the data types, and per-function
//! hashes / rule-site counts.  It never invents executable code: every rule is syntactic.
//!
//! usage: sorobanvx job.json > out.json      exit 0 ok, exit 2 unsupported construct / lost anchor
use proc_macro2::{Span, TokenStream};
use quote::{quote, ToTokens};
use serde_json::{json, Value};
use sha2::{Digest, Sha256};
use std::collections::{BTreeMap, BTreeSet};
use syn::visit::{self, Visit};
use syn::visit_mut::{self, VisitMut};
use syn::*;

fn sha(s: &str) -> String {
    let mut h = Sha256::new();
    h.update(s.as_bytes());
    let d = h.finalize();
    d.iter().map(|b| format!("{:02x}", b)).collect()
}

fn ts<T: ToTokens>(t: &T) -> String {
    t.to_token_stream().to_string()
}

fn pretty_item(item: Item) -> String {
    let f = File { shebang: None, attrs: vec![], items: vec![item] };
    prettyplease::unparse(&f)
}

fn pretty_block(b: &Block) -> String {
    let f: ItemFn = match syn::parse2(quote! { fn __w() #b }) {
        Ok(f) => f,
        Err(_) => return ts(b),   // generated glue code that is not meant to be selected anyway
    };
    let s = pretty_item(Item::Fn(f));
    // strip "fn __w() " prefix
    let i = s.find('{').unwrap();
    s[i..].trim_end().to_string()
}

fn pretty_type(t: &Type) -> String {
    // prettyplease has no public type printer; token string with light cleanup
    clean(&ts(t))
}

fn clean(s: &str) -> String {
    let mut o = s.to_string();
    for (a, b) in [
        (" :: ", "::"),
        (":: ", "::"),
        (" ::", "::"),
        ("& ", "&"),
        (" <", "<"),
        ("< ", "<"),
        (" >", ">"),
        (" ,", ","),
        ("&mut", "&mut "),
        ("&mut  ", "&mut "),
        ("& '", "&'"),
    ] {
        o = o.replace(a, b);
    }
    o
}

fn has_attr(attrs: &[Attribute], name: &str) -> bool {
    attrs.iter().any(|a| a.path().segments.last().map(|s| s.ident == name).unwrap_or(false))
}

fn is_cfg_test(attrs: &[Attribute]) -> bool {
    attrs.iter().any(|a| a.path().is_ident("cfg") && ts(&a.meta).contains("test"))
}

fn derives(attrs: &[Attribute]) -> Vec<String> {
    let mut v = vec![];
    for a in attrs {
        if a.path().is_ident("derive") {
            let _ = a.parse_nested_meta(|m| {
                if let Some(s) = m.path.segments.last() {
                    v.push(s.ident.to_string());
                }
                Ok(())
            });
        }
    }
    v
}

fn attr_kind(attrs: &[Attribute]) -> &'static str {
    for k in ["contracttype", "contracterror", "contractevent", "contractclient", "contract"] {
        if has_attr(attrs, k) {
            return k;
        }
    }
    ""
}

// ------------------------------------------------------------------------------------------
// collection

#[derive(Clone)]
struct FnRec {
    key: String,
    file: String,
    module: String,
    impl_type: Option<String>,
    impl_generics: String,
    impl_self_ty: String,
    /// where-clause of the enclosing impl block and its associated-type items (verbatim)
    impl_where: String,
    impl_assoc: Vec<String>,
    trait_name: Option<String>,
    in_trait_decl: bool,
    vis: String,
    sig: Signature,
    block: Block,
    src_text: String,
}

struct TraitImpl {
    trait_name: String,
    type_name: String,
    assoc: BTreeMap<String, String>,
    overridden: BTreeSet<String>,
    file: String,
    module: String,
    impl_generics: String,
    impl_self_ty: String,
}

struct Collected {
    trait_supers: BTreeMap<String, String>,
    assoc_bounds: BTreeMap<(String, String), String>,
    trait_impls: Vec<TraitImpl>,
    fns: Vec<FnRec>,
    types: Vec<Value>,
    consts: Vec<Value>,
    clients: Vec<Value>,
    type_names: BTreeSet<String>,
}

fn last_seg(t: &Type) -> String {
    match t {
        Type::Path(p) => p.path.segments.last().map(|s| s.ident.to_string()).unwrap_or_default(),
        Type::Reference(r) => last_seg(&r.elem),
        _ => ts(t),
    }
}

fn fields_json(fields: &Fields) -> Value {
    match fields {
        Fields::Named(n) => json!({"kind":"named","fields": n.named.iter().map(|f| json!({
            "name": f.ident.as_ref().unwrap().to_string(), "ty": pretty_type(&f.ty),
            "topic": has_attr(&f.attrs, "topic"), "vis": clean(&ts(&f.vis))})).collect::<Vec<_>>()}),
        Fields::Unnamed(u) => json!({"kind":"tuple","fields": u.unnamed.iter().enumerate().map(|(i,f)| json!({
            "name": format!("{}", i), "ty": pretty_type(&f.ty), "vis": clean(&ts(&f.vis))})).collect::<Vec<_>>()}),
        Fields::Unit => json!({"kind":"unit","fields": []}),
    }
}

fn collect_items(items: &[Item], file: &str, module: &str, c: &mut Collected) {
    for it in items {
        match it {
            Item::Mod(m) => {
                if is_cfg_test(&m.attrs) {
                    continue;
                }
                if let Some((_, items)) = &m.content {
                    let sub = if module.is_empty() { m.ident.to_string() } else { format!("{}::{}", module, m.ident) };
                    collect_items(items, file, &sub, c);
                }
            }
            Item::Fn(f) => {
                if is_cfg_test(&f.attrs) {
                    continue;
                }
                c.fns.push(FnRec {
                    key: f.sig.ident.to_string(),
                    file: file.into(),
                    module: module.into(),
                    impl_type: None,
                    impl_generics: String::new(),
                    impl_self_ty: String::new(),
                    impl_where: String::new(),
                    impl_assoc: vec![],
                    trait_name: None,
                    in_trait_decl: false,
                    vis: clean(&ts(&f.vis)),
                    sig: f.sig.clone(),
                    block: (*f.block).clone(),
                    src_text: ts(f),
                });
            }
            Item::Impl(im) => {
                if is_cfg_test(&im.attrs) {
                    continue;
                }
                let tname = last_seg(&im.self_ty);
                let trait_name = im.trait_.as_ref().map(|(_, p, _)| p.segments.last().unwrap().ident.to_string());
                if let Some(tn) = &trait_name {
                    let mut assoc = BTreeMap::new();
                    let mut overridden = BTreeSet::new();
                    for ii in &im.items {
                        match ii {
                            ImplItem::Type(t) => {
                                assoc.insert(t.ident.to_string(), pretty_type(&t.ty));
                            }
                            ImplItem::Fn(f) => {
                                overridden.insert(f.sig.ident.to_string());
                            }
                            _ => {}
                        }
                    }
                    c.trait_impls.push(TraitImpl {
                        trait_name: tn.clone(),
                        type_name: tname.clone(),
                        assoc,
                        overridden,
                        file: file.into(),
                        module: module.into(),
                        impl_generics: clean(&ts(&im.generics)),
                        impl_self_ty: pretty_type(&im.self_ty),
                    });
                }
                let impl_where = im.generics.where_clause.as_ref().map(|w| clean(&ts(w))).unwrap_or_default();
                let impl_assoc: Vec<String> = im
                    .items
                    .iter()
                    .filter_map(|ii| if let ImplItem::Type(t) = ii { Some(format!("type {} = {};", t.ident, pretty_type(&t.ty))) } else { None })
                    .collect();
                for ii in &im.items {
                    if let ImplItem::Fn(f) = ii {
                        if is_cfg_test(&f.attrs) {
                            continue;
                        }
                        c.fns.push(FnRec {
                            key: format!("{}::{}", tname, f.sig.ident),
                            file: file.into(),
                            module: module.into(),
                            impl_type: Some(tname.clone()),
                            impl_generics: clean(&ts(&im.generics)),
                            impl_self_ty: pretty_type(&im.self_ty),
                            impl_where: impl_where.clone(),
                            impl_assoc: impl_assoc.clone(),
                            trait_name: trait_name.clone(),
                            in_trait_decl: false,
                            vis: clean(&ts(&f.vis)),
                            sig: f.sig.clone(),
                            block: f.block.clone(),
                            src_text: ts(f),
                        });
                    }
                }
            }
            Item::Trait(t) => {
                if is_cfg_test(&t.attrs) {
                    continue;
                }
                c.trait_supers.insert(t.ident.to_string(), t.supertraits.iter().map(|b| clean(&ts(b))).collect::<Vec<_>>().join(" + "));
                let mut methods = vec![];
                // `trait NonFungibleBurnable: NonFungibleToken<ContractType: BurnableOverrides>`: the supertrait clause
                // bounds the inherited associated type; `Self::ContractType::m` in this trait's defaults goes through it
                for sb in &t.supertraits {
                    if let TypeParamBound::Trait(tb) = sb {
                        if let Some(ls) = tb.path.segments.last() {
                            if let PathArguments::AngleBracketed(ab) = &ls.arguments {
                                for ga in &ab.args {
                                    if let GenericArgument::Constraint(cn) = ga {
                                        for b in &cn.bounds {
                                            if let TypeParamBound::Trait(cb) = b {
                                                c.assoc_bounds
                                                    .insert((t.ident.to_string(), cn.ident.to_string()), cb.path.segments.last().unwrap().ident.to_string());
                                                break;
                                            }
                                        }
                                    }
                                }
                            }
                        }
                    }
                }
                for ti in &t.items {
                    if let TraitItem::Type(at) = ti {
                        for b in &at.bounds {
                            if let TypeParamBound::Trait(tb) = b {
                                c.assoc_bounds.insert((t.ident.to_string(), at.ident.to_string()), tb.path.segments.last().unwrap().ident.to_string());
                                break;
                            }
                        }
                    }
                    if let TraitItem::Fn(f) = ti {
                        methods.push(json!({
                            "name": f.sig.ident.to_string(),
                            "params": f.sig.inputs.iter().map(|a| match a {
                                FnArg::Typed(pt) => json!({"name": ts(&pt.pat), "ty": pretty_type(&pt.ty)}),
                                FnArg::Receiver(r) => json!({"name":"self","ty": clean(&ts(r))}),
                            }).collect::<Vec<_>>(),
                            "ret": match &f.sig.output { ReturnType::Default => Value::Null, ReturnType::Type(_, t) => json!(pretty_type(t)) },
                            "has_default": f.default.is_some(),
                        }));
                        if let Some(b) = &f.default {
                            c.fns.push(FnRec {
                                key: format!("{}::{}", t.ident, f.sig.ident),
                                file: file.into(),
                                module: module.into(),
                                impl_type: Some(t.ident.to_string()),
                                impl_generics: String::new(),
                                impl_self_ty: t.ident.to_string(),
                                impl_where: String::new(),
                                impl_assoc: vec![],
                                trait_name: Some(t.ident.to_string()),
                                in_trait_decl: true,
                                vis: String::new(),
                                sig: f.sig.clone(),
                                block: b.clone(),
                                src_text: ts(f),
                            });
                        }
                    }
                }
                let mut client_name = Value::Null;
                for a in &t.attrs {
                    if a.path().segments.last().map(|s| s.ident == "contractclient").unwrap_or(false) {
                        let s = ts(&a.meta);
                        if let Some(i) = s.find("name") {
                            let rest = &s[i..];
                            if let Some(q1) = rest.find('"') {
                                if let Some(q2) = rest[q1 + 1..].find('"') {
                                    client_name = json!(rest[q1 + 1..q1 + 1 + q2].to_string());
                                }
                            }
                        }
                    }
                }
                c.clients.push(json!({"trait": t.ident.to_string(), "client": client_name, "file": file, "methods": methods,
                    "supertraits": t.supertraits.iter().map(|b| clean(&ts(b))).collect::<Vec<_>>()}));
            }
            Item::Struct(s) => {
                if is_cfg_test(&s.attrs) {
                    continue;
                }
                c.type_names.insert(s.ident.to_string());
                let mut ev_topics = Value::Null;
                for a in &s.attrs {
                    if a.path().segments.last().map(|x| x.ident == "contractevent").unwrap_or(false) {
                        ev_topics = json!(ts(&a.meta));
                    }
                }
                c.types.push(json!({"name": s.ident.to_string(), "kind":"struct", "attr": attr_kind(&s.attrs),
                    "derives": derives(&s.attrs), "generics": clean(&ts(&s.generics)), "body": fields_json(&s.fields),
                    "event_meta": ev_topics, "file": file, "vis": clean(&ts(&s.vis))}));
            }
            Item::Enum(en) => {
                if is_cfg_test(&en.attrs) {
                    continue;
                }
                c.type_names.insert(en.ident.to_string());
                c.types.push(json!({"name": en.ident.to_string(), "kind":"enum", "attr": attr_kind(&en.attrs),
                    "derives": derives(&en.attrs), "generics": clean(&ts(&en.generics)), "file": file, "vis": clean(&ts(&en.vis)),
                    "variants": en.variants.iter().map(|v| json!({"name": v.ident.to_string(), "body": fields_json(&v.fields),
                        "discr": v.discriminant.as_ref().map(|(_, e)| ts(e))})).collect::<Vec<_>>()}));
            }
            Item::Const(k) => {
                if is_cfg_test(&k.attrs) {
                    continue;
                }
                c.consts.push(json!({"name": k.ident.to_string(), "ty": pretty_type(&k.ty), "expr": clean(&ts(&k.expr)),
                    "vis": clean(&ts(&k.vis)), "file": file}));
            }
            _ => {}
        }
    }
}

// ------------------------------------------------------------------------------------------
// helpers on expressions

fn path_ident(e: &Expr) -> Option<String> {
    if let Expr::Path(p) = e {
        if p.qself.is_none() && p.path.segments.len() == 1 {
            return Some(p.path.segments[0].ident.to_string());
        }
    }
    None
}

fn strip_refs(e: &Expr) -> &Expr {
    match e {
        Expr::Reference(r) => strip_refs(&r.expr),
        Expr::Paren(p) => strip_refs(&p.expr),
        _ => e,
    }
}

/// the identifier `X` when e is `X`, `&X`, `&mut X`, `(X)`
fn env_ident_of(e: &Expr, envs: &BTreeSet<String>) -> Option<String> {
    let b = strip_refs(e);
    path_ident(b).filter(|i| envs.contains(i))
}

fn mentions_ident(e: &Expr, names: &BTreeSet<String>) -> bool {
    struct M<'a> {
        names: &'a BTreeSet<String>,
        found: bool,
    }
    impl<'ast, 'a> Visit<'ast> for M<'a> {
        fn visit_ident(&mut self, i: &'ast Ident) {
            if self.names.contains(&i.to_string()) {
                self.found = true;
            }
        }
        fn visit_macro(&mut self, m: &'ast Macro) {
            let name = m.path.segments.last().unwrap().ident.to_string();
            if name == "panic_with_error" || name == "panic" {
                return; // the macro drops its env argument
            }
            for t in m.tokens.clone() {
                if let proc_macro2::TokenTree::Ident(i) = t {
                    if self.names.contains(&i.to_string()) {
                        self.found = true;
                    }
                }
            }
        }
    }
    let mut m = M { names, found: false };
    m.visit_expr(e);
    m.found
}

const STORES: [&str; 3] = ["instance", "persistent", "temporary"];
const ENV_HANDLES: [&str; 6] = ["ledger", "crypto", "crypto_hazmat", "deployer", "events", "prng"];
const STORE_MUT: [&str; 4] = ["set", "remove", "update", "try_update"];

/// `X.storage().D()` -> (X, D)
fn storage_chain(e: &Expr) -> Option<(&Expr, String)> {
    if let Expr::MethodCall(d) = e {
        let dn = d.method.to_string();
        if d.args.is_empty() && STORES.contains(&dn.as_str()) {
            if let Expr::MethodCall(s) = &*d.receiver {
                if s.method == "storage" && s.args.is_empty() {
                    return Some((&s.receiver, dn));
                }
            }
        }
    }
    None
}

fn handle_chain(e: &Expr) -> Option<(&Expr, String)> {
    if let Expr::MethodCall(h) = e {
        let hn = h.method.to_string();
        if h.args.is_empty() && ENV_HANDLES.contains(&hn.as_str()) {
            return Some((&h.receiver, hn));
        }
    }
    None
}

fn is_client_ctor(e: &Expr) -> bool {
    if let Expr::Call(c) = e {
        if let Expr::Path(p) = &*c.func {
            let n = p.path.segments.len();
            if n >= 2 && p.path.segments[n - 1].ident == "new" {
                let t = p.path.segments[n - 2].ident.to_string();
                return t.ends_with("Client");
            }
        }
    }
    false
}

// ------------------------------------------------------------------------------------------
// path normalisation: drop leading module segments (`soroban_sdk::Symbol::new` -> `Symbol::new`,
// `stellar_access::access_control::ensure_role` -> `ensure_role`); `Self::<Assoc>` -> concrete type (T8)

struct PathNorm<'a> {
    assoc: &'a BTreeMap<String, String>,
    sites: usize,
    /// only substitute `Self::<Assoc>`, leave module qualifiers alone (early pass before the effect inference)
    assoc_only: bool,
    /// "rename_calls" entries whose key is a module-qualified path (`ed25519::verify`): applied BEFORE the qualifier
    /// is dropped, so that two free functions of the same name in different modules stay distinguishable
    qualified: Option<&'a BTreeMap<String, String>>,
}
fn is_module_seg(s: &str) -> bool {
    const PRIMS: [&str; 17] = ["i8", "i16", "i32", "i64", "i128", "isize", "u8", "u16", "u32", "u64", "u128", "usize", "bool", "char", "str", "f32", "f64"];
    s != "self" && s != "Self" && !PRIMS.contains(&s) && s.chars().all(|c| c.is_lowercase() || c == '_' || c.is_ascii_digit())
}
impl<'a> VisitMut for PathNorm<'a> {
    fn visit_path_mut(&mut self, p: &mut Path) {
        visit_mut::visit_path_mut(self, p);
        // Self::Assoc::rest
        if p.segments.len() >= 2 && p.segments[0].ident == "Self" {
            let a = p.segments[1].ident.to_string();
            if let Some(t) = self.assoc.get(&a) {
                if let Ok(tp) = syn::parse_str::<Path>(t) {
                    let rest: Vec<PathSegment> = p.segments.iter().skip(2).cloned().collect();
                    let mut np = tp.clone();
                    for r in rest {
                        np.segments.push(r);
                    }
                    *p = np;
                    self.sites += 1;
                }
            }
        }
        if self.assoc_only {
            return;
        }
        let n = p.segments.len();
        if n >= 2 {
            if let Some(q) = self.qualified.filter(|_| is_module_seg(&p.segments[0].ident.to_string())) {
                let full = clean(&p.to_token_stream().to_string());
                if let Some(nn) = q.get(full.trim_start_matches("::")) {
                    if let Ok(np) = syn::parse_str::<Path>(nn) {
                        *p = np;
                        self.sites += 1;
                        return;
                    }
                }
            }
            let mut k = 0;
            while k < n - 1 && is_module_seg(&p.segments[k].ident.to_string()) && p.segments[k].arguments.is_empty() {
                k += 1;
            }
            if k > 0 || p.leading_colon.is_some() {
                let segs: Vec<PathSegment> = p.segments.iter().skip(k).cloned().collect();
                p.leading_colon = None;
                p.segments = segs.into_iter().collect();
            }
        } else if p.leading_colon.is_some() {
            p.leading_colon = None;
        }
    }
    fn visit_macro_mut(&mut self, _m: &mut Macro) {}
}

/// key and emitted name of method `m` of `impl tr for ty`: an existing trait-impl method keeps its (possibly
/// renamed) identity; a default to be instantiated is called `m`, or `Tr__m` when `ty` has an inherent `m`
fn trait_method_name(fns: &[FnRec], tr: &str, ty: &str, m: &str) -> (String, String) {
    for f in fns {
        if !f.in_trait_decl && f.trait_name.as_deref() == Some(tr) && f.impl_type.as_deref() == Some(ty) {
            let id = f.sig.ident.to_string();
            if id == m || id == format!("{}__{}", tr, m) {
                return (f.key.clone(), id);
            }
        }
    }
    let plain = format!("{}::{}", ty, m);
    if fns.iter().any(|f| !f.in_trait_decl && f.trait_name.is_none() && f.key == plain) {
        let id = format!("{}__{}", tr, m);
        (format!("{}::{}", ty, id), id)
    } else {
        (plain, m.to_string())
    }
}

struct AssocResolver<'a> {
    supers: &'a BTreeMap<String, String>,
    tr: &'a str,
    assoc: &'a BTreeMap<String, String>,
    bounds: &'a BTreeMap<(String, String), String>,
    fns: &'a [FnRec],
    need: Vec<(String, String)>,
    errors: Vec<String>,
}
impl<'a> VisitMut for AssocResolver<'a> {
    fn visit_path_mut(&mut self, p: &mut Path) {
        visit_mut::visit_path_mut(self, p);
        if p.segments.len() == 3 && p.segments[0].ident == "Self" {
            let a = p.segments[1].ident.to_string();
            let m = p.segments[2].ident.to_string();
            if let Some(x) = self.assoc.get(&a) {
                let xty = x.rsplit("::").next().unwrap_or(x).trim().to_string();
                // a supertrait bound that fixes the associated type (`FungibleToken<ContractType = Vault>`) makes the
                // type concrete inside this trait: ordinary resolution applies and an inherent method wins
                let concrete = self.supers.get(self.tr).map(|t| t.replace(' ', "").contains(&format!("{}=", a))).unwrap_or(false);
                if concrete && self.fns.iter().any(|f| !f.in_trait_decl && f.trait_name.is_none() && f.key == format!("{}::{}", xty, m)) {
                    let args = p.segments[2].arguments.clone();
                    let np: Path = syn::parse_str(&format!("{}::{}", xty, m)).expect("path");
                    *p = np;
                    p.segments.last_mut().unwrap().arguments = args;
                    return;
                }
                let bound = self.bounds.get(&(self.tr.to_string(), a.clone())).or_else(|| {
                    // the associated type may be declared by a supertrait
                    self.bounds.iter().find(|((_, an), _)| an == &a).map(|(_, b)| b)
                });
                match bound {
                    Some(b) => {
                        let (_, id) = trait_method_name(self.fns, b, &xty, &m);
                        self.need.push((b.clone(), xty.clone()));
                        let np: Path = syn::parse_str(&format!("{}::{}", xty, id)).expect("path");
                        let args = p.segments[2].arguments.clone();
                        *p = np;
                        p.segments.last_mut().unwrap().arguments = args;
                    }
                    None => self.errors.push(format!("T8: no trait bound known for associated type {}::{}", self.tr, a)),
                }
            }
        }
    }
    fn visit_macro_mut(&mut self, _m: &mut Macro) {}
}

// ------------------------------------------------------------------------------------------
// call resolution

struct Table {
    keys: BTreeSet<String>,
    /// method name -> keys of functions with a `self` receiver (for the call graph only; never used for effects)
    methods: BTreeMap<String, Vec<String>>,
}

impl Table {
    fn resolve(&self, p: &ExprPath, cur_impl: &Option<String>, aliases: &BTreeMap<String, String>) -> Option<String> {
        let segs: Vec<String> = p.path.segments.iter().map(|s| s.ident.to_string()).collect();
        let full = segs.join("::");
        if let Some(a) = aliases.get(&full) {
            return Some(a.clone());
        }
        let n = segs.len();
        if n >= 2 {
            let mut a = segs[n - 2].clone();
            if a == "Self" {
                if let Some(t) = cur_impl {
                    a = t.clone();
                }
            }
            let k = format!("{}::{}", a, segs[n - 1]);
            if self.keys.contains(&k) {
                return Some(k);
            }
            if let Some(al) = aliases.get(&k) {
                return Some(al.clone());
            }
        }
        let k = segs[n - 1].clone();
        // free function (possibly module-qualified): only if the qualifier is not a known type
        if self.keys.contains(&k) && (n == 1 || segs[n - 2].chars().next().map(|c| c.is_lowercase()).unwrap_or(false)) {
            return Some(k);
        }
        None
    }
}

// ------------------------------------------------------------------------------------------
// effect analysis (on the original AST)

struct Effects<'a> {
    envs: &'a BTreeSet<String>,
    table: &'a Table,
    cur_impl: &'a Option<String>,
    aliases: &'a BTreeMap<String, String>,
    clients: BTreeSet<String>,
    primitive: bool,
    callees: BTreeSet<String>,
    method_callees: BTreeSet<String>,
    unknown_env_calls: BTreeSet<String>,
    extern_effectful: &'a BTreeSet<String>,
}

impl<'ast, 'a> Visit<'ast> for Effects<'a> {
    fn visit_local(&mut self, l: &'ast Local) {
        if let Some(init) = &l.init {
            if is_client_ctor(&init.expr) {
                if let Pat::Ident(pi) = &l.pat {
                    self.clients.insert(pi.ident.to_string());
                }
            }
        }
        visit::visit_local(self, l);
    }
    fn visit_expr_method_call(&mut self, mc: &'ast ExprMethodCall) {
        let m = mc.method.to_string();
        if let Some(ks) = self.table.methods.get(&m) {
            for k in ks {
                self.method_callees.insert(k.clone());
            }
        }
        if let Some((_, d)) = storage_chain(&mc.receiver) {
            if STORE_MUT.contains(&m.as_str()) || (m == "extend_ttl" && d == "temporary") {
                self.primitive = true;
            }
        }
        if m == "require_auth" || m == "require_auth_for_args" || m == "publish" || m == "invoke_contract"
            || m == "try_invoke_contract" || m == "authorize_as_current_contract"
        {
            self.primitive = true;
        }
        if let Some((_, h)) = handle_chain(&mc.receiver) {
            if h == "deployer" || h == "prng" {
                self.primitive = true;
            }
        }
        // client calls
        if is_client_ctor(&mc.receiver) {
            self.primitive = true;
        }
        if let Some(id) = path_ident(&mc.receiver) {
            if self.clients.contains(&id) {
                self.primitive = true;
            }
        }
        visit::visit_expr_method_call(self, mc);
    }
    fn visit_expr_call(&mut self, c: &'ast ExprCall) {
        if let Expr::Path(p) = &*c.func {
            if let Some(k) = self.table.resolve(p, self.cur_impl, self.aliases) {
                self.callees.insert(k);
            } else {
                let name = clean(&ts(p));
                if self.extern_effectful.contains(&name) {
                    self.primitive = true;
                } else if c.args.iter().any(|a| env_ident_of(a, self.envs).is_some()) && !is_client_ctor(&Expr::Call(c.clone())) {
                    self.unknown_env_calls.insert(name);
                }
            }
        }
        visit::visit_expr_call(self, c);
    }
}

// ------------------------------------------------------------------------------------------
// rewriter

struct Rw<'a> {
    envs: BTreeSet<String>,
    env_by_value: BTreeSet<String>,
    table: &'a Table,
    cur_impl: Option<String>,
    aliases: &'a BTreeMap<String, String>,
    effectful: &'a BTreeSet<String>,
    extern_effectful: &'a BTreeSet<String>,
    self_effectful: bool,
    checked_arith: bool,
    clients: BTreeSet<String>,
    loops: usize,
    diverge: usize,
    sites: BTreeMap<String, usize>,
    errors: Vec<String>,
    hoist_ctr: usize,
    fm_ctr: usize,
    rename_calls: &'a BTreeMap<String, String>,
    ctor_types: &'a BTreeSet<String>,
    float_ctx: bool,
}

impl<'a> Rw<'a> {
    fn site(&mut self, r: &str) {
        *self.sites.entry(r.to_string()).or_insert(0) += 1;
    }
    fn env_expr(&mut self) -> Expr {
        if let Some(e) = self.envs.iter().next() {
            let id = Ident::new(e, Span::call_site());
            parse_quote!(#id)
        } else {
            self.errors.push("needs an Env but function has no Env parameter".into());
            parse_quote!(__no_env)
        }
    }
    fn callee_effectful(&self, func: &Expr) -> Option<bool> {
        if let Expr::Path(p) = func {
            if let Some(k) = self.table.resolve(p, &self.cur_impl, self.aliases) {
                return Some(self.effectful.contains(&k));
            }
            let name = clean(&ts(p));
            if self.extern_effectful.contains(&name) {
                return Some(true);
            }
        }
        None
    }
    fn is_trivial_arg(e: &Expr) -> bool {
        match e {
            Expr::Path(_) | Expr::Lit(_) => true,
            Expr::Reference(r) => Self::is_trivial_arg(&r.expr),
            Expr::Paren(p) => Self::is_trivial_arg(&p.expr),
            Expr::Field(f) => Self::is_trivial_arg(&f.base),
            Expr::Unary(u) => matches!(u.op, UnOp::Deref(_)) && Self::is_trivial_arg(&u.expr),
            _ => false,
        }
    }
    /// if several arguments mention the env and the call takes it mutably, hoist the non-trivial
    /// ones into lets in front (left-to-right order preserved; the env reborrow itself is pure)
    fn hoist(&mut self, args: &mut syn::punctuated::Punctuated<Expr, Token![,]>, skip_first_env: bool) -> Vec<Stmt> {
        let mut lets = vec![];
        let mut first_hit: Option<usize> = None;
        for (i, a) in args.iter().enumerate() {
            if skip_first_env && env_ident_of(a, &self.envs).is_some() {
                continue;
            }
            if mentions_ident(a, &self.envs) && !Self::is_trivial_arg(a) {
                first_hit = Some(i);
                break;
            }
        }
        if let Some(fh) = first_hit {
            // evaluation order: every non-trivial argument is hoisted (in order) so that relative
            // order among them is unchanged
            let _ = fh;
            for a in args.iter_mut() {
                if Self::is_trivial_arg(a) {
                    continue;
                }
                let id = Ident::new(&format!("__vx_a{}", self.hoist_ctr), Span::call_site());
                self.hoist_ctr += 1;
                let old = std::mem::replace(a, parse_quote!(#id));
                lets.push(parse_quote!(let #id = #old;));
            }
            self.site("T1-hoist");
        }
        lets
    }
}

// ---- T17: iterator chains over integer ranges -> the loops that are their std definitions ----

fn unparen(e: &Expr) -> &Expr {
    match e {
        Expr::Paren(p) => unparen(&p.expr),
        Expr::Group(g) => unparen(&g.expr),
        _ => e,
    }
}

/// `return` / `?` / `break` / `continue` / `.await` that would change meaning when a closure body becomes a plain block
struct EscapeFinder {
    found: bool,
}
impl<'ast> Visit<'ast> for EscapeFinder {
    fn visit_expr_return(&mut self, _r: &'ast ExprReturn) {
        self.found = true;
    }
    fn visit_expr_try(&mut self, _r: &'ast ExprTry) {
        self.found = true;
    }
    fn visit_expr_break(&mut self, _r: &'ast ExprBreak) {
        self.found = true;
    }
    fn visit_expr_continue(&mut self, _r: &'ast ExprContinue) {
        self.found = true;
    }
    fn visit_expr_await(&mut self, _r: &'ast ExprAwait) {
        self.found = true;
    }
    fn visit_expr_closure(&mut self, _c: &'ast ExprClosure) {}
    fn visit_item(&mut self, _i: &'ast Item) {}
}

/// the closure `|PAT| BODY` as the block `{ let PAT = ARG; BODY }` -- what calling it with ARG means, provided the closure
/// is a plain one (exactly one parameter, an irrefutable variable / tuple-of-variables / `_` pattern, no `move`, no
/// declared return type, and a body from which nothing escapes by `return`, `?`, `break`, `continue`)
fn closure_as_block(e: &Expr, arg: &Ident, ident_only: bool) -> std::result::Result<Expr, String> {
    let cl = match e {
        Expr::Closure(cl) => cl,
        _ => return Err("argument is not a closure literal".into()),
    };
    if cl.inputs.len() != 1 || cl.capture.is_some() || cl.asyncness.is_some() || cl.constness.is_some() || cl.movability.is_some()
        || cl.lifetimes.is_some() || !cl.attrs.is_empty() || !matches!(cl.output, ReturnType::Default)
    {
        return Err("closure is not of the plain form `|x| body`".into());
    }
    fn plain_ident(p: &Pat) -> bool {
        matches!(p, Pat::Ident(pi) if pi.by_ref.is_none() && pi.subpat.is_none() && pi.attrs.is_empty())
    }
    fn ok_pat(p: &Pat, ident_only: bool) -> bool {
        match p {
            Pat::Ident(_) => plain_ident(p),
            Pat::Wild(_) => !ident_only,
            Pat::Tuple(t) => !ident_only && t.attrs.is_empty() && t.elems.iter().all(|q| plain_ident(q) || matches!(q, Pat::Wild(_))),
            Pat::Type(pt) => !ident_only && pt.attrs.is_empty() && ok_pat(&pt.pat, false),
            _ => false,
        }
    }
    let pat = &cl.inputs[0];
    if !ok_pat(pat, ident_only) {
        return Err("closure parameter is not a variable or a tuple of variables".into());
    }
    let mut esc = EscapeFinder { found: false };
    esc.visit_expr(&cl.body);
    if esc.found {
        return Err("closure body contains return / ? / break / continue".into());
    }
    if ident_only {
        // used as a match-arm binding by the caller: hand back the body only
        return Ok((*cl.body).clone());
    }
    let body = &cl.body;
    Ok(match &**body {
        Expr::Block(b) if b.attrs.is_empty() && b.label.is_none() => {
            let stmts = &b.block.stmts;
            parse_quote!({ let #pat = #arg; #(#stmts)* })
        }
        other => parse_quote!({ let #pat = #arg; #other }),
    })
}

/// `(A..B)` / `(A..=B)` with both bounds present
fn int_range(e: &Expr) -> Option<(&Expr, &Expr, bool)> {
    if let Expr::Range(r) = unparen(e) {
        if let (Some(a), Some(b)) = (&r.start, &r.end) {
            if r.attrs.is_empty() {
                return Some((a, b, matches!(r.limits, RangeLimits::Closed(_))));
            }
        }
    }
    None
}

impl<'a> Rw<'a> {
    /// T17.  `Iterator::find_map` is `while let Some(x) = self.next() { if let Some(y) = f(x) { return Some(y) } } None`,
    /// `FilterMap::next` is `while let Some(x) = inner.next() { if let Some(y) = f(x) { return Some(y) } } None`, the `next` of
    /// `Range<uN>` is `if start < end { let n = start; start = n + 1; Some(n) } else { None }` and the `next` of
    /// `RangeInclusive<uN>` is `if exhausted || !(start <= end) { None } else if start < end { let n = start; start = n + 1;
    /// Some(n) } else { exhausted = true; Some(start) }` (emitted as `while i <= hi { let cur = i; STEP; if i < hi { i = i + 1 }
    /// else { break } }`: same elements in the same order, no increment past the upper bound).  The three rules below inline exactly these definitions (lazy, left
    /// to right, stop at the first `Some`); the closures become blocks that bind their parameter first.
    ///   (A..B).find_map(G)                 (A..=B).find_map(G)
    ///   (A..B).filter_map(F).find_map(G)   (A..=B).filter_map(F).find_map(G)
    ///   CHAIN.iter().find_map(|x| BODY)    where CHAIN is one of the four above (hence an `Option`, whose iterator yields
    ///                                      its content by reference at most once): match &CHAIN { Some(x) => BODY, None => None }
    /// Returns None when the expression is not of one of these shapes (left alone); a shape that matches with a closure
    /// that cannot be substituted is a translator error.
    fn t17(&mut self, e: &Expr) -> Option<Expr> {
        let mc = match e {
            Expr::MethodCall(mc) if mc.method == "find_map" && mc.args.len() == 1 && mc.turbofish.is_none() && mc.attrs.is_empty() => mc,
            _ => return None,
        };
        // Option::iter().find_map(..) on a chain result
        if let Expr::MethodCall(it) = unparen(&mc.receiver) {
            if it.method == "iter" && it.args.is_empty() && it.turbofish.is_none() {
                if let Some(chain) = self.t17(unparen(&it.receiver)) {
                    let n = self.fm_ctr;
                    self.fm_ctr += 1;
                    let opt = Ident::new(&format!("__vx_opt{}", n), Span::call_site());
                    let dummy = opt.clone();
                    return match closure_as_block(&mc.args[0], &dummy, true) {
                        Ok(body) => {
                            let pat = match &mc.args[0] {
                                Expr::Closure(cl) => cl.inputs[0].clone(),
                                _ => unreachable!(),
                            };
                            self.site("T17-option-iter-find-map");
                            Some(parse_quote!({
                                let #opt = #chain;
                                match &#opt {
                                    Some(#pat) => #body,
                                    None => None,
                                }
                            }))
                        }
                        Err(msg) => {
                            self.errors.push(format!("T17 `.iter().find_map(..)` on an Option: {}", msg));
                            None
                        }
                    };
                }
                return None;
            }
        }
        // range [. filter_map(F)] . find_map(G)
        let (range, filt): (&Expr, Option<&Expr>) = match unparen(&mc.receiver) {
            Expr::MethodCall(fm) if fm.method == "filter_map" && fm.args.len() == 1 && fm.turbofish.is_none() && int_range(&fm.receiver).is_some() => {
                (&fm.receiver, Some(&fm.args[0]))
            }
            r if matches!(&*mc.receiver, Expr::Paren(_)) && int_range(r).is_some() => (&*mc.receiver, None),
            _ => return None,
        };
        let (a, b, closed) = int_range(range).unwrap();
        let n = self.fm_ctr;
        self.fm_ctr += 1;
        let id = |s: &str| Ident::new(&format!("__vx_{}{}", s, n), Span::call_site());
        let (r, i, hi, cur, f, x, o) = (id("r"), id("i"), id("hi"), id("cur"), id("f"), id("x"), id("o"));
        let g_block = match closure_as_block(&mc.args[0], if filt.is_some() { &x } else { &cur }, false) {
            Ok(b) => b,
            Err(msg) => {
                self.errors.push(format!("T17 `(a..b).find_map(..)`: {}", msg));
                return None;
            }
        };
        let found_b: Block = parse_quote!({
            let #o = #g_block;
            if #o.is_some() {
                #r = #o;
                break;
            }
        });
        let found: Vec<Stmt> = found_b.stmts;
        let step: Vec<Stmt> = match filt {
            None => found,
            Some(fc) => {
                let f_block = match closure_as_block(fc, &cur, false) {
                    Ok(b) => b,
                    Err(msg) => {
                        self.errors.push(format!("T17 `(a..b).filter_map(..).find_map(..)`: {}", msg));
                        return None;
                    }
                };
                let b: Block = parse_quote!({
                    let #f = #f_block;
                    match #f {
                        Some(#x) => { #(#found)* }
                        None => {}
                    }
                });
                b.stmts
            }
        };
        self.site(if filt.is_some() { "T17-range-filter-map-find-map" } else { "T17-range-find-map" });
        Some(if closed {
            // the element is handed out first and the range advanced afterwards (unobservable: the step does not see the
            // range); the last element ends the loop instead of an increment that could overflow
            parse_quote!({
                let mut #r = None;
                let mut #i = #a;
                let #hi = #b;
                while #i <= #hi {
                    let #cur = #i;
                    #(#step)*
                    if #i < #hi {
                        #i = #i + 1;
                    } else {
                        break;
                    }
                }
                #r
            })
        } else {
            parse_quote!({
                let mut #r = None;
                let mut #i = #a;
                let #hi = #b;
                while #i < #hi {
                    let #cur = #i;
                    #i = #i + 1;
                    #(#step)*
                }
                #r
            })
        })
    }
}

fn binop_name(op: &BinOp) -> Option<&'static str> {
    Some(match op {
        BinOp::Add(_) => "ck_add",
        BinOp::Sub(_) => "ck_sub",
        BinOp::Mul(_) => "ck_mul",
        BinOp::Div(_) => "ck_div",
        BinOp::Rem(_) => "ck_rem",
        BinOp::Shl(_) => "ck_shl",
        BinOp::Shr(_) => "ck_shr",
        _ => return None,
    })
}
fn assignop_name(op: &BinOp) -> Option<&'static str> {
    Some(match op {
        BinOp::AddAssign(_) => "ck_add",
        BinOp::SubAssign(_) => "ck_sub",
        BinOp::MulAssign(_) => "ck_mul",
        BinOp::DivAssign(_) => "ck_div",
        BinOp::RemAssign(_) => "ck_rem",
        BinOp::ShlAssign(_) => "ck_shl",
        BinOp::ShrAssign(_) => "ck_shr",
        _ => return None,
    })
}

fn closure_is_diverging(body: &Expr) -> bool {
    fn mac_div(m: &Macro) -> bool {
        let n = m.path.segments.last().unwrap().ident.to_string();
        n == "panic_with_error" || n == "panic" || n == "unreachable"
    }
    match body {
        Expr::Macro(m) => mac_div(&m.mac),
        Expr::Block(b) => {
            if b.block.stmts.len() == 1 {
                match &b.block.stmts[0] {
                    Stmt::Macro(m) => mac_div(&m.mac),
                    Stmt::Expr(e, _) => closure_is_diverging(e),
                    _ => false,
                }
            } else {
                false
            }
        }
        _ => false,
    }
}

impl<'a> VisitMut for Rw<'a> {
    fn visit_local_mut(&mut self, l: &mut Local) {
        if let Some(init) = &l.init {
            if is_client_ctor(&init.expr) {
                if let Pat::Ident(pi) = &l.pat {
                    self.clients.insert(pi.ident.to_string());
                }
            }
        }
        visit_mut::visit_local_mut(self, l);
    }

    fn visit_expr_closure_mut(&mut self, c: &mut ExprClosure) {
        // T5
        let mut n = 0;
        for p in c.inputs.iter_mut() {
            if let Pat::Wild(_) = p {
                let id = Ident::new(&format!("_p{}", n), Span::call_site());
                *p = parse_quote!(#id);
                self.site("T5-wild");
            }
            n += 1;
        }
        // T5 (patterns): a closure parameter that is a tuple pattern `|(a, b)| body` -> `|__cp<n>| { let (a, b) = __cp<n>; body }`
        // (this Verus accepts only variables as closure parameters; binding the same pattern first thing in the body
        // is what the parameter pattern means)
        let mut pat_lets: Vec<Stmt> = Vec::new();
        let mut n2 = 0;
        for p in c.inputs.iter_mut() {
            if let Pat::Tuple(_) = p {
                let id = Ident::new(&format!("__cp{}", n2), Span::call_site());
                let pat = p.clone();
                pat_lets.push(parse_quote!(let #pat = #id;));
                *p = parse_quote!(#id);
                self.site("T5-pattern");
            }
            n2 += 1;
        }
        let k = self.diverge;
        self.diverge += 1;
        let lit = LitInt::new(&k.to_string(), Span::call_site());
        if closure_is_diverging(&c.body) {
            let body = (*c.body).clone();
            *c.body = parse_quote!({ __vx_diverge!(#lit); #(#pat_lets)* #body });
            self.site("T5-diverge");
            return;
        }
        visit_mut::visit_expr_closure_mut(self, c);
        // every other closure gets an anchor where a spec pack may put `requires/ensures`
        let body = (*c.body).clone();
        *c.body = match body {
            Expr::Block(b) if b.attrs.is_empty() && b.label.is_none() => {
                let stmts = &b.block.stmts;
                parse_quote!({ __vx_closure!(#lit); #(#pat_lets)* #(#stmts)* })
            }
            other => parse_quote!({ __vx_closure!(#lit); #(#pat_lets)* #other }),
        };
    }

    fn visit_expr_for_loop_mut(&mut self, f: &mut ExprForLoop) {
        let k = self.loops;
        self.loops += 1;
        visit_mut::visit_expr_for_loop_mut(self, f);
        let lit = LitInt::new(&k.to_string(), Span::call_site());
        let mut it = (*f.expr).clone();
        // T14: `for x in m.values()` / `m.keys()` (an SDK container *value*, not an iterator) ->
        // `for x in m.values().into_iter()`: exactly Rust's own desugaring of `for` (IntoIterator::into_iter);
        // Verus' for-loops accept only iterators.
        if let Expr::MethodCall(mc) = &it {
            let m = mc.method.to_string();
            if (m == "values" || m == "keys") && mc.args.is_empty() {
                let inner = it.clone();
                it = parse_quote!(#inner.into_iter());
                self.site("T14-for-into-iter");
            }
        }
        *f.expr = parse_quote!(__vx_iter!(#lit, #it));
        f.body.stmts.insert(0, parse_quote!(__vx_loop!(#lit);));
        // T12b: a guard that skips the rest of the iteration becomes the equivalent nesting
        nest_continues(&mut f.body.stmts, &mut self.sites);
        // T12: continue in tail position
        if let Some(last) = f.body.stmts.last_mut() {
            tail_continue(last, &mut self.sites);
        }
        let mut chk = ContinueFinder { found: false };
        chk.visit_block(&f.body);
        if chk.found {
            self.errors.push("`continue` in non-tail position of a for loop (T12)".into());
        }
    }
    fn visit_expr_while_mut(&mut self, w: &mut ExprWhile) {
        let k = self.loops;
        self.loops += 1;
        visit_mut::visit_expr_while_mut(self, w);
        let lit = LitInt::new(&k.to_string(), Span::call_site());
        w.body.stmts.insert(0, parse_quote!(__vx_loop!(#lit);));
    }
    fn visit_expr_loop_mut(&mut self, w: &mut ExprLoop) {
        let k = self.loops;
        self.loops += 1;
        visit_mut::visit_expr_loop_mut(self, w);
        let lit = LitInt::new(&k.to_string(), Span::call_site());
        w.body.stmts.insert(0, parse_quote!(__vx_loop!(#lit);));
    }

    fn visit_arm_mut(&mut self, a: &mut Arm) {
        // T11: `#[rustfmt::skip]` on a match arm is a formatting directive only
        let before = a.attrs.len();
        // (path normalisation has already shortened `rustfmt::skip` to `skip`)
        a.attrs.retain(|at| !(at.path().segments.iter().any(|s| s.ident == "rustfmt") || at.path().is_ident("skip")));
        if a.attrs.len() != before {
            self.site("T11-rustfmt-skip");
        }
        visit_mut::visit_arm_mut(self, a);
    }

    fn visit_expr_mut(&mut self, e: &mut Expr) {
        // macro-expanded `symbol_short!("x")` is the block `{ const SYMBOL: Symbol = Symbol::short("x"); SYMBOL }`:
        // back to the form the un-expanded sources are translated to (`Symbol::vx_short("x")`, same value)
        if let Expr::Block(b) = e {
            if b.label.is_none() && b.block.stmts.len() == 2 {
                if let (Stmt::Item(Item::Const(c)), Stmt::Expr(Expr::Path(tail), None)) = (&b.block.stmts[0], &b.block.stmts[1]) {
                    if tail.path.is_ident(&c.ident) {
                        if let Expr::Call(call) = &*c.expr {
                            if let Expr::Path(f) = &*call.func {
                                let segs: Vec<String> = f.path.segments.iter().map(|s| s.ident.to_string()).collect();
                                if segs.len() >= 2 && segs[segs.len() - 2] == "Symbol" && segs[segs.len() - 1] == "short" && call.args.len() == 1 {
                                    if let Expr::Lit(ExprLit { lit: Lit::Str(ls), .. }) = &call.args[0] {
                                        let ls = ls.clone();
                                        *e = parse_quote!(Symbol::vx_short(#ls));
                                        self.site("T13-symbol-short");
                                        return;
                                    }
                                }
                            }
                        }
                    }
                }
            }
        }
        // T15: `Vec::from_iter(env, ITER.map(|p| BODY))` -> `{ let mut v = Vec::new(env); for p in ITER { v.push_back(BODY); } v }`.
        // This is the SDK's own definition of `from_iter` (`new` + `extend` = `for item in iter { push_back(item) }`) with
        // `Iterator::map`'s `next` (apply the closure to the next inner item) inlined; needed because Verus has no closures
        // that capture `&mut` state, and the closure here may call effectful functions with the environment.
        let mut t15: Option<Expr> = None;
        if let Expr::Call(c) = e {
            if let Expr::Path(p) = &*c.func {
                let segs: Vec<String> = p.path.segments.iter().map(|s| s.ident.to_string()).collect();
                if segs == ["Vec", "from_iter"] && c.args.len() == 2 {
                    if let Expr::MethodCall(mc) = &c.args[1] {
                        if mc.method == "map" && mc.args.len() == 1 {
                            if let Expr::Closure(cl) = &mc.args[0] {
                                if cl.inputs.len() == 1 && cl.capture.is_none() {
                                    let env = &c.args[0];
                                    let it = &mc.receiver;
                                    let pat: Pat = match &cl.inputs[0] {
                                        Pat::Type(pt) => (*pt.pat).clone(),
                                        other => other.clone(),
                                    };
                                    let body = &cl.body;
                                    t15 = Some(parse_quote!({
                                        let mut __vx_fi = Vec::new(#env);
                                        for #pat in #it {
                                            __vx_fi.push_back(#body);
                                        }
                                        __vx_fi
                                    }));
                                }
                            }
                        }
                    }
                }
            }
        }
        if let Some(n) = t15 {
            *e = n;
            self.site("T15-from-iter-map");
        }
        // T17: find_map / filter_map+find_map over an integer range, and `.iter().find_map(..)` on the Option such a chain
        // returns -> their std definitions as loops (see `t17`)
        if let Expr::MethodCall(mc) = e {
            // a chain used as the receiver of a further method (`CHAIN.unwrap_or_else(..)`): the block needs parentheses there
            if let Some(n) = self.t17(&mc.receiver) {
                *mc.receiver = parse_quote!((#n));
            }
        }
        if let Some(n) = self.t17(e) {
            *e = n;
        }
        // T14 (eta): `.map(Ctor)` with a tuple-struct constructor used as a function value -> `.map(|__c| Ctor(__c))`
        // (Verus does not support constructors as function values; the closure is the same function)
        if let Expr::MethodCall(mc) = e {
            if mc.method == "map" && mc.args.len() == 1 {
                let is_ctor = match &mc.args[0] {
                    Expr::Path(p) if p.qself.is_none() && p.path.segments.len() == 1 => {
                        self.ctor_types.contains(&p.path.segments[0].ident.to_string())
                    }
                    _ => false,
                };
                if is_ctor {
                    let ctor = mc.args[0].clone();
                    mc.args[0] = parse_quote!(|__c| #ctor(__c));
                    self.site("T14-eta");
                }
            }
        }
        // children first
        visit_mut::visit_expr_mut(self, e);
        let mut replacement: Option<Expr> = None;
        match e {
            Expr::MethodCall(mc) => {
                let m = mc.method.to_string();
                if let Some((x, d)) = storage_chain(&mc.receiver) {
                    // T2
                    let x = x.clone();
                    let name = Ident::new(&format!("storage_{}_{}", d, m), mc.method.span());
                    let tf = &mc.turbofish;
                    let mut args = mc.args.clone();
                    self.site("T2-storage");
                    let lets = if STORE_MUT.contains(&m.as_str()) || (m == "extend_ttl" && d == "temporary") {
                        self.hoist(&mut args, false)
                    } else {
                        vec![]
                    };
                    let call: Expr = parse_quote!(#x.#name #tf (#args));
                    replacement = Some(if lets.is_empty() { call } else { parse_quote!({ #(#lets)* #call }) });
                } else if let Some((x, h)) = handle_chain(&mc.receiver) {
                    let x = x.clone();
                    let name = Ident::new(&format!("{}_{}", h, m), mc.method.span());
                    let tf = &mc.turbofish;
                    let args = &mc.args;
                    self.site("T2-handle");
                    replacement = Some(parse_quote!(#x.#name #tf (#args)));
                } else if (m == "unwrap" && mc.args.is_empty()) || (m == "expect" && mc.args.len() == 1) {
                    // T4: partial-correctness reading of a panic
                    let r = &mc.receiver;
                    self.site("T4-unwrap");
                    replacement = Some(parse_quote!(#r.vx_unwrap()));
                } else if (m == "contains" || m == "first_index_of") && mc.args.len() == 1 && matches!(mc.args[0], Expr::Tuple(_)) {
                    // T16: the SDK's `Vec::contains` / `first_index_of` take `impl Borrow<T>`; the model's take `&T`.  A tuple
                    // passed by value is passed by reference instead (same comparison).
                    let r = &mc.receiver;
                    let a = &mc.args[0];
                    let name = &mc.method;
                    self.site("T16-borrow");
                    replacement = Some(parse_quote!(#r.#name(&#a)));
                } else if m == "to_be_bytes" && mc.args.is_empty() {
                    // T15: `x.to_be_bytes()` -> `x.vx_to_be_bytes()`: the result type of the std method is `[u8; <anonymous
                    // const>]`, which an `assume_specification` cannot name; the model trait `VxBeBytes` (fragment idv_ext)
                    // gives the same method a contract.  Pure renaming.
                    let r = &mc.receiver;
                    self.site("T15-be-bytes");
                    replacement = Some(parse_quote!(#r.vx_to_be_bytes()));
                } else if m == "require_auth" && mc.args.is_empty() {
                    let env = self.env_expr();
                    let a = &mc.receiver;
                    self.site("T3-auth");
                    replacement = Some(parse_quote!(#env.require_auth(&#a)));
                } else if m == "require_auth_for_args" {
                    let env = self.env_expr();
                    let a = &mc.receiver;
                    let args = &mc.args;
                    self.site("T3-auth");
                    replacement = Some(parse_quote!(#env.require_auth_for_args(&#a, #args)));
                } else {
                    // client calls: CLIENT.m(args) -> CLIENT.m(env, args)
                    let is_client = is_client_ctor(&mc.receiver)
                        || path_ident(&mc.receiver).map(|i| self.clients.contains(&i)).unwrap_or(false);
                    if is_client {
                        let env = self.env_expr();
                        let r = &mc.receiver;
                        let name = &mc.method;
                        let mut args = mc.args.clone();
                        let lets = self.hoist(&mut args, false);
                        self.site("T3-client");
                        let call: Expr = parse_quote!(#r.#name(#env, #args));
                        replacement = Some(if lets.is_empty() { call } else { parse_quote!({ #(#lets)* #call }) });
                    }
                }
            }
            Expr::Call(c) if matches!(&*c.func, Expr::Path(p) if { let n = p.path.segments.last().unwrap().ident.to_string(); n == "panic_fmt" || n == "panic_explicit" || n == "unreachable_display" || (n == "panic" && p.path.segments.len() == 1 && false) }) => {
                self.site("T4-panic");
                replacement = Some(parse_quote!(sdk_panic(0u32)));
            }
            Expr::Call(c) => {
                let eff = self.callee_effectful(&c.func);
                if let Expr::Path(p) = &mut *c.func {
                    let name = clean(&ts(p));
                    if let Some(nn) = self.rename_calls.get(&name) {
                        let np: ExprPath = syn::parse_str(nn).expect("rename target");
                        *p = np;
                        self.site("T8-static");
                    }
                }
                if eff == Some(true) {
                    // `&e` (by-value env) -> `&mut e`
                    for a in c.args.iter_mut() {
                        if let Expr::Reference(r) = a {
                            if r.mutability.is_none() {
                                let inner: &Expr = match &*r.expr {
                                    Expr::Unary(u) if matches!(u.op, UnOp::Deref(_)) => &u.expr,
                                    other => other,
                                };
                                if let Some(id) = path_ident(inner) {
                                    if self.env_by_value.contains(&id) {
                                        r.mutability = Some(Default::default());
                                        self.site("T1-refmut");
                                    }
                                }
                            }
                        }
                    }
                    let mut args = c.args.clone();
                    let lets = self.hoist(&mut args, true);
                    if !lets.is_empty() {
                        let f = &c.func;
                        replacement = Some(parse_quote!({ #(#lets)* #f(#args) }));
                    }
                }
            }
            Expr::Binary(b) if self.checked_arith && !self.float_ctx => {
                if let Some(n) = binop_name(&b.op) {
                    let f = Ident::new(n, Span::call_site());
                    let (l, r) = (&b.left, &b.right);
                    self.site("T6-arith");
                    replacement = Some(parse_quote!(#f(#l, #r)));
                } else if let Some(n) = assignop_name(&b.op) {
                    let f = Ident::new(n, Span::call_site());
                    let (l, r) = (&b.left, &b.right);
                    self.site("T6-arith");
                    replacement = Some(parse_quote!(#l = #f(#l, #r)));
                }
            }
            Expr::Unary(u) if self.checked_arith => {
                if let UnOp::Neg(_) = u.op {
                    if !matches!(&*u.expr, Expr::Lit(_)) {
                        let x = &u.expr;
                        self.site("T6-arith");
                        replacement = Some(parse_quote!(ck_neg(#x)));
                    }
                }
            }
            Expr::Macro(m) => {
                if let Some(r) = self.rewrite_macro(&m.mac) {
                    replacement = Some(r);
                }
            }
            Expr::Reference(r) if self.self_effectful => {
                // T1: a by-value `e: Env` of an effectful function became `e: &mut Env`; `&e` -> `&*e`, `&mut e` -> `&mut *e`
                if let Some(id) = path_ident(&r.expr) {
                    if self.env_by_value.contains(&id) {
                        let idt = Ident::new(&id, Span::call_site());
                        replacement = Some(if r.mutability.is_some() { parse_quote!(&mut *#idt) } else { parse_quote!(&*#idt) });
                        self.site("T1-byvalue");
                    }
                }
            }
            _ => {}
        }
        if let Some(r) = replacement {
            *e = r;
        }
    }

    fn visit_stmt_mut(&mut self, s: &mut Stmt) {
        visit_mut::visit_stmt_mut(self, s);
        if let Stmt::Macro(sm) = s {
            if let Some(r) = self.rewrite_macro(&sm.mac) {
                let semi = sm.semi_token;
                *s = Stmt::Expr(r, semi);
            }
        }
    }
}

impl<'a> Rw<'a> {
    fn rewrite_macro(&mut self, mac: &Macro) -> Option<Expr> {
        let name = mac.path.segments.last().unwrap().ident.to_string();
        match name.as_str() {
            "panic" => {
                // T4: a plain `panic!(..)` in (unexpanded) source text: partial-correctness reading, like `panic_fmt` in expanded text
                self.site("T4-panic");
                Some(parse_quote!(sdk_panic(0u32)))
            }
            "panic_with_error" | "unreachable" | "symbol_short" | "format_args" | "matches" | "__vx_loop" | "__vx_iter" | "__vx_diverge" | "__vx_closure" => None,
            "vec" => {
                // soroban vec![e, a, b, ...] -> Vec::from_array(e, [a, b, ...]) with rewritten elements
                let parser = syn::punctuated::Punctuated::<Expr, Token![,]>::parse_terminated;
                match mac.parse_body_with(parser) {
                    Ok(mut args) => {
                        for a in args.iter_mut() {
                            self.visit_expr_mut(a);
                        }
                        let mut it = args.into_iter();
                        let env = it.next();
                        let rest: Vec<Expr> = it.collect();
                        self.site("T9-vecmacro");
                        match env {
                            Some(env) => Some(parse_quote!(Vec::from_array(#env, [#(#rest),*]))),
                            None => {
                                self.errors.push("vec![] without env".into());
                                None
                            }
                        }
                    }
                    Err(_) => {
                        self.errors.push("unsupported vec! form".into());
                        None
                    }
                }
            }
            "assert" | "debug_assert" | "assert_eq" | "format" | "log" => {
                self.errors.push(format!("unsupported macro {}!", name));
                None
            }
            _ => {
                self.errors.push(format!("unknown macro {}!", name));
                None
            }
        }
    }
}

struct ContinueFinder {
    found: bool,
}
impl<'ast> Visit<'ast> for ContinueFinder {
    fn visit_expr_continue(&mut self, _c: &'ast ExprContinue) {
        self.found = true;
    }
    fn visit_expr_for_loop(&mut self, _f: &'ast ExprForLoop) {}
    fn visit_expr_while(&mut self, _f: &'ast ExprWhile) {}
    fn visit_expr_loop(&mut self, _f: &'ast ExprLoop) {}
    fn visit_expr_closure(&mut self, _f: &'ast ExprClosure) {}
}

fn is_only_continue(b: &Block) -> bool {
    b.stmts.len() == 1
        && match &b.stmts[0] {
            Stmt::Expr(Expr::Continue(c), _) => c.label.is_none(),
            _ => false,
        }
}

/// T12b: at the statement level of a `for` body,
///   `let PAT = EXPR else { continue; }; REST`  ->  `if let PAT = EXPR { REST }`
///   `if COND { continue; } REST`               ->  `if !(COND) { REST }`
/// (the loop body has type `()`, so skipping REST and falling off the end of the iteration is what `continue` does)
fn nest_continues(stmts: &mut Vec<Stmt>, sites: &mut BTreeMap<String, usize>) {
    let mut i = 0;
    while i < stmts.len() {
        let mut replacement: Option<Stmt> = None;
        match &stmts[i] {
            Stmt::Local(l) => {
                if let Some(init) = &l.init {
                    if let Some((_, els)) = &init.diverge {
                        if let Expr::Block(eb) = &**els {
                            if is_only_continue(&eb.block) && !matches!(l.pat, Pat::Type(_)) && i + 1 <= stmts.len() {
                                let mut rest: Vec<Stmt> = stmts[i + 1..].to_vec();
                                nest_continues(&mut rest, sites);
                                let pat = &l.pat;
                                let ex = &init.expr;
                                let e: Expr = parse_quote!(if let #pat = #ex { #(#rest)* });
                                replacement = Some(Stmt::Expr(e, None));
                            }
                        }
                    }
                }
            }
            Stmt::Expr(Expr::If(iff), _) => {
                if iff.else_branch.is_none() && is_only_continue(&iff.then_branch) && i + 1 < stmts.len() {
                    let mut rest: Vec<Stmt> = stmts[i + 1..].to_vec();
                    nest_continues(&mut rest, sites);
                    let c = &iff.cond;
                    let e: Expr = parse_quote!(if !(#c) { #(#rest)* });
                    replacement = Some(Stmt::Expr(e, None));
                }
            }
            _ => {}
        }
        if let Some(r) = replacement {
            stmts.truncate(i);
            stmts.push(r);
            *sites.entry("T12b-nest-continue".into()).or_insert(0) += 1;
            return;
        }
        i += 1;
    }
}

fn only_return(b: &Block) -> Option<Option<Expr>> {
    if b.stmts.len() == 1 {
        if let Stmt::Expr(Expr::Return(r), _) = &b.stmts[0] {
            return Some(r.expr.as_ref().map(|e| (**e).clone()));
        }
    }
    None
}

/// T19: at the statement level of a function body (and of the nested "rest" blocks it creates)
///   `if C { return; } REST`                      ->  `if !(C) { REST }`                     (unit function)
///   `if C { return X; } REST`                    ->  `if C { X } else { REST }`
///   `let P = E else { return; }; REST`           ->  `if let P = E { REST }`                (unit function)
///   `let P = E else { return X; }; REST`         ->  `if let P = E { REST } else { X }`
///   a trailing `return X;`                       ->  `X`
fn nest_returns_in(stmts: &mut Vec<Stmt>, unit_fn: bool, ret_option: bool, sites: &mut BTreeMap<String, usize>) {
    // trailing `return X;` / `return;`
    if let Some(Stmt::Expr(Expr::Return(r), _)) = stmts.last() {
        let rep: Option<Expr> = r.expr.as_ref().map(|e| (**e).clone());
        stmts.pop();
        if let Some(x) = rep {
            stmts.push(Stmt::Expr(x, None));
        }
        *sites.entry("T19-nest-return".into()).or_insert(0) += 1;
    }
    let mut i = 0;
    while i < stmts.len() {
        let mut replacement: Option<Stmt> = None;
        match &stmts[i] {
            Stmt::Expr(Expr::If(iff), _) if iff.else_branch.is_none() => {
                if let Some(ret) = only_return(&iff.then_branch) {
                    let mut rest: Vec<Stmt> = stmts[i + 1..].to_vec();
                    nest_returns_in(&mut rest, unit_fn, ret_option, sites);
                    let c = &iff.cond;
                    match ret {
                        None if unit_fn => {
                            let e: Expr = parse_quote!(if !(#c) { #(#rest)* });
                            replacement = Some(Stmt::Expr(e, None));
                        }
                        Some(x) if !rest.is_empty() => {
                            let e: Expr = parse_quote!(if #c { #x } else { #(#rest)* });
                            replacement = Some(Stmt::Expr(e, None));
                        }
                        _ => {}
                    }
                }
            }
            Stmt::Local(l) if ret_option && !matches!(l.pat, Pat::Type(_)) && l.init.as_ref().map(|i| i.diverge.is_none() && matches!(&*i.expr, Expr::Try(_))).unwrap_or(false) => {
                // `let P = E?; REST`  ->  `if let Some(P) = E { REST } else { None }`   (function returning Option)
                if let Some(init) = &l.init {
                    if let Expr::Try(t) = &*init.expr {
                        let mut rest: Vec<Stmt> = stmts[i + 1..].to_vec();
                        nest_returns_in(&mut rest, unit_fn, ret_option, sites);
                        if !rest.is_empty() {
                            let pat = &l.pat;
                            let inner = &t.expr;
                            let e: Expr = parse_quote!(if let Some(#pat) = #inner { #(#rest)* } else { None });
                            replacement = Some(Stmt::Expr(e, None));
                        }
                    }
                }
            }
            Stmt::Local(l) if !matches!(l.pat, Pat::Type(_)) => {
                if let Some(init) = &l.init {
                    if let Some((_, els)) = &init.diverge {
                        if let Expr::Block(eb) = &**els {
                            if let Some(ret) = only_return(&eb.block) {
                                let mut rest: Vec<Stmt> = stmts[i + 1..].to_vec();
                                nest_returns_in(&mut rest, unit_fn, ret_option, sites);
                                let pat = &l.pat;
                                let ex = &init.expr;
                                match ret {
                                    None if unit_fn => {
                                        let e: Expr = parse_quote!(if let #pat = #ex { #(#rest)* });
                                        replacement = Some(Stmt::Expr(e, None));
                                    }
                                    Some(x) if !rest.is_empty() => {
                                        let e: Expr = parse_quote!(if let #pat = #ex { #(#rest)* } else { #x });
                                        replacement = Some(Stmt::Expr(e, None));
                                    }
                                    _ => {}
                                }
                            }
                        }
                    }
                }
            }
            _ => {}
        }
        if let Some(r) = replacement {
            stmts.truncate(i);
            stmts.push(r);
            *sites.entry("T19-nest-return".into()).or_insert(0) += 1;
            return;
        }
        i += 1;
    }
}

fn tail_continue_expr(e: &mut Expr, sites: &mut BTreeMap<String, usize>) {
    match e {
        Expr::Continue(c) if c.label.is_none() => {
            *e = parse_quote!(());
            *sites.entry("T12-continue".into()).or_insert(0) += 1;
        }
        Expr::If(i) => {
            if let Some(l) = i.then_branch.stmts.last_mut() {
                tail_continue(l, sites);
            }
            if let Some((_, el)) = &mut i.else_branch {
                tail_continue_expr(el, sites);
            }
        }
        Expr::Block(b) => {
            if let Some(l) = b.block.stmts.last_mut() {
                tail_continue(l, sites);
            }
        }
        Expr::Match(m) => {
            for arm in m.arms.iter_mut() {
                tail_continue_expr(&mut arm.body, sites);
            }
        }
        _ => {}
    }
}
fn tail_continue(s: &mut Stmt, sites: &mut BTreeMap<String, usize>) {
    if let Stmt::Expr(e, _) = s {
        tail_continue_expr(e, sites);
    }
}

// ------------------------------------------------------------------------------------------

fn is_env_type(t: &Type) -> Option<bool> {
    // Some(true) = by reference, Some(false) = by value
    match t {
        Type::Reference(r) => {
            if last_seg(&r.elem) == "Env" {
                Some(true)
            } else {
                None
            }
        }
        Type::Path(_) => {
            if last_seg(t) == "Env" {
                Some(false)
            } else {
                None
            }
        }
        _ => None,
    }
}

fn main() {
    let args: Vec<String> = std::env::args().collect();
    if args.len() < 2 {
        eprintln!("usage: sorobanvx job.json");
        std::process::exit(2);
    }
    let job: Value = serde_json::from_str(&std::fs::read_to_string(&args[1]).expect("read job")).expect("job json");
    let root = job["root"].as_str().unwrap_or("/repo").to_string();
    let mut c = Collected { trait_supers: BTreeMap::new(), assoc_bounds: BTreeMap::new(), trait_impls: vec![], fns: vec![], types: vec![], consts: vec![], clients: vec![], type_names: BTreeSet::new() };
    let mut errors: Vec<String> = vec![];
    for f in job["files"].as_array().expect("files") {
        let rel = f.as_str().unwrap();
        let p = if rel.starts_with('/') { rel.to_string() } else { format!("{}/{}", root, rel) };
        let src = match std::fs::read_to_string(&p) {
            Ok(s) => s,
            Err(e) => {
                errors.push(format!("lost anchor: cannot read {}: {}", p, e));
                continue;
            }
        };
        match syn::parse_file(&src) {
            Ok(file) => collect_items(&file.items, rel, "", &mut c),
            Err(e) => errors.push(format!("parse error in {}: {}", p, e)),
        }
    }
    // a trait-impl method `impl Tr for T { fn m }` whose key collides with an inherent method `impl T { fn m }`
    // of the same file (e.g. `impl ContractOverrides for RWA { fn transfer }` next to `RWA::transfer`) is
    // emitted under the key `T::Tr__m` / name `Tr__m`; paths `T::m` keep resolving to the inherent method,
    // exactly as rustc resolves them.
    {
        let inherent: BTreeSet<(String, String)> =
            c.fns.iter().filter(|f| f.trait_name.is_none() && f.impl_type.is_some()).map(|f| (f.file.clone(), f.key.clone())).collect();
        for f in c.fns.iter_mut() {
            if let (Some(tr), Some(ty), false) = (f.trait_name.clone(), f.impl_type.clone(), f.in_trait_decl) {
                if inherent.contains(&(f.file.clone(), f.key.clone())) {
                    let nm = format!("{}__{}", tr, f.sig.ident);
                    f.key = format!("{}::{}", ty, nm);
                    f.sig.ident = Ident::new(&nm, f.sig.ident.span());
                }
            }
        }
    }
    // a trait-impl method that has an inherent method of the same type and name next to it
    // (`impl ContractOverrides for AllowList { fn transfer }` beside `impl AllowList { fn transfer }`)
    // gets the three-segment key `Type::Trait::method`; it is selected only when named explicitly
    // (never by "*") — formerly such a pair was an "ambiguous function key" error.
    {
        let inherent: BTreeSet<String> = c.fns.iter().filter(|f| f.trait_name.is_none()).map(|f| f.key.clone()).collect();
        for f in c.fns.iter_mut() {
            if !f.in_trait_decl && inherent.contains(&f.key) {
                if let (Some(t), Some(ty)) = (f.trait_name.clone(), f.impl_type.clone()) {
                    f.key = format!("{}::{}::{}", ty, t, f.sig.ident);
                }
            }
        }
    }
    // T8: trait default methods instantiated for each implementing type.  `Self::Assoc::m(..)` inside a default
    // body is a call through the trait the associated type is bound by (`type ContractType: ContractOverrides`), so it
    // resolves to `impl Bound for X { fn m }` if X overrides m there, else to Bound's own default for X — never to an
    // inherent method of X that happens to have the same name.
    if job["resolve_trait_defaults"].as_bool().unwrap_or(false) {
        let mut work: Vec<(String, String)> = c.trait_impls.iter().map(|t| (t.trait_name.clone(), t.type_name.clone())).collect();
        let mut done: BTreeSet<(String, String)> = BTreeSet::new();
        while let Some((tr, ty)) = work.pop() {
            if !done.insert((tr.clone(), ty.clone())) {
                continue;
            }
            let (mut assoc, overridden, igen, iself) = match c.trait_impls.iter().find(|t| t.trait_name == tr && t.type_name == ty) {
                Some(ti) => (ti.assoc.clone(), ti.overridden.clone(), ti.impl_generics.clone(), ti.impl_self_ty.clone()),
                None => (BTreeMap::new(), BTreeSet::new(), String::new(), ty.clone()),
            };
            // associated types may be declared in the impl of a supertrait for the same type
            // (`impl FungibleToken for T { type ContractType = Vault; }` + `impl FungibleVault for T {}`)
            for tj in &c.trait_impls {
                if tj.type_name == ty {
                    for (k, v) in &tj.assoc {
                        assoc.entry(k.clone()).or_insert(v.clone());
                    }
                }
            }
            let defaults: Vec<FnRec> = c.fns.iter().filter(|f| f.in_trait_decl && f.trait_name.as_deref() == Some(tr.as_str())).cloned().collect();
            for f in defaults {
                let name = f.sig.ident.to_string();
                if overridden.contains(&name) {
                    continue;
                }
                let (key, ident) = trait_method_name(&c.fns, &tr, &ty, &name);
                if c.fns.iter().any(|g| g.key == key && !g.in_trait_decl) {
                    continue;
                }
                let mut g = f.clone();
                g.key = key;
                g.sig.ident = Ident::new(&ident, g.sig.ident.span());
                g.impl_type = Some(ty.clone());
                g.impl_generics = igen.clone();
                g.impl_self_ty = iself.clone();
                g.in_trait_decl = false;
                g.vis = "pub".into();
                g.file = format!("{} (default of trait {} for {})", f.file, tr, ty);
                let mut ar = AssocResolver { supers: &c.trait_supers, tr: &tr, assoc: &assoc, bounds: &c.assoc_bounds, fns: &c.fns, need: vec![], errors: vec![] };
                ar.visit_block_mut(&mut g.block);
                let mut pn = PathNorm { assoc: &assoc, sites: 0, assoc_only: false, qualified: None };
                pn.visit_signature_mut(&mut g.sig);
                for e in ar.errors {
                    errors.push(format!("{}: {}", g.key, e));
                }
                work.extend(ar.need);
                c.fns.push(g);
            }
        }
    }
    // selection
    let sel: Vec<String> = job["fns"].as_array().map(|a| a.iter().map(|v| v.as_str().unwrap().to_string()).collect()).unwrap_or_default();
    let all = sel.iter().any(|s| s == "*");
    let exclude: BTreeSet<String> =
        job["exclude_fns"].as_array().map(|a| a.iter().map(|v| v.as_str().unwrap().to_string()).collect()).unwrap_or_default();
    // a trait-impl method that shares its key with an inherent method of the same type (e.g.
    // `impl ContractOverrides for Enumerable { fn transfer }` next to `impl Enumerable { fn transfer }`)
    // is re-keyed `Type::<Trait>::method`, so that the plain key names the inherent method
    {
        let inherent: BTreeSet<String> = c.fns.iter().filter(|f| f.trait_name.is_none() && f.impl_type.is_some()).map(|f| f.key.clone()).collect();
        for f in c.fns.iter_mut() {
            if let (Some(tn), Some(ty)) = (&f.trait_name, &f.impl_type) {
                if !f.in_trait_decl && inherent.contains(&f.key) {
                    f.key = format!("{}::<{}>::{}", ty, tn, f.sig.ident);
                }
            }
        }
    }
    // "rename_fns": {"<file>#<free fn>": "<new name>"} — two files of one unit may define free functions of the same
    // name (math: `div_floor` for i128 and for I256); the definition and the calls *inside that file* are renamed
    let rename_fns: BTreeMap<String, String> =
        job["rename_fns"].as_object().map(|m| m.iter().map(|(k, v)| (k.clone(), v.as_str().unwrap().to_string())).collect()).unwrap_or_default();
    let mut file_renames: BTreeMap<String, BTreeMap<String, String>> = BTreeMap::new();
    for f in c.fns.iter_mut() {
        if f.impl_type.is_none() {
            if let Some(n) = rename_fns.get(&format!("{}#{}", f.file, f.key)) {
                f.sig.ident = Ident::new(n, f.sig.ident.span());
                file_renames.entry(f.file.clone()).or_default().insert(f.key.clone(), n.clone());
                f.key = n.clone();
            }
        }
    }
    let exclude_prefixes: Vec<String> =
        job["exclude_fn_prefixes"].as_array().map(|a| a.iter().map(|v| v.as_str().unwrap().to_string()).collect()).unwrap_or_default();
    // optional per-file disambiguation "file#key"
    let mut selected: Vec<FnRec> = vec![];
    let mut seen = BTreeSet::new();
    for f in &c.fns {
        let fk = format!("{}#{}", f.file, f.key);
        let shadowed = f.trait_name.is_some() && f.key.matches("::").count() == 2;
        let want = ((all && !shadowed) || sel.contains(&f.key) || sel.contains(&fk)) && !exclude.contains(&f.key) && !exclude.contains(&fk)
            && !exclude_prefixes.iter().any(|p| f.key.starts_with(p.as_str()));
        if want {
            if !seen.insert(f.key.clone()) {
                // `Type::name` defined both as an inherent method and as a trait-impl method: a path call
                // `Type::name(..)` resolves to the inherent one (Rust name resolution), so that is the one
                // extracted under this key; the trait-impl forwarder is reachable only through trait dispatch (T8)
                if let Some(i) = selected.iter().position(|g| g.key == f.key) {
                    if selected[i].trait_name.is_some() && f.trait_name.is_none() {
                        selected[i] = f.clone();
                        continue;
                    }
                    if selected[i].trait_name.is_none() && f.trait_name.is_some() {
                        continue;
                    }
                }
                errors.push(format!("ambiguous function key {} (second definition in {})", f.key, f.file));
                continue;
            }
            selected.push(f.clone());
        }
    }
    for s in &sel {
        if s != "*" {
            let k = s.split('#').last().unwrap();
            if !seen.contains(k) {
                errors.push(format!("lost anchor: function {} not found", s));
            }
        }
    }
    // `Self::Assoc::m(..)` written in a trait-impl method (not an instantiated default: those go through the bound, see T8)
    // names the associated type set in this impl or in the impl of a supertrait for the same type; the impl type is
    // concrete there, so the path resolves like `Base::burn` (inherent first).  Substituted before the effect inference.
    for f in selected.iter_mut() {
        if let (Some(tn), Some(ty), false) = (f.trait_name.clone(), f.impl_type.clone(), f.in_trait_decl) {
            if f.file.contains("(default of trait ") {
                continue;
            }
            let mut assoc: BTreeMap<String, String> = BTreeMap::new();
            for t in c.trait_impls.iter().filter(|t| t.type_name == ty && t.trait_name != tn) {
                for (k, v) in &t.assoc {
                    assoc.entry(k.clone()).or_insert(v.clone());
                }
            }
            for t in c.trait_impls.iter().filter(|t| t.type_name == ty && t.trait_name == tn) {
                for (k, v) in &t.assoc {
                    assoc.insert(k.clone(), v.clone());
                }
            }
            if !assoc.is_empty() {
                let mut pn = PathNorm { assoc: &assoc, sites: 0, assoc_only: true, qualified: None };
                pn.visit_block_mut(&mut f.block);
            }
        }
    }
    let mut sel_methods: BTreeMap<String, Vec<String>> = BTreeMap::new();
    for f in selected.iter() {
        if f.sig.receiver().is_some() {
            sel_methods.entry(f.sig.ident.to_string()).or_default().push(f.key.clone());
        }
    }
    let table = Table { keys: selected.iter().map(|f| f.key.clone()).collect(), methods: sel_methods };
    let all_table = Table { keys: c.fns.iter().filter(|f| !f.in_trait_decl).map(|f| f.key.clone()).collect(), methods: BTreeMap::new() };
    let mut unselected: BTreeMap<String, BTreeSet<String>> = BTreeMap::new();
    let mut mcalls: BTreeMap<String, BTreeSet<String>> = BTreeMap::new();
    let aliases: BTreeMap<String, String> =
        job["aliases"].as_object().map(|m| m.iter().map(|(k, v)| (k.clone(), v.as_str().unwrap().to_string())).collect()).unwrap_or_default();
    let rename_calls: BTreeMap<String, String> = job["rename_calls"]
        .as_object()
        .map(|m| m.iter().map(|(k, v)| (k.clone(), v.as_str().unwrap().to_string())).collect())
        .unwrap_or_default();
    let extern_effectful: BTreeSet<String> =
        job["extern_effectful"].as_array().map(|a| a.iter().map(|v| v.as_str().unwrap().to_string()).collect()).unwrap_or_default();
    let extern_pure: BTreeSet<String> =
        job["extern_pure"].as_array().map(|a| a.iter().map(|v| v.as_str().unwrap().to_string()).collect()).unwrap_or_default();
    let force_effectful: BTreeSet<String> =
        job["force_effectful"].as_array().map(|a| a.iter().map(|v| v.as_str().unwrap().to_string()).collect()).unwrap_or_default();
    let native_arith: BTreeSet<String> =
        job["native_arith"].as_array().map(|a| a.iter().map(|v| v.as_str().unwrap().to_string()).collect()).unwrap_or_default();
    let checked_default = job["checked_arith"].as_bool().unwrap_or(true);

    // env params
    let mut envs_of: BTreeMap<String, (BTreeSet<String>, BTreeSet<String>)> = BTreeMap::new();
    for f in &selected {
        let mut envs = BTreeSet::new();
        let mut byval = BTreeSet::new();
        for a in &f.sig.inputs {
            if let FnArg::Typed(pt) = a {
                if let Some(byref) = is_env_type(&pt.ty) {
                    if let Pat::Ident(pi) = &*pt.pat {
                        envs.insert(pi.ident.to_string());
                        if !byref {
                            byval.insert(pi.ident.to_string());
                        }
                    }
                }
            }
        }
        envs_of.insert(f.key.clone(), (envs, byval));
    }

    // effect inference (fix-point)
    let mut prim: BTreeSet<String> = BTreeSet::new();
    let mut calls: BTreeMap<String, BTreeSet<String>> = BTreeMap::new();
    let mut unknown: BTreeMap<String, BTreeSet<String>> = BTreeMap::new();
    for f in &selected {
        let (envs, _) = &envs_of[&f.key];
        let mut ef = Effects {
            envs,
            table: &table,
            cur_impl: &f.impl_type,
            aliases: &aliases,
            clients: BTreeSet::new(),
            primitive: false,
            callees: BTreeSet::new(),
            method_callees: BTreeSet::new(),
            unknown_env_calls: BTreeSet::new(),
            extern_effectful: &extern_effectful,
        };
        ef.visit_block(&f.block);
        if ef.primitive || force_effectful.contains(&f.key) {
            prim.insert(f.key.clone());
        }
        mcalls.insert(f.key.clone(), ef.method_callees.clone());
        calls.insert(f.key.clone(), ef.callees);
        // calls that resolve to a function of the given files which was NOT selected (e.g. a helper added by an edit)
        {
            let mut ef2 = Effects {
                envs,
                table: &all_table,
                cur_impl: &f.impl_type,
                aliases: &aliases,
                clients: BTreeSet::new(),
                primitive: false,
                callees: BTreeSet::new(),
            method_callees: BTreeSet::new(),
                unknown_env_calls: BTreeSet::new(),
                extern_effectful: &extern_effectful,
            };
            ef2.visit_block(&f.block);
            let uns: BTreeSet<String> = ef2.callees.into_iter().filter(|k| !table.keys.contains(k)).collect();
            unselected.insert(f.key.clone(), uns);
        }
        let unk: BTreeSet<String> = ef.unknown_env_calls.into_iter().filter(|n| !extern_pure.contains(n)).collect();
        if !unk.is_empty() {
            unknown.insert(f.key.clone(), unk);
        }
    }
    let mut effectful = prim.clone();
    loop {
        let mut changed = false;
        for (k, cs) in &calls {
            if !effectful.contains(k) && cs.iter().any(|c| effectful.contains(c)) {
                effectful.insert(k.clone());
                changed = true;
            }
        }
        if !changed {
            break;
        }
    }

    let nest_returns: BTreeSet<String> =
        job["nest_returns"].as_array().map(|a| a.iter().map(|v| v.as_str().unwrap().to_string()).collect()).unwrap_or_default();
    // rewrite
    let mut out_fns = vec![];
    for f in &selected {
        let (envs, byval) = envs_of[&f.key].clone();
        let eff = effectful.contains(&f.key);
        let mut rc_local = rename_calls.clone();
        if let Some(m) = file_renames.get(&f.file) {
            rc_local.extend(m.iter().map(|(k, v)| (k.clone(), v.clone())));
        }
        let mut rw = Rw {
            envs: envs.clone(),
            env_by_value: byval.clone(),
            table: &table,
            cur_impl: f.impl_type.clone(),
            aliases: &aliases,
            effectful: &effectful,
            extern_effectful: &extern_effectful,
            self_effectful: eff,
            checked_arith: checked_default && !native_arith.contains(&f.key),
            clients: BTreeSet::new(),
            loops: 0,
            diverge: 0,
            sites: BTreeMap::new(),
            errors: vec![],
            hoist_ctr: 0,
            fm_ctr: 0,
            rename_calls: &rc_local,
            ctor_types: &c.type_names,
            float_ctx: false,
        };
        let _ = rw.self_effectful;
        let mut block = f.block.clone();
        if nest_returns.contains(&f.key) {
            // T19 (only on request, for a function about to be inlined into its callers): guard-style early returns become
            // the equivalent nesting, so that the body is a plain block
            let unit_fn = matches!(f.sig.output, ReturnType::Default);
            let ret_option = match &f.sig.output { ReturnType::Type(_, t) => clean(&ts(t)).starts_with("Option<"), _ => false };
            nest_returns_in(&mut block.stmts, unit_fn, ret_option, &mut rw.sites);
        }
        let empty_assoc = BTreeMap::new();
        let assoc_here = match (&f.trait_name, &f.impl_type) {
            (Some(tn), Some(ty)) => c.trait_impls.iter().find(|t| &t.trait_name == tn && &t.type_name == ty).map(|t| &t.assoc).unwrap_or(&empty_assoc),
            _ => &empty_assoc,
        };
        let mut pn = PathNorm { assoc: assoc_here, sites: 0, assoc_only: false, qualified: Some(&rc_local) };
        pn.visit_block_mut(&mut block);
        let res = std::panic::catch_unwind(std::panic::AssertUnwindSafe(|| {
            rw.visit_block_mut(&mut block);
        }));
        if res.is_err() {
            errors.push(format!("{}: unsupported construct (the rewriter could not re-parse an expression)", f.key));
            continue;
        }
        let body = pretty_block(&block);
        // params
        let mut params = vec![];
        let mut nsig = f.sig.clone();
        pn.visit_signature_mut(&mut nsig);
        for a in &nsig.inputs {
            match a {
                FnArg::Typed(pt) => {
                    let name = clean(&ts(&pt.pat));
                    let mut ty = pretty_type(&pt.ty);
                    let mut pname = name.clone();
                    if let Some(byref) = is_env_type(&pt.ty) {
                        if eff {
                            if byref {
                                ty = "&mut Env".into();
                            } else {
                                // by-value Env of an effectful function: thread the state by `&mut`
                                ty = "&mut Env".into();
                                pname = name.trim_start_matches("mut ").to_string();
                            }
                            *rw.sites.entry("T1-envmut".into()).or_insert(0) += 1;
                        }
                    }
                    params.push(json!({"name": pname, "ty": ty, "orig_ty": pretty_type(&pt.ty)}));
                }
                FnArg::Receiver(r) => params.push(json!({"name":"self","ty": clean(&ts(r)), "orig_ty": clean(&ts(r))})),
            }
        }
        let ret = match &nsig.output {
            ReturnType::Default => Value::Null,
            ReturnType::Type(_, t) => json!(pretty_type(t)),
        };
        for e in &rw.errors {
            errors.push(format!("{}: {}", f.key, e));
        }
        out_fns.push(json!({
            "key": f.key, "name": f.sig.ident.to_string(), "file": f.file, "module": f.module,
            "impl_type": f.impl_type, "impl_generics": f.impl_generics, "impl_self_ty": f.impl_self_ty,
            "impl_where": f.impl_where, "impl_assoc": f.impl_assoc,
            "trait": f.trait_name, "in_trait_decl": f.in_trait_decl, "vis": f.vis,
            "generics": clean(&ts(&f.sig.generics.params)),
            "where": f.sig.generics.where_clause.as_ref().map(|w| clean(&ts(w))),
            "params": params, "ret": ret, "effectful": eff, "env_params": envs.iter().collect::<Vec<_>>(),
            "body": body, "n_loops": rw.loops, "n_closures": rw.diverge,
            "src_sha": sha(&f.src_text), "out_sha": sha(&body), "rule_sites": rw.sites,
            "callees": calls[&f.key], "unknown_env_calls": unknown.get(&f.key), "unselected_callees": unselected.get(&f.key), "method_callees": mcalls.get(&f.key),
        }));
    }
    let _ = quote!();
    let _: Option<TokenStream> = None;
    let timpls: Vec<Value> = c.trait_impls.iter().map(|t| json!({"trait": t.trait_name, "type": t.type_name, "assoc": t.assoc, "file": t.file})).collect();
    let out = json!({"trait_impls": timpls, "fns": out_fns, "types": c.types, "consts": c.consts, "traits": c.clients, "errors": errors,
        "all_fn_keys": c.fns.iter().map(|f| format!("{}#{}", f.file, f.key)).collect::<Vec<_>>()});
    println!("{}", serde_json::to_string_pretty(&out).unwrap());
    if !out["errors"].as_array().unwrap().is_empty() {
        std::process::exit(2);
    }
}
