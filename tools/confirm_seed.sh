#!/bin/bash
# confirm_seed.sh <out_dir> <package> <demo test filter>  — confirm a seeded change in a fresh scratch worktree of /repo
# 1. patch applies, package compiles, ALL existing tests of the package pass with it
# 2. with patch + demo the demo test FAILS; 3. with demo only it PASSES.   Leaves nothing behind.
set -u
OUT=$1; PKG=$2; FILTER=$3
WT=/tmp/seed/confirm_$$; TGT=${SEED_TARGET:-/tmp/seed/target_confirm}
export RUSTUP_TOOLCHAIN=stable-x86_64-unknown-linux-gnu CARGO_TARGET_DIR=$TGT CARGO_NET_OFFLINE=true
git -C /repo worktree add -q $WT HEAD || exit 3
cleanup() { git -C /repo worktree remove --force $WT; }
trap cleanup EXIT
cd $WT
git apply $OUT/patch.diff || { echo "CONFIRM: patch does not apply"; exit 3; }
r1=$(cargo test --offline -p $PKG 2>&1 | grep -E "^test result|error(\[|:)" | tr '\n' ' ')
echo "CONFIRM existing tests with patch: $r1"
git apply $OUT/demo.diff || { echo "CONFIRM: demo does not apply"; exit 3; }
r2=$(cargo test --offline -p $PKG $FILTER 2>&1 | grep -E "^test result" | tr '\n' ' ')
echo "CONFIRM demo with patch:           $r2"
git apply -R $OUT/patch.diff
r3=$(cargo test --offline -p $PKG $FILTER 2>&1 | grep -E "^test result" | tr '\n' ' ')
echo "CONFIRM demo without patch:        $r3"
