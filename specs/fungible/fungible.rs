// =================================================================================================
// spec pack `fungible` — abstract view, operation relation, invariant and history lemmas for
// C01 (supply conservation / event replay) and C02 (authorization / allowances).
// Everything here is ghost; the executable text comes from /repo.
// =================================================================================================

// ---- storage layout (generated key encodings, T7) ----
pub open spec fn bal_key(a: Address) -> SV { FungibleStorageKey::Balance(a).sv() }
pub open spec fn supply_key() -> SV { FungibleStorageKey::TotalSupply.sv() }
pub open spec fn allow_key(o: Address, s: Address) -> SV {
    FungibleStorageKey::Allowance(AllowanceKey { owner: o, spender: s }).sv()
}
pub open spec fn is_bal_key(k: SV) -> bool {
    match k { SV::Vec(s) => s.len() == 2 && s[0] == bal_key(Address { id: 0 })->Vec_0[0] && (s[1] is Addr), _ => false }
}

// ---- abstract view ----
pub open spec fn bal(w: World, a: Address) -> int {
    if w.persistent.contains_key(bal_key(a)) { <i128 as ToSV>::unsv(w.persistent[bal_key(a)]) as int } else { 0 }
}
pub open spec fn supply(w: World) -> int {
    if w.instance.contains_key(supply_key()) { <i128 as ToSV>::unsv(w.instance[supply_key()]) as int } else { 0 }
}
pub open spec fn zero_allow() -> AllowanceData { AllowanceData { amount: 0, live_until_ledger: 0 } }
pub open spec fn allow_raw(w: World, o: Address, s: Address) -> AllowanceData {
    if w.temp_has(allow_key(o, s)) { <AllowanceData as ToSV>::unsv(w.temporary[allow_key(o, s)]) } else { zero_allow() }
}
/// what `allowance_data` reports: an entry past its own live_until_ledger is worth zero
pub open spec fn allow_data(w: World, o: Address, s: Address) -> AllowanceData {
    let d = allow_raw(w, o, s);
    if d.live_until_ledger < w.ledger_seq { zero_allow() } else { d }
}
pub open spec fn allowance(w: World, o: Address, s: Address) -> int { allow_data(w, o, s).amount as int }

// ---- world transformers ----
pub open spec fn set_bal(w: World, a: Address, v: int) -> World {
    World { persistent: w.persistent.insert(bal_key(a), SV::I128(v as i128)), ..w }
}
pub open spec fn set_supply(w: World, v: int) -> World {
    World { instance: w.instance.insert(supply_key(), SV::I128(v as i128)), ..w }
}

/// the whole successor state of `Base::update` (touched keys and frame)
pub open spec fn update_post(w: World, from: Option<Address>, to: Option<Address>, amount: int) -> World {
    let w1 = match from {
        Some(a) => set_bal(w, a, bal(w, a) - amount),
        None => set_supply(w, supply(w) + amount),
    };
    match to {
        Some(a) => set_bal(w1, a, bal(w1, a) + amount),
        None => set_supply(w1, supply(w1) - amount),
    }
}
/// when `Base::update` can return at all
pub open spec fn update_guard(w: World, from: Option<Address>, to: Option<Address>, amount: int) -> bool {
    &&& amount >= 0
    &&& from.is_some() ==> bal(w, from.unwrap()) >= amount
    &&& from.is_none() ==> supply(w) + amount <= i128::MAX
}
pub open spec fn opt_addr(o: Option<&Address>) -> Option<Address> {
    match o { Some(a) => Some(*a), None => None }
}

/// `set_allowance`: the stored entry and its storage lifetime
pub open spec fn set_allow_post(w: World, o: Address, s: Address, amount: i128, live: u32) -> World {
    let k = allow_key(o, s);
    let w1 = temp_set(w, k, AllowanceData { amount: amount, live_until_ledger: live }.sv());
    if amount > 0 { temp_extend(w1, k, (live - w.ledger_seq) as u32, (live - w.ledger_seq) as u32) } else { w1 }
}
pub open spec fn set_allow_guard(w: World, amount: i128, live: u32) -> bool {
    &&& amount >= 0
    &&& live as int <= w.max_live_until()
    &&& amount > 0 ==> live >= w.ledger_seq
}
pub open spec fn spend_post(w: World, o: Address, s: Address, amount: i128) -> World {
    if amount > 0 {
        set_allow_post(w, o, s, (allowance(w, o, s) - amount) as i128, allow_data(w, o, s).live_until_ledger)
    } else { w }
}
pub open spec fn spend_guard(w: World, o: Address, s: Address, amount: i128) -> bool {
    amount >= 0 && allowance(w, o, s) >= amount
}

// ---- the public operations of the token as a relation on worlds ----
pub enum FOp {
    Mint { to: Address, amount: i128 },
    Transfer { from: Address, to: Address, mux: Option<u64>, amount: i128 },
    TransferFrom { spender: Address, from: Address, to: Address, amount: i128 },
    Burn { from: Address, amount: i128 },
    BurnFrom { spender: Address, from: Address, amount: i128 },
    Approve { owner: Address, spender: Address, amount: i128, live: u32 },
}

pub open spec fn op_guard(w: World, op: FOp) -> bool {
    match op {
        FOp::Mint { to, amount } => update_guard(w, None, Some(to), amount as int),
        FOp::Transfer { from, to, mux, amount } => update_guard(w, Some(from), Some(to), amount as int),
        FOp::TransferFrom { spender, from, to, amount } =>
            spend_guard(w, from, spender, amount) && update_guard(w, Some(from), Some(to), amount as int)
            && (amount > 0 ==> set_allow_guard(w, (allowance(w, from, spender) - amount) as i128, allow_data(w, from, spender).live_until_ledger)),
        FOp::Burn { from, amount } => update_guard(w, Some(from), None, amount as int),
        FOp::BurnFrom { spender, from, amount } =>
            spend_guard(w, from, spender, amount) && update_guard(w, Some(from), None, amount as int)
            && (amount > 0 ==> set_allow_guard(w, (allowance(w, from, spender) - amount) as i128, allow_data(w, from, spender).live_until_ledger)),
        FOp::Approve { owner, spender, amount, live } => set_allow_guard(w, amount, live),
    }
}

pub open spec fn op_post(w: World, op: FOp) -> World {
    match op {
        FOp::Mint { to, amount } =>
            w_event(update_post(w, None, Some(to), amount as int), Mint { to: to, amount: amount }.ev()),
        FOp::Transfer { from, to, mux, amount } =>
            w_event(update_post(w_auth(w, from), Some(from), Some(to), amount as int),
                Transfer { from: from, to: to, to_muxed_id: mux, amount: amount }.ev()),
        FOp::TransferFrom { spender, from, to, amount } =>
            w_event(update_post(spend_post(w_auth(w, spender), from, spender, amount), Some(from), Some(to), amount as int),
                Transfer { from: from, to: to, to_muxed_id: None, amount: amount }.ev()),
        FOp::Burn { from, amount } =>
            w_event(update_post(w_auth(w, from), Some(from), None, amount as int), Burn { from: from, amount: amount }.ev()),
        FOp::BurnFrom { spender, from, amount } =>
            w_event(update_post(spend_post(w_auth(w, spender), from, spender, amount), Some(from), None, amount as int),
                Burn { from: from, amount: amount }.ev()),
        FOp::Approve { owner, spender, amount, live } =>
            w_event(set_allow_post(w_auth(w, owner), owner, spender, amount, live),
                Approve { owner: owner, spender: spender, amount: amount, live_until_ledger: live }.ev()),
    }
}

// ---- invariant (C01) ----
pub open spec fn bal_proj() -> spec_fn(SV, SV) -> int {
    |k: SV, v: SV| if is_bal_key(k) { match v { SV::I128(x) => x as int, _ => 0 } } else { 0 }
}
pub open spec fn sum_bal(w: World) -> int { psum(w.persistent, bal_proj()) }

pub open spec fn inv(w: World) -> bool {
    &&& forall|k: SV| #[trigger] w.persistent.contains_key(k) && is_bal_key(k) ==> (w.persistent[k] is I128) && w.persistent[k]->I128_0 >= 0
    &&& w.instance.contains_key(supply_key()) ==> w.instance[supply_key()] is I128
    &&& sum_bal(w) == supply(w)
    &&& 0 <= supply(w) <= i128::MAX
}

pub proof fn lemma_bal_key_facts(a: Address)
    ensures is_bal_key(bal_key(a)),
{
    assert(bal_key(a)->Vec_0.len() == 2);
}
pub proof fn lemma_bal_key_inj(a: Address, b: Address)
    ensures bal_key(a) == bal_key(b) ==> a == b,
{
    if bal_key(a) == bal_key(b) {
        assert(bal_key(a)->Vec_0[1] == bal_key(b)->Vec_0[1]);
    }
}

pub proof fn lemma_inv_bal_nonneg(w: World, a: Address)
    requires inv(w)
    ensures 0 <= bal(w, a) <= supply(w),
{
    lemma_bal_key_facts(a);
    if w.persistent.contains_key(bal_key(a)) {
        assert(w.persistent[bal_key(a)] is I128);
        assert forall|j: SV| w.persistent.dom().contains(j) implies bal_proj()(j, w.persistent[j]) >= 0 by {
            assert(w.persistent.contains_key(j));
        }
        lemma_psum_bound(w.persistent, bal_proj(), bal_key(a));
    }
}

pub proof fn lemma_set_bal_sum(w: World, a: Address, v: int)
    requires inv(w), i128::MIN <= v <= i128::MAX,
    ensures sum_bal(set_bal(w, a, v)) == sum_bal(w) - bal(w, a) + v,
        bal(set_bal(w, a, v), a) == v,
        forall|b: Address| b != a ==> bal(set_bal(w, a, v), b) == bal(w, b),
        supply(set_bal(w, a, v)) == supply(w),
{
    lemma_bal_key_facts(a);
    lemma_psum_insert(w.persistent, bal_proj(), bal_key(a), SV::I128(v as i128));
    assert forall|b: Address| b != a implies bal(set_bal(w, a, v), b) == bal(w, b) by {
        lemma_bal_key_inj(a, b);
    }
    if w.persistent.contains_key(bal_key(a)) {
        assert(w.persistent[bal_key(a)] is I128);
    }
}

/// conservation for one `update`: inv is preserved; supply moves by exactly the minted / burned
/// amount and a transfer leaves it alone (C01)
pub proof fn lemma_update_inv(w: World, from: Option<Address>, to: Option<Address>, amount: int)
    requires inv(w), update_guard(w, from, to, amount),
        //@@ C01:lemma.update_inv
    ensures
        from.is_some() || to.is_some() ==> inv(update_post(w, from, to, amount)),
        from.is_some() && to.is_some() ==> supply(update_post(w, from, to, amount)) == supply(w),
        from.is_none() && to.is_some() ==> supply(update_post(w, from, to, amount)) == supply(w) + amount,
        from.is_some() && to.is_none() ==> supply(update_post(w, from, to, amount)) == supply(w) - amount,
        forall|a: Address| bal(update_post(w, from, to, amount), a)
            == bal(w, a) - (if from == Some(a) { amount } else { 0 }) + (if to == Some(a) { amount } else { 0 }),
        update_post(w, from, to, amount).temporary == w.temporary,
        update_post(w, from, to, amount).temp_live == w.temp_live,
        update_post(w, from, to, amount).auths == w.auths,
        update_post(w, from, to, amount).events == w.events,
        update_post(w, from, to, amount).same_ledger(w),
{
    let w1 = match from {
        Some(a) => set_bal(w, a, bal(w, a) - amount),
        None => set_supply(w, supply(w) + amount),
    };
    match from {
        Some(a) => {
            lemma_inv_bal_nonneg(w, a);
            lemma_set_bal_sum(w, a, bal(w, a) - amount);
        }
        None => {
            assert(sum_bal(w1) == sum_bal(w));
            assert(supply(w1) == supply(w) + amount);
        }
    }
    // w1 satisfies the typing part of inv and bal >= 0 everywhere, but sum differs from supply by `amount`
    let w2 = update_post(w, from, to, amount);
    match to {
        Some(b) => {
            lemma_bal_key_facts(b);
            // typing facts for w1 so that set_bal lemma applies: re-establish pieces manually
            lemma_psum_insert(w1.persistent, bal_proj(), bal_key(b), SV::I128((bal(w1, b) + amount) as i128));
            match from {
                Some(a) => {
                    lemma_inv_bal_nonneg(w, b);
                    lemma_bal_key_inj(a, b);
                    if a != b {
                        // both balances are part of the same non-negative sum
                        assert(bal(w1, b) == bal(w, b));
                        if w.persistent.contains_key(bal_key(b)) {
                            assert(w.persistent[bal_key(b)] is I128);
                            if w.persistent.contains_key(bal_key(a)) {
                                assert forall|j: SV| w.persistent.dom().contains(j) implies bal_proj()(j, w.persistent[j]) >= 0 by {
                                    assert(w.persistent.contains_key(j));
                                }
                                lemma_bal_key_facts(a);
                                assert(w.persistent[bal_key(a)] is I128);
                                lemma_psum_bound2(w.persistent, bal_proj(), bal_key(a), bal_key(b));
                            } else {
                                lemma_inv_bal_nonneg(w, b);
                            }
                        } else {
                            lemma_inv_bal_nonneg(w, a);
                        }
                    } else {
                        lemma_inv_bal_nonneg(w, a);
                    }
                    assert(bal(w1, b) + amount <= supply(w));
                    if w1.persistent.contains_key(bal_key(b)) { assert(w1.persistent[bal_key(b)] is I128); }
                    assert(sum_bal(w2) == supply(w));
                }
                None => {
                    lemma_inv_bal_nonneg(w, b);
                    if w1.persistent.contains_key(bal_key(b)) { assert(w1.persistent[bal_key(b)] is I128); }
                    assert(sum_bal(w2) == supply(w) + amount);
                }
            }
            assert forall|a: Address| bal(w2, a) == bal(w, a) - (if from == Some(a) { amount } else { 0 }) + (if to == Some(a) { amount } else { 0 }) by {
                lemma_bal_key_inj(a, b);
                if from.is_some() { lemma_bal_key_inj(a, from.unwrap()); lemma_bal_key_inj(from.unwrap(), b); }
            }
            assert forall|k: SV| #[trigger] w2.persistent.contains_key(k) && is_bal_key(k) implies (w2.persistent[k] is I128) && w2.persistent[k]->I128_0 >= 0 by {
                if k != bal_key(b) {
                    if from.is_some() && k == bal_key(from.unwrap()) {} else { assert(w.persistent.contains_key(k)); }
                }
            }
        }
        None => {
            match from {
                Some(a) => {
                    assert(supply(w2) == supply(w) - amount);
                    assert(sum_bal(w2) == sum_bal(w1));
                    assert forall|c: Address| bal(w2, c) == bal(w, c) - (if from == Some(c) { amount } else { 0 }) by {
                        lemma_bal_key_inj(a, c);
                    }
                    assert forall|k: SV| #[trigger] w2.persistent.contains_key(k) && is_bal_key(k) implies (w2.persistent[k] is I128) && w2.persistent[k]->I128_0 >= 0 by {
                        if k != bal_key(a) { assert(w.persistent.contains_key(k)); }
                    }
                }
                None => {}
            }
        }
    }
}
