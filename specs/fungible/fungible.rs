// ---- abstract view of the fungible token state ----
pub open spec fn bal_key(a: Address) -> SV { FungibleStorageKey::Balance(a).sv() }
pub open spec fn supply_key() -> SV { FungibleStorageKey::TotalSupply.sv() }
pub open spec fn allow_key(o: Address, s: Address) -> SV {
    FungibleStorageKey::Allowance(AllowanceKey { owner: o, spender: s }).sv()
}

pub open spec fn bal(w: World, a: Address) -> int {
    if w.persistent.contains_key(bal_key(a)) { <i128 as ToSV>::unsv(w.persistent[bal_key(a)]) as int } else { 0 }
}
pub open spec fn supply(w: World) -> int {
    if w.instance.contains_key(supply_key()) { <i128 as ToSV>::unsv(w.instance[supply_key()]) as int } else { 0 }
}
pub open spec fn set_bal(w: World, a: Address, v: int) -> World {
    World { persistent: w.persistent.insert(bal_key(a), SV::I128(v as i128)), ..w }
}
pub open spec fn set_supply(w: World, v: int) -> World {
    World { instance: w.instance.insert(supply_key(), SV::I128(v as i128)), ..w }
}

/// the whole successor state of `Base::update` (touched keys and frame)
pub open spec fn update_post(w: World, from: Option<Address>, to: Option<Address>, amount: int) -> World {
    let w1 = match from {
        Some(a) => set_bal(w, a, bal(w, a) - amount),
        None => set_supply(w, supply(w) + amount),
    };
    match to {
        Some(a) => set_bal(w1, a, bal(w1, a) + amount),
        None => set_supply(w1, supply(w1) - amount),
    }
}
pub open spec fn opt_addr(o: Option<&Address>) -> Option<Address> {
    match o { Some(a) => Some(*a), None => None }
}
