// =================================================================================================
// history level: every reachable state of the token (C01, C02)
// =================================================================================================

// ---- event replay (C01: "replaying the emitted mint, burn and transfer events reproduces every balance") ----
pub open spec fn ev_tag(ev: SV) -> int {
    match ev { SV::Vec(s) => if s.len() > 0 { match s[0] { SV::Sym(c) => c, _ => -1 } } else { -1 }, _ => -1 }
}
pub open spec fn a0() -> Address { Address { id: 0 } }
pub open spec fn tag_transfer() -> int { ev_tag(Transfer { from: a0(), to: a0(), to_muxed_id: None, amount: 0 }.ev()) }
pub open spec fn tag_mint() -> int { ev_tag(Mint { to: a0(), amount: 0 }.ev()) }
pub open spec fn tag_burn() -> int { ev_tag(Burn { from: a0(), amount: 0 }.ev()) }

/// effect of one logged event on the balance of `a`
pub open spec fn ev_delta(ev: SV, a: Address) -> int {
    let s = ev->Vec_0;
    if ev_tag(ev) == tag_transfer() {
        let (from, to, amount) = (<Address as ToSV>::unsv(s[1]), <Address as ToSV>::unsv(s[2]), <i128 as ToSV>::unsv(s[4]) as int);
        (if to == a { amount } else { 0 }) - (if from == a { amount } else { 0 })
    } else if ev_tag(ev) == tag_mint() {
        if <Address as ToSV>::unsv(s[1]) == a { <i128 as ToSV>::unsv(s[2]) as int } else { 0 }
    } else if ev_tag(ev) == tag_burn() {
        if <Address as ToSV>::unsv(s[1]) == a { -(<i128 as ToSV>::unsv(s[2]) as int) } else { 0 }
    } else { 0 }
}
pub open spec fn ev_supply_delta(ev: SV) -> int {
    let s = ev->Vec_0;
    if ev_tag(ev) == tag_mint() { <i128 as ToSV>::unsv(s[2]) as int }
    else if ev_tag(ev) == tag_burn() { -(<i128 as ToSV>::unsv(s[2]) as int) }
    else { 0 }
}
pub open spec fn replay_bal(evs: Seq<SV>, a: Address) -> int
    decreases evs.len()
{
    if evs.len() == 0 { 0 } else { replay_bal(evs.drop_last(), a) + ev_delta(evs.last(), a) }
}
pub open spec fn replay_supply(evs: Seq<SV>) -> int
    decreases evs.len()
{
    if evs.len() == 0 { 0 } else { replay_supply(evs.drop_last()) + ev_supply_delta(evs.last()) }
}
pub open spec fn inv_ev(w: World) -> bool {
    &&& forall|a: Address| replay_bal(w.events, a) == bal(w, a)
    &&& replay_supply(w.events) == supply(w)
}

pub proof fn lemma_replay_push(evs: Seq<SV>, ev: SV, a: Address)
    ensures replay_bal(evs.push(ev), a) == replay_bal(evs, a) + ev_delta(ev, a),
        replay_supply(evs.push(ev)) == replay_supply(evs) + ev_supply_delta(ev),
{
    assert(evs.push(ev).drop_last() =~= evs);
    assert(evs.push(ev).last() == ev);
}

// ---- one public operation (C01 + C02 step lemmas) ----
pub open spec fn op_supply_delta(op: FOp) -> int {
    match op {
        FOp::Mint { to, amount } => amount as int,
        FOp::Burn { from, amount } => -(amount as int),
        FOp::BurnFrom { spender, from, amount } => -(amount as int),
        _ => 0,
    }
}

pub proof fn lemma_allow_frame_set_bal(w: World, a: Address, v: int, o: Address, s: Address)
    ensures allow_data(set_bal(w, a, v), o, s) == allow_data(w, o, s),
        allow_data(set_supply(w, v), o, s) == allow_data(w, o, s),
        allow_data(w_auth(w, a), o, s) == allow_data(w, o, s),
{}

pub proof fn lemma_allow_key_inj(o: Address, s: Address, o2: Address, s2: Address)
    ensures allow_key(o, s) == allow_key(o2, s2) ==> o == o2 && s == s2,
{
    if allow_key(o, s) == allow_key(o2, s2) {
        let k1 = AllowanceKey { owner: o, spender: s };
        let k2 = AllowanceKey { owner: o2, spender: s2 };
        assert(allow_key(o, s)->Vec_0[1] == k1.sv());
        assert(allow_key(o2, s2)->Vec_0[1] == k2.sv());
        assert(k1.sv()->Vec_0[0] == k2.sv()->Vec_0[0]);
        assert(k1.sv()->Vec_0[1] == k2.sv()->Vec_0[1]);
    }
}

/// `set_allowance`: the entry reads back as written (when unexpired), nothing else changes
pub proof fn lemma_set_allow(w: World, o: Address, s: Address, amount: i128, live: u32)
    requires set_allow_guard(w, amount, live), w.ledger_ok(),
    ensures
        //@@ C02:lemma.set_allow
        live >= w.ledger_seq ==> allow_data(set_allow_post(w, o, s, amount, live), o, s) == (AllowanceData { amount: amount, live_until_ledger: live }),
        live < w.ledger_seq ==> allow_data(set_allow_post(w, o, s, amount, live), o, s) == zero_allow(),
        forall|o2: Address, s2: Address| (o2 != o || s2 != s) ==> allow_data(set_allow_post(w, o, s, amount, live), o2, s2) == allow_data(w, o2, s2),
        set_allow_post(w, o, s, amount, live).persistent == w.persistent,
        set_allow_post(w, o, s, amount, live).instance == w.instance,
        set_allow_post(w, o, s, amount, live).events == w.events,
        set_allow_post(w, o, s, amount, live).auths == w.auths,
        set_allow_post(w, o, s, amount, live).same_ledger(w),
        // the storage entry outlives the declared expiry
        amount > 0 ==> set_allow_post(w, o, s, amount, live).temp_live[allow_key(o, s)] >= live,
{
    let k = allow_key(o, s);
    let d = AllowanceData { amount: amount, live_until_ledger: live };
    d.lemma_rt();
    let w1 = temp_set(w, k, d.sv());
    assert(w1.temp_has(k));
    let w2 = set_allow_post(w, o, s, amount, live);
    assert(w2.temp_has(k));
    assert(w2.temporary[k] == d.sv());
    assert forall|o2: Address, s2: Address| (o2 != o || s2 != s) implies allow_data(w2, o2, s2) == allow_data(w, o2, s2) by {
        lemma_allow_key_inj(o, s, o2, s2);
    }
}

pub proof fn lemma_spend(w: World, o: Address, s: Address, amount: i128)
    requires spend_guard(w, o, s, amount), w.ledger_ok(),
        amount > 0 ==> set_allow_guard(w, (allowance(w, o, s) - amount) as i128, allow_data(w, o, s).live_until_ledger),
    ensures
        //@@ C02:lemma.spend
        allowance(spend_post(w, o, s, amount), o, s) == allowance(w, o, s) - amount,
        forall|o2: Address, s2: Address| (o2 != o || s2 != s) ==> allow_data(spend_post(w, o, s, amount), o2, s2) == allow_data(w, o2, s2),
        spend_post(w, o, s, amount).persistent == w.persistent,
        spend_post(w, o, s, amount).instance == w.instance,
        spend_post(w, o, s, amount).events == w.events,
        spend_post(w, o, s, amount).auths == w.auths,
        spend_post(w, o, s, amount).same_ledger(w),
{
    if amount > 0 {
        let d = allow_data(w, o, s);
        assert(d.amount > 0);
        assert(d.live_until_ledger >= w.ledger_seq);
        lemma_set_allow(w, o, s, (allowance(w, o, s) - amount) as i128, d.live_until_ledger);
    }
}

pub proof fn lemma_update_allow_frame(w: World, from: Option<Address>, to: Option<Address>, amount: int, o: Address, s: Address)
    ensures allow_data(update_post(w, from, to, amount), o, s) == allow_data(w, o, s),
{}


// ---- what each event contributes (small, separately proved facts about the generated encodings) ----
pub proof fn lemma_ev_transfer(from: Address, to: Address, mux: Option<u64>, amount: i128, a: Address)
    ensures ev_delta(Transfer { from: from, to: to, to_muxed_id: mux, amount: amount }.ev(), a)
            == (if to == a { amount as int } else { 0 }) - (if from == a { amount as int } else { 0 }),
        ev_supply_delta(Transfer { from: from, to: to, to_muxed_id: mux, amount: amount }.ev()) == 0,
{}
pub proof fn lemma_ev_mint(to: Address, amount: i128, a: Address)
    ensures ev_delta(Mint { to: to, amount: amount }.ev(), a) == (if to == a { amount as int } else { 0 }),
        ev_supply_delta(Mint { to: to, amount: amount }.ev()) == amount,
{}
pub proof fn lemma_ev_burn(from: Address, amount: i128, a: Address)
    ensures ev_delta(Burn { from: from, amount: amount }.ev(), a) == -(if from == a { amount as int } else { 0 }),
        ev_supply_delta(Burn { from: from, amount: amount }.ev()) == -(amount as int),
{}
pub proof fn lemma_ev_approve(o: Address, s: Address, amount: i128, live: u32, a: Address)
    ensures ev_delta(Approve { owner: o, spender: s, amount: amount, live_until_ledger: live }.ev(), a) == 0,
        ev_supply_delta(Approve { owner: o, spender: s, amount: amount, live_until_ledger: live }.ev()) == 0,
{}

/// the common tail of every balance-moving operation: one `update` followed by one event whose
/// replay effect equals the update's effect
pub open spec fn fin(w1: World, from: Option<Address>, to: Option<Address>, amount: int, ev: SV) -> World {
    w_event(update_post(w1, from, to, amount), ev)
}
pub open spec fn upd_delta(from: Option<Address>, to: Option<Address>, amount: int, a: Address) -> int {
    (if to == Some(a) { amount } else { 0 }) - (if from == Some(a) { amount } else { 0 })
}
pub open spec fn upd_supply_delta(from: Option<Address>, to: Option<Address>, amount: int) -> int {
    (if from.is_none() { amount } else { 0 }) - (if to.is_none() { amount } else { 0 })
}
pub proof fn lemma_fin(w1: World, from: Option<Address>, to: Option<Address>, amount: int, ev: SV)
    requires inv(w1), inv_ev(w1), update_guard(w1, from, to, amount), from.is_some() || to.is_some(),
        forall|a: Address| #[trigger] ev_delta(ev, a) == upd_delta(from, to, amount, a),
        ev_supply_delta(ev) == upd_supply_delta(from, to, amount),
    ensures inv(fin(w1, from, to, amount, ev)), inv_ev(fin(w1, from, to, amount, ev)),
        supply(fin(w1, from, to, amount, ev)) == supply(w1) + upd_supply_delta(from, to, amount),
        forall|a: Address| #[trigger] bal(fin(w1, from, to, amount, ev), a) == bal(w1, a) + upd_delta(from, to, amount, a),
        fin(w1, from, to, amount, ev).same_ledger(w1),
        fin(w1, from, to, amount, ev).auths == w1.auths,
        fin(w1, from, to, amount, ev).temporary == w1.temporary,
        fin(w1, from, to, amount, ev).temp_live == w1.temp_live,
{
    lemma_update_inv(w1, from, to, amount);
    let wu = update_post(w1, from, to, amount);
    let w2 = fin(w1, from, to, amount, ev);
    assert(sum_bal(w2) == sum_bal(wu));
    assert(supply(w2) == supply(wu));
    assert forall|a: Address| bal(w2, a) == bal(wu, a) by {}
    assert forall|a: Address| replay_bal(w2.events, a) == bal(w2, a) by {
        lemma_replay_push(w1.events, ev, a);
        assert(ev_delta(ev, a) == upd_delta(from, to, amount, a));
    }
    lemma_replay_push(w1.events, ev, a0());
}

/// a pre-step that touches neither balances, supply nor events keeps both invariants
pub proof fn lemma_inv_frame(w: World, w1: World)
    requires inv(w), inv_ev(w), w1.persistent == w.persistent, w1.instance == w.instance, w1.events == w.events,
    ensures inv(w1), inv_ev(w1), supply(w1) == supply(w), forall|a: Address| #[trigger] bal(w1, a) == bal(w, a),
{
    assert(sum_bal(w1) == sum_bal(w));
    assert forall|a: Address| replay_bal(w1.events, a) == bal(w1, a) by { assert(bal(w1, a) == bal(w, a)); }
}

pub open spec fn op_pre(w: World, op: FOp) -> World {
    match op {
        FOp::Mint { to, amount } => w,
        FOp::Transfer { from, to, mux, amount } => w_auth(w, from),
        FOp::TransferFrom { spender, from, to, amount } => spend_post(w_auth(w, spender), from, spender, amount),
        FOp::Burn { from, amount } => w_auth(w, from),
        FOp::BurnFrom { spender, from, amount } => spend_post(w_auth(w, spender), from, spender, amount),
        FOp::Approve { owner, spender, amount, live } => set_allow_post(w_auth(w, owner), owner, spender, amount, live),
    }
}
pub open spec fn op_from(op: FOp) -> Option<Address> {
    match op {
        FOp::Mint { to, amount } => None,
        FOp::Transfer { from, to, mux, amount } => Some(from),
        FOp::TransferFrom { spender, from, to, amount } => Some(from),
        FOp::Burn { from, amount } => Some(from),
        FOp::BurnFrom { spender, from, amount } => Some(from),
        FOp::Approve { owner, spender, amount, live } => None,
    }
}
pub open spec fn op_to(op: FOp) -> Option<Address> {
    match op {
        FOp::Mint { to, amount } => Some(to),
        FOp::Transfer { from, to, mux, amount } => Some(to),
        FOp::TransferFrom { spender, from, to, amount } => Some(to),
        _ => None,
    }
}
pub open spec fn op_amount(op: FOp) -> int {
    match op {
        FOp::Mint { to, amount } => amount as int,
        FOp::Transfer { from, to, mux, amount } => amount as int,
        FOp::TransferFrom { spender, from, to, amount } => amount as int,
        FOp::Burn { from, amount } => amount as int,
        FOp::BurnFrom { spender, from, amount } => amount as int,
        FOp::Approve { owner, spender, amount, live } => 0,
    }
}
pub open spec fn op_event(op: FOp) -> SV {
    match op {
        FOp::Mint { to, amount } => Mint { to: to, amount: amount }.ev(),
        FOp::Transfer { from, to, mux, amount } => Transfer { from: from, to: to, to_muxed_id: mux, amount: amount }.ev(),
        FOp::TransferFrom { spender, from, to, amount } => Transfer { from: from, to: to, to_muxed_id: None, amount: amount }.ev(),
        FOp::Burn { from, amount } => Burn { from: from, amount: amount }.ev(),
        FOp::BurnFrom { spender, from, amount } => Burn { from: from, amount: amount }.ev(),
        FOp::Approve { owner, spender, amount, live } => Approve { owner: owner, spender: spender, amount: amount, live_until_ledger: live }.ev(),
    }
}
pub open spec fn is_approve(op: FOp) -> bool { op is Approve }

/// every operation is "pre-step; update; event" (approve: "pre-step; event")
pub proof fn lemma_op_shape(w: World, op: FOp)
    ensures !is_approve(op) ==> op_post(w, op) == fin(op_pre(w, op), op_from(op), op_to(op), op_amount(op), op_event(op)),
        is_approve(op) ==> op_post(w, op) == w_event(op_pre(w, op), op_event(op)),
{}

pub proof fn lemma_op_event(op: FOp, a: Address)
    ensures !is_approve(op) ==> ev_delta(op_event(op), a) == upd_delta(op_from(op), op_to(op), op_amount(op), a),
        !is_approve(op) ==> ev_supply_delta(op_event(op)) == upd_supply_delta(op_from(op), op_to(op), op_amount(op)),
        is_approve(op) ==> ev_delta(op_event(op), a) == 0 && ev_supply_delta(op_event(op)) == 0,
{
    match op {
        FOp::Mint { to, amount } => { lemma_ev_mint(to, amount, a); }
        FOp::Transfer { from, to, mux, amount } => { lemma_ev_transfer(from, to, mux, amount, a); }
        FOp::TransferFrom { spender, from, to, amount } => { lemma_ev_transfer(from, to, None, amount, a); }
        FOp::Burn { from, amount } => { lemma_ev_burn(from, amount, a); }
        FOp::BurnFrom { spender, from, amount } => { lemma_ev_burn(from, amount, a); }
        FOp::Approve { owner, spender, amount, live } => { lemma_ev_approve(owner, spender, amount, live, a); }
    }
}

/// facts about the pre-step: balances, supply and events untouched; who authorized; allowance effect
pub proof fn lemma_op_pre(w: World, op: FOp)
    requires op_guard(w, op), w.ledger_ok(),
    ensures op_pre(w, op).persistent == w.persistent, op_pre(w, op).instance == w.instance,
        op_pre(w, op).events == w.events, op_pre(w, op).same_ledger(w),
        !is_approve(op) ==> update_guard(op_pre(w, op), op_from(op), op_to(op), op_amount(op)),
{
    match op {
        FOp::TransferFrom { spender, from, to, amount } => { lemma_spend(w_auth(w, spender), from, spender, amount); }
        FOp::BurnFrom { spender, from, amount } => { lemma_spend(w_auth(w, spender), from, spender, amount); }
        FOp::Approve { owner, spender, amount, live } => { lemma_set_allow(w_auth(w, owner), owner, spender, amount, live); }
        _ => {}
    }
}

/// C01 for one operation: invariant, exact supply change, event log mirrors the balances
pub proof fn lemma_op_c01(w: World, op: FOp)
    requires inv(w), inv_ev(w), op_guard(w, op), w.ledger_ok(),
    ensures
        //@@ C01:lemma.op_inv
        inv(op_post(w, op)),
        //@@ C01:lemma.op_supply
        supply(op_post(w, op)) == supply(w) + op_supply_delta(op),
        //@@ C01:lemma.op_replay
        inv_ev(op_post(w, op)),
        //@@ C01:lemma.op_balances
        forall|a: Address| #[trigger] bal(op_post(w, op), a) == bal(w, a) + upd_delta(op_from(op), op_to(op), op_amount(op), a),
        op_post(w, op).same_ledger(w),
{
    lemma_op_shape(w, op);
    lemma_op_pre(w, op);
    let w1 = op_pre(w, op);
    lemma_inv_frame(w, w1);
    let ev = op_event(op);
    if is_approve(op) {
        let w2 = w_event(w1, ev);
        lemma_inv_frame(w, World { events: w.events, ..w2 });
        assert(sum_bal(w2) == sum_bal(w1));
        assert forall|a: Address| replay_bal(w2.events, a) == bal(w2, a) by {
            lemma_replay_push(w1.events, ev, a);
            lemma_op_event(op, a);
            assert(bal(w2, a) == bal(w1, a));
        }
        lemma_replay_push(w1.events, ev, a0());
        lemma_op_event(op, a0());
    } else {
        assert forall|a: Address| #[trigger] ev_delta(ev, a) == upd_delta(op_from(op), op_to(op), op_amount(op), a) by {
            lemma_op_event(op, a);
        }
        lemma_op_event(op, a0());
        lemma_fin(w1, op_from(op), op_to(op), op_amount(op), ev);
    }
}

pub open spec fn op_auth(op: FOp) -> Option<Address> {
    match op {
        FOp::Mint { to, amount } => None,
        FOp::Transfer { from, to, mux, amount } => Some(from),
        FOp::TransferFrom { spender, from, to, amount } => Some(spender),
        FOp::Burn { from, amount } => Some(from),
        FOp::BurnFrom { spender, from, amount } => Some(spender),
        FOp::Approve { owner, spender, amount, live } => Some(owner),
    }
}
pub proof fn lemma_op_auths(w: World, op: FOp)
    requires op_guard(w, op), w.ledger_ok(),
    ensures op_post(w, op).auths == (match op_auth(op) { Some(a) => w.auths.insert(a), None => w.auths }),
{
    lemma_op_shape(w, op);
    match op {
        FOp::TransferFrom { spender, from, to, amount } => { lemma_spend(w_auth(w, spender), from, spender, amount); }
        FOp::BurnFrom { spender, from, amount } => { lemma_spend(w_auth(w, spender), from, spender, amount); }
        FOp::Approve { owner, spender, amount, live } => { lemma_set_allow(w_auth(w, owner), owner, spender, amount, live); }
        _ => {}
    }
}

/// effect of one operation on one allowance
pub open spec fn op_spends(op: FOp, o: Address, s: Address) -> int {
    match op {
        FOp::TransferFrom { spender, from, to, amount } => if from == o && spender == s { amount as int } else { 0 },
        FOp::BurnFrom { spender, from, amount } => if from == o && spender == s { amount as int } else { 0 },
        _ => 0,
    }
}
pub open spec fn op_approves(op: FOp, o: Address, s: Address) -> bool {
    op matches FOp::Approve { owner, spender, .. } && owner == o && spender == s
}
pub proof fn lemma_op_allowance(w: World, op: FOp, o: Address, s: Address)
    requires op_guard(w, op), w.ledger_ok(),
    ensures
        //@@ C02:lemma.op_allowance
        !op_approves(op, o, s) ==> allowance(op_post(w, op), o, s) == allowance(w, o, s) - op_spends(op, o, s),
        !op_approves(op, o, s) && op_spends(op, o, s) == 0 ==> allow_data(op_post(w, op), o, s) == allow_data(w, o, s),
        op_spends(op, o, s) > 0 ==> allow_raw(w, o, s).live_until_ledger >= w.ledger_seq && allowance(w, o, s) >= op_spends(op, o, s),
        op_approves(op, o, s) ==> 0 <= allowance(op_post(w, op), o, s) <= op->Approve_amount,
{
    lemma_op_shape(w, op);
    let w1 = op_pre(w, op);
    if !is_approve(op) {
        lemma_update_allow_frame(w1, op_from(op), op_to(op), op_amount(op), o, s);
    }
    match op {
        FOp::TransferFrom { spender, from, to, amount } => { lemma_spend(w_auth(w, spender), from, spender, amount); }
        FOp::BurnFrom { spender, from, amount } => { lemma_spend(w_auth(w, spender), from, spender, amount); }
        FOp::Approve { owner, spender, amount, live } => { lemma_set_allow(w_auth(w, owner), owner, spender, amount, live); }
        _ => {}
    }
}

/// C02 for one operation, started with an empty authorization set (a fresh invocation):
/// a balance goes down only with the holder's authorization, or by a spender's authorization
/// against a live allowance that is decremented by exactly the amount
pub proof fn lemma_op_c02(w: World, op: FOp, a: Address)
    requires inv(w), inv_ev(w), op_guard(w, op), w.ledger_ok(), w.auths =~= Set::empty(),
    ensures
        //@@ C02:lemma.op_balance_auth
        bal(op_post(w, op), a) < bal(w, a) ==> (
            op_post(w, op).auths.contains(a)
            || exists|sp: Address| #[trigger] op_post(w, op).auths.contains(sp)
                && allowance(w, a, sp) >= bal(w, a) - bal(op_post(w, op), a)
                && allowance(op_post(w, op), a, sp) == allowance(w, a, sp) - (bal(w, a) - bal(op_post(w, op), a))
                && allow_raw(w, a, sp).live_until_ledger >= w.ledger_seq),
{
    lemma_op_c01(w, op);
    lemma_op_auths(w, op);
    assert(bal(op_post(w, op), a) == bal(w, a) + upd_delta(op_from(op), op_to(op), op_amount(op), a));
    if bal(op_post(w, op), a) < bal(w, a) {
        assert(op_from(op) == Some(a));
        match op {
            FOp::TransferFrom { spender, from, to, amount } => {
                lemma_op_allowance(w, op, a, spender);
                assert(op_post(w, op).auths.contains(spender));
            }
            FOp::BurnFrom { spender, from, amount } => {
                lemma_op_allowance(w, op, a, spender);
                assert(op_post(w, op).auths.contains(spender));
            }
            _ => {}
        }
    }
}

/// C02: an allowance is created or changed only with the owner's authorization (approve), or
/// decremented by exactly the spent amount in a call authorized by its spender
pub proof fn lemma_op_allow_change(w: World, op: FOp, o: Address, s: Address)
    requires op_guard(w, op), w.ledger_ok(), w.auths =~= Set::empty(),
    ensures
        //@@ C02:lemma.op_allowance_auth
        allow_data(op_post(w, op), o, s) != allow_data(w, o, s) ==> (
            (op_approves(op, o, s) && op_post(w, op).auths.contains(o))
            || (op_spends(op, o, s) > 0 && op_post(w, op).auths.contains(s)
                && allowance(op_post(w, op), o, s) == allowance(w, o, s) - op_spends(op, o, s))),
{
    lemma_op_allowance(w, op, o, s);
    lemma_op_auths(w, op);
}

// ---- histories: genesis, public operations and ledger advances in any order ----
pub enum FStep { Op(FOp), Tick { seq: u32, ts: u64 } }

pub open spec fn genesis(w: World) -> bool {
    &&& forall|k: SV| w.persistent.contains_key(k) ==> !is_bal_key(k)
    &&& !w.instance.contains_key(supply_key())
    &&& w.events.len() == 0
    &&& forall|k: SV| !w.temporary.contains_key(k)
    &&& w.ledger_ok()
}
pub open spec fn step_ok(w: World, st: FStep) -> bool {
    match st { FStep::Op(op) => op_guard(w, op) && w.auths =~= Set::empty(), FStep::Tick { seq, ts } => seq >= w.ledger_seq }
}
pub open spec fn step_post(w: World, st: FStep) -> World {
    match st {
        // an operation runs in its own invocation; its authorizations do not outlive it
        FStep::Op(op) => World { auths: Set::empty(), ..op_post(w, op) },
        FStep::Tick { seq, ts } => World { ledger_seq: seq, timestamp: ts, auths: Set::empty(), auth_args: Set::empty(), ..w },
    }
}
pub open spec fn run(w0: World, steps: Seq<FStep>) -> World
    decreases steps.len()
{
    if steps.len() == 0 { World { auths: Set::empty(), ..w0 } } else { step_post(run(w0, steps.drop_last()), steps.last()) }
}
pub open spec fn valid(w0: World, steps: Seq<FStep>) -> bool
    decreases steps.len()
{
    steps.len() == 0 || (valid(w0, steps.drop_last()) && step_ok(run(w0, steps.drop_last()), steps.last()))
}


pub open spec fn ams_step(p: int, st: FStep, o: Address, s: Address) -> int {
    match st {
        FStep::Op(op) => if op_approves(op, o, s) { op->Approve_amount as int } else { p - op_spends(op, o, s) },
        _ => p,
    }
}
/// "approved minus spent" bookkeeping over the history (C02)
pub open spec fn ams(steps: Seq<FStep>, o: Address, s: Address) -> int
    decreases steps.len()
{
    if steps.len() == 0 { 0 } else { ams_step(ams(steps.drop_last(), o, s), steps.last(), o, s) }
}

pub proof fn lemma_psum_no_bal_keys(m: Map<SV, SV>)
    requires forall|k: SV| m.contains_key(k) ==> !is_bal_key(k)
    ensures psum(m, bal_proj()) == 0
    decreases m.dom().len()
{
    if m.dom().len() != 0 {
        let c = m.dom().choose();
        assert(m.contains_key(c));
        lemma_psum_no_bal_keys(m.remove(c));
    }
}

pub proof fn lemma_genesis(w0: World)
    requires genesis(w0)
    ensures inv(run(w0, Seq::empty())), inv_ev(run(w0, Seq::empty())),
        forall|o: Address, s: Address| #[trigger] allowance(run(w0, Seq::empty()), o, s) == 0,
{
    let w = run(w0, Seq::empty());
    lemma_psum_no_bal_keys(w0.persistent);
    assert(sum_bal(w) == 0);
    assert forall|a: Address| bal(w, a) == 0 by { lemma_bal_key_facts(a); }
    assert forall|a: Address| replay_bal(w.events, a) == bal(w, a) by {}
}

pub proof fn lemma_step_allowance(w: World, st: FStep, o: Address, s: Address, p: int)
    requires step_ok(w, st), w.ledger_ok(), 0 <= allowance(w, o, s) <= p,
    ensures 0 <= allowance(step_post(w, st), o, s) <= ams_step(p, st, o, s),
{
    match st {
        FStep::Op(op) => {
            lemma_op_allowance(w, op, o, s);
            assert(allow_data(step_post(w, st), o, s) == allow_data(op_post(w, op), o, s));
        }
        FStep::Tick { seq, ts } => {
            // an allowance can only lapse when the ledger advances
            assert(allow_data(step_post(w, st), o, s) == allow_data(w, o, s) || allow_data(step_post(w, st), o, s) == zero_allow());
        }
    }
}

pub proof fn lemma_step_inv(w: World, st: FStep)
    requires step_ok(w, st), w.ledger_ok(), inv(w), inv_ev(w),
    ensures inv(step_post(w, st)), inv_ev(step_post(w, st)), step_post(w, st).ledger_ok(),
{
    let w2 = step_post(w, st);
    match st {
        FStep::Op(op) => {
            lemma_op_c01(w, op);
            lemma_inv_frame(op_post(w, op), w2);
        }
        FStep::Tick { seq, ts } => { lemma_inv_frame(w, w2); }
    }
}

pub open spec fn allow_bounded(w: World, steps: Seq<FStep>) -> bool {
    forall|o: Address, s: Address| 0 <= #[trigger] allowance(w, o, s) <= ams(steps, o, s)
}

pub proof fn lemma_history(w0: World, steps: Seq<FStep>)
    requires genesis(w0), valid(w0, steps),
    ensures
        //@@ C01:history.inv
        inv(run(w0, steps)),
        //@@ C01:history.replay
        inv_ev(run(w0, steps)),
        run(w0, steps).ledger_ok(),
        //@@ C02:history.allowance_bound
        allow_bounded(run(w0, steps), steps),
    decreases steps.len()
{
    if steps.len() == 0 {
        lemma_genesis(w0);
        assert(steps =~= Seq::empty());
    } else {
        let pre = steps.drop_last();
        let wp = run(w0, pre);
        let w = run(w0, steps);
        lemma_history(w0, pre);
        assert(step_ok(wp, steps.last()));
        assert(w == step_post(wp, steps.last()));
        lemma_step_inv(wp, steps.last());
        assert forall|o: Address, s: Address| 0 <= #[trigger] allowance(w, o, s) <= ams(steps, o, s) by {
            assert(0 <= allowance(wp, o, s) <= ams(pre, o, s));
            lemma_step_allowance(wp, steps.last(), o, s, ams(pre, o, s));
        }
    }
}
