// =================================================================================================
// spec pack `access` — role_transfer, ownable, access_control (C06, C07)
// =================================================================================================

// ---- abstract view ----
pub open spec fn ak_admin() -> AccessControlStorageKey { AccessControlStorageKey::Admin }
pub open spec fn cur_admin(w: World) -> Option<Address> { dec::<Address>(iget(w, AccessControlStorageKey::Admin)) }
pub open spec fn cur_owner(w: World) -> Option<Address> { dec::<Address>(iget(w, OwnableStorageKey::Owner)) }
pub open spec fn pending_admin(w: World) -> Option<Address> { dec::<Address>(tget(w, AccessControlStorageKey::PendingAdmin)) }
pub open spec fn pending_owner(w: World) -> Option<Address> { dec::<Address>(tget(w, OwnableStorageKey::PendingOwner)) }
pub open spec fn role_idx(w: World, a: Address, r: Symbol) -> Option<u32> {
    dec::<u32>(pget(w, AccessControlStorageKey::HasRole(a, r)))
}
pub open spec fn is_member(w: World, a: Address, r: Symbol) -> bool { role_idx(w, a, r).is_some() }
pub open spec fn rcount(w: World, r: Symbol) -> u32 {
    match dec::<u32>(pget(w, AccessControlStorageKey::RoleAccountsCount(r))) { Some(c) => c, None => 0 }
}
pub open spec fn member(w: World, r: Symbol, i: u32) -> Option<Address> {
    dec::<Address>(pget(w, AccessControlStorageKey::RoleAccounts(RoleAccountKey { role: r, index: i })))
}
pub open spec fn roles(w: World) -> Seq<Symbol> {
    match dec::<Vec<Symbol>>(pget(w, AccessControlStorageKey::ExistingRoles)) { Some(v) => v@, None => Seq::empty() }
}
pub open spec fn role_admin(w: World, r: Symbol) -> Option<Symbol> {
    dec::<Symbol>(pget(w, AccessControlStorageKey::RoleAdmin(r)))
}

/// enumeration invariant (C06): indices are a gap-free bijection with the members of each role and
/// the list of existing roles is exactly the set of non-empty roles
pub open spec fn inv_ac(w: World) -> bool {
    &&& forall|a: Address, r: Symbol| (#[trigger] role_idx(w, a, r)).is_some() ==>
            role_idx(w, a, r).unwrap() < rcount(w, r) && member(w, r, role_idx(w, a, r).unwrap()) == Some(a)
    &&& forall|r: Symbol, i: u32| i < rcount(w, r) ==>
            (#[trigger] member(w, r, i)).is_some() && role_idx(w, member(w, r, i).unwrap(), r) == Some(i)
    &&& forall|r: Symbol, i: u32| i >= rcount(w, r) ==> (#[trigger] member(w, r, i)).is_none()
    &&& forall|r: Symbol| #[trigger] roles(w).contains(r) <==> rcount(w, r) > 0
    &&& roles(w).no_duplicates()
    &&& roles(w).len() <= MAX_ROLES
}

/// everything except the persistent store is unchanged
pub open spec fn only_persistent(w: World, w2: World) -> bool { w2 == (World { persistent: w2.persistent, ..w }) }
/// only the event log grew
pub open spec fn only_events(w: World, w2: World) -> bool {
    w2 == (World { events: w2.events, ..w }) && w2.events.len() == w.events.len() + 1
        && w2.events.subrange(0, w.events.len() as int) == w.events
}
/// persistent keys that are not access-control enumeration keys are untouched
pub open spec fn is_enum_key(k: SV) -> bool {
    let t = sv_tag(k);
    t == sv_tag(AccessControlStorageKey::ExistingRoles.sv())
    || t == sv_tag(AccessControlStorageKey::RoleAccounts(RoleAccountKey { role: Symbol { code: Ghost(0) }, index: 0 }).sv())
    || t == sv_tag(AccessControlStorageKey::HasRole(Address { id: 0 }, Symbol { code: Ghost(0) }).sv())
    || t == sv_tag(AccessControlStorageKey::RoleAccountsCount(Symbol { code: Ghost(0) }).sv())
}
pub open spec fn enum_frame(w: World, w2: World) -> bool {
    &&& only_persistent(w, w2)
    &&& forall|k: SV| !is_enum_key(k) ==> (w2.persistent.contains_key(k) == w.persistent.contains_key(k) && w2.persistent[k] == w.persistent[k])
}

/// membership after adding / removing one pair
pub open spec fn members_plus(w: World, w2: World, a: Address, r: Symbol) -> bool {
    forall|a2: Address, r2: Symbol| #[trigger] is_member(w2, a2, r2) == (is_member(w, a2, r2) || (a2 == a && r2 == r))
}
pub open spec fn members_minus(w: World, w2: World, a: Address, r: Symbol) -> bool {
    forall|a2: Address, r2: Symbol| #[trigger] is_member(w2, a2, r2) == (is_member(w, a2, r2) && !(a2 == a && r2 == r))
}
pub open spec fn members_same(w: World, w2: World) -> bool {
    forall|a2: Address, r2: Symbol| #[trigger] is_member(w2, a2, r2) == is_member(w, a2, r2)
}
pub open spec fn role_admins_same(w: World, w2: World) -> bool {
    forall|r: Symbol| #[trigger] role_admin(w2, r) == role_admin(w, r)
}

/// who may grant / revoke `role` (C06)
pub open spec fn may_admin_role(w: World, role: Symbol, caller: Address) -> bool {
    cur_admin(w) == Some(caller) || (role_admin(w, role).is_some() && is_member(w, caller, role_admin(w, role).unwrap()))
}

// ---- two-step handshake (C07), generic over the key pair ----
/// storage lifetime a fresh offer is allowed to have: the declared one, or the network minimum if longer
pub open spec fn offer_live_bound(w: World, live_until: u32) -> int {
    if (live_until as int) >= w.min_live() { live_until as int } else { w.min_live() }
}

// ---- exact successor states of the enumeration helpers ----
pub open spec fn vec_sv(s: Seq<Symbol>) -> SV { SV::Vec(Seq::new(s.len(), |i: int| s[i].sv())) }
pub open spec fn k_roles() -> AccessControlStorageKey { AccessControlStorageKey::ExistingRoles }
pub open spec fn k_acct(r: Symbol, i: u32) -> AccessControlStorageKey { AccessControlStorageKey::RoleAccounts(RoleAccountKey { role: r, index: i }) }
pub open spec fn k_has(a: Address, r: Symbol) -> AccessControlStorageKey { AccessControlStorageKey::HasRole(a, r) }
pub open spec fn k_count(r: Symbol) -> AccessControlStorageKey { AccessControlStorageKey::RoleAccountsCount(r) }

pub open spec fn add_post(w: World, a: Address, r: Symbol) -> World {
    let c = rcount(w, r);
    let w1 = if c == 0 { pset(w, k_roles(), vec_sv(roles(w).push(r))) } else { w };
    let w2 = pset(w1, k_acct(r, c), a.sv());
    let w3 = pset(w2, k_has(a, r), c.sv());
    pset(w3, k_count(r), ((c + 1) as u32).sv())
}
pub open spec fn add_guard(w: World, r: Symbol) -> bool {
    rcount(w, r) < u32::MAX && (rcount(w, r) == 0 ==> roles(w).len() != MAX_ROLES)
}
pub open spec fn first_idx<T>(s: Seq<T>, x: T) -> int { choose|i: int| 0 <= i < s.len() && s[i] == x && forall|j: int| 0 <= j < i ==> s[j] != x }
pub proof fn lemma_first_idx<T>(s: Seq<T>, x: T, p: int)
    requires 0 <= p < s.len(), s[p] == x, forall|j: int| 0 <= j < p ==> s[j] != x,
    ensures first_idx(s, x) == p,
{
    let q = first_idx(s, x);
    assert(0 <= q < s.len() && s[q] == x && forall|j: int| 0 <= j < q ==> s[j] != x);
    if q < p { assert(s[q] != x); }
    if p < q { assert(s[p] != x); }
}
pub open spec fn remove_post(w: World, a: Address, r: Symbol) -> World {
    let c = rcount(w, r);
    let idx = role_idx(w, a, r).unwrap();
    let last = (c - 1) as u32;
    let w1 = if idx != last {
        let la = member(w, r, last).unwrap();
        pset(pset(w, k_acct(r, idx), la.sv()), k_has(la, r), idx.sv())
    } else { w };
    let w2 = pdel(w1, k_acct(r, last));
    let w3 = pdel(w2, k_has(a, r));
    let w4 = pset(w3, k_count(r), last.sv());
    if last == 0 && roles(w).contains(r) { pset(w4, k_roles(), vec_sv(roles(w).remove(first_idx(roles(w), r)))) } else { w4 }
}
pub open spec fn remove_guard(w: World, a: Address, r: Symbol) -> bool {
    rcount(w, r) > 0 && is_member(w, a, r) && (role_idx(w, a, r).unwrap() != rcount(w, r) - 1 ==> member(w, r, (rcount(w, r) - 1) as u32).is_some())
}

// ---- sequence facts used for the list of existing roles ----
pub proof fn lemma_push_facts<T>(s: Seq<T>, x: T)
    requires s.no_duplicates(), !s.contains(x),
    ensures s.push(x).no_duplicates(), forall|y: T| #[trigger] s.push(x).contains(y) <==> (s.contains(y) || y == x),
{
    assert forall|y: T| #[trigger] s.push(x).contains(y) <==> (s.contains(y) || y == x) by {
        if s.contains(y) { let i = choose|i: int| 0 <= i < s.len() && s[i] == y; assert(s.push(x)[i] == y); }
        if y == x { assert(s.push(x)[s.len() as int] == x); }
        if s.push(x).contains(y) {
            let i = choose|i: int| 0 <= i < s.push(x).len() && s.push(x)[i] == y;
            if i < s.len() { assert(s[i] == y); }
        }
    }
    assert forall|i: int, j: int| 0 <= i < s.push(x).len() && 0 <= j < s.push(x).len() && i != j implies s.push(x)[i] != s.push(x)[j] by {
        if i < s.len() && j < s.len() {} else if i < s.len() { assert(s[i] != x); } else if j < s.len() { assert(s[j] != x); }
    }
}
pub proof fn lemma_remove_facts<T>(s: Seq<T>, x: T)
    requires s.no_duplicates(), s.contains(x),
    ensures s.remove(first_idx(s, x)).no_duplicates(),
        forall|y: T| #[trigger] s.remove(first_idx(s, x)).contains(y) <==> (s.contains(y) && y != x),
        s.remove(first_idx(s, x)).len() == s.len() - 1,
{
    let w = choose|i: int| 0 <= i < s.len() && s[i] == x;
    // a first index exists: take the least one
    let p = first_idx(s, x);
    lemma_first_exists(s, x, w);
    let t = s.remove(p);
    assert forall|y: T| #[trigger] t.contains(y) <==> (s.contains(y) && y != x) by {
        if t.contains(y) {
            let i = choose|i: int| 0 <= i < t.len() && t[i] == y;
            if i < p { assert(s[i] == y); } else { assert(s[i + 1] == y); }
        }
        if s.contains(y) && y != x {
            let i = choose|i: int| 0 <= i < s.len() && s[i] == y;
            if i < p { assert(t[i] == y); } else { assert(t[i - 1] == y); }
        }
    }
    assert forall|i: int, j: int| 0 <= i < t.len() && 0 <= j < t.len() && i != j implies t[i] != t[j] by {
        let i2 = if i < p { i } else { i + 1 };
        let j2 = if j < p { j } else { j + 1 };
        assert(t[i] == s[i2] && t[j] == s[j2]);
    }
}
pub proof fn lemma_first_exists<T>(s: Seq<T>, x: T, w: int)
    requires 0 <= w < s.len(), s[w] == x,
    ensures 0 <= first_idx(s, x) < s.len(), s[first_idx(s, x)] == x, forall|j: int| 0 <= j < first_idx(s, x) ==> s[j] != x,
    decreases w
{
    if exists|j: int| 0 <= j < w && s[j] == x {
        let j = choose|j: int| 0 <= j < w && s[j] == x;
        lemma_first_exists(s, x, j);
    } else {
        assert(0 <= w < s.len() && s[w] == x && forall|j: int| 0 <= j < w ==> s[j] != x);
    }
}
pub proof fn lemma_vec_sv_rt(s: Seq<Symbol>)
    ensures <Vec<Symbol> as ToSV>::unsv(vec_sv(s))@ =~= s,
{
    broadcast use lemma_unsv_sv;
    let v = <Vec<Symbol> as ToSV>::unsv(vec_sv(s));
    assert forall|i: int| 0 <= i < s.len() implies v@[i] == s[i] by {
        s[i].lemma_rt();
    }
}

/// pointwise description of `add_post` on every typed access-control key
pub proof fn lemma_add_pointwise(w: World, a: Address, r: Symbol)
    ensures
        forall|a2: Address, r2: Symbol| #[trigger] role_idx(add_post(w, a, r), a2, r2) == (if a2 == a && r2 == r { Some(rcount(w, r)) } else { role_idx(w, a2, r2) }),
        forall|r2: Symbol| #[trigger] rcount(add_post(w, a, r), r2) == (if r2 == r { (rcount(w, r) + 1) as u32 } else { rcount(w, r2) }),
        forall|r2: Symbol, i: u32| #[trigger] member(add_post(w, a, r), r2, i) == (if r2 == r && i == rcount(w, r) { Some(a) } else { member(w, r2, i) }),
        roles(add_post(w, a, r)) =~= (if rcount(w, r) == 0 { roles(w).push(r) } else { roles(w) }),
        forall|r2: Symbol| #[trigger] role_admin(add_post(w, a, r), r2) == role_admin(w, r2),
{
    broadcast use sdk_store;
    lemma_vec_sv_rt(roles(w).push(r));
}

pub proof fn lemma_add_enum(w: World, a: Address, r: Symbol)
    requires inv_ac(w), !is_member(w, a, r), add_guard(w, r),
    ensures
        //@@ C06:lemma.add_enum
        inv_ac(add_post(w, a, r)),
        members_plus(w, add_post(w, a, r), a, r),
        role_admins_same(w, add_post(w, a, r)),
        only_persistent(w, add_post(w, a, r)),
{
    lemma_add_pointwise(w, a, r);
    let w2 = add_post(w, a, r);
    if rcount(w, r) == 0 {
        assert(!roles(w).contains(r));
        lemma_push_facts(roles(w), r);
    }
    assert forall|r2: Symbol, i: u32| i < rcount(w2, r2) implies
        (#[trigger] member(w2, r2, i)).is_some() && role_idx(w2, member(w2, r2, i).unwrap(), r2) == Some(i) by {
        if r2 == r && i == rcount(w, r) {} else {
            assert(i < rcount(w, r2));
            assert(member(w, r2, i).is_some());
            let m = member(w, r2, i).unwrap();
            assert(role_idx(w, m, r2) == Some(i));
        }
    }
    assert forall|a2: Address, r2: Symbol| (#[trigger] role_idx(w2, a2, r2)).is_some() implies
        role_idx(w2, a2, r2).unwrap() < rcount(w2, r2) && member(w2, r2, role_idx(w2, a2, r2).unwrap()) == Some(a2) by {
        if a2 == a && r2 == r {} else { assert(role_idx(w, a2, r2).is_some()); }
    }
    assert forall|r2: Symbol, i: u32| i >= rcount(w2, r2) implies (#[trigger] member(w2, r2, i)).is_none() by {
        assert(member(w, r2, i).is_none());
    }
    assert forall|r2: Symbol| #[trigger] roles(w2).contains(r2) <==> rcount(w2, r2) > 0 by {
        assert(roles(w).contains(r2) <==> rcount(w, r2) > 0);
    }
}

/// pointwise description of `remove_post`
pub proof fn lemma_remove_pointwise(w: World, a: Address, r: Symbol)
    requires inv_ac(w), remove_guard(w, a, r),
    ensures
        ({
            let c = rcount(w, r); let idx = role_idx(w, a, r).unwrap(); let last = (c - 1) as u32;
            let la = member(w, r, last).unwrap(); let w2 = remove_post(w, a, r);
            &&& forall|a2: Address, r2: Symbol| #[trigger] role_idx(w2, a2, r2) ==
                    (if a2 == a && r2 == r { None } else if r2 == r && a2 == la && idx != last { Some(idx) } else { role_idx(w, a2, r2) })
            &&& forall|r2: Symbol| #[trigger] rcount(w2, r2) == (if r2 == r { last } else { rcount(w, r2) })
            &&& forall|r2: Symbol, i: u32| #[trigger] member(w2, r2, i) ==
                    (if r2 == r && i == last { None } else if r2 == r && i == idx { Some(la) } else { member(w, r2, i) })
            &&& roles(w2) =~= (if last == 0 && roles(w).contains(r) { roles(w).remove(first_idx(roles(w), r)) } else { roles(w) })
            &&& forall|r2: Symbol| #[trigger] role_admin(w2, r2) == role_admin(w, r2)
        }),
{
    broadcast use sdk_store;
    lemma_vec_sv_rt(roles(w).remove(first_idx(roles(w), r)));
    let c = rcount(w, r); let idx = role_idx(w, a, r).unwrap(); let last = (c - 1) as u32;
    assert(member(w, r, idx) == Some(a));
    assert(member(w, r, last).is_some());
    let la = member(w, r, last).unwrap();
    assert(role_idx(w, la, r) == Some(last));
}

pub proof fn lemma_remove_enum(w: World, a: Address, r: Symbol)
    requires inv_ac(w), remove_guard(w, a, r),
    ensures
        //@@ C06:lemma.remove_enum
        inv_ac(remove_post(w, a, r)),
        members_minus(w, remove_post(w, a, r), a, r),
        role_admins_same(w, remove_post(w, a, r)),
        only_persistent(w, remove_post(w, a, r)),
{
    lemma_remove_pointwise(w, a, r);
    let w2 = remove_post(w, a, r);
    let c = rcount(w, r); let idx = role_idx(w, a, r).unwrap(); let last = (c - 1) as u32;
    assert(member(w, r, idx) == Some(a));
    assert(member(w, r, last).is_some());
    let la = member(w, r, last).unwrap();
    assert(role_idx(w, la, r) == Some(last));
    assert(roles(w).contains(r));
    if last == 0 { lemma_remove_facts(roles(w), r); }
    assert forall|r2: Symbol, i: u32| i < rcount(w2, r2) implies
        (#[trigger] member(w2, r2, i)).is_some() && role_idx(w2, member(w2, r2, i).unwrap(), r2) == Some(i) by {
        assert(i < rcount(w, r2));
        assert(member(w, r2, i).is_some());
        let m = member(w, r2, i).unwrap();
        assert(role_idx(w, m, r2) == Some(i));
        if r2 == r && i == idx {} else {
            // m is neither the removed account nor the moved last account
            if r2 == r { assert(m != a); assert(m != la || idx == last); }
        }
    }
    assert forall|a2: Address, r2: Symbol| (#[trigger] role_idx(w2, a2, r2)).is_some() implies
        role_idx(w2, a2, r2).unwrap() < rcount(w2, r2) && member(w2, r2, role_idx(w2, a2, r2).unwrap()) == Some(a2) by {
        if r2 == r && a2 == la && idx != last {} else {
            assert(role_idx(w, a2, r2).is_some());
            let i = role_idx(w, a2, r2).unwrap();
            assert(member(w, r2, i) == Some(a2));
        }
    }
    assert forall|r2: Symbol, i: u32| i >= rcount(w2, r2) implies (#[trigger] member(w2, r2, i)).is_none() by {
        if r2 == r && i == last {} else if r2 == r && i == idx {} else { assert(member(w, r2, i).is_none()); }
    }
    assert forall|r2: Symbol| #[trigger] roles(w2).contains(r2) <==> rcount(w2, r2) > 0 by {
        assert(roles(w).contains(r2) <==> rcount(w, r2) > 0);
    }
    assert forall|a2: Address, r2: Symbol| #[trigger] is_member(w2, a2, r2) == (is_member(w, a2, r2) && !(a2 == a && r2 == r)) by {
        if r2 == r && a2 == la && idx != last { assert(is_member(w, la, r)); }
    }
}

// ---- exact successor states of the public role operations ----

// ---- two-step transfer: exact successor states ----
/// the sibling temporary key under which the declared `live_until_ledger` of the pending offer at `k` is recorded
pub open spec fn xk<K: ToSV>(k: K) -> (Val, Symbol) {
    (Val { v: Ghost(k.sv()) }, Symbol { code: Ghost(str_code("live_til"@)) })
}
pub open spec fn offer_post<K: ToSV>(w: World, k: K, new: Address, live: u32) -> World {
    if live == 0 { tdel(tdel(w, k), xk(k)) } else {
        let lf = (live - w.ledger_seq) as u32;
        let w1 = text(tset(w, k, new.sv()), k, lf, lf);
        text(tset(w1, xk(k), live.sv()), xk(k), lf, lf)
    }
}
pub open spec fn offer_guard<K: ToSV>(w: World, k: K, new: Address, live: u32) -> bool {
    if live == 0 { dec::<Address>(tget(w, k)) == Some(new) } else { w.ledger_seq <= live && live as int <= w.max_live_until() }
}
/// the declared expiry recorded for the pending offer at `k` (None: no record, e.g. an entry written by older code)
pub open spec fn declared_expiry<K: ToSV>(w: World, k: K) -> Option<u32> { dec::<u32>(tget(w, xk(k))) }
pub open spec fn accept_guard<P: ToSV>(w: World, pending: P) -> bool {
    &&& tget(w, pending).is_some()
    &&& declared_expiry(w, pending).is_some() ==> declared_expiry(w, pending).unwrap() >= w.ledger_seq
}
pub open spec fn accept_post<K: ToSV, P: ToSV>(w: World, active: K, pending: P) -> World {
    let p = dec::<Address>(tget(w, pending)).unwrap();
    iset(tdel(tdel(w_auth(w, p), pending), xk(pending)), active, p.sv())
}

pub open spec fn grant_na_post(w: World, account: Address, role: Symbol, caller: Address) -> World {
    if is_member(w, account, role) { w } else {
        w_event(add_post(w, account, role), RoleGranted { role: role, account: account, caller: caller }.ev())
    }
}
pub open spec fn revoke_na_post(w: World, account: Address, role: Symbol, caller: Address) -> World {
    w_event(pdel(remove_post(w, account, role), k_has(account, role)), RoleRevoked { role: role, account: account, caller: caller }.ev())
}
pub open spec fn k_radmin(r: Symbol) -> AccessControlStorageKey { AccessControlStorageKey::RoleAdmin(r) }
pub open spec fn empty_symbol() -> Symbol { Symbol { code: Ghost(str_code(""@)) } }
pub open spec fn set_radmin_post(w: World, role: Symbol, admin_role: Symbol) -> World {
    let prev = match role_admin(w, role) { Some(p) => p, None => empty_symbol() };
    w_event(pset(w, k_radmin(role), admin_role.sv()),
        RoleAdminChanged { role: role, previous_admin_role: prev, new_admin_role: admin_role }.ev())
}
pub open spec fn renounce_admin_post(w: World) -> World {
    let a = cur_admin(w).unwrap();
    w_event(idel(w_auth(w, a), AccessControlStorageKey::Admin), AdminRenounced { admin: a }.ev())
}
pub open spec fn renounce_owner_post(w: World) -> World {
    let a = cur_owner(w).unwrap();
    w_event(idel(w_auth(w, a), OwnableStorageKey::Owner), OwnershipRenounced { old_owner: a }.ev())
}
