// =================================================================================================
// C06 / C07 at the level of single operations and of whole histories
// =================================================================================================

pub open spec fn same_enum_view(w: World, w2: World) -> bool {
    &&& forall|a: Address, r: Symbol| #[trigger] role_idx(w2, a, r) == role_idx(w, a, r)
    &&& forall|r: Symbol, i: u32| #[trigger] member(w2, r, i) == member(w, r, i)
    &&& forall|r: Symbol| #[trigger] rcount(w2, r) == rcount(w, r)
    &&& roles(w2) == roles(w)
}
pub proof fn lemma_inv_ac_same_view(w: World, w2: World)
    requires inv_ac(w), same_enum_view(w, w2),
    ensures inv_ac(w2), members_same(w, w2),
{
    assert forall|r2: Symbol, i: u32| i < rcount(w2, r2) implies
        (#[trigger] member(w2, r2, i)).is_some() && role_idx(w2, member(w2, r2, i).unwrap(), r2) == Some(i) by {
        assert(member(w, r2, i).is_some());
    }
    assert forall|a2: Address, r2: Symbol| (#[trigger] role_idx(w2, a2, r2)).is_some() implies
        role_idx(w2, a2, r2).unwrap() < rcount(w2, r2) && member(w2, r2, role_idx(w2, a2, r2).unwrap()) == Some(a2) by {
        assert(role_idx(w, a2, r2).is_some());
    }
    assert forall|r2: Symbol, i: u32| i >= rcount(w2, r2) implies (#[trigger] member(w2, r2, i)).is_none() by {
        assert(member(w, r2, i).is_none());
    }
    assert forall|r2: Symbol| #[trigger] roles(w2).contains(r2) <==> rcount(w2, r2) > 0 by {
        assert(roles(w).contains(r2) <==> rcount(w, r2) > 0);
    }
}
pub proof fn lemma_inv_ac_frame(w: World, w2: World)
    requires inv_ac(w), w2.persistent == w.persistent,
    ensures inv_ac(w2), members_same(w, w2), role_admins_same(w, w2),
{
    assert(same_enum_view(w, w2));
    lemma_inv_ac_same_view(w, w2);
}

/// the principals stored outside the persistent store
pub open spec fn principals_same(w: World, w2: World) -> bool {
    cur_admin(w2) == cur_admin(w) && cur_owner(w2) == cur_owner(w) && pending_admin(w2) == pending_admin(w) && pending_owner(w2) == pending_owner(w)
}

/// grant (C06): membership grows by exactly the pair; enumeration stays consistent; nothing else moves
pub proof fn lemma_grant(w: World, account: Address, role: Symbol, caller: Address)
    requires inv_ac(w), !is_member(w, account, role) ==> add_guard(w, role),
    ensures
        //@@ C06:lemma.grant
        inv_ac(grant_na_post(w, account, role, caller)),
        members_plus(w, grant_na_post(w, account, role, caller), account, role),
        role_admins_same(w, grant_na_post(w, account, role, caller)),
        principals_same(w, grant_na_post(w, account, role, caller)),
        grant_na_post(w, account, role, caller).auths == w.auths,
{
    let w2 = grant_na_post(w, account, role, caller);
    if is_member(w, account, role) {
        assert(w2 == w);
    } else {
        lemma_add_enum(w, account, role);
        let w1 = add_post(w, account, role);
        lemma_inv_ac_frame(w1, w2);
        assert forall|a2: Address, r2: Symbol| #[trigger] is_member(w2, a2, r2) == (is_member(w, a2, r2) || (a2 == account && r2 == role)) by {
            assert(is_member(w2, a2, r2) == is_member(w1, a2, r2));
        }
        assert forall|r: Symbol| #[trigger] role_admin(w2, r) == role_admin(w, r) by {
            assert(role_admin(w2, r) == role_admin(w1, r));
        }
    }
}

/// revoke / renounce_role (C06)
pub proof fn lemma_revoke(w: World, account: Address, role: Symbol, caller: Address)
    requires inv_ac(w), remove_guard(w, account, role),
    ensures
        //@@ C06:lemma.revoke
        inv_ac(revoke_na_post(w, account, role, caller)),
        members_minus(w, revoke_na_post(w, account, role, caller), account, role),
        role_admins_same(w, revoke_na_post(w, account, role, caller)),
        principals_same(w, revoke_na_post(w, account, role, caller)),
        revoke_na_post(w, account, role, caller).auths == w.auths,
{
    broadcast use sdk_store;
    lemma_remove_enum(w, account, role);
    lemma_remove_pointwise(w, account, role);
    let w1 = remove_post(w, account, role);
    let w2 = revoke_na_post(w, account, role, caller);
    // the second removal of HasRole(account, role) is a no-op
    assert(role_idx(w1, account, role).is_none());
    assert(pdel(w1, k_has(account, role)).persistent =~= w1.persistent);
    lemma_inv_ac_frame(w1, w2);
    assert forall|a2: Address, r2: Symbol| #[trigger] is_member(w2, a2, r2) == (is_member(w, a2, r2) && !(a2 == account && r2 == role)) by {
        assert(is_member(w2, a2, r2) == is_member(w1, a2, r2));
    }
    assert forall|r: Symbol| #[trigger] role_admin(w2, r) == role_admin(w, r) by {
        assert(role_admin(w2, r) == role_admin(w1, r));
    }
}

/// set_role_admin (C06): only the role's admin role changes
pub proof fn lemma_set_radmin(w: World, role: Symbol, admin_role: Symbol)
    requires inv_ac(w),
    ensures
        //@@ C06:lemma.set_role_admin
        inv_ac(set_radmin_post(w, role, admin_role)),
        members_same(w, set_radmin_post(w, role, admin_role)),
        forall|r: Symbol| #[trigger] role_admin(set_radmin_post(w, role, admin_role), r) == (if r == role { Some(admin_role) } else { role_admin(w, r) }),
        principals_same(w, set_radmin_post(w, role, admin_role)),
{
    broadcast use sdk_store;
    let w2 = set_radmin_post(w, role, admin_role);
    assert(same_enum_view(w, w2));
    lemma_inv_ac_same_view(w, w2);
}

// ---- C07: the handshake on one key pair ----
/// the pending key and its expiry sibling never collide (needed for every read-over-write between them)
pub open spec fn keys_apart<K: ToSV>(k: K) -> bool { k.sv() != xk(k).sv() }

/// facts about an offer step
pub proof fn lemma_offer<K: ToSV>(w: World, k: K, new: Address, live: u32)
    requires offer_guard(w, k, new, live), keys_apart(k),
    ensures
        //@@ C07:lemma.offer
        live == 0 ==> tget(offer_post(w, k, new, live), k).is_none() && tget(offer_post(w, k, new, live), xk(k)).is_none(),
        live != 0 ==> dec::<Address>(tget(offer_post(w, k, new, live), k)) == Some(new),
        // the declared lifetime is recorded, whatever entry was there before (this is what defect D2 lacked)
        live != 0 ==> declared_expiry(offer_post(w, k, new, live), k) == Some(live),
        // the storage lifetime covers the declared one
        live != 0 ==> tlive(offer_post(w, k, new, live), k) >= live,
        offer_post(w, k, new, live).instance == w.instance,
        offer_post(w, k, new, live).persistent == w.persistent,
        offer_post(w, k, new, live).auths == w.auths,
        offer_post(w, k, new, live).same_ledger(w),
{
    broadcast use sdk_store;
    new.lemma_rt();
    live.lemma_rt();
    if live != 0 {
        let lf = (live - w.ledger_seq) as u32;
        let w1 = text(tset(w, k, new.sv()), k, lf, lf);
        let w2 = tset(w1, xk(k), live.sv());
        lemma_tget_other(w1, xk(k), live.sv(), lf, k);
        lemma_tget_other(w2, xk(k), live.sv(), lf, k);
    } else {
        lemma_tget_other(tdel(w, k), xk(k), SV::Void, 0, k);
    }
}

/// facts about an accept step: only a live pending entry within its declared lifetime can be accepted, by the
/// pending account itself, and it is consumed together with its expiry record
pub proof fn lemma_accept<K: ToSV, P: ToSV>(w: World, active: K, pending: P)
    requires accept_guard(w, pending), keys_apart(pending),
    ensures
        //@@ C07:lemma.accept
        dec::<Address>(iget(accept_post(w, active, pending), active)) == dec::<Address>(tget(w, pending)),
        accept_post(w, active, pending).auths.contains(dec::<Address>(tget(w, pending)).unwrap()),
        tget(accept_post(w, active, pending), pending).is_none(),
        tget(accept_post(w, active, pending), xk(pending)).is_none(),
        tlive(w, pending) >= w.ledger_seq,
        declared_expiry(w, pending).is_some() ==> w.ledger_seq <= declared_expiry(w, pending).unwrap(),
        accept_post(w, active, pending).persistent == w.persistent,
{
    broadcast use sdk_store;
    let p = dec::<Address>(tget(w, pending)).unwrap();
    p.lemma_rt();
    let w1 = tdel(w_auth(w, p), pending);
    lemma_tget_other(w1, xk(pending), SV::Void, 0, pending);
    assert(iget(tdel(w1, xk(pending)), active) == iget(w, active));
}

/// temporary-store writes at one key leave every key with a different encoding alone (keys of different types)
pub proof fn lemma_tget_other<K1: ToSV, K2: ToSV>(w: World, k: K1, v: SV, t: u32, k2: K2)
    requires k.sv() != k2.sv(),
    ensures tget(tset(w, k, v), k2) == tget(w, k2), tlive(tset(w, k, v), k2) == tlive(w, k2),
        tget(tdel(w, k), k2) == tget(w, k2),
        tget(w, k).is_some() ==> tget(text(w, k, t, t), k2) == tget(w, k2) && tlive(text(w, k, t, t), k2) == tlive(w, k2),
{}

// ---- the public operations as a relation on worlds ----
pub enum AOp {
    Grant { account: Address, role: Symbol, caller: Address },
    Revoke { account: Address, role: Symbol, caller: Address },
    RenounceRole { role: Symbol, caller: Address },
    SetRoleAdmin { role: Symbol, admin_role: Symbol },
    OfferAdmin { new: Address, live: u32 },
    AcceptAdmin,
    RenounceAdmin,
    OfferOwner { new: Address, live: u32 },
    AcceptOwner,
    RenounceOwner,
}
pub open spec fn k_padmin() -> AccessControlStorageKey { AccessControlStorageKey::PendingAdmin }
pub open spec fn k_powner() -> OwnableStorageKey { OwnableStorageKey::PendingOwner }

pub open spec fn aop_guard(w: World, op: AOp) -> bool {
    match op {
        AOp::Grant { account, role, caller } => may_admin_role(w, role, caller) && (!is_member(w, account, role) ==> add_guard(w, role)),
        AOp::Revoke { account, role, caller } => may_admin_role(w, role, caller) && remove_guard(w, account, role),
        AOp::RenounceRole { role, caller } => remove_guard(w, caller, role),
        AOp::SetRoleAdmin { role, admin_role } => cur_admin(w).is_some(),
        AOp::OfferAdmin { new, live } => cur_admin(w).is_some() && offer_guard(w, k_padmin(), new, live),
        AOp::AcceptAdmin => cur_admin(w).is_some() && accept_guard(w, k_padmin()),
        AOp::RenounceAdmin => cur_admin(w).is_some() && pending_admin(w).is_none(),
        AOp::OfferOwner { new, live } => cur_owner(w).is_some() && offer_guard(w, k_powner(), new, live),
        AOp::AcceptOwner => accept_guard(w, k_powner()),
        AOp::RenounceOwner => cur_owner(w).is_some() && pending_owner(w).is_none(),
    }
}
pub open spec fn aop_post(w: World, op: AOp) -> World {
    match op {
        AOp::Grant { account, role, caller } => grant_na_post(w_auth(w, caller), account, role, caller),
        AOp::Revoke { account, role, caller } => revoke_na_post(w_auth(w, caller), account, role, caller),
        AOp::RenounceRole { role, caller } => revoke_na_post(w_auth(w, caller), caller, role, caller),
        AOp::SetRoleAdmin { role, admin_role } => set_radmin_post(w_auth(w, cur_admin(w).unwrap()), role, admin_role),
        AOp::OfferAdmin { new, live } =>
            w_event(offer_post(w_auth(w, cur_admin(w).unwrap()), k_padmin(), new, live),
                AdminTransferInitiated { current_admin: cur_admin(w).unwrap(), new_admin: new, live_until_ledger: live }.ev()),
        AOp::AcceptAdmin =>
            w_event(accept_post(w, AccessControlStorageKey::Admin, k_padmin()),
                AdminTransferCompleted { new_admin: pending_admin(w).unwrap(), previous_admin: cur_admin(w).unwrap() }.ev()),
        AOp::RenounceAdmin => renounce_admin_post(w),
        AOp::OfferOwner { new, live } =>
            w_event(offer_post(w_auth(w, cur_owner(w).unwrap()), k_powner(), new, live),
                OwnershipTransfer { old_owner: cur_owner(w).unwrap(), new_owner: new, live_until_ledger: live }.ev()),
        AOp::AcceptOwner =>
            w_event(accept_post(w, OwnableStorageKey::Owner, k_powner()),
                OwnershipTransferCompleted { new_owner: pending_owner(w).unwrap() }.ev()),
        AOp::RenounceOwner => renounce_owner_post(w),
    }
}
/// who must have authorized the call
pub open spec fn aop_auth(w: World, op: AOp) -> Address {
    match op {
        AOp::Grant { account, role, caller } => caller,
        AOp::Revoke { account, role, caller } => caller,
        AOp::RenounceRole { role, caller } => caller,
        AOp::SetRoleAdmin { role, admin_role } => cur_admin(w).unwrap(),
        AOp::OfferAdmin { new, live } => cur_admin(w).unwrap(),
        AOp::AcceptAdmin => pending_admin(w).unwrap(),
        AOp::RenounceAdmin => cur_admin(w).unwrap(),
        AOp::OfferOwner { new, live } => cur_owner(w).unwrap(),
        AOp::AcceptOwner => pending_owner(w).unwrap(),
        AOp::RenounceOwner => cur_owner(w).unwrap(),
    }
}

/// effect of one operation on role membership
pub open spec fn aop_members(op: AOp, m: Set<(Address, Symbol)>) -> Set<(Address, Symbol)> {
    match op {
        AOp::Grant { account, role, caller } => m.insert((account, role)),
        AOp::Revoke { account, role, caller } => m.remove((account, role)),
        AOp::RenounceRole { role, caller } => m.remove((caller, role)),
        _ => m,
    }
}
pub open spec fn members_are(w: World, m: Set<(Address, Symbol)>) -> bool {
    forall|a: Address, r: Symbol| #[trigger] is_member(w, a, r) <==> m.contains((a, r))
}

/// C06, one operation: the call was authorized by the stated principal; the enumeration invariant holds
/// afterwards; membership changes exactly as the operation says and only for grant / revoke / renounce
pub proof fn lemma_aop_c06(w: World, op: AOp, m: Set<(Address, Symbol)>)
    requires inv_ac(w), aop_guard(w, op), members_are(w, m),
    ensures
        //@@ C06:lemma.op_inv
        inv_ac(aop_post(w, op)),
        //@@ C06:lemma.op_members
        members_are(aop_post(w, op), aop_members(op, m)),
        //@@ C06:lemma.op_authorized
        aop_post(w, op).auths.contains(aop_auth(w, op)),
{
    broadcast use sdk_store;
    let w2 = aop_post(w, op);
    match op {
        AOp::Grant { account, role, caller } => {
            let w1 = w_auth(w, caller);
            lemma_inv_ac_frame(w, w1);
            lemma_grant(w1, account, role, caller);
        }
        AOp::Revoke { account, role, caller } => {
            let w1 = w_auth(w, caller);
            lemma_inv_ac_frame(w, w1);
            lemma_revoke(w1, account, role, caller);
        }
        AOp::RenounceRole { role, caller } => {
            let w1 = w_auth(w, caller);
            lemma_inv_ac_frame(w, w1);
            lemma_revoke(w1, caller, role, caller);
        }
        AOp::SetRoleAdmin { role, admin_role } => {
            let w1 = w_auth(w, cur_admin(w).unwrap());
            lemma_inv_ac_frame(w, w1);
            lemma_set_radmin(w1, role, admin_role);
        }
        AOp::OfferAdmin { new, live } => {
            let w1 = w_auth(w, cur_admin(w).unwrap());
            lemma_offer(w1, k_padmin(), new, live);
            lemma_inv_ac_frame(w, w2);
        }
        AOp::AcceptAdmin => {
            lemma_accept(w, AccessControlStorageKey::Admin, k_padmin());
            lemma_inv_ac_frame(w, w2);
        }
        AOp::RenounceAdmin => { lemma_inv_ac_frame(w, w2); }
        AOp::OfferOwner { new, live } => {
            let w1 = w_auth(w, cur_owner(w).unwrap());
            lemma_offer(w1, k_powner(), new, live);
            lemma_inv_ac_frame(w, w2);
        }
        AOp::AcceptOwner => {
            lemma_accept(w, OwnableStorageKey::Owner, k_powner());
            lemma_inv_ac_frame(w, w2);
        }
        AOp::RenounceOwner => { lemma_inv_ac_frame(w, w2); }
    }
}

pub proof fn lemma_principal_keys()
    ensures AccessControlStorageKey::Admin.sv() != OwnableStorageKey::Owner.sv(), k_padmin().sv() != k_powner().sv(),
        keys_apart(k_padmin()), keys_apart(k_powner()),
        xk(k_padmin()).sv() != k_powner().sv(), xk(k_powner()).sv() != k_padmin().sv(),
        xk(k_padmin()).sv() != xk(k_powner()).sv(),
{
    assert(sv_tag(AccessControlStorageKey::Admin.sv()) != sv_tag(OwnableStorageKey::Owner.sv()));
    assert(sv_tag(k_padmin().sv()) != sv_tag(k_powner().sv()));
    // an expiry key is a 2-element vector whose first element is itself a vector: its tag is -1, an enum key's is its variant symbol
    assert(sv_tag(xk(k_padmin()).sv()) == -1);
    assert(sv_tag(xk(k_powner()).sv()) == -1);
    assert(xk(k_padmin()).sv()->Vec_0[0] == k_padmin().sv());
    assert(xk(k_powner()).sv()->Vec_0[0] == k_powner().sv());
}
/// role operations never touch the admin / owner slots
pub proof fn lemma_role_ops_principals(w: World, op: AOp)
    requires (op is Grant) || (op is Revoke) || (op is RenounceRole) || (op is SetRoleAdmin),
    ensures principals_same(w, aop_post(w, op)),
{
}

/// C06: "after admin or ownership is renounced nobody can pass the check" — with no admin (owner)
/// every admin-gated (owner-gated) operation is refused and no operation can install one
pub proof fn lemma_no_admin_forever(w: World, op: AOp)
    requires aop_guard(w, op),
    ensures
        //@@ C06:lemma.renounced_admin_stays_none
        cur_admin(w).is_none() ==> cur_admin(aop_post(w, op)).is_none()
            && !(op is SetRoleAdmin) && !(op is OfferAdmin) && !(op is AcceptAdmin) && !(op is RenounceAdmin),
        //@@ C06:lemma.renounced_owner_needs_no_pending
        cur_owner(w).is_none() && pending_owner(w).is_none() ==> cur_owner(aop_post(w, op)).is_none() && pending_owner(aop_post(w, op)).is_none(),
{
    broadcast use sdk_store;
    lemma_principal_keys();
    match op {
        AOp::Grant { account, role, caller } => { lemma_role_ops_principals(w, op); }
        AOp::Revoke { account, role, caller } => { lemma_role_ops_principals(w, op); }
        AOp::RenounceRole { role, caller } => { lemma_role_ops_principals(w, op); }
        AOp::SetRoleAdmin { role, admin_role } => { lemma_role_ops_principals(w, op); }
        AOp::OfferOwner { new, live } => { lemma_offer(w_auth(w, cur_owner(w).unwrap()), k_powner(), new, live); }
        AOp::AcceptOwner => {
            lemma_accept(w, OwnableStorageKey::Owner, k_powner());
            let p = pending_owner(w).unwrap();
            lemma_iget_iset_other(tdel(w_auth(w, p), k_powner()), OwnableStorageKey::Owner, p.sv(), AccessControlStorageKey::Admin);
        }
        _ => {}
    }
}

/// C07, one operation: the admin (owner) changes only by an accept of the live pending offer by the pending
/// account itself, or by a renounce of the current holder with no offer pending; the pending slot changes
/// only by an offer of the current holder or by the accept that consumes it
pub proof fn lemma_aop_c07(w: World, op: AOp)
    requires aop_guard(w, op),
    ensures
        //@@ C07:lemma.admin_changes_only_by_handshake
        cur_admin(aop_post(w, op)) != cur_admin(w) ==>
            ((op is AcceptAdmin) && cur_admin(aop_post(w, op)) == pending_admin(w) && pending_admin(w).is_some()
                && aop_post(w, op).auths.contains(pending_admin(w).unwrap()) && tlive(w, k_padmin()) >= w.ledger_seq
                && pending_admin(aop_post(w, op)).is_none())
            || ((op is RenounceAdmin) && pending_admin(w).is_none() && aop_post(w, op).auths.contains(cur_admin(w).unwrap())),
        //@@ C07:lemma.owner_changes_only_by_handshake
        cur_owner(aop_post(w, op)) != cur_owner(w) ==>
            ((op is AcceptOwner) && cur_owner(aop_post(w, op)) == pending_owner(w) && pending_owner(w).is_some()
                && aop_post(w, op).auths.contains(pending_owner(w).unwrap()) && tlive(w, k_powner()) >= w.ledger_seq
                && pending_owner(aop_post(w, op)).is_none())
            || ((op is RenounceOwner) && pending_owner(w).is_none() && aop_post(w, op).auths.contains(cur_owner(w).unwrap())),
        //@@ C07:lemma.pending_changes_only_by_holder
        pending_admin(aop_post(w, op)) != pending_admin(w) ==>
            ((op is OfferAdmin) && aop_post(w, op).auths.contains(cur_admin(w).unwrap())) || (op is AcceptAdmin),
        pending_owner(aop_post(w, op)) != pending_owner(w) ==>
            ((op is OfferOwner) && aop_post(w, op).auths.contains(cur_owner(w).unwrap())) || (op is AcceptOwner),
{
    broadcast use sdk_store;
    lemma_principal_keys();
    match op {
        AOp::Grant { account, role, caller } => { lemma_role_ops_principals(w, op); }
        AOp::Revoke { account, role, caller } => { lemma_role_ops_principals(w, op); }
        AOp::RenounceRole { role, caller } => { lemma_role_ops_principals(w, op); }
        AOp::SetRoleAdmin { role, admin_role } => { lemma_role_ops_principals(w, op); }
        AOp::OfferAdmin { new, live } => {
            lemma_offer(w_auth(w, cur_admin(w).unwrap()), k_padmin(), new, live);
            assert(pending_owner(aop_post(w, op)) == pending_owner(w));
        }
        AOp::AcceptAdmin => {
            lemma_accept(w, AccessControlStorageKey::Admin, k_padmin());
            let p = pending_admin(w).unwrap();
            lemma_iget_iset_other(tdel(w_auth(w, p), k_padmin()), AccessControlStorageKey::Admin, p.sv(), OwnableStorageKey::Owner);
            assert(pending_owner(aop_post(w, op)) == pending_owner(w));
        }
        AOp::OfferOwner { new, live } => {
            lemma_offer(w_auth(w, cur_owner(w).unwrap()), k_powner(), new, live);
            assert(pending_admin(aop_post(w, op)) == pending_admin(w));
        }
        AOp::AcceptOwner => {
            lemma_accept(w, OwnableStorageKey::Owner, k_powner());
            let p = pending_owner(w).unwrap();
            lemma_iget_iset_other(tdel(w_auth(w, p), k_powner()), OwnableStorageKey::Owner, p.sv(), AccessControlStorageKey::Admin);
            assert(pending_admin(aop_post(w, op)) == pending_admin(w));
        }
        AOp::RenounceAdmin => {
            lemma_iget_iset_other(w_auth(w, cur_admin(w).unwrap()), AccessControlStorageKey::Admin, SV::Void, OwnableStorageKey::Owner);
        }
        AOp::RenounceOwner => {
            lemma_iget_iset_other(w_auth(w, cur_owner(w).unwrap()), OwnableStorageKey::Owner, SV::Void, AccessControlStorageKey::Admin);
        }
    }
}

// ---- histories ----
pub enum AStep { Op(AOp), Tick { seq: u32, ts: u64 } }
pub open spec fn astep_ok(w: World, st: AStep) -> bool {
    match st { AStep::Op(op) => aop_guard(w, op), AStep::Tick { seq, ts } => seq >= w.ledger_seq }
}
pub open spec fn astep_post(w: World, st: AStep) -> World {
    match st {
        AStep::Op(op) => World { auths: Set::empty(), ..aop_post(w, op) },
        AStep::Tick { seq, ts } => World { ledger_seq: seq, timestamp: ts, auths: Set::empty(), auth_args: Set::empty(), ..w },
    }
}
pub open spec fn arun(w0: World, steps: Seq<AStep>) -> World
    decreases steps.len()
{
    if steps.len() == 0 { World { auths: Set::empty(), ..w0 } } else { astep_post(arun(w0, steps.drop_last()), steps.last()) }
}
pub open spec fn avalid(w0: World, steps: Seq<AStep>) -> bool
    decreases steps.len()
{
    steps.len() == 0 || (avalid(w0, steps.drop_last()) && astep_ok(arun(w0, steps.drop_last()), steps.last()))
}
/// the set of (account, role) pairs granted and not since revoked or renounced
pub open spec fn granted(steps: Seq<AStep>) -> Set<(Address, Symbol)>
    decreases steps.len()
{
    if steps.len() == 0 { Set::empty() } else {
        match steps.last() { AStep::Op(op) => aop_members(op, granted(steps.drop_last())), _ => granted(steps.drop_last()) }
    }
}
/// a freshly deployed contract: no role data (the constructor may have set an admin / owner)
pub open spec fn ac_genesis(w: World) -> bool {
    &&& forall|a: Address, r: Symbol| role_idx(w, a, r).is_none()
    &&& forall|r: Symbol, i: u32| member(w, r, i).is_none()
    &&& forall|r: Symbol| rcount(w, r) == 0
    &&& roles(w).len() == 0
}
/// some earlier step renounced the admin
pub open spec fn admin_renounced(steps: Seq<AStep>) -> bool {
    exists|i: int| 0 <= i < steps.len() && steps[i] == AStep::Op(AOp::RenounceAdmin)
}

pub proof fn lemma_ac_genesis(w0: World)
    requires ac_genesis(w0),
    ensures inv_ac(arun(w0, Seq::empty())), members_are(arun(w0, Seq::empty()), Set::empty()),
{
    let w = arun(w0, Seq::empty());
    assert(roles(w) =~= Seq::empty());
    assert forall|a: Address, r: Symbol| #[trigger] is_member(w, a, r) <==> Set::<(Address, Symbol)>::empty().contains((a, r)) by {
        assert(role_idx(w0, a, r).is_none());
    }
    assert forall|r: Symbol, i: u32| i >= rcount(w, r) implies (#[trigger] member(w, r, i)).is_none() by {
        assert(member(w0, r, i).is_none());
    }
    assert forall|r: Symbol| #[trigger] roles(w).contains(r) <==> rcount(w, r) > 0 by { assert(rcount(w0, r) == 0); }
    assert forall|a: Address, r: Symbol| (#[trigger] role_idx(w, a, r)).is_some() implies
        role_idx(w, a, r).unwrap() < rcount(w, r) && member(w, r, role_idx(w, a, r).unwrap()) == Some(a) by {
        assert(role_idx(w0, a, r).is_none());
    }
    assert forall|r: Symbol, i: u32| i < rcount(w, r) implies
        (#[trigger] member(w, r, i)).is_some() && role_idx(w, member(w, r, i).unwrap(), r) == Some(i) by {
        assert(rcount(w0, r) == 0);
    }
}

pub proof fn lemma_renounced_split(steps: Seq<AStep>)
    requires steps.len() > 0, admin_renounced(steps),
    ensures admin_renounced(steps.drop_last()) || steps.last() == AStep::Op(AOp::RenounceAdmin),
{
    let i = choose|i: int| 0 <= i < steps.len() && steps[i] == AStep::Op(AOp::RenounceAdmin);
    if i < steps.len() - 1 {
        assert(steps.drop_last()[i] == steps[i]);
    }
}

pub proof fn lemma_ac_step(wp: World, st: AStep, m: Set<(Address, Symbol)>)
    requires inv_ac(wp), astep_ok(wp, st), members_are(wp, m),
    ensures inv_ac(astep_post(wp, st)),
        members_are(astep_post(wp, st), (match st { AStep::Op(op) => aop_members(op, m), _ => m })),
        cur_admin(wp).is_none() ==> cur_admin(astep_post(wp, st)).is_none(),
        st == AStep::Op(AOp::RenounceAdmin) ==> cur_admin(astep_post(wp, st)).is_none(),
{
    let w = astep_post(wp, st);
    match st {
        AStep::Op(op) => {
            lemma_aop_c06(wp, op, m);
            lemma_inv_ac_frame(aop_post(wp, op), w);
            lemma_no_admin_forever(wp, op);
            assert(cur_admin(w) == cur_admin(aop_post(wp, op)));
            assert forall|a: Address, r: Symbol| #[trigger] is_member(w, a, r) <==> aop_members(op, m).contains((a, r)) by {
                assert(is_member(w, a, r) == is_member(aop_post(wp, op), a, r));
            }
            if op == AOp::RenounceAdmin {
                broadcast use sdk_store;
            }
        }
        AStep::Tick { seq, ts } => {
            lemma_inv_ac_frame(wp, w);
            assert(cur_admin(w) == cur_admin(wp));
            assert forall|a: Address, r: Symbol| #[trigger] is_member(w, a, r) <==> m.contains((a, r)) by {
                assert(is_member(w, a, r) == is_member(wp, a, r));
            }
        }
    }
}

pub proof fn lemma_ac_history(w0: World, steps: Seq<AStep>)
    requires ac_genesis(w0), avalid(w0, steps),
    ensures
        //@@ C06:history.enumeration_invariant
        inv_ac(arun(w0, steps)),
        //@@ C06:history.membership_is_granted_minus_revoked
        members_are(arun(w0, steps), granted(steps)),
        //@@ C06:history.renounced_admin_never_returns
        admin_renounced(steps) ==> cur_admin(arun(w0, steps)).is_none(),
    decreases steps.len()
{
    if steps.len() == 0 {
        lemma_ac_genesis(w0);
        assert(steps =~= Seq::empty());
    } else {
        let pre = steps.drop_last();
        lemma_ac_history(w0, pre);
        lemma_ac_step(arun(w0, pre), steps.last(), granted(pre));
        if admin_renounced(steps) { lemma_renounced_split(steps); }
    }
}

// ---- C07 over histories: which offer an accept consumes ----
/// the admin offer in force after `steps`: (designated account, declared live_until_ledger); None after cancel / accept
pub open spec fn admin_offer(steps: Seq<AStep>) -> Option<(Address, u32)>
    decreases steps.len()
{
    if steps.len() == 0 { None } else {
        match steps.last() {
            AStep::Op(AOp::OfferAdmin { new, live }) => if live == 0 { None } else { Some((new, live)) },
            AStep::Op(AOp::AcceptAdmin) => None,
            _ => admin_offer(steps.drop_last()),
        }
    }
}
/// the pending entry and its expiry record are created, extended and deleted together, so they have the same storage
/// lifetime, and while readable they carry the latest offer
pub open spec fn offer_tracks(w: World, o: Option<(Address, u32)>) -> bool {
    let k = k_padmin().sv();
    let x = xk(k_padmin()).sv();
    &&& w.temporary.contains_key(k) == w.temporary.contains_key(x)
    &&& w.temp_live.contains_key(k) == w.temp_live.contains_key(x)
    &&& (w.temp_live.contains_key(k) ==> w.temp_live[k] == w.temp_live[x])
    &&& (w.temporary.contains_key(k) && w.temp_live.contains_key(k) ==>
            o.is_some() && <Address as ToSV>::unsv(w.temporary[k]) == o.unwrap().0 && <u32 as ToSV>::unsv(w.temporary[x]) == o.unwrap().1)
}
/// no pending-admin entry (and no expiry record) exists at deployment
pub open spec fn offer_genesis(w: World) -> bool {
    !w.temporary.contains_key(k_padmin().sv()) && !w.temporary.contains_key(xk(k_padmin()).sv())
        && !w.temp_live.contains_key(k_padmin().sv()) && !w.temp_live.contains_key(xk(k_padmin()).sv())
}

pub proof fn lemma_offer_step(wp: World, op: AOp, o: Option<(Address, u32)>)
    requires aop_guard(wp, op), offer_tracks(wp, o),
    ensures offer_tracks(aop_post(wp, op), (match op {
        AOp::OfferAdmin { new, live } => if live == 0 { None } else { Some((new, live)) },
        AOp::AcceptAdmin => None,
        _ => o,
    })),
{
    lemma_principal_keys();
    let k = k_padmin().sv();
    let x = xk(k_padmin()).sv();
    match op {
        AOp::OfferAdmin { new, live } => {
            new.lemma_rt();
            live.lemma_rt();
        }
        AOp::AcceptAdmin => {}
        AOp::OfferOwner { new, live } => {}
        AOp::AcceptOwner => {}
        _ => { lemma_role_ops_or_renounce_keep_temp(wp, op); }
    }
}

pub proof fn lemma_offer_history(w0: World, steps: Seq<AStep>)
    requires offer_genesis(w0), avalid(w0, steps),
    ensures
        //@@ C07:history.pending_entry_is_the_latest_offer_with_its_declared_expiry
        offer_tracks(arun(w0, steps), admin_offer(steps)),
    decreases steps.len()
{
    if steps.len() > 0 {
        let pre = steps.drop_last();
        let wp = arun(w0, pre);
        lemma_offer_history(w0, pre);
        match steps.last() {
            AStep::Op(op) => { lemma_offer_step(wp, op, admin_offer(pre)); }
            AStep::Tick { seq, ts } => {}
        }
    }
}
pub proof fn lemma_role_ops_or_renounce_keep_temp(w: World, op: AOp)
    requires !(op is OfferAdmin) && !(op is AcceptAdmin) && !(op is OfferOwner) && !(op is AcceptOwner),
    ensures aop_post(w, op).temporary == w.temporary, aop_post(w, op).temp_live == w.temp_live,
{}

/// C07 (history form): an accept_admin_transfer that returns at ledger L consumed the offer in force — made by the
/// then-current admin for exactly the accepting account, not cancelled or replaced since — and L is not past the
/// live_until_ledger that very offer declared
pub proof fn lemma_accept_uses_offer(w0: World, steps: Seq<AStep>)
    requires offer_genesis(w0), avalid(w0, steps), steps.len() > 0, steps.last() == AStep::Op(AOp::AcceptAdmin),
    ensures
        //@@ C07:history.accept_only_within_declared_lifetime_of_latest_offer
        admin_offer(steps.drop_last()).is_some(),
        cur_admin(arun(w0, steps)) == Some(admin_offer(steps.drop_last()).unwrap().0),
        arun(w0, steps.drop_last()).ledger_seq <= admin_offer(steps.drop_last()).unwrap().1,
        admin_offer(steps).is_none(),
{
    let pre = steps.drop_last();
    let wp = arun(w0, pre);
    lemma_offer_history(w0, pre);
    lemma_principal_keys();
    lemma_accept(wp, AccessControlStorageKey::Admin, k_padmin());
    let p = pending_admin(wp).unwrap();
    p.lemma_rt();
    // the pending entry is readable, so by the tracking invariant its expiry record is readable too and holds the
    // declared expiry of the offer in force
    assert(wp.temp_has(k_padmin().sv()));
    assert(wp.temp_has(xk(k_padmin()).sv()));
    assert(declared_expiry(wp, k_padmin()) == Some(admin_offer(pre).unwrap().1));
    assert(iget(accept_post(wp, AccessControlStorageKey::Admin, k_padmin()), AccessControlStorageKey::Admin) == Some(p.sv())) by {
        broadcast use sdk_store;
    }
}
