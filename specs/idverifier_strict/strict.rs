// ================================================================================================
// C15, converse direction for `verify_identity` (DESIGN.md §2.4 pass B, "justified reverts"):
// the normal unit `idverifier` proves "verify_identity returns ONLY IF every required topic has a confirmed claim of a
// trusted issuer".  This unit proves the other half of "EXACTLY WHEN" as far as the code of the function goes:
//     every revert site of `verify_identity` (and of the functions it calls in this file) is a PROOF OBLIGATION:
//     it may be reached only if the answers recorded in the cross-contract call log since entry (and the stored
//     configuration) make that revert legitimate under the property.
// `panic_with_error!` is re-routed by error code to functions whose `requires` IS the justification; an error code
// without a justification goes to `sdk_panic_strict requires false`.  Arithmetic of the functions is native
// (unit option "native_arith"), diverging closures get `requires false` unless given a justification ("diverge_spec").
// What is NOT an obligation (and cannot be, the model has no site for it): a failure INSIDE one of the four plain
// (non-`try_`) cross-contract calls - `stored_identity` (identity not registered), `get_claim_topics_and_issuers`,
// `get_claim_ids_by_topic`, `get_claim` - propagates by host semantics (M6/M8: such a call returns only if the callee
// returned normally).
// ================================================================================================

// ---- what the log must show for ONE issuer of a required topic to be "examined and not confirmed" ----
/// Evidence, in the call log after position `lo`, that trusted issuer `issuer` does NOT provide a valid claim for topic `t`
/// (the exact complement of `claim_witness` of ../idverifier/idv.rs, first negative answer wins):
///  a: the identity contract was asked for its claim ids of topic `t`, and EITHER the answer does not contain the id of
///     (issuer, t) - "the identity holds no claim of this issuer for this topic" -
///  b: OR the identity contract was asked for that claim, and EITHER the claim it returned is for another topic / issuer
///  c: OR `issuer` itself was asked `is_claim_valid(identity, t, claim.scheme, claim.signature, claim.data)` and the `try_`
///     call did NOT give Ok(Ok(())) (it failed, or returned something that is not `()`).
pub open spec fn issuer_refuted(calls: Seq<Call>, lo: int, identity: Address, t: u32, issuer: Address, a: int, b: int, c: int) -> bool {
    let id = SV::Bytes(claim_id_spec(issuer, t));
    let claim = Claim::unsv(calls[b].ret);
    &&& 0 <= lo < a < calls.len()
    &&& calls[a].ok && calls[a].callee == identity && calls[a].func == fn_get_claim_ids_by_topic() && calls[a].args == seq![t.sv()]
    &&& (!sv_list_contains(calls[a].ret, id) || {
            &&& a < b < calls.len()
            &&& calls[b].ok && calls[b].callee == identity && calls[b].func == fn_get_claim() && calls[b].args == seq![id]
            &&& claim.sv() == calls[b].ret
            &&& (!(claim.topic == t && claim.issuer == issuer) || {
                    &&& b < c < calls.len()
                    &&& calls[c].callee == issuer && calls[c].func == fn_is_claim_valid()
                    &&& calls[c].args == ClaimIssuerClient::is_claim_valid_args(identity, t, claim.scheme, claim.signature, claim.data)
                    &&& !(calls[c].ok && calls[c].ret == SV::Void)
                })
        })
}
pub open spec fn issuer_unconfirmed(calls: Seq<Call>, lo: int, identity: Address, t: u32, issuer: Address) -> bool {
    exists|a: int, b: int, c: int| #[trigger] issuer_refuted(calls, lo, identity, t, issuer, a, b, c)
}
/// the first `n` trusted issuers of topic `t` were examined and none of them confirmed a claim
pub open spec fn topic_refuted_upto(calls: Seq<Call>, lo: int, identity: Address, t: u32, issuers: Seq<Address>, n: int) -> bool {
    forall|j: int| 0 <= j < n && j < issuers.len() ==> #[trigger] issuer_unconfirmed(calls, lo, identity, t, issuers[j])
}
/// "topic `t` has NO trusted issuer whose examined claim was confirmed": every listed issuer was examined and refuted
/// (vacuously so when the topic has no trusted issuer at all)
pub open spec fn topic_refuted(calls: Seq<Call>, lo: int, identity: Address, t: u32, issuers: Seq<Address>) -> bool {
    topic_refuted_upto(calls, lo, identity, t, issuers, issuers.len() as int)
}

/// THE JUSTIFICATION of a revert with `RWAError::IdentityVerificationFailed`, over the world at entry of the enclosing
/// function (`w`) and the world at the revert site (`w2`): since entry the function looked up the identity in the configured
/// identity registry storage and the required topics / trusted issuers in the configured claim-topics-and-issuers registry,
/// and SOME required topic is refuted (no trusted issuer of it has a confirmed claim among those examined - and all were).
pub open spec fn idv_failure_justified(w: World, w2: World) -> bool {
    let n0 = w.calls.len() as int;
    let identity = Address::unsv(w2.calls[n0].ret);
    let tai = SdkMap::<u32, Vec<Address>>::unsv(w2.calls[n0 + 1].ret);
    &&& cur_irs(w).is_some() && cur_cti(w).is_some()
    &&& w.calls.is_prefix_of(w2.calls) && w2.calls.len() >= n0 + 2
    &&& w2.calls[n0].ok && w2.calls[n0].callee == cur_irs(w).unwrap() && w2.calls[n0].func == fn_stored_identity()
            && w2.calls[n0].ret == identity.sv()
    &&& w2.calls[n0 + 1] == a_call(cur_cti(w).unwrap(), fn_get_claim_topics_and_issuers(), Seq::<SV>::empty(), tai.sv())
    &&& exists|k: int| 0 <= k < tai@.len() && #[trigger] topic_refuted(w2.calls, n0 + 1, identity, tai@[k].0, tai@[k].1@)
}

// ---- the revert sites ----
/// any error code that has no justification below: unreachable
#[verifier::external_body]
pub fn sdk_panic_strict(code: u32) -> !
    requires false
{ panic!() }
/// `RWAError::IdentityVerificationFailed`
#[verifier::external_body]
pub fn sdk_panic_idv_failed(e: &Env, entry: Ghost<World>) -> !
    requires
        //@@ C15:verify_identity.fails_only_if_a_required_topic_is_refuted
        idv_failure_justified(entry@, e@),
{ panic!() }
/// `RWAError::IdentityRegistryStorageNotSet`: legitimate exactly when the instance store holds no registry address
#[verifier::external_body]
pub fn sdk_panic_irs_not_set(e: &Env) -> !
    requires
        //@@ C15:identity_registry_storage.fails_only_if_not_configured
        cur_irs(e@).is_none(),
{ panic!() }
/// `RWAError::ClaimTopicsAndIssuersNotSet`: legitimate exactly when the instance store holds no registry address
#[verifier::external_body]
pub fn sdk_panic_cti_not_set(e: &Env) -> !
    requires
        //@@ C15:claim_topics_and_issuers.fails_only_if_not_configured
        cur_cti(e@).is_none(),
{ panic!() }
// `old($e)`: the world at entry of the function that contains the revert site (needs `e: &mut Env`, which every effectful
// extracted function has; a pure function has no call log to justify this error with and does not compile with it)
macro_rules! panic_with_error {
    ($e:expr, RWAError::IdentityVerificationFailed) => { verus_exec_expr!{ sdk_panic_idv_failed(&*$e, Ghost(old($e)@)) } };
    ($e:expr, RWAError::IdentityRegistryStorageNotSet) => { sdk_panic_irs_not_set(&*$e) };
    ($e:expr, RWAError::ClaimTopicsAndIssuersNotSet) => { sdk_panic_cti_not_set(&*$e) };
    ($e:expr, $err:expr) => { sdk_panic_strict($err as u32) };
}

// ---- the log only grows: a refutation found once stays ----
pub proof fn lemma_refuted_prefix(calls: Seq<Call>, calls2: Seq<Call>, lo: int, identity: Address, t: u32, issuer: Address, a: int, b: int, c: int)
    requires issuer_refuted(calls, lo, identity, t, issuer, a, b, c), calls.is_prefix_of(calls2),
    ensures issuer_refuted(calls2, lo, identity, t, issuer, a, b, c),
{
    let s = calls2.subrange(0, calls.len() as int);
    assert(calls == s);
    assert(s[a] == calls2[a]);
    if a < b < calls.len() { assert(s[b] == calls2[b]); }
    if a < b < c < calls.len() { assert(s[c] == calls2[c]); }
}
pub proof fn lemma_unconfirmed_prefix(calls: Seq<Call>, calls2: Seq<Call>, lo: int, identity: Address, t: u32, issuer: Address)
    requires issuer_unconfirmed(calls, lo, identity, t, issuer), calls.is_prefix_of(calls2),
    ensures issuer_unconfirmed(calls2, lo, identity, t, issuer),
{
    let (a, b, c) = choose|a: int, b: int, c: int| #[trigger] issuer_refuted(calls, lo, identity, t, issuer, a, b, c);
    lemma_refuted_prefix(calls, calls2, lo, identity, t, issuer, a, b, c);
}
pub proof fn lemma_refuted_upto_prefix(calls: Seq<Call>, calls2: Seq<Call>, lo: int, identity: Address, t: u32, issuers: Seq<Address>, n: int)
    requires topic_refuted_upto(calls, lo, identity, t, issuers, n), calls.is_prefix_of(calls2),
    ensures topic_refuted_upto(calls2, lo, identity, t, issuers, n),
{
    assert forall|j: int| 0 <= j < n && j < issuers.len() implies #[trigger] issuer_unconfirmed(calls2, lo, identity, t, issuers[j]) by {
        lemma_unconfirmed_prefix(calls, calls2, lo, identity, t, issuers[j]);
    }
}
/// one more issuer examined
pub proof fn lemma_refuted_step(calls: Seq<Call>, lo: int, identity: Address, t: u32, issuers: Seq<Address>, n: int, a: int, b: int, c: int)
    requires topic_refuted_upto(calls, lo, identity, t, issuers, n), 0 <= n < issuers.len(),
        issuer_refuted(calls, lo, identity, t, issuers[n], a, b, c),
    ensures topic_refuted_upto(calls, lo, identity, t, issuers, n + 1),
{
    assert forall|j: int| 0 <= j < n + 1 && j < issuers.len() implies #[trigger] issuer_unconfirmed(calls, lo, identity, t, issuers[j]) by {
        if j == n { assert(issuer_refuted(calls, lo, identity, t, issuers[j], a, b, c)); }
    }
}
/// the id list returned by the identity contract does not contain `id` (exec `contains` on the decoded list) ⇒ neither
/// does its encoding
pub proof fn lemma_ids_not_contains(ids: Vec<BytesN<32>>, id: BytesN<32>)
    requires !ids@.contains(id),
    ensures !sv_list_contains(ids.sv(), SV::Bytes(id@)),
{
    let s = Seq::new(ids@.len(), |i: int| ids@[i].sv());
    if s.contains(SV::Bytes(id@)) {
        let i = choose|i: int| 0 <= i < s.len() && s[i] == SV::Bytes(id@);
        assert(ids@[i].sv() == SV::Bytes(id@));
        assert(ids@[i]@ == id@);
        assert(ids@[i] == id);
        assert(ids@.contains(id));
    }
}
/// at a revert site of verify_identity: the k-th required topic is refuted ⇒ the revert is justified
/// (stated as an implication, so that a revert site that is NOT justified fails at the revert itself, not at this hint)
pub proof fn lemma_vi_failure(w: World, w2: World, account: Address, identity: Address, tai: SdkMap<u32, Vec<Address>>, k: int)
    ensures
        (vi_head(w, w2.calls, account, identity, tai) && w.calls.is_prefix_of(w2.calls) && 0 <= k < tai@.len()
            && topic_refuted(w2.calls, vi_lo(w), identity, tai@[k].0, tai@[k].1@))
        ==> idv_failure_justified(w, w2),
{
    identity.lemma_rt();
    tai.lemma_rt();
    let n0 = w.calls.len() as int;
    if vi_head(w, w2.calls, account, identity, tai) {
        assert(Address::unsv(w2.calls[n0].ret) == identity);
        assert(SdkMap::<u32, Vec<Address>>::unsv(w2.calls[n0 + 1].ret) == tai);
    }
}
