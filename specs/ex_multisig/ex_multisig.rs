// ================================================================================================
// Expanded multisig smart-account example (examples/multisig-smart-account/account): the deployed
// account is the library smart account behind the account's own authorization.
// ================================================================================================
/// the world after `e.current_contract_address().require_auth()` returned
pub open spec fn self_authed(w: World) -> World { w_auth(w, w.this) }
/// the name the constructor gives to the rule it creates
pub open spec fn multisig_name() -> String { String { s: Ghost(str_bytes("multisig"@)) } }
/// `execute`: exactly one call to target.target_fn(target_args), answered `ret`; nothing else moves
pub open spec fn execute_post(w: World, target: Address, target_fn: Symbol, target_args: Seq<Val>, ret: SV, ext: int) -> World {
    World { calls: w.calls.push(Call { callee: target, func: target_fn.code@, args: vals_sv(target_args), ret: ret, ok: true }), ext: ext, ..w }
}
