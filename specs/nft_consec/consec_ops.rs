// =================================================================================================
// the public operations of the consecutive NFT: storage-level views of the exact successor states,
// balance == number of inferred-owned tokens (C10), who may move a token / approvals cleared (C11)
// =================================================================================================

/// worlds that differ only outside persistent/instance storage look the same to the ownership inference
pub proof fn lemma_same_store(w: World, w2: World)
    requires w2.persistent == w.persistent, w2.instance == w.instance,
    ensures same_marks(w, w2), forall|a: Address| #[trigger] bal(w2, a) == bal(w, a),
{
}

pub proof fn lemma_inv_same(w: World, w2: World)
    requires same_marks(w, w2), inv_consec(w),
    ensures inv_consec(w2),
{
    lemma_cowner_same(w, w2);
    assert forall|k: u32| #[trigger] bit(w2, k) == bit(w, k) by { assert(bucket_of(w2, k / 3200) == bucket_of(w, k / 3200)); }
    assert forall|k: u32| (#[trigger] cur_owner(w2, k)).is_some() <==> bit(w2, k) && !is_burned(w2, k) by {
        assert(cur_owner(w, k).is_some() <==> bit(w, k) && !is_burned(w, k));
    }
    assert forall|k: u32| k > 0 && #[trigger] is_burned(w2, k) implies is_burned(w2, (k - 1) as u32) || bit(w2, (k - 1) as u32) by {
        assert(is_burned(w, k));
        assert(is_burned(w, (k - 1) as u32) || bit(w, (k - 1) as u32));
    }
    if counter(w) > 0 { assert(bit(w, (counter(w) - 1) as u32)); }
    assert forall|k: u32| #[trigger] is_burned(w2, k) implies k < counter(w2) by { assert(is_burned(w, k)); }
    assert forall|k: u32| #[trigger] bit(w2, k) implies k < counter(w2) by { assert(bit(w, k)); }
}

/// a write of `Owner(k)` (consecutive key) seen through all views
pub proof fn lemma_owner_write_view(w: World, k: u32, v: Address)
    ensures
        forall|i: u32| #[trigger] bucket_of(pset(w, ck_owner(k), v.sv()), i) == bucket_of(w, i),
        forall|j: u32| #[trigger] cur_owner(pset(w, ck_owner(k), v.sv()), j) == (if j == k { Some(v) } else { cur_owner(w, j) }),
        forall|j: u32| #[trigger] is_burned(pset(w, ck_owner(k), v.sv()), j) == is_burned(w, j),
        counter(pset(w, ck_owner(k), v.sv())) == counter(w),
        same_rest(w, pset(w, ck_owner(k), v.sv())),
        buckets_wf(w) ==> buckets_wf(pset(w, ck_owner(k), v.sv())),
{
    broadcast use sdk_store;
    let w2 = pset(w, ck_owner(k), v.sv());
    assert forall|j: u32| #[trigger] cur_owner(w2, j) == (if j == k { Some(v) } else { cur_owner(w, j) }) by {
        lemma_consec_keys_coincide(j);
        assert(pget(w2, k_owner(j)) == pget(w2, ck_owner(j)));
        assert(pget(w, k_owner(j)) == pget(w, ck_owner(j)));
    }
    lemma_ck_write_frame(w, ck_owner(k), v.sv());
    assert forall|i: u32| #[trigger] bucket_of(w2, i) == bucket_of(w, i) by {}
    if buckets_wf(w) {
        assert forall|i: u32| (#[trigger] bucket_of(w2, i)).is_some() implies bucket_of(w2, i).unwrap().len() == 100 by { assert(bucket_of(w, i).is_some()); }
    }
}

/// `set_owner_for_previous_token` seen through all views
pub proof fn lemma_prev_view(w: World, a: Address, t: u32)
    requires buckets_wf(w), prev_guard(w, a, t),
    ensures
        buckets_wf(prev_post(w, a, t)),
        //@@ C10:lemma.consec_previous_token_marked_for_old_owner
        forall|k: u32| #[trigger] bit(prev_post(w, a, t), k) == (bit(w, k) || (prev_applies(w, t) && k + 1 == t)),
        forall|k: u32| #[trigger] cur_owner(prev_post(w, a, t), k) == (if prev_applies(w, t) && k + 1 == t { Some(a) } else { cur_owner(w, k) }),
        forall|k: u32| #[trigger] is_burned(prev_post(w, a, t), k) == is_burned(w, k),
        counter(prev_post(w, a, t)) == counter(w),
        same_rest(w, prev_post(w, a, t)),
{
    if prev_applies(w, t) {
        let p1 = (t - 1) as u32;
        let wo = pset(w, ck_owner(p1), a.sv());
        lemma_owner_write_view(w, p1, a);
        lemma_setbit_view(wo, p1);
        let w2 = setbit_post(wo, p1);
        assert forall|k: u32| #[trigger] bit(w2, k) == (bit(w, k) || k + 1 == t) by {
            assert(bucket_of(wo, k / 3200) == bucket_of(w, k / 3200));
            assert(bit(wo, k) == bit(w, k));
        }
        assert forall|x: Address| #[trigger] bal(w2, x) == bal(w, x) by { assert(bal(wo, x) == bal(w, x)); }
    }
}

pub open spec fn cupd_rest(w: World, w2: World, a: Address, to: Option<Address>, id: u32) -> bool {
    &&& forall|x: Address| (#[trigger] bal(w2, x)) as int == bal(w, x) - ind(x == a) + ind(to == Some(x))
    &&& appr_raw(w2, id).is_none()
    &&& forall|j: u32| j != id ==> #[trigger] appr_raw(w2, j) == appr_raw(w, j)
    &&& forall|o: Address, s: Address| #[trigger] oper_raw(w2, o, s) == oper_raw(w, o, s)
    &&& w2.instance == w.instance && w2.events == w.events && w2.auths == w.auths && w2.same_ledger(w)
}

/// first half of update: balance down, approval cleared (through the consecutive `Approval` key!), previous id marked
pub proof fn lemma_cupd_mid_view(w: World, a: Address, id: u32)
    requires buckets_wf(w), bal(w, a) >= 1, prev_guard(tdel(dec_bal_post(w, a, 1), ck_appr(id)), a, id),
    ensures
        buckets_wf(cupd_mid(w, Some(a), id)),
        forall|k: u32| #[trigger] bit(cupd_mid(w, Some(a), id), k) == (bit(w, k) || (prev_applies(w, id) && k + 1 == id)),
        forall|k: u32| #[trigger] cur_owner(cupd_mid(w, Some(a), id), k) == (if prev_applies(w, id) && k + 1 == id { Some(a) } else { cur_owner(w, k) }),
        forall|k: u32| #[trigger] is_burned(cupd_mid(w, Some(a), id), k) == is_burned(w, k),
        counter(cupd_mid(w, Some(a), id)) == counter(w),
        cupd_rest(w, cupd_mid(w, Some(a), id), a, None, id),
{
    broadcast use sdk_store;
    let v = ((bal(w, a) - 1) as u32).sv();
    let wd = dec_bal_post(w, a, 1);
    lemma_bal_write_frame(w, a, v);
    lemma_consec_keys_coincide(id);
    let wt = tdel(wd, ck_appr(id));
    assert(wt == tdel(wd, k_appr(id)));
    lemma_same_store(wd, wt);
    lemma_cowner_same(w, wd);
    lemma_cowner_same(wd, wt);
    assert(prev_applies(wt, id) == prev_applies(w, id)) by {
        if id != 0 {
            assert(cur_owner(wt, (id - 1) as u32) == cur_owner(wd, (id - 1) as u32));
            assert(cur_owner(wd, (id - 1) as u32) == cur_owner(w, (id - 1) as u32));
            assert(is_burned(wt, (id - 1) as u32) == is_burned(wd, (id - 1) as u32));
            assert(is_burned(wd, (id - 1) as u32) == is_burned(w, (id - 1) as u32));
        }
    }
    lemma_prev_view(wt, a, id);
    let wp = prev_post(wt, a, id);
    assert(wp == cupd_mid(w, Some(a), id));
    assert forall|k: u32| #[trigger] bit(wp, k) == (bit(w, k) || (prev_applies(w, id) && k + 1 == id)) by {
        assert(bucket_of(wt, k / 3200) == bucket_of(wd, k / 3200));
        assert(bucket_of(wd, k / 3200) == bucket_of(w, k / 3200));
        assert(bit(wt, k) == bit(w, k));
    }
    assert forall|k: u32| #[trigger] cur_owner(wp, k) == (if prev_applies(w, id) && k + 1 == id { Some(a) } else { cur_owner(w, k) }) by {
        assert(cur_owner(wt, k) == cur_owner(wd, k));
        assert(cur_owner(wd, k) == cur_owner(w, k));
    }
    assert forall|k: u32| #[trigger] is_burned(wp, k) == is_burned(w, k) by {
        assert(is_burned(wt, k) == is_burned(wd, k));
        assert(is_burned(wd, k) == is_burned(w, k));
    }
    assert forall|x: Address| (#[trigger] bal(wp, x)) as int == bal(w, x) - ind(x == a) by {
        assert(bal(wp, x) == bal(wt, x));
        assert(bal(wt, x) == bal(wd, x));
    }
    assert forall|j: u32| #[trigger] appr_raw(wp, j) == (if j == id { None } else { appr_raw(w, j) }) by {
        assert(tget(wp, k_appr(j)) == tget(wt, k_appr(j)));
        assert(tget(wd, k_appr(j)) == tget(w, k_appr(j)));
    }
    assert forall|o: Address, s: Address| #[trigger] oper_raw(wp, o, s) == oper_raw(w, o, s) by {
        assert(tget(wp, k_oper(o, s)) == tget(wt, k_oper(o, s)));
        assert(tget(wd, k_oper(o, s)) == tget(w, k_oper(o, s)));
    }
}

/// C10+C11: the whole `update(Some(a), to, id)` seen through all views
pub proof fn lemma_cupdate_view(w: World, a: Address, to: Option<Address>, id: u32)
    requires buckets_wf(w), cupdate_guard(w, Some(a), to, id),
    ensures
        upd_marks(w, cupdate_post(w, Some(a), to, id), a, to, id),
        //@@ C11:lemma.consec_update_clears_base_approval_entry
        cupd_rest(w, cupdate_post(w, Some(a), to, id), a, to, id),
{
    broadcast use sdk_store;
    lemma_cupd_mid_view(w, a, id);
    let wp = cupd_mid(w, Some(a), id);
    let w2 = cupdate_post(w, Some(a), to, id);
    let pa = prev_applies(w, id);
    match to {
        Some(b) => {
            let v = ((bal(wp, b) + 1) as u32).sv();
            let wi = inc_bal_post(wp, b, 1);
            lemma_bal_write_frame(wp, b, v);
            lemma_cowner_same(wp, wi);
            let wo = pset(wi, ck_owner(id), b.sv());
            lemma_owner_write_view(wi, id, b);
            lemma_setbit_view(wo, id);
            assert(w2 == setbit_post(wo, id));
            assert forall|k: u32| #[trigger] bit(w2, k) == (bit(w, k) || k == id || (pa && k + 1 == id)) by {
                assert(bucket_of(wo, k / 3200) == bucket_of(wi, k / 3200));
                assert(bucket_of(wi, k / 3200) == bucket_of(wp, k / 3200));
                assert(bit(wo, k) == bit(wp, k));
            }
            assert forall|k: u32| #[trigger] cur_owner(w2, k) == (if k == id { to } else if pa && k + 1 == id { Some(a) } else { cur_owner(w, k) }) by {
                assert(cur_owner(w2, k) == cur_owner(wo, k));
                assert(cur_owner(wi, k) == cur_owner(wp, k));
            }
            assert forall|k: u32| #[trigger] is_burned(w2, k) == is_burned(w, k) by {
                assert(is_burned(w2, k) == is_burned(wo, k));
                assert(is_burned(wo, k) == is_burned(wi, k));
                assert(is_burned(wi, k) == is_burned(wp, k));
            }
            assert forall|x: Address| (#[trigger] bal(w2, x)) as int == bal(w, x) - ind(x == a) + ind(to == Some(x)) by {
                assert(bal(w2, x) == bal(wo, x));
                assert(bal(wo, x) == bal(wi, x));
            }
            assert forall|j: u32| #[trigger] appr_raw(w2, j) == appr_raw(wp, j) by {}
            assert forall|o: Address, s: Address| #[trigger] oper_raw(w2, o, s) == oper_raw(wp, o, s) by {}
        }
        None => {
            let wx = pdel(wp, ck_owner(id));
            assert(w2 == pset(wx, ck_burned(id), true.sv()));
            lemma_ck_write_frame(wp, ck_owner(id), true.sv());
            lemma_ck_write_frame(wx, ck_burned(id), true.sv());
            assert forall|i: u32| #[trigger] bucket_of(w2, i) == bucket_of(wp, i) by {
                assert(pget(wx, ck_bucket(i)) == pget(wp, ck_bucket(i)));
            }
            assert forall|i: u32| (#[trigger] bucket_of(w2, i)).is_some() implies bucket_of(w2, i).unwrap().len() == 100 by { assert(bucket_of(wp, i).is_some()); }
            assert forall|k: u32| #[trigger] bit(w2, k) == (bit(w, k) || (pa && k + 1 == id)) by {
                assert(bucket_of(w2, k / 3200) == bucket_of(wp, k / 3200));
                assert(bit(w2, k) == bit(wp, k));
            }
            assert forall|k: u32| #[trigger] cur_owner(w2, k) == (if k == id { to } else if pa && k + 1 == id { Some(a) } else { cur_owner(w, k) }) by {
                lemma_consec_keys_coincide(k);
                assert(pget(w2, k_owner(k)) == pget(w2, ck_owner(k)));
                assert(pget(wp, k_owner(k)) == pget(wp, ck_owner(k)));
                assert(pget(wx, ck_owner(k)) == (if k == id { None } else { pget(wp, ck_owner(k)) }));
            }
            assert forall|k: u32| #[trigger] is_burned(w2, k) == (is_burned(w, k) || k == id) by {
                assert(pget(wx, ck_burned(k)) == pget(wp, ck_burned(k)));
                assert(is_burned(wp, k) == is_burned(w, k));
            }
            assert forall|x: Address| (#[trigger] bal(w2, x)) as int == bal(w, x) - ind(x == a) by {
                assert(bal(w2, x) == bal(wx, x));
                assert(bal(wx, x) == bal(wp, x));
            }
            assert forall|j: u32| #[trigger] appr_raw(w2, j) == appr_raw(wp, j) by {}
            assert forall|o: Address, s: Address| #[trigger] oper_raw(w2, o, s) == oper_raw(wp, o, s) by {}
        }
    }
}

/// `batch_mint` seen through all views
pub proof fn lemma_batch_view(w: World, to: Address, amount: u32)
    requires buckets_wf(w), batch_guard(w, to, amount),
    ensures
        batch_marks(w, batch_post(w, to, amount), to, amount),
        forall|x: Address| (#[trigger] bal(batch_post(w, to, amount), x)) as int == bal(w, x) + (if x == to { amount as int } else { 0 }),
        forall|j: u32| #[trigger] appr_raw(batch_post(w, to, amount), j) == appr_raw(w, j),
        forall|o: Address, s: Address| #[trigger] oper_raw(batch_post(w, to, amount), o, s) == oper_raw(w, o, s),
        batch_post(w, to, amount).auths == w.auths, batch_post(w, to, amount).same_ledger(w),
{
    broadcast use sdk_store;
    let n = counter(w);
    let last = (n + amount - 1) as u32;
    let wc = iset(w, k_ctr(), ((n + amount) as u32).sv());
    assert(counter(wc) == n + amount);
    let v = ((bal(wc, to) + amount) as u32).sv();
    let w1 = inc_bal_post(wc, to, amount);
    lemma_bal_write_frame(wc, to, v);
    assert(wc.persistent == w.persistent);
    assert forall|i: u32| #[trigger] bucket_of(w1, i) == bucket_of(w, i) by { assert(bucket_of(wc, i) == bucket_of(w, i)); }
    assert forall|i: u32| (#[trigger] bucket_of(w1, i)).is_some() implies bucket_of(w1, i).unwrap().len() == 100 by { assert(bucket_of(w, i).is_some()); }
    lemma_setbit_view(w1, last);
    let ws = setbit_post(w1, last);
    let wo = pset(ws, ck_owner(last), to.sv());
    lemma_owner_write_view(ws, last, to);
    let w2 = batch_post(w, to, amount);
    assert(w2.persistent == wo.persistent && w2.instance == wo.instance);
    lemma_same_store(wo, w2);
    assert forall|k: u32| #[trigger] bit(w2, k) == (bit(w, k) || k == last) by {
        assert(bucket_of(w2, k / 3200) == bucket_of(wo, k / 3200));
        assert(bucket_of(wo, k / 3200) == bucket_of(ws, k / 3200));
        assert(bit(w2, k) == bit(ws, k));
        assert(bucket_of(w1, k / 3200) == bucket_of(w, k / 3200));
        assert(bit(w1, k) == bit(w, k));
    }
    assert forall|i: u32| (#[trigger] bucket_of(w2, i)).is_some() implies bucket_of(w2, i).unwrap().len() == 100 by {
        assert(bucket_of(w2, i) == bucket_of(wo, i));
        assert(bucket_of(wo, i) == bucket_of(ws, i));
        assert(bucket_of(ws, i).is_some());
    }
    assert forall|k: u32| #[trigger] cur_owner(w2, k) == (if k == last { Some(to) } else { cur_owner(w, k) }) by {
        assert(cur_owner(w2, k) == cur_owner(wo, k));
        assert(cur_owner(ws, k) == cur_owner(w1, k));
        assert(cur_owner(w1, k) == cur_owner(wc, k));
        assert(cur_owner(wc, k) == cur_owner(w, k));
    }
    assert forall|k: u32| #[trigger] is_burned(w2, k) == is_burned(w, k) by {
        assert(is_burned(w2, k) == is_burned(wo, k));
        assert(is_burned(wo, k) == is_burned(ws, k));
        assert(is_burned(ws, k) == is_burned(w1, k));
        assert(is_burned(w1, k) == is_burned(wc, k));
        assert(is_burned(wc, k) == is_burned(w, k));
    }
    assert forall|x: Address| (#[trigger] bal(w2, x)) as int == bal(w, x) + (if x == to { amount as int } else { 0 }) by {
        assert(bal(w2, x) == bal(wo, x));
        assert(bal(wo, x) == bal(ws, x));
        assert(bal(ws, x) == bal(w1, x));
        assert(bal(wc, x) == bal(w, x));
    }
    assert forall|j: u32| #[trigger] appr_raw(w2, j) == appr_raw(w, j) by {}
    assert forall|o: Address, s: Address| #[trigger] oper_raw(w2, o, s) == oper_raw(w, o, s) by {}
}

// ---- C10: balance == number of tokens the inference attributes to the account ----
pub open spec fn ccount(w: World, a: Address, n: int) -> int
    decreases n
{
    if n <= 0 { 0 } else { ccount(w, a, n - 1) + ind(cowner(w, (n - 1) as u32) == Some(a)) }
}
/// C10: `balance(a)` equals the number of ids `owner_of` reports for `a`
pub open spec fn inv_cbal(w: World) -> bool {
    forall|a: Address| (#[trigger] bal(w, a)) as int == ccount(w, a, counter(w) as int)
}
pub proof fn lemma_ccount_one(w: World, w2: World, a: Address, n: int, t: u32)
    requires 0 <= n <= u32::MAX + 1, forall|j: u32| j != t ==> #[trigger] cowner(w2, j) == cowner(w, j),
    ensures ccount(w2, a, n) == ccount(w, a, n) + (if t < n { ind(cowner(w2, t) == Some(a)) - ind(cowner(w, t) == Some(a)) } else { 0 }),
    decreases n
{
    if n > 0 { lemma_ccount_one(w, w2, a, n - 1, t); }
}
pub proof fn lemma_ccount_same(w: World, w2: World, a: Address, n: int)
    requires 0 <= n <= u32::MAX + 1, forall|j: u32| j < n ==> #[trigger] cowner(w2, j) == cowner(w, j),
    ensures ccount(w2, a, n) == ccount(w, a, n),
    decreases n
{
    if n > 0 { lemma_ccount_same(w, w2, a, n - 1); }
}
pub proof fn lemma_ccount_fill(w: World, a: Address, to: Address, n: int, k: int)
    requires 0 <= n, 0 <= k, n + k <= u32::MAX + 1, forall|j: u32| n <= j < n + k ==> #[trigger] cowner(w, j) == Some(to),
    ensures ccount(w, a, n + k) == ccount(w, a, n) + k * ind(a == to),
    decreases k
{
    if k > 0 {
        lemma_ccount_fill(w, a, to, n, k - 1);
        assert(k * ind(a == to) == (k - 1) * ind(a == to) + ind(a == to)) by (nonlinear_arith);
    }
}

// ---- one public operation ----
pub open spec fn cop_actor(op: COp) -> Option<Address> {
    match op {
        COp::BatchMint { to, amount } => None,
        COp::Transfer { from, to, id } => Some(from),
        COp::TransferFrom { spender, from, to, id } => Some(spender),
        COp::Burn { from, id } => Some(from),
        COp::BurnFrom { spender, from, id } => Some(spender),
        COp::Approve { approver, approved, id, live } => Some(approver),
        COp::ApproveForAll { owner, operator, live } => Some(owner),
    }
}
pub open spec fn cop_from(op: COp) -> Option<Address> {
    match op {
        COp::Transfer { from, to, id } => Some(from),
        COp::TransferFrom { spender, from, to, id } => Some(from),
        COp::Burn { from, id } => Some(from),
        COp::BurnFrom { spender, from, id } => Some(from),
        _ => None,
    }
}
pub open spec fn cop_to(op: COp) -> Option<Address> {
    match op {
        COp::Transfer { from, to, id } => Some(to),
        COp::TransferFrom { spender, from, to, id } => Some(to),
        _ => None,
    }
}
pub open spec fn cop_token(op: COp) -> Option<u32> {
    match op {
        COp::BatchMint { to, amount } => None,
        COp::Transfer { from, to, id } => Some(id),
        COp::TransferFrom { spender, from, to, id } => Some(id),
        COp::Burn { from, id } => Some(id),
        COp::BurnFrom { spender, from, id } => Some(id),
        COp::Approve { approver, approved, id, live } => Some(id),
        COp::ApproveForAll { owner, operator, live } => None,
    }
}
pub open spec fn cop_is_move(op: COp) -> bool { cop_from(op).is_some() }
/// the inferred owner function after the operation, in terms of the one before
pub open spec fn cop_owner_after(w: World, op: COp, j: u32) -> Option<Address> {
    match op {
        COp::BatchMint { to, amount } => if j < counter(w) { cowner(w, j) } else if j < counter(w) + amount { Some(to) } else { None },
        _ => if cop_is_move(op) && cop_token(op) == Some(j) { cop_to(op) } else { cowner(w, j) },
    }
}

/// shape of a moving operation: authorization of the actor, one update, one event
pub proof fn lemma_cop_move_shape(w: World, op: COp)
    requires cop_guard(w, op), cop_is_move(op), inv_consec(w),
    ensures
        inv_consec(w_auth(w, cop_actor(op).unwrap())),
        cupdate_guard(w_auth(w, cop_actor(op).unwrap()), cop_from(op), cop_to(op), cop_token(op).unwrap()),
        cop_post(w, op).events.len() == w.events.len() + 1,
        cop_post(w, op) == w_event(cupdate_post(w_auth(w, cop_actor(op).unwrap()), cop_from(op), cop_to(op), cop_token(op).unwrap()), cop_post(w, op).events.last()),
        forall|j: u32| #[trigger] cowner(w_auth(w, cop_actor(op).unwrap()), j) == cowner(w, j),
{
    let wa = w_auth(w, cop_actor(op).unwrap());
    lemma_same_store(w, wa);
    lemma_inv_same(w, wa);
    lemma_cowner_same(w, wa);
}

/// C10 for one operation of the consecutive token
pub proof fn lemma_cop_c10(w: World, op: COp)
    requires cop_guard(w, op), inv_consec(w), inv_cbal(w),
    ensures
        //@@ C10:lemma.consec_op_keeps_marker_invariant
        inv_consec(cop_post(w, op)),
        //@@ C10:lemma.consec_op_balance_is_number_of_owned_tokens
        inv_cbal(cop_post(w, op)),
        //@@ C10:lemma.consec_op_moves_exactly_the_named_token
        forall|j: u32| #[trigger] cowner(cop_post(w, op), j) == cop_owner_after(w, op, j),
        //@@ C10:lemma.consec_op_owner_was_from
        cop_is_move(op) ==> cowner(w, cop_token(op).unwrap()) == cop_from(op),
        //@@ C10:lemma.consec_ids_never_reused
        counter(cop_post(w, op)) == counter(w) + (if op is BatchMint { op->BatchMint_amount as int } else { 0 }),
        cop_post(w, op).same_ledger(w),
{
    let w2 = cop_post(w, op);
    let n = counter(w);
    if cop_is_move(op) {
        lemma_cop_move_shape(w, op);
        let wa = w_auth(w, cop_actor(op).unwrap());
        let a = cop_from(op).unwrap();
        let to = cop_to(op);
        let id = cop_token(op).unwrap();
        let wu = cupdate_post(wa, Some(a), to, id);
        lemma_cupdate_view(wa, a, to, id);
        lemma_upd_inv(wa, wu, a, to, id);
        lemma_upd_owner(wa, wu, a, to, id);
        lemma_same_store(wu, w2);
        lemma_inv_same(wu, w2);
        lemma_cowner_same(wu, w2);
        lemma_same_store(w, wa);
        assert forall|x: Address| (#[trigger] bal(w2, x)) as int == ccount(w2, x, counter(w2) as int) by {
            assert(bal(w2, x) == bal(wu, x));
            assert(bal(wa, x) == bal(w, x));
            assert(bal(w, x) as int == ccount(w, x, n as int));
            lemma_ccount_same(w, wa, x, n as int);
            lemma_ccount_one(wa, wu, x, n as int, id);
            lemma_ccount_same(wu, w2, x, n as int);
        }
    } else {
        match op {
            COp::BatchMint { to, amount } => {
                lemma_batch_view(w, to, amount);
                lemma_batch_abstract(w, w2, to, amount);
                assert forall|x: Address| (#[trigger] bal(w2, x)) as int == ccount(w2, x, counter(w2) as int) by {
                    assert(bal(w, x) as int == ccount(w, x, n as int));
                    lemma_ccount_same(w, w2, x, n as int);
                    lemma_ccount_fill(w2, x, to, n as int, amount as int);
                }
            }
            COp::Approve { approver, approved, id, live } => {
                assert(w2.persistent == w.persistent && w2.instance == w.instance);
                lemma_same_store(w, w2);
                lemma_inv_same(w, w2);
                lemma_cowner_same(w, w2);
                assert forall|x: Address| (#[trigger] bal(w2, x)) as int == ccount(w2, x, counter(w2) as int) by {
                    assert(bal(w, x) as int == ccount(w, x, n as int));
                    lemma_ccount_same(w, w2, x, n as int);
                }
            }
            COp::ApproveForAll { owner, operator, live } => {
                assert(w2.persistent == w.persistent && w2.instance == w.instance);
                lemma_same_store(w, w2);
                lemma_inv_same(w, w2);
                lemma_cowner_same(w, w2);
                assert forall|x: Address| (#[trigger] bal(w2, x)) as int == ccount(w2, x, counter(w2) as int) by {
                    assert(bal(w, x) as int == ccount(w, x, n as int));
                    lemma_ccount_same(w, w2, x, n as int);
                }
            }
            _ => {}
        }
    }
}

/// C11 for one operation of the consecutive token
pub proof fn lemma_cop_c11(w: World, op: COp)
    requires cop_guard(w, op), inv_consec(w),
    ensures
        //@@ C11:lemma.consec_op_actor_authorized
        cop_actor(op).is_some() ==> cop_post(w, op).auths.contains(cop_actor(op).unwrap()),
        //@@ C11:lemma.consec_transfer_and_burn_need_owner_auth
        (op is Transfer || op is Burn) ==> cop_actor(op) == cowner(w, cop_token(op).unwrap()),
        //@@ C11:lemma.consec_spender_needs_live_approval
        (op is TransferFrom || op is BurnFrom) ==> spender_ok(w, cop_actor(op).unwrap(), cop_from(op).unwrap(), cop_token(op).unwrap())
            && cowner(w, cop_token(op).unwrap()) == cop_from(op),
        //@@ C11:lemma.consec_move_clears_approval
        cop_is_move(op) ==> appr_raw(cop_post(w, op), cop_token(op).unwrap()).is_none() && cur_approved(cop_post(w, op), cop_token(op).unwrap()).is_none(),
        //@@ C11:lemma.consec_approval_set_only_by_owner_or_live_operator
        forall|id: u32| (#[trigger] appr_raw(cop_post(w, op), id)) != appr_raw(w, id) ==>
            cop_token(op) == Some(id) && (cop_is_move(op) || (op is Approve && cowner(w, id).is_some()
                && (cop_actor(op) == cowner(w, id) || is_operator(w, cowner(w, id).unwrap(), cop_actor(op).unwrap())))),
        //@@ C11:lemma.consec_operator_set_only_by_owner
        forall|o: Address, s: Address| (#[trigger] oper_raw(cop_post(w, op), o, s)) != oper_raw(w, o, s) ==>
            op is ApproveForAll && cop_actor(op) == Some(o) && op->ApproveForAll_operator == s,
{
    broadcast use sdk_store;
    let w2 = cop_post(w, op);
    if cop_is_move(op) {
        lemma_cop_move_shape(w, op);
        let wa = w_auth(w, cop_actor(op).unwrap());
        let a = cop_from(op).unwrap();
        let to = cop_to(op);
        let id = cop_token(op).unwrap();
        let wu = cupdate_post(wa, Some(a), to, id);
        lemma_cupdate_view(wa, a, to, id);
        assert(w2.temporary == wu.temporary && w2.temp_live == wu.temp_live && w2.same_ledger(wu));
        assert forall|i2: u32| #[trigger] appr_raw(w2, i2) == appr_raw(wu, i2) by {}
        assert forall|o: Address, s: Address| #[trigger] oper_raw(w2, o, s) == oper_raw(wu, o, s) by {}
        assert forall|i2: u32| #[trigger] appr_raw(wa, i2) == appr_raw(w, i2) by {}
        assert forall|o: Address, s: Address| #[trigger] oper_raw(wa, o, s) == oper_raw(w, o, s) by {}
        assert(cowner(wa, id) == cowner(w, id));
        assert(w2.auths == wu.auths);
    } else {
        match op {
            COp::BatchMint { to, amount } => {
                lemma_batch_view(w, to, amount);
            }
            COp::Approve { approver, approved, id, live } => {
                let wa = w_auth(w, approver);
                lemma_same_store(w, wa);
                lemma_cowner_same(w, wa);
                assert(cowner(wa, id) == cowner(w, id));
                lemma_approve_lifetime(wa, approved, id, live, w.ledger_seq);
                let ws = appr_store(wa, approved, id, live);
                assert forall|i2: u32| #[trigger] appr_raw(w2, i2) == appr_raw(ws, i2) by {}
                assert forall|o: Address, s: Address| #[trigger] oper_raw(w2, o, s) == oper_raw(ws, o, s) by {}
                assert forall|i2: u32| #[trigger] appr_raw(wa, i2) == appr_raw(w, i2) by {}
                assert forall|o: Address, s: Address| #[trigger] oper_raw(wa, o, s) == oper_raw(w, o, s) by {}
                assert(is_operator(wa, cowner(w, id).unwrap(), approver) == is_operator(w, cowner(w, id).unwrap(), approver));
            }
            COp::ApproveForAll { owner, operator, live } => {
                let wa = w_auth(w, owner);
                lemma_operator_lifetime(wa, owner, operator, live, w.ledger_seq);
                let ws = oper_store(wa, owner, operator, live);
                assert forall|i2: u32| #[trigger] appr_raw(w2, i2) == appr_raw(ws, i2) by {}
                assert forall|o: Address, s: Address| #[trigger] oper_raw(w2, o, s) == oper_raw(ws, o, s) by {}
                assert forall|i2: u32| #[trigger] appr_raw(wa, i2) == appr_raw(w, i2) by {}
                assert forall|o: Address, s: Address| #[trigger] oper_raw(wa, o, s) == oper_raw(w, o, s) by {}
            }
            _ => {}
        }
    }
}

/// C11 in the property's words: the inferred owner of an existing token changes only in a call authorized by its
/// owner, its approved account or a live operator of the owner
pub proof fn lemma_cop_move_only_by_owner_approved_operator(w: World, op: COp)
    requires cop_guard(w, op), inv_consec(w), inv_cbal(w),
    ensures
        //@@ C11:lemma.consec_move_only_by_owner_approved_or_live_operator
        forall|j: u32| cowner(w, j).is_some() && #[trigger] cowner(cop_post(w, op), j) != cowner(w, j) ==>
            cop_is_move(op) && cop_token(op) == Some(j) && cop_from(op) == cowner(w, j)
            && cop_post(w, op).auths.contains(cop_actor(op).unwrap())
            && spender_ok(w, cop_actor(op).unwrap(), cowner(w, j).unwrap(), j),
{
    lemma_cop_c10(w, op);
    lemma_cop_c11(w, op);
    assert forall|j: u32| cowner(w, j).is_some() && #[trigger] cowner(cop_post(w, op), j) != cowner(w, j) implies
            cop_is_move(op) && cop_token(op) == Some(j) && cop_from(op) == cowner(w, j)
            && cop_post(w, op).auths.contains(cop_actor(op).unwrap())
            && spender_ok(w, cop_actor(op).unwrap(), cowner(w, j).unwrap(), j) by {
        assert(cowner(cop_post(w, op), j) == cop_owner_after(w, op, j));
        if op is BatchMint {
            // an existing token has j < counter(w)
            assert(j < counter(w));
        }
    }
}
