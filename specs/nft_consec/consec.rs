// =================================================================================================
// spec pack `nft_consec` — consecutive NFT extension (C10 ownership inference, C11 authorization)
// Everything here is ghost; the executable text comes from /repo.
//
// Storage scheme (read off extensions/consecutive/storage.rs):
//   * `OwnershipBucket(n)`: Vec<u32> of ITEMS_IN_BUCKET = 100 items; bit (31 - p % 32) of item p / 32,
//     p = id % 3200, is the *marker* of token `id` (MSB-first inside an item).
//   * `Owner(id)` entries exist only at marked ids; `BurnedToken(id)` records burned ids.
//   * `owner_of(id)` = `Owner(m)` for the FIRST marked id m >= id (searched through the buckets up to the
//     one holding the last minted id), and only if id < next id and id is not burned.
// The base unit's `cur_owner(w, id)` reads `NFTStorageKey::Owner(id)`; on chain (and in the generated
// `sv()` encodings) that is the same key as `NFTConsecutiveStorageKey::Owner(id)`, so here
// `cur_owner(w, m)` is "the Owner entry stored at marker m", NOT the owner of token m's predecessors.
// =================================================================================================

// ---- typed keys of the consecutive flavour ----
pub open spec fn ck_appr(id: u32) -> NFTConsecutiveStorageKey { NFTConsecutiveStorageKey::Approval(id) }
pub open spec fn ck_owner(id: u32) -> NFTConsecutiveStorageKey { NFTConsecutiveStorageKey::Owner(id) }
pub open spec fn ck_bucket(i: u32) -> NFTConsecutiveStorageKey { NFTConsecutiveStorageKey::OwnershipBucket(i) }
pub open spec fn ck_burned(id: u32) -> NFTConsecutiveStorageKey { NFTConsecutiveStorageKey::BurnedToken(id) }

/// C11: the consecutive extension clears approvals through its *own* enum variant. Storage keys are encoded by
/// variant name only, so the two `Approval(id)` keys (and the two `Owner(id)` keys) are the same entry.
/// Renaming either variant in /repo makes this lemma (and everything built on it) fail.
pub proof fn lemma_consec_keys_coincide(id: u32)
    ensures
        //@@ C11:lemma.consec_approval_key_is_base_approval_key
        ck_appr(id).sv() == k_appr(id).sv(),
        //@@ C10:lemma.consec_owner_key_is_base_owner_key
        ck_owner(id).sv() == k_owner(id).sv(),
{
}

// ---- views ----
pub open spec fn is_burned(w: World, id: u32) -> bool {
    match dec::<bool>(pget(w, ck_burned(id))) { Some(b) => b, None => false }
}
pub open spec fn bucket_of(w: World, i: u32) -> Option<Seq<u32>> {
    match dec::<Vec<u32>>(pget(w, ck_bucket(i))) { Some(v) => Some(v@), None => None }
}
pub open spec fn vec_of(q: Seq<u32>) -> Vec<u32> { Vec { s: Ghost(q) } }
pub open spec fn zero_bucket() -> Seq<u32> { Seq::new(100, |i: int| 0u32) }
pub open spec fn bucket_or_zero(w: World, i: u32) -> Seq<u32> {
    match bucket_of(w, i) { Some(s) => s, None => zero_bucket() }
}
/// mask of position p (0..32) inside an item: MSB first
pub open spec fn pos_mask(p: int) -> u32 { 1u32 << ((31 - p) as u32) }
/// bit p of a bucket (p counted over the whole bucket)
pub open spec fn sbit(s: Seq<u32>, p: int) -> bool {
    0 <= p < s.len() * 32 && (s[p / 32] & pos_mask(p % 32)) != 0
}
/// token `k` carries an ownership marker
pub open spec fn bit(w: World, k: u32) -> bool {
    match bucket_of(w, k / 3200) { Some(s) => sbit(s, (k % 3200) as int), None => false }
}
/// every stored bucket has exactly ITEMS_IN_BUCKET items
pub open spec fn buckets_wf(w: World) -> bool {
    forall|i: u32| (#[trigger] bucket_of(w, i)).is_some() ==> bucket_of(w, i).unwrap().len() == 100
}

/// every stored bucket has at most ITEMS_IN_BUCKET items (so an item index never reaches into the id range of the
/// next bucket) — the domain on which the second clause of the `owner_of` contract is stated; implied by `buckets_wf`
pub open spec fn buckets_le(w: World) -> bool {
    forall|i: u32| (#[trigger] bucket_of(w, i)).is_some() ==> bucket_of(w, i).unwrap().len() <= 100
}

// ---- specification of the search functions (proved in Verus on the loops translator rule T17 makes of the iterator
// chains; kani/consec cross-checks the verbatim text, bounded) ----
/// `find_bit_in_item`: first position p >= start (MSB-first) whose bit is set
pub open spec fn fbi(num: u32, start: int) -> Option<int>
    decreases 32 - start
{
    if start < 0 || start >= 32 { None } else if (num & pos_mask(start)) != 0 { Some(start) } else { fbi(num, start + 1) }
}
/// `find_bit_in_bucket`: first position p >= start of the bucket whose bit is set
pub open spec fn fbb(s: Seq<u32>, start: int) -> Option<int>
    decreases s.len() * 32 - start
{
    if start < 0 || start >= s.len() * 32 { None } else if sbit(s, start) { Some(start) } else { fbb(s, start + 1) }
}
/// first marked token id in [t, lim)
pub open spec fn first_mark(w: World, t: int, lim: int) -> Option<int>
    decreases lim - t
{
    if t < 0 || t >= lim || t > u32::MAX { None } else if bit(w, t as u32) { Some(t) } else { first_mark(w, t + 1, lim) }
}
/// where `Consecutive::owner_of` stops searching: the end of the bucket holding the last minted id
pub open spec fn search_lim(w: World) -> int {
    if counter(w) == 0 { 0 } else { ((counter(w) - 1) / 3200 + 1) * 3200 }
}
/// what `Consecutive::owner_of` computes (it reverts where this is None)
pub open spec fn cowner(w: World, id: u32) -> Option<Address> {
    if id < counter(w) && !is_burned(w, id) {
        match first_mark(w, id as int, search_lim(w)) {
            Some(m) => cur_owner(w, m as u32),
            None => None,
        }
    } else { None }
}

// ---- exact successor states ----
pub open spec fn setbit_guard(w: World, t: u32) -> bool {
    t < counter(w) && ((t % 3200) / 32) < bucket_or_zero(w, t / 3200).len()
}
pub open spec fn setbit_post(w: World, t: u32) -> World {
    let s = bucket_or_zero(w, t / 3200);
    let ii = ((t % 3200) / 32) as int;
    let mask = pos_mask(((t % 3200) % 32) as int);
    if (s[ii] & mask) != 0 { w } else { pset(w, ck_bucket(t / 3200), vec_of(s.update(ii, s[ii] | mask)).sv()) }
}
pub open spec fn prev_applies(w: World, t: u32) -> bool {
    t != 0 && t < counter(w) && cur_owner(w, (t - 1) as u32).is_none() && !is_burned(w, (t - 1) as u32)
}
pub open spec fn prev_guard(w: World, to: Address, t: u32) -> bool {
    prev_applies(w, t) ==> setbit_guard(pset(w, ck_owner((t - 1) as u32), to.sv()), (t - 1) as u32)
}
pub open spec fn prev_post(w: World, to: Address, t: u32) -> World {
    if prev_applies(w, t) { setbit_post(pset(w, ck_owner((t - 1) as u32), to.sv()), (t - 1) as u32) } else { w }
}

/// world after the `from` half of `Consecutive::update`
pub open spec fn cupd_mid(w: World, from: Option<Address>, id: u32) -> World {
    match from {
        Some(a) => prev_post(tdel(dec_bal_post(w, a, 1), ck_appr(id)), a, id),
        None => w,
    }
}
pub open spec fn cupdate_post(w: World, from: Option<Address>, to: Option<Address>, id: u32) -> World {
    let w1 = cupd_mid(w, from, id);
    match to {
        Some(b) => setbit_post(pset(inc_bal_post(w1, b, 1), ck_owner(id), b.sv()), id),
        None => pset(pdel(w1, ck_owner(id)), ck_burned(id), true.sv()),
    }
}
pub open spec fn cupdate_guard(w: World, from: Option<Address>, to: Option<Address>, id: u32) -> bool {
    let w1 = cupd_mid(w, from, id);
    &&& from.is_some() ==> {
        &&& id < counter(w) && !is_burned(w, id)
        &&& buckets_le(w) ==> cowner(w, id) == from
        &&& bal(w, from.unwrap()) >= 1
        &&& prev_guard(tdel(dec_bal_post(w, from.unwrap(), 1), ck_appr(id)), from.unwrap(), id)
    }
    &&& to.is_some() ==> bal(w1, to.unwrap()) < u32::MAX
        && setbit_guard(pset(inc_bal_post(w1, to.unwrap(), 1), ck_owner(id), to.unwrap().sv()), id)
}

pub open spec fn batch_guard(w: World, to: Address, amount: u32) -> bool {
    let n = counter(w);
    let w1 = inc_bal_post(iset(w, k_ctr(), ((n + amount) as u32).sv()), to, amount);
    &&& 1 <= amount <= 32000
    &&& n + amount <= u32::MAX
    &&& bal(w, to) + amount <= u32::MAX
    &&& setbit_guard(w1, (n + amount - 1) as u32)
}
pub open spec fn batch_post(w: World, to: Address, amount: u32) -> World {
    let n = counter(w);
    let last = (n + amount - 1) as u32;
    let w1 = inc_bal_post(iset(w, k_ctr(), ((n + amount) as u32).sv()), to, amount);
    w_event(pset(setbit_post(w1, last), ck_owner(last), to.sv()),
        ConsecutiveMint { to: to, from_token_id: n, to_token_id: last }.ev())
}

// ---- the public operations of the consecutive token as a relation on worlds ----
pub enum COp {
    BatchMint { to: Address, amount: u32 },
    Transfer { from: Address, to: Address, id: u32 },
    TransferFrom { spender: Address, from: Address, to: Address, id: u32 },
    Burn { from: Address, id: u32 },
    BurnFrom { spender: Address, from: Address, id: u32 },
    Approve { approver: Address, approved: Address, id: u32, live: u32 },
    ApproveForAll { owner: Address, operator: Address, live: u32 },
}
pub open spec fn cop_guard(w: World, op: COp) -> bool {
    match op {
        COp::BatchMint { to, amount } => batch_guard(w, to, amount),
        COp::Transfer { from, to, id } => cupdate_guard(w_auth(w, from), Some(from), Some(to), id),
        COp::TransferFrom { spender, from, to, id } =>
            spender_ok(w, spender, from, id) && cupdate_guard(w_auth(w, spender), Some(from), Some(to), id),
        COp::Burn { from, id } => cupdate_guard(w_auth(w, from), Some(from), None, id),
        COp::BurnFrom { spender, from, id } =>
            spender_ok(w, spender, from, id) && cupdate_guard(w_auth(w, spender), Some(from), None, id),
        COp::Approve { approver, approved, id, live } => {
            let wa = w_auth(w, approver);
            &&& id < counter(w) && !is_burned(w, id)
            &&& buckets_le(wa) ==> cowner(wa, id).is_some() && approve_owner_guard(wa, cowner(wa, id).unwrap(), approver, live)
            &&& live_guard(w, live)
        }
        COp::ApproveForAll { owner, operator, live } => live_guard(w, live),
    }
}
pub open spec fn cop_post(w: World, op: COp) -> World {
    match op {
        COp::BatchMint { to, amount } => batch_post(w, to, amount),
        COp::Transfer { from, to, id } =>
            w_event(cupdate_post(w_auth(w, from), Some(from), Some(to), id), Transfer { from: from, to: to, token_id: id }.ev()),
        COp::TransferFrom { spender, from, to, id } =>
            w_event(cupdate_post(w_auth(w, spender), Some(from), Some(to), id), Transfer { from: from, to: to, token_id: id }.ev()),
        COp::Burn { from, id } =>
            w_event(cupdate_post(w_auth(w, from), Some(from), None, id), Burn { from: from, token_id: id }.ev()),
        COp::BurnFrom { spender, from, id } =>
            w_event(cupdate_post(w_auth(w, spender), Some(from), None, id), Burn { from: from, token_id: id }.ev()),
        COp::Approve { approver, approved, id, live } => approve_owner_post(w_auth(w, approver), approver, approved, id, live),
        COp::ApproveForAll { owner, operator, live } =>
            w_event(oper_store(w_auth(w, owner), owner, operator, live), ApproveForAll { owner: owner, operator: operator, live_until_ledger: live }.ev()),
    }
}

// ---- find_bit_in_item (also proved completely by Kani on the verbatim text) ----
pub proof fn lemma_fbi_none(num: u32, start: int)
    requires 0 <= start, forall|p: int| start <= p < 32 ==> (num & #[trigger] pos_mask(p)) == 0,
    ensures fbi(num, start).is_none(),
    decreases 32 - start
{
    if start < 32 { lemma_fbi_none(num, start + 1); }
}
pub proof fn lemma_fbi_some(num: u32, start: int, q: int)
    requires 0 <= start <= q < 32, forall|p: int| start <= p < q ==> (num & #[trigger] pos_mask(p)) == 0, (num & pos_mask(q)) != 0,
    ensures fbi(num, start) == Some(q),
    decreases q - start
{
    if start < q { lemma_fbi_some(num, start + 1, q); }
}
pub proof fn lemma_zero_no_bits(m: u32)
    ensures (0u32 & m) == 0,
{
    assert((0u32 & m) == 0) by (bit_vector);
}
