// =================================================================================================
// history level for the consecutive NFT: every reachable state compared with a plain ownership map
// (C10: "owner_of answers correctly for every id of every batch after any mix of transfers and
// burns", balance == number of owned tokens) and with a ledger of granted approvals (C11:
// "approvals given by a previous owner never carry over").
// Ownership is `cowner` — what `Consecutive::owner_of` returns by its (Kani-bounded, otherwise
// assumed) contract.
// =================================================================================================

pub enum CStep { Op(COp), Tick { seq: u32, ts: u64 } }

/// storage keys the token writes in persistent storage
pub open spec fn is_ctoken_key(k: SV) -> bool {
    let t = sv_tag(k);
    t == sv_tag(ck_owner(0).sv()) || t == sv_tag(ck_bucket(0).sv()) || t == sv_tag(ck_burned(0).sv())
        || t == sv_tag(k_bal(Address { id: 0 }).sv())
}
/// deployment: nothing of the token is stored yet
pub open spec fn cgenesis(w: World) -> bool {
    &&& forall|k: SV| w.persistent.contains_key(k) ==> !is_ctoken_key(k)
    &&& forall|k: SV| !w.temporary.contains_key(k)
    &&& !w.instance.contains_key(k_ctr().sv())
    &&& w.events.len() == 0
    &&& w.ledger_ok()
}
pub open spec fn cstep_ok(w: World, st: CStep) -> bool {
    match st {
        CStep::Op(op) => cop_guard(w, op) && w.auths =~= Set::empty(),
        CStep::Tick { seq, ts } => seq >= w.ledger_seq,
    }
}
pub open spec fn cstep_post(w: World, st: CStep) -> World {
    match st {
        // an operation runs in its own invocation; its authorizations do not outlive it
        CStep::Op(op) => World { auths: Set::empty(), ..cop_post(w, op) },
        CStep::Tick { seq, ts } => World { ledger_seq: seq, timestamp: ts, auths: Set::empty(), auth_args: Set::empty(), ..w },
    }
}
pub open spec fn crun(w0: World, steps: Seq<CStep>) -> World
    decreases steps.len()
{
    if steps.len() == 0 { World { auths: Set::empty(), ..w0 } } else { cstep_post(crun(w0, steps.drop_last()), steps.last()) }
}
pub open spec fn cvalid(w0: World, steps: Seq<CStep>) -> bool
    decreases steps.len()
{
    steps.len() == 0 || (cvalid(w0, steps.drop_last()) && cstep_ok(crun(w0, steps.drop_last()), steps.last()))
}

// ---- the reference model: a plain ownership function, the next id, a ledger of grants ----
pub struct CGrant { pub approved: Address, pub live: u32, pub owner: Address, pub approver: Address }
pub struct CModel {
    pub owner: spec_fn(u32) -> Option<Address>,
    pub next: int,
    pub grant: spec_fn(u32) -> Option<CGrant>,
    pub oper: spec_fn(Address, Address) -> Option<u32>,
}
pub open spec fn cm0() -> CModel {
    CModel { owner: |id: u32| None::<Address>, next: 0, grant: |id: u32| None::<CGrant>, oper: |o: Address, s: Address| None::<u32> }
}
pub open spec fn cm_op(m: CModel, op: COp) -> CModel {
    match op {
        COp::BatchMint { to, amount } => CModel {
            owner: |j: u32| if m.next <= j < m.next + amount { Some(to) } else { (m.owner)(j) },
            next: m.next + amount,
            ..m
        },
        COp::Approve { approver, approved, id, live } => CModel {
            grant: |j: u32| if j == id {
                if live == 0 { None } else { Some(CGrant { approved: approved, live: live, owner: (m.owner)(id).unwrap(), approver: approver }) }
            } else { (m.grant)(j) },
            ..m
        },
        COp::ApproveForAll { owner, operator, live } => CModel {
            oper: |o: Address, s: Address| if o == owner && s == operator { if live == 0 { None } else { Some(live) } } else { (m.oper)(o, s) },
            ..m
        },
        _ => {
            let id = cop_token(op).unwrap();
            CModel {
                owner: |j: u32| if j == id { cop_to(op) } else { (m.owner)(j) },
                grant: |j: u32| if j == id { None } else { (m.grant)(j) },
                ..m
            }
        }
    }
}
pub open spec fn cm_step(m: CModel, st: CStep) -> CModel {
    match st { CStep::Op(op) => cm_op(m, op), CStep::Tick { seq, ts } => m }
}
pub open spec fn cmodel(steps: Seq<CStep>) -> CModel
    decreases steps.len()
{
    if steps.len() == 0 { cm0() } else { cm_step(cmodel(steps.drop_last()), steps.last()) }
}

/// the contract state agrees with the reference model
pub open spec fn cagrees(w: World, m: CModel) -> bool {
    // C10: the inferred owner function is the plain ownership map; the counter is the number of ids handed out
    &&& forall|id: u32| #[trigger] cowner(w, id) == (m.owner)(id)
    &&& counter(w) as int == m.next
    // C11: every stored approval is a recorded grant ...
    &&& forall|id: u32| (#[trigger] appr_raw(w, id)).is_some() ==> (m.grant)(id).is_some()
            && (m.grant)(id).unwrap().approved == appr_raw(w, id).unwrap().approved
            && (m.grant)(id).unwrap().live == appr_raw(w, id).unwrap().live_until_ledger
    // ... made while the *current* owner already owned the token
    &&& forall|id: u32| (#[trigger] (m.grant)(id)).is_some() ==> (m.owner)(id) == Some((m.grant)(id).unwrap().owner)
    &&& forall|o: Address, s: Address| (#[trigger] oper_raw(w, o, s)).is_some() ==> (m.oper)(o, s) == oper_raw(w, o, s)
}

pub proof fn lemma_ccount_zero(w: World, a: Address, n: int)
    requires forall|j: u32| (#[trigger] cowner(w, j)).is_none(),
    ensures ccount(w, a, n) == 0,
    decreases n
{
    if n > 0 { lemma_ccount_zero(w, a, n - 1); }
}

pub proof fn lemma_cgenesis(w0: World)
    requires cgenesis(w0)
    ensures inv_consec(crun(w0, Seq::empty())), inv_cbal(crun(w0, Seq::empty())), cagrees(crun(w0, Seq::empty()), cm0()),
        crun(w0, Seq::empty()).ledger_ok(),
{
    let w = crun(w0, Seq::empty());
    assert(counter(w) == 0);
    assert forall|i: u32| (#[trigger] bucket_of(w, i)).is_none() by {
        assert(is_ctoken_key(ck_bucket(i).sv()));
    }
    assert forall|k: u32| !#[trigger] bit(w, k) by { assert(bucket_of(w, k / 3200).is_none()); }
    assert forall|k: u32| (#[trigger] cur_owner(w, k)).is_none() by {
        lemma_consec_keys_coincide(k);
        assert(is_ctoken_key(ck_owner(k).sv()));
    }
    assert forall|k: u32| !#[trigger] is_burned(w, k) by {
        assert(is_ctoken_key(ck_burned(k).sv()));
    }
    assert forall|a: Address| (#[trigger] bal(w, a)) as int == ccount(w, a, 0) by {
        assert(is_ctoken_key(k_bal(a).sv()));
    }
    assert forall|id: u32| (#[trigger] appr_raw(w, id)).is_none() by {}
    assert forall|o: Address, s: Address| (#[trigger] oper_raw(w, o, s)).is_none() by {}
}

/// C10 + C11 over all histories
pub proof fn lemma_chistory(w0: World, steps: Seq<CStep>)
    requires cgenesis(w0), cvalid(w0, steps),
    ensures
        //@@ C10:lemma.consec_history_marker_invariant
        inv_consec(crun(w0, steps)),
        //@@ C10:lemma.consec_history_balance_is_number_of_owned_tokens
        inv_cbal(crun(w0, steps)),
        //@@ C10+C11:lemma.consec_history_agrees_with_plain_ownership_map_and_grant_ledger
        cagrees(crun(w0, steps), cmodel(steps)),
        crun(w0, steps).ledger_ok(),
    decreases steps.len()
{
    if steps.len() == 0 {
        assert(steps =~= Seq::empty());
        lemma_cgenesis(w0);
    } else {
        let pre = steps.drop_last();
        lemma_chistory(w0, pre);
        let w = crun(w0, pre);
        let m = cmodel(pre);
        let st = steps.last();
        let w2 = cstep_post(w, st);
        let m2 = cm_step(m, st);
        assert(crun(w0, steps) == w2);
        assert(cmodel(steps) == m2);
        match st {
            CStep::Tick { seq, ts } => { lemma_chistory_tick(w, m, seq, ts); }
            CStep::Op(op) => { lemma_chistory_op(w, m, op); }
        }
    }
}

pub proof fn lemma_chistory_tick(w: World, m: CModel, seq: u32, ts: u64)
    requires inv_consec(w), inv_cbal(w), cagrees(w, m), w.ledger_ok(), seq >= w.ledger_seq,
    ensures ({
        let w2 = cstep_post(w, CStep::Tick { seq: seq, ts: ts });
        inv_consec(w2) && inv_cbal(w2) && cagrees(w2, m) && w2.ledger_ok()
    }),
{
    let w2 = cstep_post(w, CStep::Tick { seq: seq, ts: ts });
    lemma_same_store(w, w2);
    lemma_inv_same(w, w2);
    lemma_cowner_same(w, w2);
    assert forall|x: Address| (#[trigger] bal(w2, x)) as int == ccount(w2, x, counter(w2) as int) by {
        assert(bal(w, x) as int == ccount(w, x, counter(w) as int));
        lemma_ccount_same(w, w2, x, counter(w) as int);
    }
    lemma_time_only_expires(w, seq);
    let wl = at_ledger(w, seq);
    assert forall|id: u32| #[trigger] appr_raw(w2, id) == appr_raw(wl, id) by {}
    assert forall|o: Address, s: Address| #[trigger] oper_raw(w2, o, s) == oper_raw(wl, o, s) by {}
}

pub proof fn lemma_chistory_op(w: World, m: CModel, op: COp)
    requires inv_consec(w), inv_cbal(w), cagrees(w, m), w.ledger_ok(), cop_guard(w, op), w.auths =~= Set::empty(),
    ensures ({
        let w2 = cstep_post(w, CStep::Op(op));
        inv_consec(w2) && inv_cbal(w2) && cagrees(w2, cm_op(m, op)) && w2.ledger_ok()
    }),
{
    broadcast use sdk_store;
    let wp = cop_post(w, op);
    let w2 = cstep_post(w, CStep::Op(op));
    let m2 = cm_op(m, op);
    lemma_cop_c10(w, op);
    lemma_cop_c11(w, op);
    lemma_same_store(wp, w2);
    lemma_inv_same(wp, w2);
    lemma_cowner_same(wp, w2);
    assert forall|x: Address| (#[trigger] bal(w2, x)) as int == ccount(w2, x, counter(w2) as int) by {
        assert(bal(wp, x) as int == ccount(wp, x, counter(wp) as int));
        lemma_ccount_same(wp, w2, x, counter(wp) as int);
    }
    assert forall|id: u32| #[trigger] appr_raw(w2, id) == appr_raw(wp, id) by {}
    assert forall|o: Address, s: Address| #[trigger] oper_raw(w2, o, s) == oper_raw(wp, o, s) by {}
    assert forall|id: u32| #[trigger] cowner(w2, id) == (m2.owner)(id) by {
        assert(cowner(wp, id) == cop_owner_after(w, op, id));
        assert(cowner(w, id) == (m.owner)(id));
    }
    match op {
        COp::BatchMint { to, amount } => {
            lemma_batch_view(w, to, amount);
            assert forall|id: u32| (#[trigger] (m2.grant)(id)).is_some() implies (m2.owner)(id) == Some((m2.grant)(id).unwrap().owner) by {
                assert((m.grant)(id).is_some());
                assert(cowner(w, id) == (m.owner)(id));
                assert(id < counter(w));
            }
        }
        COp::Approve { approver, approved, id, live } => {
            let wa = w_auth(w, approver);
            lemma_same_store(w, wa);
            lemma_cowner_same(w, wa);
            assert(cowner(wa, id) == cowner(w, id));
            lemma_approve_lifetime(wa, approved, id, live, w.ledger_seq);
            let ws = appr_store(wa, approved, id, live);
            assert forall|i2: u32| #[trigger] appr_raw(wp, i2) == appr_raw(ws, i2) by {}
            assert forall|o: Address, s: Address| #[trigger] oper_raw(wp, o, s) == oper_raw(ws, o, s) by {}
            assert forall|i2: u32| #[trigger] appr_raw(wa, i2) == appr_raw(w, i2) by {}
            assert forall|o: Address, s: Address| #[trigger] oper_raw(wa, o, s) == oper_raw(w, o, s) by {}
            assert(cowner(w, id) == (m.owner)(id));
            assert forall|i2: u32| (#[trigger] (m2.grant)(i2)).is_some() implies (m2.owner)(i2) == Some((m2.grant)(i2).unwrap().owner) by {
                if i2 != id { assert((m.grant)(i2).is_some()); }
            }
        }
        COp::ApproveForAll { owner, operator, live } => {
            let wa = w_auth(w, owner);
            lemma_operator_lifetime(wa, owner, operator, live, w.ledger_seq);
            let ws = oper_store(wa, owner, operator, live);
            assert forall|i2: u32| #[trigger] appr_raw(wp, i2) == appr_raw(ws, i2) by {}
            assert forall|o: Address, s: Address| #[trigger] oper_raw(wp, o, s) == oper_raw(ws, o, s) by {}
            assert forall|i2: u32| #[trigger] appr_raw(wa, i2) == appr_raw(w, i2) by {}
            assert forall|o: Address, s: Address| #[trigger] oper_raw(wa, o, s) == oper_raw(w, o, s) by {}
            assert forall|i2: u32| (#[trigger] (m2.grant)(i2)).is_some() implies (m2.owner)(i2) == Some((m2.grant)(i2).unwrap().owner) by {
                assert((m.grant)(i2).is_some());
            }
        }
        _ => {
            let id = cop_token(op).unwrap();
            assert forall|i2: u32| (#[trigger] (m2.grant)(i2)).is_some() implies (m2.owner)(i2) == Some((m2.grant)(i2).unwrap().owner) by {
                assert(i2 != id);
                assert((m.grant)(i2).is_some());
            }
            assert forall|i2: u32| (#[trigger] appr_raw(w2, i2)).is_some() implies (m2.grant)(i2).is_some()
                && (m2.grant)(i2).unwrap().approved == appr_raw(w2, i2).unwrap().approved
                && (m2.grant)(i2).unwrap().live == appr_raw(w2, i2).unwrap().live_until_ledger by {
                assert(appr_raw(w2, i2) == appr_raw(wp, i2));
                if i2 != id {
                    if appr_raw(wp, i2) != appr_raw(w, i2) { assert(cop_token(op) == Some(i2)); }
                    assert(appr_raw(w, i2).is_some());
                }
            }
        }
    }
}

/// C10 in the property's words, for every reachable state: an id has an owner exactly if it was minted and not
/// burned since, `owner_of` reports that owner (`cowner` is the contract of `Consecutive::owner_of`), ids at or
/// above the counter have no owner, and the counter never decreases (ids are never reused)
pub proof fn lemma_chistory_c10(w0: World, steps: Seq<CStep>, id: u32)
    requires cgenesis(w0), cvalid(w0, steps),
    ensures
        //@@ C10:lemma.consec_owner_of_answers_as_the_plain_ownership_map
        cowner(crun(w0, steps), id) == (cmodel(steps).owner)(id),
        //@@ C10:lemma.consec_unminted_ids_have_no_owner
        id >= counter(crun(w0, steps)) ==> (cmodel(steps).owner)(id).is_none(),
        //@@ C10:lemma.consec_live_ids_have_exactly_one_owner
        id < counter(crun(w0, steps)) && !is_burned(crun(w0, steps), id) ==> cowner(crun(w0, steps), id).is_some(),
        steps.len() > 0 ==> counter(crun(w0, steps)) >= counter(crun(w0, steps.drop_last())),
{
    lemma_chistory(w0, steps);
    let w = crun(w0, steps);
    assert(cowner(w, id) == (cmodel(steps).owner)(id));
    if id < counter(w) && !is_burned(w, id) { let m = lemma_live_mark(w, id); }
    if steps.len() > 0 {
        let pre = steps.drop_last();
        lemma_chistory(w0, pre);
        match steps.last() {
            CStep::Op(op) => { lemma_cop_c10(crun(w0, pre), op); }
            CStep::Tick { seq, ts } => {}
        }
    }
}

/// C11 in the property's words, for every reachable state: a live approval was granted while the token's current
/// owner already owned it — approvals given under a previous owner never carry over
pub proof fn lemma_chistory_c11(w0: World, steps: Seq<CStep>, id: u32)
    requires cgenesis(w0), cvalid(w0, steps), cur_approved(crun(w0, steps), id).is_some(),
    ensures
        //@@ C11:lemma.consec_approvals_of_previous_owner_never_carry_over
        (cmodel(steps).grant)(id).is_some()
            && cowner(crun(w0, steps), id) == Some((cmodel(steps).grant)(id).unwrap().owner)
            && cur_approved(crun(w0, steps), id) == Some((cmodel(steps).grant)(id).unwrap().approved),
{
    lemma_chistory(w0, steps);
    let w = crun(w0, steps);
    assert(appr_raw(w, id).is_some());
    assert(cowner(w, id) == (cmodel(steps).owner)(id));
}

// ---- non-vacuity witness: a genesis world exists, and "mint a batch of 2, transfer id 0, let time pass" is a
//      valid history from it (so the guards used above are satisfiable and the invariants are not empty) ----
pub open spec fn cw_empty() -> World {
    World { instance: Map::empty(), persistent: Map::empty(), temporary: Map::empty(), temp_live: Map::empty(),
        ledger_seq: 7, timestamp: 0, max_entry_ttl: 10, min_temp_ttl: 1, network_id: Seq::empty(), this: Address { id: 0 },
        auths: Set::empty(), auth_args: Set::empty(), self_auths: Seq::empty(), events: Seq::empty(), calls: Seq::empty(), ext: 0 }
}
pub proof fn lemma_consec_witness()
    ensures
        cgenesis(cw_empty()),
        cvalid(cw_empty(), seq![
            CStep::Op(COp::BatchMint { to: Address { id: 1 }, amount: 2 }),
            CStep::Op(COp::Transfer { from: Address { id: 1 }, to: Address { id: 2 }, id: 0 }),
            CStep::Tick { seq: 9, ts: 1 }]),
{
    broadcast use sdk_store;
    let w0 = cw_empty();
    let a1 = Address { id: 1 };
    let a2 = Address { id: 2 };
    let op1 = COp::BatchMint { to: a1, amount: 2 };
    let op2 = COp::Transfer { from: a1, to: a2, id: 0 };
    let s3 = seq![CStep::Op(op1), CStep::Op(op2), CStep::Tick { seq: 9, ts: 1 }];
    let s2 = s3.drop_last();
    let s1 = s2.drop_last();
    let s0 = s1.drop_last();
    assert(s0.len() == 0);
    assert(cvalid(w0, s0));
    lemma_chistory(w0, s0);
    let r0 = crun(w0, s0);
    // batch mint of ids 0, 1 to a1
    assert(s1.last() == CStep::Op(op1));
    assert(counter(r0) == 0 && bal(r0, a1) == 0);
    assert(bucket_of(r0, 0).is_none());
    assert(batch_guard(r0, a1, 2));
    assert(cvalid(w0, s1));
    lemma_chistory(w0, s1);
    let r1 = crun(w0, s1);
    lemma_cop_c10(r0, op1);
    let p1 = cop_post(r0, op1);
    lemma_same_store(p1, r1);
    lemma_cowner_same(p1, r1);
    lemma_batch_view(r0, a1, 2);
    assert(cowner(r1, 0) == Some(a1));
    assert(counter(r1) == 2 && bal(r1, a1) == 2 && bal(r1, a2) == 0);
    assert(!is_burned(r1, 0));
    // a1 transfers id 0 to a2
    assert(s2.last() == CStep::Op(op2));
    let wa = w_auth(r1, a1);
    lemma_same_store(r1, wa);
    lemma_cowner_same(r1, wa);
    lemma_inv_same(r1, wa);
    let wd = tdel(dec_bal_post(wa, a1, 1), ck_appr(0));
    assert(!prev_applies(wd, 0));
    let wm = cupd_mid(wa, Some(a1), 0);
    assert(wm == wd);
    lemma_bal_write_frame(wa, a1, 1u32.sv());
    lemma_same_store(dec_bal_post(wa, a1, 1), wd);
    assert(bal(wm, a2) == 0);
    let wi = inc_bal_post(wm, a2, 1);
    lemma_bal_write_frame(wm, a2, 1u32.sv());
    let wo = pset(wi, ck_owner(0), a2.sv());
    lemma_owner_write_view(wi, 0, a2);
    assert(counter(wo) == 2);
    assert(bucket_of(wa, 0).is_some());
    assert(bucket_of(wo, 0) == bucket_of(wa, 0)) by {
        assert(bucket_of(wo, 0) == bucket_of(wi, 0));
        assert(bucket_of(wi, 0) == bucket_of(wm, 0));
        assert(bucket_of(dec_bal_post(wa, a1, 1), 0) == bucket_of(wa, 0));
    }
    assert(setbit_guard(wo, 0));
    assert(cupdate_guard(wa, Some(a1), Some(a2), 0));
    assert(cop_guard(r1, op2));
    assert(cvalid(w0, s2));
    // the ledger advances from 7 to 9
    lemma_chistory(w0, s2);
    assert(crun(w0, s2).ledger_seq == 7) by {
        lemma_cop_c10(r1, op2);
    }
    assert(cvalid(w0, s3));
}
