// =================================================================================================
// step lemmas for the consecutive NFT extension.
//   1. bit arithmetic of `set_ownership_in_bucket` (by(bit_vector))
//   2. `first_mark` (= what owner_of's search computes) characterised as "least marked id >= t"
//   3. `inv_consec` and the abstract effect of update / batch_mint on the inferred owner function `cowner`
// =================================================================================================

// ---- 1. bits ----
pub proof fn lemma_or_mask(x: u32, sb: u32, sc: u32)
    requires sb < 32, sc < 32,
    ensures ((x | (1u32 << sb)) & (1u32 << sc)) != 0 <==> ((x & (1u32 << sc)) != 0 || sb == sc),
{
    assert(((x | (1u32 << sb)) & (1u32 << sc)) != 0 <==> ((x & (1u32 << sc)) != 0 || sb == sc)) by (bit_vector)
        requires sb < 32, sc < 32;
}

/// setting the marker of position p in a bucket sets exactly that bit
pub proof fn lemma_sbit_update(s: Seq<u32>, p: int, q: int)
    requires 0 <= p < s.len() * 32,
    ensures
        //@@ C10:lemma.consec_set_bit_sets_exactly_one_bit
        sbit(s.update(p / 32, s[p / 32] | pos_mask(p % 32)), q) == (sbit(s, q) || q == p),
{
    let s2 = s.update(p / 32, s[p / 32] | pos_mask(p % 32));
    if 0 <= q < s.len() * 32 {
        if q / 32 == p / 32 {
            lemma_or_mask(s[p / 32], (31 - p % 32) as u32, (31 - q % 32) as u32);
            assert(q == p <==> q % 32 == p % 32);
        }
    }
}
pub proof fn lemma_zero_bucket_no_bits(q: int)
    ensures !sbit(zero_bucket(), q),
{
    if 0 <= q < 3200 { lemma_zero_no_bits(pos_mask(q % 32)); }
}

// ---- key separation: the consecutive keys never collide with `Balance(_)` of the base enum ----
pub proof fn lemma_ck_not_bal(k: NFTConsecutiveStorageKey, a: Address)
    ensures k.sv() != k_bal(a).sv(),
{
    assert(sv_tag(k.sv()) != sv_tag(k_bal(a).sv()));
}

/// everything the ownership inference reads
pub open spec fn same_marks(w: World, w2: World) -> bool {
    &&& forall|i: u32| #[trigger] bucket_of(w2, i) == bucket_of(w, i)
    &&& forall|k: u32| #[trigger] cur_owner(w2, k) == cur_owner(w, k)
    &&& forall|k: u32| #[trigger] is_burned(w2, k) == is_burned(w, k)
    &&& counter(w2) == counter(w)
}
/// everything else the token keeps
pub open spec fn same_rest(w: World, w2: World) -> bool {
    &&& forall|a: Address| #[trigger] bal(w2, a) == bal(w, a)
    &&& w2.temporary == w.temporary && w2.temp_live == w.temp_live
    &&& w2.instance == w.instance && w2.events == w.events && w2.auths == w.auths && w2.same_ledger(w)
}

/// a write to `Balance(a)` does not touch the ownership markers
pub proof fn lemma_bal_write_frame(w: World, a: Address, v: SV)
    ensures same_marks(w, pset(w, k_bal(a), v)),
{
    broadcast use sdk_store;
    let w2 = pset(w, k_bal(a), v);
    assert forall|i: u32| #[trigger] bucket_of(w2, i) == bucket_of(w, i) by {
        lemma_ck_not_bal(ck_bucket(i), a);
        lemma_pget_pset_other(w, k_bal(a), v, ck_bucket(i));
    }
    assert forall|k: u32| #[trigger] is_burned(w2, k) == is_burned(w, k) by {
        lemma_ck_not_bal(ck_burned(k), a);
        lemma_pget_pset_other(w, k_bal(a), v, ck_burned(k));
    }
    assert forall|k: u32| #[trigger] cur_owner(w2, k) == cur_owner(w, k) by {}
}
/// a persistent write at a consecutive key does not touch balances
pub proof fn lemma_ck_write_frame(w: World, k: NFTConsecutiveStorageKey, v: SV)
    ensures
        forall|a: Address| #[trigger] bal(pset(w, k, v), a) == bal(w, a),
        forall|a: Address| #[trigger] bal(pdel(w, k), a) == bal(w, a),
{
    assert forall|a: Address| #[trigger] bal(pset(w, k, v), a) == bal(w, a) by {
        lemma_ck_not_bal(k, a); lemma_pget_pset_other(w, k, v, k_bal(a));
    }
    assert forall|a: Address| #[trigger] bal(pdel(w, k), a) == bal(w, a) by {
        lemma_ck_not_bal(k, a); lemma_pget_pset_other(w, k, v, k_bal(a));
    }
}

/// C10: `set_ownership_in_bucket` marks exactly `t` and touches nothing else
pub proof fn lemma_setbit_view(w: World, t: u32)
    requires buckets_wf(w), setbit_guard(w, t),
    ensures
        buckets_wf(setbit_post(w, t)),
        //@@ C10:lemma.consec_set_ownership_marks_exactly_the_token
        forall|k: u32| #[trigger] bit(setbit_post(w, t), k) == (bit(w, k) || k == t),
        forall|k: u32| #[trigger] cur_owner(setbit_post(w, t), k) == cur_owner(w, k),
        forall|k: u32| #[trigger] is_burned(setbit_post(w, t), k) == is_burned(w, k),
        counter(setbit_post(w, t)) == counter(w),
        same_rest(w, setbit_post(w, t)),
{
    broadcast use sdk_store;
    let w2 = setbit_post(w, t);
    let bi = t / 3200;
    let s = bucket_or_zero(w, bi);
    let p = (t % 3200) as int;
    let ii = p / 32;
    let mask = pos_mask(p % 32);
    lemma_consec_keys_coincide(0);
    if (s[ii] & mask) != 0 {
        assert(w2 == w);
        if bucket_of(w, bi).is_none() { lemma_zero_no_bits(mask); }
        assert(bit(w, t));
    } else {
        let s2 = s.update(ii, s[ii] | mask);
        let v = vec_of(s2).sv();
        assert(w2 == pset(w, ck_bucket(bi), v));
        assert(bucket_of(w2, bi) == Some(s2));
        assert forall|i: u32| i != bi implies #[trigger] bucket_of(w2, i) == bucket_of(w, i) by {}
        assert forall|i: u32| (#[trigger] bucket_of(w2, i)).is_some() implies bucket_of(w2, i).unwrap().len() == 100 by {
            if i != bi { assert(bucket_of(w, i).is_some()); }
        }
        assert forall|k: u32| #[trigger] bit(w2, k) == (bit(w, k) || k == t) by {
            if k / 3200 == bi {
                let q = (k % 3200) as int;
                lemma_sbit_update(s, p, q);
                if bucket_of(w, bi).is_none() { lemma_zero_bucket_no_bits(q); }
                assert(k == t <==> q == p);
            } else {
                assert(bucket_of(w2, k / 3200) == bucket_of(w, k / 3200));
            }
        }
        assert forall|k: u32| #[trigger] cur_owner(w2, k) == cur_owner(w, k) by {
            lemma_consec_keys_coincide(k);
            assert(pget(w2, ck_owner(k)) == pget(w, ck_owner(k)));
        }
        assert forall|k: u32| #[trigger] is_burned(w2, k) == is_burned(w, k) by {}
        lemma_ck_write_frame(w, ck_bucket(bi), v);
    }
}

// ---- 2. first_mark ----
pub proof fn lemma_fm_char(w: World, t: int, lim: int)
    requires 0 <= t,
    ensures
        match first_mark(w, t, lim) {
            Some(m) => t <= m < lim && m <= u32::MAX && bit(w, m as u32)
                && forall|j: int| t <= j < m ==> !#[trigger] bit(w, j as u32),
            None => forall|j: int| t <= j < lim && j <= u32::MAX ==> !#[trigger] bit(w, j as u32),
        },
    decreases lim - t
{
    if t < lim && t <= u32::MAX && !bit(w, t as u32) {
        lemma_fm_char(w, t + 1, lim);
    }
}
/// the contract of `find_bit_in_bucket` in the "least position" form (which the Kani harness asserts as well)
pub proof fn lemma_fbb_char(s: Seq<u32>, t: int)
    requires 0 <= t,
    ensures
        match fbb(s, t) {
            Some(p) => t <= p < s.len() * 32 && sbit(s, p) && forall|j: int| t <= j < p ==> !#[trigger] sbit(s, j),
            None => forall|j: int| t <= j ==> !#[trigger] sbit(s, j),
        },
    decreases s.len() * 32 - t
{
    if t < s.len() * 32 && !sbit(s, t) { lemma_fbb_char(s, t + 1); }
}
// ---- 2a. the item-by-item scan of `find_bit_in_bucket` (the loop that `(a..b).find_map(..)` is) ----
pub proof fn lemma_fbi_char(num: u32, t: int)
    requires 0 <= t,
    ensures
        match fbi(num, t) {
            Some(p) => t <= p < 32 && (num & pos_mask(p)) != 0 && forall|j: int| t <= j < p ==> (num & #[trigger] pos_mask(j)) == 0,
            None => forall|j: int| t <= j < 32 ==> (num & #[trigger] pos_mask(j)) == 0,
        },
    decreases 32 - t
{
    if t < 32 && (num & pos_mask(t)) == 0 { lemma_fbi_char(num, t + 1); }
}
pub proof fn lemma_fbb_unique(s: Seq<u32>, t: int, m: int)
    requires 0 <= t <= m, sbit(s, m), forall|j: int| t <= j < m ==> !#[trigger] sbit(s, j),
    ensures fbb(s, t) == Some(m),
    decreases m - t
{
    if t < m { lemma_fbb_unique(s, t + 1, m); }
}
/// positions without a marker are skipped
pub proof fn lemma_fbb_skip(s: Seq<u32>, a: int, b: int)
    requires 0 <= a <= b, forall|j: int| a <= j < b ==> !#[trigger] sbit(s, j),
    ensures fbb(s, a) == fbb(s, b),
    decreases b - a
{
    if a < b {
        lemma_fbb_skip(s, a + 1, b);
        if a >= s.len() * 32 { assert(fbb(s, b).is_none()) by { lemma_fbb_char(s, b); if fbb(s, b).is_some() { assert(sbit(s, fbb(s, b).unwrap())); } } }
    }
}
/// one step of the scan: searching item `i` from position `from` either finds the answer of the whole search from
/// `i * 32 + from`, or the search continues at the first position of the next item
pub proof fn lemma_fbb_item(s: Seq<u32>, i: int, from: int)
    requires 0 <= i < s.len(), 0 <= from < 32,
    ensures
        //@@ C10:lemma.consec_bucket_scan_step
        match fbi(s[i], from) {
            Some(q) => from <= q < 32 && fbb(s, i * 32 + from) == Some(i * 32 + q),
            None => fbb(s, i * 32 + from) == fbb(s, (i + 1) * 32),
        },
{
    lemma_fbi_char(s[i], from);
    match fbi(s[i], from) {
        Some(q) => {
            assert((i * 32 + q) / 32 == i && (i * 32 + q) % 32 == q);
            assert(sbit(s, i * 32 + q));
            assert forall|j: int| i * 32 + from <= j < i * 32 + q implies !#[trigger] sbit(s, j) by {
                assert(j / 32 == i && j % 32 == j - i * 32);
            }
            lemma_fbb_unique(s, i * 32 + from, i * 32 + q);
        }
        None => {
            assert forall|j: int| i * 32 + from <= j < (i + 1) * 32 implies !#[trigger] sbit(s, j) by {
                assert(j / 32 == i && j % 32 == j - i * 32);
            }
            lemma_fbb_skip(s, i * 32 + from, (i + 1) * 32);
        }
    }
}
pub proof fn lemma_fm_unique(w: World, t: int, lim: int, m: int)
    requires 0 <= t <= m < lim, m <= u32::MAX, bit(w, m as u32), forall|j: int| t <= j < m ==> !#[trigger] bit(w, j as u32),
    ensures first_mark(w, t, lim) == Some(m),
    decreases m - t
{
    if t < m { lemma_fm_unique(w, t + 1, lim, m); }
}
// ---- 2b. the bucket-by-bucket scan of `Consecutive::owner_of` (the loop that `(a..=b).filter_map(..).find_map(..)` is) ----
/// ids without a marker are skipped
pub proof fn lemma_fm_skip(w: World, a: int, b: int, lim: int)
    requires 0 <= a <= b <= lim, forall|j: int| a <= j < b && j <= u32::MAX ==> !#[trigger] bit(w, j as u32),
    ensures first_mark(w, a, lim) == first_mark(w, b, lim),
    decreases b - a
{
    if a < b {
        lemma_fm_skip(w, a + 1, b, lim);
        if a > u32::MAX {
            assert(first_mark(w, a + 1, lim).is_none());
        } else {
            assert(!bit(w, a as u32));
        }
    }
}
/// one step of the scan: searching bucket `bi` from position `from` (what `find_bit_in_bucket` returns, see its contract)
/// either finds the answer of the whole search from id `bi * 3200 + from`, or the search continues at the first id of
/// the next bucket; an absent bucket is skipped.  `buckets_le`: a bucket with more than 100 items would have positions
/// that are ids of the NEXT bucket.
pub proof fn lemma_fm_bucket(w: World, bi: u32, from: int, lim: int)
    requires buckets_le(w), 0 <= from < 3200, (bi + 1) * 3200 <= lim,
    ensures
        //@@ C10:lemma.consec_owner_search_bucket_step
        match bucket_of(w, bi) {
            Some(s) => match fbb(s, from) {
                Some(p) => from <= p < 3200 && (bi * 3200 + p <= u32::MAX ==> first_mark(w, bi * 3200 + from, lim) == Some(bi * 3200 + p)),
                None => first_mark(w, bi * 3200 + from, lim) == first_mark(w, (bi + 1) * 3200, lim),
            },
            None => first_mark(w, bi * 3200 + from, lim) == first_mark(w, (bi + 1) * 3200, lim),
        },
{
    let base = bi * 3200;
    match bucket_of(w, bi) {
        Some(s) => {
            assert(s.len() <= 100);
            lemma_fbb_char(s, from);
            match fbb(s, from) {
                Some(p) => {
                    if base + p <= u32::MAX {
                        let m = (base + p) as u32;
                        assert(m / 3200 == bi && m % 3200 == p);
                        assert(bit(w, m));
                        assert forall|j: int| base + from <= j < base + p implies !#[trigger] bit(w, j as u32) by {
                            let k = j as u32;
                            assert(k / 3200 == bi && k % 3200 == j - base);
                            assert(!sbit(s, j - base));
                        }
                        lemma_fm_unique(w, base + from, lim, base + p);
                    }
                }
                None => {
                    assert forall|j: int| base + from <= j < base + 3200 && j <= u32::MAX implies !#[trigger] bit(w, j as u32) by {
                        let k = j as u32;
                        assert(k / 3200 == bi && k % 3200 == j - base);
                        assert(!sbit(s, j - base));
                    }
                    lemma_fm_skip(w, base + from, base + 3200, lim);
                }
            }
        }
        None => {
            assert forall|j: int| base + from <= j < base + 3200 && j <= u32::MAX implies !#[trigger] bit(w, j as u32) by {
                let k = j as u32;
                assert(k / 3200 == bi);
            }
            lemma_fm_skip(w, base + from, base + 3200, lim);
        }
    }
}
pub proof fn lemma_fm_same(w: World, w2: World, t: int, lim: int)
    requires forall|k: u32| #[trigger] bit(w2, k) == bit(w, k),
    ensures first_mark(w2, t, lim) == first_mark(w, t, lim),
    decreases lim - t
{
    if 0 <= t < lim && t <= u32::MAX { lemma_fm_same(w, w2, t + 1, lim); }
}
/// the inferred owner function depends only on the marker state
pub proof fn lemma_cowner_same(w: World, w2: World)
    requires same_marks(w, w2),
    ensures forall|id: u32| #[trigger] cowner(w2, id) == cowner(w, id), buckets_wf(w) == buckets_wf(w2),
{
    assert forall|k: u32| #[trigger] bit(w2, k) == bit(w, k) by { assert(bucket_of(w2, k / 3200) == bucket_of(w, k / 3200)); }
    assert forall|id: u32| #[trigger] cowner(w2, id) == cowner(w, id) by {
        lemma_fm_same(w, w2, id as int, search_lim(w));
    }
    if buckets_wf(w) {
        assert forall|i: u32| (#[trigger] bucket_of(w2, i)).is_some() implies bucket_of(w2, i).unwrap().len() == 100 by { assert(bucket_of(w, i).is_some()); }
    }
    if buckets_wf(w2) {
        assert forall|i: u32| (#[trigger] bucket_of(w, i)).is_some() implies bucket_of(w, i).unwrap().len() == 100 by { assert(bucket_of(w2, i).is_some()); }
    }
}

// ---- 3. the representation invariant ----
/// C10 (consecutive): the sparse marker structure is sound
pub open spec fn inv_consec(w: World) -> bool {
    let n = counter(w);
    &&& buckets_wf(w)
    // markers only at minted ids
    &&& forall|k: u32| #[trigger] bit(w, k) ==> k < n
    // every marker of a live id carries an Owner entry; burned ids and unmarked ids have none
    &&& forall|k: u32| (#[trigger] cur_owner(w, k)).is_some() <==> bit(w, k) && !is_burned(w, k)
    // only minted ids are burned
    &&& forall|k: u32| #[trigger] is_burned(w, k) ==> k < n
    // the last id of the last batch is marked
    &&& n > 0 ==> bit(w, (n - 1) as u32)
    // the id before a burned one is burned too or carries a marker (the run below a burn was closed)
    &&& forall|k: u32| k > 0 && #[trigger] is_burned(w, k) ==> is_burned(w, (k - 1) as u32) || bit(w, (k - 1) as u32)
}

pub proof fn lemma_lim_ge(w: World)
    ensures counter(w) <= search_lim(w),
{
}

/// no burned id between a live id and its first marker
pub proof fn lemma_no_burned_between(w: World, t: u32, m: int, k: u32)
    requires inv_consec(w), !is_burned(w, t), t < k <= m, forall|j: int| t <= j < m ==> !#[trigger] bit(w, j as u32),
    ensures !is_burned(w, k),
    decreases k - t
{
    if is_burned(w, k) {
        let k1 = (k - 1) as u32;
        assert(!bit(w, k1 as int as u32));
        assert(is_burned(w, k1));
        if k1 > t { lemma_no_burned_between(w, t, m, k1); }
    }
}

/// the statement of `inv_consec` in the property's words: every minted, not burned id has a marker at or after
/// it, that marker is itself live and carries the Owner entry `owner_of` returns
pub proof fn lemma_live_mark(w: World, t: u32) -> (m: u32)
    requires inv_consec(w), t < counter(w), !is_burned(w, t),
    ensures
        //@@ C10:lemma.consec_every_live_id_has_a_live_marker_with_owner
        first_mark(w, t as int, search_lim(w)) == Some(m as int),
        t <= m < counter(w), bit(w, m), !is_burned(w, m), cur_owner(w, m).is_some(),
        cowner(w, t) == cur_owner(w, m),
        forall|j: int| t <= j < m ==> !#[trigger] bit(w, j as u32),
        forall|k: u32| t <= k <= m ==> !#[trigger] is_burned(w, k),
{
    let lim = search_lim(w);
    lemma_fm_char(w, t as int, lim);
    lemma_lim_ge(w);
    let last = (counter(w) - 1) as u32;
    if first_mark(w, t as int, lim).is_none() {
        assert(!bit(w, last as int as u32));
    }
    let mi = first_mark(w, t as int, lim).unwrap();
    let m = mi as u32;
    assert forall|k: u32| t <= k <= m implies !#[trigger] is_burned(w, k) by {
        if k > t { lemma_no_burned_between(w, t, mi, k); }
    }
    m
}

/// a live id between t and t's first marker has the same first marker
pub proof fn lemma_fm_mid(w: World, t: int, lim: int, x: int)
    requires 0 <= t <= x, first_mark(w, t, lim).is_some(), x <= first_mark(w, t, lim).unwrap(),
    ensures first_mark(w, x, lim) == first_mark(w, t, lim),
{
    lemma_fm_char(w, t, lim);
    let m = first_mark(w, t, lim).unwrap();
    lemma_fm_unique(w, x, lim, m);
}

// ---- abstract effect of `update(Some(a), to, id)` on the marker state ----
pub open spec fn upd_marks(w: World, w2: World, a: Address, to: Option<Address>, id: u32) -> bool {
    let pa = prev_applies(w, id);
    &&& counter(w2) == counter(w)
    &&& buckets_wf(w2)
    &&& forall|k: u32| #[trigger] bit(w2, k) == (bit(w, k) || (k == id && to.is_some()) || (pa && k + 1 == id))
    &&& forall|k: u32| #[trigger] cur_owner(w2, k) == (if k == id { to } else if pa && k + 1 == id { Some(a) } else { cur_owner(w, k) })
    &&& forall|k: u32| #[trigger] is_burned(w2, k) == (is_burned(w, k) || (k == id && to.is_none()))
}

pub proof fn lemma_upd_inv(w: World, w2: World, a: Address, to: Option<Address>, id: u32)
    requires inv_consec(w), id < counter(w), !is_burned(w, id), upd_marks(w, w2, a, to, id),
    ensures inv_consec(w2),
{
    let n = counter(w);
    let pa = prev_applies(w, id);
    assert forall|k: u32| #[trigger] bit(w2, k) implies k < n by {}
    assert forall|k: u32| (#[trigger] cur_owner(w2, k)).is_some() <==> bit(w2, k) && !is_burned(w2, k) by {
        assert(cur_owner(w, k).is_some() <==> bit(w, k) && !is_burned(w, k));
    }
    assert forall|k: u32| #[trigger] is_burned(w2, k) implies k < n by {}
    assert(bit(w2, (n - 1) as u32)) by { assert(bit(w, (n - 1) as u32)); }
    assert forall|k: u32| k > 0 && #[trigger] is_burned(w2, k) implies is_burned(w2, (k - 1) as u32) || bit(w2, (k - 1) as u32) by {
        let k1 = (k - 1) as u32;
        if is_burned(w, k) {
            assert(is_burned(w, k1) || bit(w, k1));
            assert(is_burned(w2, k1) == (is_burned(w, k1) || (k1 == id && to.is_none())));
            assert(bit(w2, k1) == (bit(w, k1) || (k1 == id && to.is_some()) || (pa && k1 + 1 == id)));
        } else {
            assert(k == id);
            assert(bit(w2, k1) == (bit(w, k1) || (k1 == id && to.is_some()) || (pa && k1 + 1 == id)));
            assert(is_burned(w2, k1) == (is_burned(w, k1) || (k1 == id && to.is_none())));
            if !pa {
                assert(cur_owner(w, k1).is_some() || is_burned(w, k1));
                assert(cur_owner(w, k1).is_some() <==> bit(w, k1) && !is_burned(w, k1));
            }
        }
    }
}

/// C10: an update changes the inferred owner of exactly `id`
pub proof fn lemma_upd_owner(w: World, w2: World, a: Address, to: Option<Address>, id: u32)
    requires inv_consec(w), id < counter(w), !is_burned(w, id), cowner(w, id) == Some(a), upd_marks(w, w2, a, to, id),
    ensures
        //@@ C10:lemma.consec_update_changes_owner_of_exactly_the_token
        cowner(w2, id) == to,
        forall|j: u32| j != id ==> #[trigger] cowner(w2, j) == cowner(w, j),
{
    let n = counter(w);
    let lim = search_lim(w);
    let pa = prev_applies(w, id);
    lemma_lim_ge(w);
    assert(search_lim(w2) == lim);
    // the token itself
    if to.is_some() {
        assert(bit(w2, id));
        assert(first_mark(w2, id as int, lim) == Some(id as int));
    } else {
        assert(is_burned(w2, id));
    }
    let mid = lemma_live_mark(w, id);
    assert forall|j: u32| j != id implies #[trigger] cowner(w2, j) == cowner(w, j) by {
        assert(is_burned(w2, j) == is_burned(w, j));
        if j < n && !is_burned(w, j) {
            let m = lemma_live_mark(w, j);
            if j > id || m + 1 < id || m + 1 == id {
                // the first marker of j is untouched
                assert(bit(w2, m));
                assert forall|i: int| j <= i < m implies !#[trigger] bit(w2, i as u32) by {
                    assert(!bit(w, i as u32));
                }
                lemma_fm_unique(w2, j as int, lim, m as int);
                if m + 1 == id { assert(cur_owner(w, m).is_some()); assert(!pa); }
                assert(cur_owner(w2, m) == cur_owner(w, m));
            } else {
                // j < id <= m: j and id share their first marker, no marker in [j, id)
                assert(j < id && id <= m);
                lemma_fm_mid(w, j as int, lim, id as int);
                assert(m == mid);
                let p1 = (id - 1) as u32;
                assert(!bit(w, p1 as int as u32));
                assert(cur_owner(w, p1).is_some() <==> bit(w, p1) && !is_burned(w, p1));
                assert(!is_burned(w, p1));
                assert(pa);
                assert(bit(w2, p1));
                assert forall|i: int| j <= i < p1 implies !#[trigger] bit(w2, i as u32) by {
                    assert(!bit(w, i as u32));
                }
                lemma_fm_unique(w2, j as int, lim, p1 as int);
                assert(cur_owner(w2, p1) == Some(a));
            }
        }
    }
}

// ---- abstract effect of `batch_mint` ----
pub open spec fn batch_marks(w: World, w2: World, to: Address, amount: u32) -> bool {
    let last = (counter(w) + amount - 1) as u32;
    &&& counter(w2) == counter(w) + amount
    &&& buckets_wf(w2)
    &&& forall|k: u32| #[trigger] bit(w2, k) == (bit(w, k) || k == last)
    &&& forall|k: u32| #[trigger] cur_owner(w2, k) == (if k == last { Some(to) } else { cur_owner(w, k) })
    &&& forall|k: u32| #[trigger] is_burned(w2, k) == is_burned(w, k)
}
pub proof fn lemma_batch_abstract(w: World, w2: World, to: Address, amount: u32)
    requires inv_consec(w), amount >= 1, counter(w) + amount <= u32::MAX, batch_marks(w, w2, to, amount),
    ensures
        inv_consec(w2),
        //@@ C10:lemma.consec_batch_mint_gives_exactly_the_new_ids_to_the_recipient
        forall|j: u32| #[trigger] cowner(w2, j) == (if j < counter(w) { cowner(w, j) } else if j < counter(w) + amount { Some(to) } else { None }),
{
    let n = counter(w);
    let last = (n + amount - 1) as u32;
    let lim = search_lim(w);
    let lim2 = search_lim(w2);
    lemma_lim_ge(w);
    lemma_lim_ge(w2);
    assert(lim <= lim2);
    assert forall|k: u32| (#[trigger] cur_owner(w2, k)).is_some() <==> bit(w2, k) && !is_burned(w2, k) by {
        assert(cur_owner(w, k).is_some() <==> bit(w, k) && !is_burned(w, k));
        if k == last && is_burned(w, k) { assert(k < n); }
    }
    assert forall|k: u32| k > 0 && #[trigger] is_burned(w2, k) implies is_burned(w2, (k - 1) as u32) || bit(w2, (k - 1) as u32) by {
        let k1 = (k - 1) as u32;
        assert(is_burned(w, k));
        assert(is_burned(w, k1) || bit(w, k1));
        assert(bit(w2, k1) == (bit(w, k1) || k1 == last));
        assert(is_burned(w2, k1) == is_burned(w, k1));
    }
    assert(bit(w2, last));
    assert forall|j: u32| #[trigger] cowner(w2, j) == (if j < n { cowner(w, j) } else if j < n + amount { Some(to) } else { None }) by {
        assert(is_burned(w2, j) == is_burned(w, j));
        if j < n {
            if !is_burned(w, j) {
                let m = lemma_live_mark(w, j);
                assert(bit(w2, m));
                assert forall|i: int| j <= i < m implies !#[trigger] bit(w2, i as u32) by { assert(!bit(w, i as u32)); }
                lemma_fm_unique(w2, j as int, lim2, m as int);
                assert(cur_owner(w2, m) == cur_owner(w, m));
            }
        } else if j < n + amount {
            if is_burned(w, j) { assert(j < n); }
            assert forall|i: int| j <= i < last implies !#[trigger] bit(w2, i as u32) by {
                if bit(w, i as u32) { assert((i as u32) < n); }
            }
            lemma_fm_unique(w2, j as int, lim2, last as int);
        }
    }
}
