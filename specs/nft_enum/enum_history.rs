// =================================================================================================
// history level for the enumerable token: every reachable state satisfies the base invariants
// (balance == number of owned tokens, owner_of == plain ownership map, approvals sound) AND the
// list invariant (C10: total_supply and the index lists contain each existing token exactly once).
// Same ASSUMPTION as the base history: a mint never names an id in use (`op_assume`).
// =================================================================================================

pub enum EStep { Op(EOp), Tick { seq: u32, ts: u64 } }

pub open spec fn is_enum_pkey(k: SV) -> bool {
    let t = sv_tag(k);
    t == sv_tag(k_ot(Address { id: 0 }, 0).sv()) || t == sv_tag(k_oti(0).sv()) || t == sv_tag(k_gt(0).sv()) || t == sv_tag(k_gti(0).sv())
}
pub open spec fn e_genesis(w: World) -> bool {
    &&& genesis(w)
    &&& forall|k: SV| w.persistent.contains_key(k) ==> !is_enum_pkey(k)
    &&& !w.instance.contains_key(k_ts().sv())
}
pub open spec fn e_step_ok(w: World, st: EStep) -> bool {
    match st {
        EStep::Op(op) => eop_guard(w, op) && op_assume(w, base_op(op)) && w.auths =~= Set::empty(),
        EStep::Tick { seq, ts } => seq >= w.ledger_seq,
    }
}
pub open spec fn e_step_post(w: World, st: EStep) -> World {
    match st {
        EStep::Op(op) => World { auths: Set::empty(), ..eop_post(w, op) },
        EStep::Tick { seq, ts } => World { ledger_seq: seq, timestamp: ts, auths: Set::empty(), auth_args: Set::empty(), ..w },
    }
}
pub open spec fn e_run(w0: World, steps: Seq<EStep>) -> World
    decreases steps.len()
{
    if steps.len() == 0 { World { auths: Set::empty(), ..w0 } } else { e_step_post(e_run(w0, steps.drop_last()), steps.last()) }
}
pub open spec fn e_valid(w0: World, steps: Seq<EStep>) -> bool
    decreases steps.len()
{
    steps.len() == 0 || (e_valid(w0, steps.drop_last()) && e_step_ok(e_run(w0, steps.drop_last()), steps.last()))
}
pub open spec fn to_n(st: EStep) -> NStep {
    match st { EStep::Op(op) => NStep::Op(base_op(op)), EStep::Tick { seq, ts } => NStep::Tick { seq: seq, ts: ts } }
}
/// the same reference model as for the base token, driven by the wrapped base operations
pub open spec fn e_model(steps: Seq<EStep>) -> NModel
    decreases steps.len()
{
    if steps.len() == 0 { m0() } else { m_step(e_model(steps.drop_last()), to_n(steps.last())) }
}

// ---- the list writes do not disturb the owner count ----
pub proof fn lemma_enum_key_not_owner(ek: NFTEnumerableStorageKey)
    ensures !is_owner_key(ek.sv()),
{
    assert(sv_tag(ek.sv()) != sv_tag(k_owner(0).sv()));
}
pub proof fn lemma_count_enum_writes(w: World, a: Address)
    ensures
        forall|ek: NFTEnumerableStorageKey, v: SV| #[trigger] owned_count(pset(w, ek, v), a) == owned_count(w, a),
        forall|ek: NFTEnumerableStorageKey| #[trigger] owned_count(pdel(w, ek), a) == owned_count(w, a),
{
    assert forall|ek: NFTEnumerableStorageKey, v: SV| #[trigger] owned_count(pset(w, ek, v), a) == owned_count(w, a) by {
        lemma_enum_key_not_owner(ek);
        lemma_psum_insert(w.persistent, own_proj(a), ek.sv(), v);
    }
    assert forall|ek: NFTEnumerableStorageKey| #[trigger] owned_count(pdel(w, ek), a) == owned_count(w, a) by {
        lemma_enum_key_not_owner(ek);
        lemma_psum_remove_key(w.persistent, own_proj(a), ek.sv());
    }
}
pub proof fn lemma_count_add_owner(w: World, o: Address, id: u32, a: Address)
    ensures owned_count(add_owner_post(w, o, id), a) == owned_count(w, a),
{
    let i = (bal(w, o) - 1) as u32;
    let wa = pset(w, k_ot(o, i), id.sv());
    lemma_count_enum_writes(w, a);
    lemma_count_enum_writes(wa, a);
    assert(owned_count(wa, a) == owned_count(w, a));
}
pub proof fn lemma_count_remove_owner(w: World, o: Address, id: u32, a: Address)
    ensures owned_count(remove_owner_post(w, o, id), a) == owned_count(w, a),
{
    let idx = oidx(w, id).unwrap();
    let last = bal(w, o);
    lemma_count_enum_writes(w, a);
    let w1 = if idx != last {
        let lt = otok(w, o, last).unwrap();
        let wa = pset(w, k_ot(o, idx), lt.sv());
        lemma_count_enum_writes(wa, a);
        assert(owned_count(wa, a) == owned_count(w, a));
        pset(wa, k_oti(lt), idx.sv())
    } else { w };
    assert(owned_count(w1, a) == owned_count(w, a));
    lemma_count_enum_writes(w1, a);
    let w2 = pdel(w1, k_ot(o, last));
    assert(owned_count(w2, a) == owned_count(w1, a));
    lemma_count_enum_writes(w2, a);
}
pub proof fn lemma_count_add_global(w: World, id: u32, n: u32, a: Address)
    ensures owned_count(add_global_post(w, id, n), a) == owned_count(w, a),
{
    let wa = pset(w, k_gt(n), id.sv());
    lemma_count_enum_writes(w, a);
    lemma_count_enum_writes(wa, a);
    assert(owned_count(wa, a) == owned_count(w, a));
}
pub proof fn lemma_count_remove_global(w: World, id: u32, last: u32, a: Address)
    ensures owned_count(remove_global_post(w, id, last), a) == owned_count(w, a),
{
    let idx = gidx(w, id).unwrap();
    let lt = gtok(w, last).unwrap();
    lemma_count_enum_writes(w, a);
    let w1 = pset(w, k_gt(idx), lt.sv());
    assert(owned_count(w1, a) == owned_count(w, a));
    lemma_count_enum_writes(w1, a);
    let w2 = pset(w1, k_gti(lt), idx.sv());
    assert(owned_count(w2, a) == owned_count(w1, a));
    lemma_count_enum_writes(w2, a);
    let w3 = pdel(w2, k_gt(last));
    assert(owned_count(w3, a) == owned_count(w2, a));
    lemma_count_enum_writes(w3, a);
}
pub proof fn lemma_count_enum_part(w1: World, op: NOp, id: u32, a: Address)
    ensures owned_count(enum_part(w1, op, id), a) == owned_count(w1, a),
{
    if is_mint(op) {
        let o = op_to(op).unwrap();
        let wa = add_owner_post(w1, o, id);
        lemma_count_add_owner(w1, o, id, a);
        let wb = inc_supply_post(wa);
        assert(wb.persistent == wa.persistent);
        lemma_count_add_global(wb, id, tsupply(wa), a);
    } else if is_move(op) && op_to(op).is_none() {
        let o = op_from(op).unwrap();
        let wa = remove_owner_post(w1, o, id);
        lemma_count_remove_owner(w1, o, id, a);
        let wb = dec_supply_post(wa);
        assert(wb.persistent == wa.persistent);
        lemma_count_remove_global(wb, id, (tsupply(wa) - 1) as u32, a);
    } else if is_move(op) && op_from(op) != op_to(op) {
        let wa = remove_owner_post(w1, op_from(op).unwrap(), id);
        lemma_count_remove_owner(w1, op_from(op).unwrap(), id, a);
        lemma_count_add_owner(wa, op_to(op).unwrap(), id, a);
    } else {}
}

pub proof fn lemma_agrees_base_same(w: World, w2: World, m: NModel)
    requires agrees(w, m), base_same(w, w2),
    ensures agrees(w2, m),
{
    assert forall|id: u32| #[trigger] cur_owner(w2, id) == mget(m.owner, id) by { assert(cur_owner(w, id) == mget(m.owner, id)); }
    assert forall|id: u32| (#[trigger] appr_raw(w2, id)).is_some() implies m.grant.contains_key(id)
            && m.grant[id].approved == appr_raw(w2, id).unwrap().approved && m.grant[id].live == appr_raw(w2, id).unwrap().live_until_ledger by {
        assert(appr_raw(w2, id) == appr_raw(w, id));
    }
    assert forall|o: Address, s: Address| (#[trigger] oper_raw(w2, o, s)).is_some() implies mget(m.oper, (o, s)) == oper_raw(w2, o, s) by {
        assert(oper_raw(w2, o, s) == oper_raw(w, o, s));
    }
}

pub proof fn lemma_enum_view_frame(w: World, w2: World)
    requires w2.same_storage(w), inv_enum(w),
    ensures inv_enum(w2),
{
    assert(enum_same(w, w2));
    assert(tsupply(w2) == tsupply(w));
    assert forall|id: u32| #[trigger] cur_owner(w2, id) == cur_owner(w, id) by {}
    assert forall|a: Address| #[trigger] bal(w2, a) == bal(w, a) by {}
    lemma_part_none(w, w2);
}

pub proof fn lemma_e_genesis(w0: World)
    requires e_genesis(w0)
    ensures inv_enum(e_run(w0, Seq::empty())), e_run(w0, Seq::empty()) == run(w0, Seq::empty()),
{
    let w = e_run(w0, Seq::empty());
    assert forall|o: Address, i: u32| (#[trigger] otok(w, o, i)).is_none() by { assert(is_enum_pkey(k_ot(o, i).sv())); }
    assert forall|id: u32| (#[trigger] oidx(w, id)).is_none() by { assert(is_enum_pkey(k_oti(id).sv())); }
    assert forall|i: u32| (#[trigger] gtok(w, i)).is_none() by { assert(is_enum_pkey(k_gt(i).sv())); }
    assert forall|id: u32| (#[trigger] gidx(w, id)).is_none() by { assert(is_enum_pkey(k_gti(id).sv())); }
    assert forall|id: u32| (#[trigger] cur_owner(w, id)).is_none() by { lemma_owner_key_facts(id); }
    assert forall|a: Address| (#[trigger] bal(w, a)) == 0 by {
        assert(k_bal(a).sv()->Vec_0.len() == 2);
        assert(is_bal_key(k_bal(a).sv()));
    }
    assert(tsupply(w) == 0);
}

pub proof fn lemma_e_step(w: World, st: EStep, m: NModel)
    requires e_step_ok(w, st), w.ledger_ok(), inv_own(w), inv_enum(w), agrees(w, m),
    ensures inv_own(e_step_post(w, st)), inv_enum(e_step_post(w, st)), agrees(e_step_post(w, st), m_step(m, to_n(st))),
        e_step_post(w, st).ledger_ok(),
{
    let w2 = e_step_post(w, st);
    match st {
        EStep::Op(op) => {
            let nop = base_op(op);
            let w1 = op_post(w, nop);
            let wf = eop_post(w, op);
            lemma_op_c10(w, nop);
            lemma_op_agrees(w, nop, m);
            lemma_eop_inv(w, op);
            lemma_agrees_base_same(w1, wf, m_op(m, nop));
            assert forall|a: Address| (#[trigger] bal(wf, a)) as int == owned_count(wf, a) by {
                assert(bal(w1, a) as int == owned_count(w1, a));
                assert(bal(wf, a) == bal(w1, a));
                lemma_count_enum_part(w1, nop, eop_id(w, op), a);
            }
            lemma_view_frame(wf, w2);
            lemma_enum_view_frame(wf, w2);
        }
        EStep::Tick { seq, ts } => {
            lemma_step(w, NStep::Tick { seq: seq, ts: ts }, m);
            assert(w2 == step_post(w, NStep::Tick { seq: seq, ts: ts }));
            lemma_enum_view_frame(w, w2);
        }
    }
}

/// "contain each existing token exactly once", spelled out from the bijections
pub open spec fn lists_exact(w: World) -> bool {
    // global list: every existing token sits at exactly one index below total_supply, nothing else is listed
    &&& forall|id: u32| (#[trigger] cur_owner(w, id)).is_some() ==> gidx(w, id).is_some() && gidx(w, id).unwrap() < tsupply(w)
            && gtok(w, gidx(w, id).unwrap()) == Some(id)
    &&& forall|i: u32| (#[trigger] gtok(w, i)).is_some() ==> i < tsupply(w) && cur_owner(w, gtok(w, i).unwrap()).is_some() && gidx(w, gtok(w, i).unwrap()) == Some(i)
    &&& forall|i: u32| i < tsupply(w) ==> (#[trigger] gtok(w, i)).is_some()
    // per-owner lists: every token of `o` sits at exactly one index below balance(o) of o's list and of no other list
    &&& forall|id: u32| (#[trigger] cur_owner(w, id)).is_some() ==> oidx(w, id).is_some()
            && oidx(w, id).unwrap() < bal(w, cur_owner(w, id).unwrap())
            && otok(w, cur_owner(w, id).unwrap(), oidx(w, id).unwrap()) == Some(id)
    &&& forall|o: Address, i: u32| (#[trigger] otok(w, o, i)).is_some() ==> i < bal(w, o) && cur_owner(w, otok(w, o, i).unwrap()) == Some(o) && oidx(w, otok(w, o, i).unwrap()) == Some(i)
    &&& forall|o: Address, i: u32| i < bal(w, o) ==> (#[trigger] otok(w, o, i)).is_some()
}
pub proof fn lemma_lists_exact(w: World)
    requires inv_enum(w),
    ensures
        //@@ C10:lemma.enum_lists_contain_each_token_exactly_once
        lists_exact(w),
{
    assert forall|i: u32| (#[trigger] gtok(w, i)).is_some() implies i < tsupply(w) && cur_owner(w, gtok(w, i).unwrap()).is_some() && gidx(w, gtok(w, i).unwrap()) == Some(i) by {
        let id = gtok(w, i).unwrap();
        if i >= tsupply(w) { assert(gtok(w, i).is_none()); }
        assert(gidx(w, id) == Some(i));
        assert(cur_owner(w, id).is_some() <==> gidx(w, id).is_some());
    }
    assert forall|id: u32| (#[trigger] cur_owner(w, id)).is_some() implies gidx(w, id).is_some() && gidx(w, id).unwrap() < tsupply(w)
            && gtok(w, gidx(w, id).unwrap()) == Some(id) by {
        assert(gidx(w, id).is_some());
    }
    assert forall|o: Address, i: u32| (#[trigger] otok(w, o, i)).is_some() implies i < bal(w, o) && cur_owner(w, otok(w, o, i).unwrap()) == Some(o) && oidx(w, otok(w, o, i).unwrap()) == Some(i) by {
        if i >= bal(w, o) { assert(otok(w, o, i).is_none()); }
    }
}

pub proof fn lemma_e_history(w0: World, steps: Seq<EStep>)
    requires e_genesis(w0), e_valid(w0, steps),
    ensures
        //@@ C10:enum.history.balance_is_number_of_owned_tokens
        inv_own(e_run(w0, steps)),
        //@@ C10:enum.history.lists_mirror_ownership
        inv_enum(e_run(w0, steps)) && lists_exact(e_run(w0, steps)),
        //@@ C10:enum.history.owner_of_equals_plain_ownership_map
        forall|id: u32| #[trigger] cur_owner(e_run(w0, steps), id) == mget(e_model(steps).owner, id),
        //@@ C11:enum.history.approvals_sound
        approvals_sound(e_run(w0, steps), e_model(steps)),
        agrees(e_run(w0, steps), e_model(steps)),
        e_run(w0, steps).ledger_ok(),
    decreases steps.len()
{
    if steps.len() == 0 {
        lemma_genesis(w0);
        lemma_e_genesis(w0);
    } else {
        let pre = steps.drop_last();
        lemma_e_history(w0, pre);
        lemma_e_step(e_run(w0, pre), steps.last(), e_model(pre));
    }
    lemma_agrees_sound(e_run(w0, steps), e_model(steps));
    lemma_lists_exact(e_run(w0, steps));
}

// ---- non-vacuity: mint, mint, transfer, burn is a valid history of the enumerable token ----
pub proof fn lemma_e_witness()
    ensures
        e_genesis(w_empty()),
        ({
            let a = Address { id: 1 }; let b = Address { id: 2 };
            let steps = seq![EStep::Op(EOp::SeqMint { to: a }), EStep::Op(EOp::Transfer { from: a, to: b, id: 0 })];
            e_valid(w_empty(), steps) && cur_owner(e_run(w_empty(), steps), 0) == Some(b) && tsupply(e_run(w_empty(), steps)) == 1
                && otok(e_run(w_empty(), steps), b, 0) == Some(0u32) && otok(e_run(w_empty(), steps), a, 0).is_none()
        }),
{
    broadcast use sdk_store, enum_store;
    let a = Address { id: 1 }; let b = Address { id: 2 };
    let s1 = EStep::Op(EOp::SeqMint { to: a });
    let s2 = EStep::Op(EOp::Transfer { from: a, to: b, id: 0 });
    let steps = seq![s1, s2];
    let w0 = w_empty();
    lemma_witness();
    let e0 = Seq::<EStep>::empty();
    assert(steps.drop_last() =~= seq![s1]);
    assert(seq![s1].drop_last() =~= e0);
    assert(seq![s1].last() == s1);
    let r0 = e_run(w0, e0);
    assert(r0 == w0);
    assert(counter(r0) == 0 && bal(r0, a) == 0 && tsupply(r0) == 0);
    assert(cur_owner(r0, 0) == None::<Address>);
    let b1 = op_post(r0, NOp::SeqMint { to: a });
    assert(op_guard(r0, NOp::SeqMint { to: a }));
    lemma_base_op_enum_frame(r0, NOp::SeqMint { to: a });
    assert(bal(b1, a) == 1);
    lemma_add_owner_pointwise(b1, a, 0);
    assert(tsupply(add_owner_post(b1, a, 0)) == 0);
    assert(e_step_ok(r0, s1));
    let r1 = e_run(w0, seq![s1]);
    assert(r1 == e_step_post(r0, s1));
    assert(cur_owner(r1, 0) == Some(a));
    assert(bal(r1, a) == 1 && bal(r1, b) == 0);
    assert(oidx(r1, 0) == Some(0u32) && otok(r1, a, 0) == Some(0u32) && tsupply(r1) == 1);
    assert(e_valid(w0, e0));
    assert(e_valid(w0, seq![s1]));
    let b2 = op_post(r1, NOp::Transfer { from: a, to: b, id: 0 });
    assert(bal(b2, a) == 0 && bal(b2, b) == 1);
    assert(oidx(b2, 0) == Some(0u32));
    assert(remove_owner_guard(b2, a, 0));
    let b3 = remove_owner_post(b2, a, 0);
    assert(bal(b3, b) == 1);
    assert(e_step_ok(r1, s2));
}
