// =================================================================================================
// spec pack `nft_enum` — enumerable extension (C10: lists mirror ownership; C11 carried over from
// the base functions the entry points wrap). Uses the base views of ../nft/nft.rs.
// =================================================================================================

// ---- typed keys and views ----
pub open spec fn k_ot(o: Address, i: u32) -> NFTEnumerableStorageKey { NFTEnumerableStorageKey::OwnerTokens(OwnerTokensKey { owner: o, index: i }) }
pub open spec fn k_oti(id: u32) -> NFTEnumerableStorageKey { NFTEnumerableStorageKey::OwnerTokensIndex(id) }
pub open spec fn k_gt(i: u32) -> NFTEnumerableStorageKey { NFTEnumerableStorageKey::GlobalTokens(i) }
pub open spec fn k_gti(id: u32) -> NFTEnumerableStorageKey { NFTEnumerableStorageKey::GlobalTokensIndex(id) }
pub open spec fn k_ts() -> NFTEnumerableStorageKey { NFTEnumerableStorageKey::TotalSupply }

/// i-th token of owner `o`
pub open spec fn otok(w: World, o: Address, i: u32) -> Option<u32> { dec::<u32>(pget(w, k_ot(o, i))) }
/// position of token `id` in its owner's list
pub open spec fn oidx(w: World, id: u32) -> Option<u32> { dec::<u32>(pget(w, k_oti(id))) }
/// i-th token of the global list
pub open spec fn gtok(w: World, i: u32) -> Option<u32> { dec::<u32>(pget(w, k_gt(i))) }
/// position of token `id` in the global list
pub open spec fn gidx(w: World, id: u32) -> Option<u32> { dec::<u32>(pget(w, k_gti(id))) }
pub open spec fn tsupply(w: World) -> u32 { match dec::<u32>(iget(w, k_ts())) { Some(c) => c, None => 0 } }

// ---- exact successor states of the helpers ----
pub open spec fn inc_supply_post(w: World) -> World { iset(w, k_ts(), ((tsupply(w) + 1) as u32).sv()) }
pub open spec fn dec_supply_post(w: World) -> World { iset(w, k_ts(), ((tsupply(w) - 1) as u32).sv()) }

pub open spec fn add_owner_post(w: World, o: Address, id: u32) -> World {
    let i = (bal(w, o) - 1) as u32;
    pset(pset(w, k_ot(o, i), id.sv()), k_oti(id), i.sv())
}
pub open spec fn add_owner_guard(w: World, o: Address) -> bool { bal(w, o) >= 1 }

pub open spec fn remove_owner_post(w: World, o: Address, id: u32) -> World {
    let idx = oidx(w, id).unwrap();
    let last = bal(w, o);
    let w1 = if idx != last {
        let lt = otok(w, o, last).unwrap();
        pset(pset(w, k_ot(o, idx), lt.sv()), k_oti(lt), idx.sv())
    } else { w };
    pdel(pdel(w1, k_ot(o, last)), k_oti(id))
}
pub open spec fn remove_owner_guard(w: World, o: Address, id: u32) -> bool {
    oidx(w, id).is_some() && (oidx(w, id).unwrap() != bal(w, o) ==> otok(w, o, bal(w, o)).is_some())
}

pub open spec fn add_global_post(w: World, id: u32, n: u32) -> World {
    pset(pset(w, k_gt(n), id.sv()), k_gti(id), n.sv())
}
pub open spec fn remove_global_post(w: World, id: u32, last: u32) -> World {
    let idx = gidx(w, id).unwrap();
    let lt = gtok(w, last).unwrap();
    pdel(pdel(pset(pset(w, k_gt(idx), lt.sv()), k_gti(lt), idx.sv()), k_gt(last)), k_gti(id))
}
pub open spec fn remove_global_guard(w: World, id: u32, last: u32) -> bool {
    gidx(w, id).is_some() && gtok(w, last).is_some()
}

pub open spec fn add_enums_post(w: World, o: Address, id: u32) -> World {
    let w1 = add_owner_post(w, o, id);
    add_global_post(inc_supply_post(w1), id, tsupply(w1))
}
pub open spec fn add_enums_guard(w: World, o: Address, id: u32) -> bool {
    add_owner_guard(w, o) && tsupply(add_owner_post(w, o, id)) < u32::MAX
}
pub open spec fn remove_enums_post(w: World, o: Address, id: u32) -> World {
    let w1 = remove_owner_post(w, o, id);
    remove_global_post(dec_supply_post(w1), id, (tsupply(w1) - 1) as u32)
}
pub open spec fn remove_enums_guard(w: World, o: Address, id: u32) -> bool {
    let w1 = remove_owner_post(w, o, id);
    remove_owner_guard(w, o, id) && tsupply(w1) >= 1 && remove_global_guard(dec_supply_post(w1), id, (tsupply(w1) - 1) as u32)
}

// ---- the public operations of the enumerable token ----
pub enum EOp {
    /// explicit id (`non_sequential_mint`); unused id is the integrator's documented duty
    Mint { to: Address, id: u32 },
    SeqMint { to: Address },
    Transfer { from: Address, to: Address, id: u32 },
    TransferFrom { spender: Address, from: Address, to: Address, id: u32 },
    Burn { from: Address, id: u32 },
    BurnFrom { spender: Address, from: Address, id: u32 },
    /// approvals are not overridden by the extension: the base functions are used as they are
    Approve { approver: Address, approved: Address, id: u32, live: u32 },
    ApproveForAll { owner: Address, operator: Address, live: u32 },
}
/// the base operation an enumerable entry point wraps
pub open spec fn base_op(op: EOp) -> NOp {
    match op {
        EOp::Mint { to, id } => NOp::Mint { to: to, id: id },
        EOp::SeqMint { to } => NOp::SeqMint { to: to },
        EOp::Transfer { from, to, id } => NOp::Transfer { from: from, to: to, id: id },
        EOp::TransferFrom { spender, from, to, id } => NOp::TransferFrom { spender: spender, from: from, to: to, id: id },
        EOp::Burn { from, id } => NOp::Burn { from: from, id: id },
        EOp::BurnFrom { spender, from, id } => NOp::BurnFrom { spender: spender, from: from, id: id },
        EOp::Approve { approver, approved, id, live } => NOp::Approve { approver: approver, approved: approved, id: id, live: live },
        EOp::ApproveForAll { owner, operator, live } => NOp::ApproveForAll { owner: owner, operator: operator, live: live },
    }
}
/// the list maintenance performed after the base operation (on the state `w1` the base operation left)
pub open spec fn enum_part(w1: World, op: NOp, id: u32) -> World {
    if is_mint(op) { add_enums_post(w1, op_to(op).unwrap(), id) }
    else if is_move(op) && op_to(op).is_none() { remove_enums_post(w1, op_from(op).unwrap(), id) }
    else if is_move(op) && op_from(op) != op_to(op) { add_owner_post(remove_owner_post(w1, op_from(op).unwrap(), id), op_to(op).unwrap(), id) }
    else { w1 }
}
pub open spec fn enum_part_guard(w1: World, op: NOp, id: u32) -> bool {
    if is_mint(op) { add_enums_guard(w1, op_to(op).unwrap(), id) }
    else if is_move(op) && op_to(op).is_none() { remove_enums_guard(w1, op_from(op).unwrap(), id) }
    else if is_move(op) && op_from(op) != op_to(op) {
        remove_owner_guard(w1, op_from(op).unwrap(), id) && add_owner_guard(remove_owner_post(w1, op_from(op).unwrap(), id), op_to(op).unwrap())
    }
    else { true }
}
pub open spec fn eop_post(w: World, op: EOp) -> World {
    enum_part(op_post(w, base_op(op)), base_op(op), match op_token(w, base_op(op)) { Some(id) => id, None => 0 })
}
pub open spec fn eop_guard(w: World, op: EOp) -> bool {
    op_guard(w, base_op(op))
    && enum_part_guard(op_post(w, base_op(op)), base_op(op), match op_token(w, base_op(op)) { Some(id) => id, None => 0 })
}
