// =================================================================================================
// enumerable extension: the global list and every per-owner list are index<->token bijections
// of length total_supply / balance, and every helper and entry point keeps them so (C10).
// =================================================================================================

// ---- keys of the two enum types never collide (T7 encodes the variant name) ----
pub proof fn lemma_keys_disjoint(ek: NFTEnumerableStorageKey, nk: NFTStorageKey)
    ensures ek.sv() != nk.sv(),
{
    assert(sv_tag(ek.sv()) != sv_tag(nk.sv()));
}
pub broadcast proof fn lemma_en_over_base_set(w: World, k: NFTStorageKey, v: SV, k2: NFTEnumerableStorageKey)
    ensures #[trigger] pget(pset(w, k, v), k2) == pget(w, k2),
{ lemma_keys_disjoint(k2, k); }
pub broadcast proof fn lemma_en_over_base_del(w: World, k: NFTStorageKey, k2: NFTEnumerableStorageKey)
    ensures #[trigger] pget(pdel(w, k), k2) == pget(w, k2),
{ lemma_keys_disjoint(k2, k); }
pub broadcast proof fn lemma_base_over_en_set(w: World, k: NFTEnumerableStorageKey, v: SV, k2: NFTStorageKey)
    ensures #[trigger] pget(pset(w, k, v), k2) == pget(w, k2),
{ lemma_keys_disjoint(k, k2); }
pub broadcast proof fn lemma_base_over_en_del(w: World, k: NFTEnumerableStorageKey, k2: NFTStorageKey)
    ensures #[trigger] pget(pdel(w, k), k2) == pget(w, k2),
{ lemma_keys_disjoint(k, k2); }
pub broadcast proof fn lemma_ts_over_ctr(w: World, v: SV)
    ensures #[trigger] iget(iset(w, k_ctr(), v), k_ts()) == iget(w, k_ts()),
{ assert(sv_tag(k_ctr().sv()) != sv_tag(k_ts().sv())); }
pub broadcast proof fn lemma_ctr_over_ts(w: World, v: SV)
    ensures #[trigger] iget(iset(w, k_ts(), v), k_ctr()) == iget(w, k_ctr()),
{ assert(sv_tag(k_ctr().sv()) != sv_tag(k_ts().sv())); }
pub broadcast group enum_store {
    lemma_en_over_base_set, lemma_en_over_base_del, lemma_base_over_en_set, lemma_base_over_en_del, lemma_ts_over_ctr, lemma_ctr_over_ts,
}

// ---- frames ----
pub open spec fn enum_same(w: World, w2: World) -> bool {
    &&& forall|o: Address, i: u32| #[trigger] otok(w2, o, i) == otok(w, o, i)
    &&& forall|id: u32| #[trigger] oidx(w2, id) == oidx(w, id)
    &&& forall|i: u32| #[trigger] gtok(w2, i) == gtok(w, i)
    &&& forall|id: u32| #[trigger] gidx(w2, id) == gidx(w, id)
}
pub open spec fn glob_same(w: World, w2: World) -> bool {
    &&& forall|i: u32| #[trigger] gtok(w2, i) == gtok(w, i)
    &&& forall|id: u32| #[trigger] gidx(w2, id) == gidx(w, id)
}
pub open spec fn own_same(w: World, w2: World) -> bool {
    &&& forall|o: Address, i: u32| #[trigger] otok(w2, o, i) == otok(w, o, i)
    &&& forall|id: u32| #[trigger] oidx(w2, id) == oidx(w, id)
}
/// the base token's view is the same in both worlds
pub open spec fn base_same(w: World, w2: World) -> bool {
    &&& forall|id: u32| #[trigger] cur_owner(w2, id) == cur_owner(w, id)
    &&& forall|a: Address| #[trigger] bal(w2, a) == bal(w, a)
    &&& forall|id: u32| #[trigger] appr_raw(w2, id) == appr_raw(w, id)
    &&& forall|o: Address, s: Address| #[trigger] oper_raw(w2, o, s) == oper_raw(w, o, s)
    &&& counter(w2) == counter(w)
    &&& w2.auths == w.auths && w2.events == w.events && w2.same_ledger(w)
}

// ---- the invariant ----
/// per-owner lists stored in `w` enumerate the ownership reported by `wr`
pub open spec fn ol_inv(w: World, wr: World) -> bool {
    &&& forall|id: u32| (#[trigger] cur_owner(wr, id)).is_some() ==> oidx(w, id).is_some()
            && oidx(w, id).unwrap() < bal(wr, cur_owner(wr, id).unwrap())
            && otok(w, cur_owner(wr, id).unwrap(), oidx(w, id).unwrap()) == Some(id)
    &&& forall|o: Address, i: u32| i < bal(wr, o) ==> (#[trigger] otok(w, o, i)).is_some()
            && cur_owner(wr, otok(w, o, i).unwrap()) == Some(o) && oidx(w, otok(w, o, i).unwrap()) == Some(i)
    &&& forall|o: Address, i: u32| i >= bal(wr, o) ==> (#[trigger] otok(w, o, i)).is_none()
    &&& forall|id: u32| cur_owner(wr, id).is_none() ==> (#[trigger] oidx(w, id)).is_none()
}
/// the global list stored in `w` has length `n` and enumerates the tokens that exist in `wr`
pub open spec fn gl_inv(w: World, n: int, wr: World) -> bool {
    &&& forall|id: u32| (#[trigger] gidx(w, id)).is_some() ==> gidx(w, id).unwrap() < n && gtok(w, gidx(w, id).unwrap()) == Some(id)
    &&& forall|i: u32| i < n ==> (#[trigger] gtok(w, i)).is_some() && gidx(w, gtok(w, i).unwrap()) == Some(i)
    &&& forall|i: u32| i >= n ==> (#[trigger] gtok(w, i)).is_none()
    &&& forall|id: u32| (#[trigger] cur_owner(wr, id)).is_some() <==> gidx(w, id).is_some()
}
/// C10 (enumerable): total_supply and the index lists contain each existing token exactly once
pub open spec fn inv_enum(w: World) -> bool { ol_inv(w, w) && gl_inv(w, tsupply(w) as int, w) }

pub proof fn lemma_ol_frame(w: World, wr: World, w2: World, wr2: World)
    requires ol_inv(w, wr), own_same(w, w2),
        forall|id: u32| #[trigger] cur_owner(wr2, id) == cur_owner(wr, id),
        forall|a: Address| #[trigger] bal(wr2, a) == bal(wr, a),
    ensures ol_inv(w2, wr2),
{
    assert forall|id: u32| (#[trigger] cur_owner(wr2, id)).is_some() implies oidx(w2, id).is_some()
            && oidx(w2, id).unwrap() < bal(wr2, cur_owner(wr2, id).unwrap())
            && otok(w2, cur_owner(wr2, id).unwrap(), oidx(w2, id).unwrap()) == Some(id) by {
        assert(cur_owner(wr, id).is_some());
        assert(oidx(w2, id) == oidx(w, id));
        assert(otok(w2, cur_owner(wr, id).unwrap(), oidx(w, id).unwrap()) == otok(w, cur_owner(wr, id).unwrap(), oidx(w, id).unwrap()));
    }
    assert forall|o: Address, i: u32| i < bal(wr2, o) implies (#[trigger] otok(w2, o, i)).is_some()
            && cur_owner(wr2, otok(w2, o, i).unwrap()) == Some(o) && oidx(w2, otok(w2, o, i).unwrap()) == Some(i) by {
        assert(otok(w2, o, i) == otok(w, o, i));
        assert(i < bal(wr, o));
        let t = otok(w, o, i).unwrap();
        assert(oidx(w2, t) == oidx(w, t));
        assert(cur_owner(wr2, t) == cur_owner(wr, t));
    }
    assert forall|o: Address, i: u32| i >= bal(wr2, o) implies (#[trigger] otok(w2, o, i)).is_none() by {
        assert(otok(w2, o, i) == otok(w, o, i));
        assert(i >= bal(wr, o));
    }
    assert forall|id: u32| cur_owner(wr2, id).is_none() implies (#[trigger] oidx(w2, id)).is_none() by {
        assert(oidx(w2, id) == oidx(w, id));
        assert(cur_owner(wr, id).is_none());
    }
}
pub proof fn lemma_gl_frame(w: World, n: int, wr: World, w2: World, wr2: World)
    requires gl_inv(w, n, wr), glob_same(w, w2),
        forall|id: u32| (#[trigger] cur_owner(wr2, id)).is_some() == cur_owner(wr, id).is_some(),
    ensures gl_inv(w2, n, wr2),
{
    assert forall|id: u32| (#[trigger] gidx(w2, id)).is_some() implies gidx(w2, id).unwrap() < n && gtok(w2, gidx(w2, id).unwrap()) == Some(id) by {
        assert(gidx(w2, id) == gidx(w, id));
        assert(gtok(w2, gidx(w, id).unwrap()) == gtok(w, gidx(w, id).unwrap()));
    }
    assert forall|i: u32| i < n implies (#[trigger] gtok(w2, i)).is_some() && gidx(w2, gtok(w2, i).unwrap()) == Some(i) by {
        assert(gtok(w2, i) == gtok(w, i));
        assert(gidx(w2, gtok(w, i).unwrap()) == gidx(w, gtok(w, i).unwrap()));
    }
    assert forall|i: u32| i >= n implies (#[trigger] gtok(w2, i)).is_none() by { assert(gtok(w2, i) == gtok(w, i)); }
    assert forall|id: u32| (#[trigger] cur_owner(wr2, id)).is_some() <==> gidx(w2, id).is_some() by {
        assert(gidx(w2, id) == gidx(w, id));
        assert(cur_owner(wr, id).is_some() <==> gidx(w, id).is_some());
    }
}

// ---- pointwise descriptions of the four list helpers ----
pub proof fn lemma_add_owner_pointwise(w: World, o: Address, id: u32)
    requires add_owner_guard(w, o),
    ensures ({
        let w2 = add_owner_post(w, o, id); let i = (bal(w, o) - 1) as u32;
        &&& forall|o2: Address, j: u32| #[trigger] otok(w2, o2, j) == (if o2 == o && j == i { Some(id) } else { otok(w, o2, j) })
        &&& forall|id2: u32| #[trigger] oidx(w2, id2) == (if id2 == id { Some(i) } else { oidx(w, id2) })
        &&& glob_same(w, w2) && base_same(w, w2) && tsupply(w2) == tsupply(w)
    }),
{
    broadcast use sdk_store, enum_store;
}
pub proof fn lemma_remove_owner_pointwise(w: World, o: Address, id: u32)
    requires remove_owner_guard(w, o, id),
    ensures ({
        let w2 = remove_owner_post(w, o, id); let idx = oidx(w, id).unwrap(); let last = bal(w, o);
        let lt = otok(w, o, last).unwrap();
        &&& forall|o2: Address, j: u32| #[trigger] otok(w2, o2, j) ==
                (if o2 == o && j == last { None } else if o2 == o && j == idx { Some(lt) } else { otok(w, o2, j) })
        &&& forall|id2: u32| #[trigger] oidx(w2, id2) ==
                (if id2 == id { None } else if id2 == lt && idx != last { Some(idx) } else { oidx(w, id2) })
        &&& glob_same(w, w2) && base_same(w, w2) && tsupply(w2) == tsupply(w)
    }),
{
    broadcast use sdk_store, enum_store;
}
pub proof fn lemma_add_global_pointwise(w: World, id: u32, n: u32)
    ensures ({
        let w2 = add_global_post(w, id, n);
        &&& forall|j: u32| #[trigger] gtok(w2, j) == (if j == n { Some(id) } else { gtok(w, j) })
        &&& forall|id2: u32| #[trigger] gidx(w2, id2) == (if id2 == id { Some(n) } else { gidx(w, id2) })
        &&& own_same(w, w2) && base_same(w, w2) && tsupply(w2) == tsupply(w)
    }),
{
    broadcast use sdk_store, enum_store;
}
pub proof fn lemma_remove_global_pointwise(w: World, id: u32, last: u32)
    requires remove_global_guard(w, id, last),
    ensures ({
        let w2 = remove_global_post(w, id, last); let idx = gidx(w, id).unwrap(); let lt = gtok(w, last).unwrap();
        &&& forall|j: u32| #[trigger] gtok(w2, j) == (if j == last { None } else if j == idx { Some(lt) } else { gtok(w, j) })
        &&& forall|id2: u32| #[trigger] gidx(w2, id2) == (if id2 == id { None } else if id2 == lt { Some(idx) } else { gidx(w, id2) })
        &&& own_same(w, w2) && base_same(w, w2) && tsupply(w2) == tsupply(w)
    }),
{
    broadcast use sdk_store, enum_store;
}
pub proof fn lemma_supply_pointwise(w: World)
    ensures
        enum_same(w, inc_supply_post(w)) && base_same(w, inc_supply_post(w)),
        enum_same(w, dec_supply_post(w)) && base_same(w, dec_supply_post(w)),
        tsupply(w) < u32::MAX ==> tsupply(inc_supply_post(w)) == tsupply(w) + 1,
        tsupply(w) >= 1 ==> tsupply(dec_supply_post(w)) == tsupply(w) - 1,
{
    broadcast use sdk_store, enum_store;
}

// ---- the four helpers keep the bijections (the analogue of access.rs lemma_add_enum / lemma_remove_enum) ----
pub proof fn lemma_add_owner(w: World, wr: World, wr2: World, o: Address, id: u32)
    requires ol_inv(w, wr), cur_owner(wr, id).is_none(), bal(w, o) == bal(wr, o) + 1,
        forall|id2: u32| #[trigger] cur_owner(wr2, id2) == (if id2 == id { Some(o) } else { cur_owner(wr, id2) }),
        forall|a: Address| (#[trigger] bal(wr2, a)) as int == bal(wr, a) + ind(a == o),
    ensures
        //@@ C10:lemma.enum_add_owner
        ol_inv(add_owner_post(w, o, id), wr2),
{
    lemma_add_owner_pointwise(w, o, id);
    let w2 = add_owner_post(w, o, id);
    let i = (bal(w, o) - 1) as u32;
    assert(i == bal(wr, o));
    assert(oidx(w, id).is_none());
    assert forall|id2: u32| (#[trigger] cur_owner(wr2, id2)).is_some() implies oidx(w2, id2).is_some()
            && oidx(w2, id2).unwrap() < bal(wr2, cur_owner(wr2, id2).unwrap())
            && otok(w2, cur_owner(wr2, id2).unwrap(), oidx(w2, id2).unwrap()) == Some(id2) by {
        if id2 == id {} else {
            assert(cur_owner(wr, id2).is_some());
            let o2 = cur_owner(wr, id2).unwrap();
            let j = oidx(w, id2).unwrap();
            assert(j < bal(wr, o2) && otok(w, o2, j) == Some(id2));
            assert(otok(w2, o2, j) == otok(w, o2, j));
        }
    }
    assert forall|o2: Address, j: u32| j < bal(wr2, o2) implies (#[trigger] otok(w2, o2, j)).is_some()
            && cur_owner(wr2, otok(w2, o2, j).unwrap()) == Some(o2) && oidx(w2, otok(w2, o2, j).unwrap()) == Some(j) by {
        if o2 == o && j == i {} else {
            assert(j < bal(wr, o2));
            assert(otok(w, o2, j).is_some());
            let t = otok(w, o2, j).unwrap();
            assert(cur_owner(wr, t) == Some(o2) && oidx(w, t) == Some(j));
            assert(t != id);
            assert(cur_owner(wr2, t) == cur_owner(wr, t));
        }
    }
    assert forall|o2: Address, j: u32| j >= bal(wr2, o2) implies (#[trigger] otok(w2, o2, j)).is_none() by {
        assert(j >= bal(wr, o2));
        assert(otok(w, o2, j).is_none());
    }
    assert forall|id2: u32| cur_owner(wr2, id2).is_none() implies (#[trigger] oidx(w2, id2)).is_none() by {
        assert(id2 != id);
        assert(cur_owner(wr, id2).is_none());
        assert(oidx(w, id2).is_none());
    }
}

pub proof fn lemma_remove_owner(w: World, wr: World, wr2: World, o: Address, id: u32)
    requires ol_inv(w, wr), cur_owner(wr, id) == Some(o), bal(w, o) + 1 == bal(wr, o),
        forall|id2: u32| #[trigger] cur_owner(wr2, id2) == (if id2 == id { None } else { cur_owner(wr, id2) }),
        forall|a: Address| (#[trigger] bal(wr2, a)) as int == bal(wr, a) - ind(a == o),
    ensures
        //@@ C10:lemma.enum_remove_owner_swap_and_pop
        ol_inv(remove_owner_post(w, o, id), wr2),
        remove_owner_guard(w, o, id),
{
    let last = bal(w, o);
    assert(oidx(w, id).is_some());
    let idx = oidx(w, id).unwrap();
    assert(idx < bal(wr, o) && otok(w, o, idx) == Some(id));
    assert(last < bal(wr, o));
    assert(otok(w, o, last).is_some());
    let lt = otok(w, o, last).unwrap();
    assert(cur_owner(wr, lt) == Some(o) && oidx(w, lt) == Some(last));
    lemma_remove_owner_pointwise(w, o, id);
    let w2 = remove_owner_post(w, o, id);
    assert(idx != last ==> lt != id);
    assert(idx == last ==> lt == id);
    assert forall|id2: u32| (#[trigger] cur_owner(wr2, id2)).is_some() implies oidx(w2, id2).is_some()
            && oidx(w2, id2).unwrap() < bal(wr2, cur_owner(wr2, id2).unwrap())
            && otok(w2, cur_owner(wr2, id2).unwrap(), oidx(w2, id2).unwrap()) == Some(id2) by {
        assert(id2 != id);
        assert(cur_owner(wr, id2).is_some());
        let o2 = cur_owner(wr, id2).unwrap();
        let j = oidx(w, id2).unwrap();
        assert(j < bal(wr, o2) && otok(w, o2, j) == Some(id2));
        if id2 == lt && idx != last {
            assert(o2 == o);
        } else {
            assert(oidx(w2, id2) == Some(j));
            if o2 == o {
                // j is neither the vacated slot (that held `id`) nor the popped last slot (that held `lt`)
                assert(j != idx);
                assert(j != last);
            }
            assert(otok(w2, o2, j) == otok(w, o2, j));
        }
    }
    assert forall|o2: Address, j: u32| j < bal(wr2, o2) implies (#[trigger] otok(w2, o2, j)).is_some()
            && cur_owner(wr2, otok(w2, o2, j).unwrap()) == Some(o2) && oidx(w2, otok(w2, o2, j).unwrap()) == Some(j) by {
        assert(j < bal(wr, o2));
        assert(otok(w, o2, j).is_some());
        let t = otok(w, o2, j).unwrap();
        assert(cur_owner(wr, t) == Some(o2) && oidx(w, t) == Some(j));
        if o2 == o && j == idx {
            assert(idx != last);
            assert(cur_owner(wr2, lt) == Some(o));
        } else {
            assert(otok(w2, o2, j) == Some(t));
            if o2 == o { assert(j != last); assert(t != lt); assert(t != id); } else { assert(t != id); assert(t != lt); }
            assert(cur_owner(wr2, t) == cur_owner(wr, t));
        }
    }
    assert forall|o2: Address, j: u32| j >= bal(wr2, o2) implies (#[trigger] otok(w2, o2, j)).is_none() by {
        if o2 == o && j == last {} else {
            assert(j >= bal(wr, o2));
            assert(otok(w, o2, j).is_none());
            if o2 == o { assert(j != idx); }
        }
    }
    assert forall|id2: u32| cur_owner(wr2, id2).is_none() implies (#[trigger] oidx(w2, id2)).is_none() by {
        if id2 == id {} else {
            assert(cur_owner(wr, id2).is_none());
            assert(oidx(w, id2).is_none());
            assert(id2 != lt);
        }
    }
}

pub proof fn lemma_add_global(w: World, wr: World, wr2: World, id: u32, n: u32)
    requires gl_inv(w, n as int, wr), cur_owner(wr, id).is_none(), n < u32::MAX,
        forall|id2: u32| (#[trigger] cur_owner(wr2, id2)).is_some() == (id2 == id || cur_owner(wr, id2).is_some()),
    ensures
        //@@ C10:lemma.enum_add_global
        gl_inv(add_global_post(w, id, n), n + 1, wr2),
{
    lemma_add_global_pointwise(w, id, n);
    let w2 = add_global_post(w, id, n);
    assert(gidx(w, id).is_none());
    assert(gtok(w, n).is_none());
    assert forall|id2: u32| (#[trigger] gidx(w2, id2)).is_some() implies gidx(w2, id2).unwrap() < n + 1 && gtok(w2, gidx(w2, id2).unwrap()) == Some(id2) by {
        if id2 == id {} else {
            assert(gidx(w, id2).is_some());
            let j = gidx(w, id2).unwrap();
            assert(j < n && gtok(w, j) == Some(id2));
            assert(gtok(w2, j) == gtok(w, j));
        }
    }
    assert forall|j: u32| j < n + 1 implies (#[trigger] gtok(w2, j)).is_some() && gidx(w2, gtok(w2, j).unwrap()) == Some(j) by {
        if j == n {} else {
            assert(gtok(w, j).is_some());
            let t = gtok(w, j).unwrap();
            assert(gidx(w, t) == Some(j));
            assert(t != id);
        }
    }
    assert forall|j: u32| j >= n + 1 implies (#[trigger] gtok(w2, j)).is_none() by { assert(gtok(w, j).is_none()); }
    assert forall|id2: u32| (#[trigger] cur_owner(wr2, id2)).is_some() <==> gidx(w2, id2).is_some() by {
        assert(cur_owner(wr, id2).is_some() <==> gidx(w, id2).is_some());
    }
}

pub proof fn lemma_remove_global(w: World, wr: World, wr2: World, id: u32, last: u32)
    requires gl_inv(w, last + 1, wr), cur_owner(wr, id).is_some(),
        forall|id2: u32| (#[trigger] cur_owner(wr2, id2)).is_some() == (id2 != id && cur_owner(wr, id2).is_some()),
    ensures
        //@@ C10:lemma.enum_remove_global_swap_and_pop
        gl_inv(remove_global_post(w, id, last), last as int, wr2),
        remove_global_guard(w, id, last),
{
    assert(gidx(w, id).is_some());
    let idx = gidx(w, id).unwrap();
    assert(idx < last + 1 && gtok(w, idx) == Some(id));
    assert(gtok(w, last).is_some());
    let lt = gtok(w, last).unwrap();
    assert(gidx(w, lt) == Some(last));
    lemma_remove_global_pointwise(w, id, last);
    let w2 = remove_global_post(w, id, last);
    assert(idx != last ==> lt != id);
    assert(idx == last ==> lt == id);
    assert forall|id2: u32| (#[trigger] gidx(w2, id2)).is_some() implies gidx(w2, id2).unwrap() < last && gtok(w2, gidx(w2, id2).unwrap()) == Some(id2) by {
        assert(id2 != id);
        if id2 == lt {} else {
            assert(gidx(w, id2).is_some());
            let j = gidx(w, id2).unwrap();
            assert(j < last + 1 && gtok(w, j) == Some(id2));
            assert(j != last);
            assert(j != idx);
        }
    }
    assert forall|j: u32| j < last implies (#[trigger] gtok(w2, j)).is_some() && gidx(w2, gtok(w2, j).unwrap()) == Some(j) by {
        assert(gtok(w, j).is_some());
        let t = gtok(w, j).unwrap();
        assert(gidx(w, t) == Some(j));
        if j == idx {} else { assert(t != id); assert(t != lt); }
    }
    assert forall|j: u32| j >= last implies (#[trigger] gtok(w2, j)).is_none() by {
        if j == last {} else { assert(gtok(w, j).is_none()); assert(j != idx); }
    }
    assert forall|id2: u32| (#[trigger] cur_owner(wr2, id2)).is_some() <==> gidx(w2, id2).is_some() by {
        assert(cur_owner(wr, id2).is_some() <==> gidx(w, id2).is_some());
        assert(cur_owner(wr, lt).is_some() <==> gidx(w, lt).is_some());
    }
}

// ---- the base operations never touch the lists; the list maintenance never touches the base view ----
pub proof fn lemma_base_op_enum_frame(w: World, op: NOp)
    requires op_guard(w, op),
    ensures enum_same(w, op_post(w, op)), tsupply(op_post(w, op)) == tsupply(w),
{
    broadcast use sdk_store, enum_store;
    let w2 = op_post(w, op);
    if is_update(op) {
        lemma_op_shape(w, op);
        let wp = op_pre(w, op);
        let id = op_token(w, op).unwrap();
        let wu = update_post(wp, op_from(op), op_to(op), id);
        assert(w2.persistent == wu.persistent && w2.instance == wu.instance);
        assert(enum_same(wp, wu) && tsupply(wu) == tsupply(wp));
        assert(enum_same(w, wp) && tsupply(wp) == tsupply(w));
        assert forall|o: Address, i: u32| #[trigger] otok(w2, o, i) == otok(w, o, i) by { assert(otok(w2, o, i) == otok(wu, o, i)); assert(otok(wu, o, i) == otok(wp, o, i)); }
        assert forall|i: u32| #[trigger] oidx(w2, i) == oidx(w, i) by { assert(oidx(w2, i) == oidx(wu, i)); assert(oidx(wu, i) == oidx(wp, i)); }
        assert forall|i: u32| #[trigger] gtok(w2, i) == gtok(w, i) by { assert(gtok(w2, i) == gtok(wu, i)); assert(gtok(wu, i) == gtok(wp, i)); }
        assert forall|i: u32| #[trigger] gidx(w2, i) == gidx(w, i) by { assert(gidx(w2, i) == gidx(wu, i)); assert(gidx(wu, i) == gidx(wp, i)); }
    } else {
        assert(w2.persistent == w.persistent && w2.instance == w.instance) by {
            match op {
                NOp::Approve { approver, approved, id, live } => {}
                NOp::ApproveForAll { owner, operator, live } => {}
                _ => {}
            }
        }
    }
}

pub open spec fn eop_id(w: World, op: EOp) -> u32 { match op_token(w, base_op(op)) { Some(id) => id, None => 0 } }

/// `w1` = the state a base operation left: lists as in `w`, token `id` now owned by `to` (was `from`)
pub open spec fn base_moved(w: World, w1: World, from: Option<Address>, to: Option<Address>, id: u32) -> bool {
    &&& enum_same(w, w1) && tsupply(w1) == tsupply(w)
    &&& cur_owner(w, id) == from
    &&& forall|id2: u32| #[trigger] cur_owner(w1, id2) == (if id2 == id { to } else { cur_owner(w, id2) })
    &&& forall|a: Address| (#[trigger] bal(w1, a)) as int == bal(w, a) - ind(from == Some(a)) + ind(to == Some(a))
    &&& from.is_some() ==> bal(w, from.unwrap()) >= 1
}

pub proof fn lemma_part_mint(w: World, w1: World, o: Address, id: u32)
    requires inv_enum(w), base_moved(w, w1, None, Some(o), id), add_enums_guard(w1, o, id),
    ensures inv_enum(add_enums_post(w1, o, id)), base_same(w1, add_enums_post(w1, o, id)),
        tsupply(add_enums_post(w1, o, id)) == tsupply(w) + 1,
{
    let ts = tsupply(w);
    lemma_ol_frame(w, w, w1, w);
    lemma_gl_frame(w, ts as int, w, w1, w);
    let wa = add_owner_post(w1, o, id);
    lemma_add_owner_pointwise(w1, o, id);
    lemma_add_owner(w1, w, w1, o, id);
    let wb = inc_supply_post(wa);
    lemma_supply_pointwise(wa);
    let wc = add_global_post(wb, id, tsupply(wa));
    assert(add_enums_post(w1, o, id) == wc);
    lemma_add_global_pointwise(wb, id, ts);
    lemma_gl_frame(w1, ts as int, w, wb, w);
    lemma_add_global(wb, w, w1, id, ts);
    lemma_ol_frame(wa, w1, wc, wc);
    lemma_gl_frame(wc, ts + 1, w1, wc, wc);
    assert(tsupply(wc) == ts + 1);
}

pub proof fn lemma_part_burn(w: World, w1: World, o: Address, id: u32)
    requires inv_enum(w), base_moved(w, w1, Some(o), None, id), tsupply(w) >= 1,
    ensures inv_enum(remove_enums_post(w1, o, id)), base_same(w1, remove_enums_post(w1, o, id)),
        tsupply(remove_enums_post(w1, o, id)) == tsupply(w) - 1,
        remove_enums_guard(w1, o, id),
{
    let ts = tsupply(w);
    lemma_ol_frame(w, w, w1, w);
    lemma_gl_frame(w, ts as int, w, w1, w);
    let wa = remove_owner_post(w1, o, id);
    lemma_remove_owner(w1, w, w1, o, id);
    lemma_remove_owner_pointwise(w1, o, id);
    let wb = dec_supply_post(wa);
    lemma_supply_pointwise(wa);
    assert(tsupply(wa) == ts);
    let last = (ts - 1) as u32;
    let wc = remove_global_post(wb, id, last);
    assert(remove_enums_post(w1, o, id) == wc);
    lemma_gl_frame(w1, ts as int, w, wb, w);
    lemma_remove_global(wb, w, w1, id, last);
    lemma_remove_global_pointwise(wb, id, last);
    lemma_ol_frame(wa, w1, wc, wc);
    lemma_gl_frame(wc, last as int, w1, wc, wc);
    assert(tsupply(wc) == ts - 1);
}

pub proof fn lemma_part_transfer(w: World, w1: World, f: Address, t: Address, id: u32)
    requires inv_enum(w), base_moved(w, w1, Some(f), Some(t), id), f != t,
    ensures inv_enum(add_owner_post(remove_owner_post(w1, f, id), t, id)),
        base_same(w1, add_owner_post(remove_owner_post(w1, f, id), t, id)),
        tsupply(add_owner_post(remove_owner_post(w1, f, id), t, id)) == tsupply(w),
        remove_owner_guard(w1, f, id), add_owner_guard(remove_owner_post(w1, f, id), t),
{
    let ts = tsupply(w);
    lemma_ol_frame(w, w, w1, w);
    lemma_gl_frame(w, ts as int, w, w1, w);
    // reference view between the two list updates: the token is in nobody's list
    let wrb = pdel(dec_bal_post(w, f, 1), k_owner(id));
    assert(forall|id2: u32| #[trigger] cur_owner(wrb, id2) == (if id2 == id { None } else { cur_owner(w, id2) })) by {
        broadcast use sdk_store;
    }
    assert(forall|a: Address| (#[trigger] bal(wrb, a)) as int == bal(w, a) - ind(a == f)) by {
        broadcast use sdk_store;
    }
    let wa = remove_owner_post(w1, f, id);
    lemma_remove_owner(w1, w, wrb, f, id);
    lemma_remove_owner_pointwise(w1, f, id);
    let wb = add_owner_post(wa, t, id);
    lemma_add_owner(wa, wrb, w1, t, id);
    lemma_add_owner_pointwise(wa, t, id);
    lemma_ol_frame(wb, w1, wb, wb);
    lemma_gl_frame(w1, ts as int, w, wb, wb);
}

pub proof fn lemma_part_none(w: World, w1: World)
    requires inv_enum(w), enum_same(w, w1), tsupply(w1) == tsupply(w),
        forall|id2: u32| #[trigger] cur_owner(w1, id2) == cur_owner(w, id2),
        forall|a: Address| #[trigger] bal(w1, a) == bal(w, a),
    ensures inv_enum(w1),
{
    lemma_ol_frame(w, w, w1, w1);
    lemma_gl_frame(w, tsupply(w) as int, w, w1, w1);
}

/// C10 (enumerable) for one entry point: the lists keep mirroring ownership; the base view is
/// exactly the one the wrapped base operation produced (so every base C10/C11 lemma carries over)
pub proof fn lemma_eop_inv(w: World, op: EOp)
    requires inv_enum(w), eop_guard(w, op), op_assume(w, base_op(op)),
    ensures
        //@@ C10:lemma.enum_entry_points_keep_lists
        inv_enum(eop_post(w, op)),
        //@@ C10+C11:lemma.enum_entry_points_keep_base_view
        base_same(op_post(w, base_op(op)), eop_post(w, op)),
        //@@ C10:lemma.enum_total_supply_counts_mints_minus_burns
        tsupply(eop_post(w, op)) as int == tsupply(w) + ind(is_mint(base_op(op))) - ind(is_move(base_op(op)) && op_to(base_op(op)).is_none()),
{
    let nop = base_op(op);
    let id = eop_id(w, op);
    let w1 = op_post(w, nop);
    lemma_op_view(w, nop);
    lemma_base_op_enum_frame(w, nop);
    if is_mint(nop) {
        assert(op_token(w, nop) == Some(id));
        lemma_part_mint(w, w1, op_to(nop).unwrap(), id);
    } else if is_move(nop) && op_to(nop).is_none() {
        assert(op_token(w, nop) == Some(id));
        lemma_part_burn(w, w1, op_from(nop).unwrap(), id);
    } else if is_move(nop) && op_from(nop) != op_to(nop) {
        assert(op_token(w, nop) == Some(id));
        lemma_part_transfer(w, w1, op_from(nop).unwrap(), op_to(nop).unwrap(), id);
    } else {
        lemma_part_none(w, w1);
    }
}

// ---- C11 carries over to the enumerable entry points ----
/// the list maintenance leaves the base view (owners, balances, approvals, auths, events) untouched
pub proof fn lemma_enum_part_base_same(w1: World, op: NOp, id: u32)
    requires enum_part_guard(w1, op, id),
    ensures base_same(w1, enum_part(w1, op, id)),
{
    if is_mint(op) {
        let o = op_to(op).unwrap();
        let wa = add_owner_post(w1, o, id);
        lemma_add_owner_pointwise(w1, o, id);
        lemma_supply_pointwise(wa);
        lemma_add_global_pointwise(inc_supply_post(wa), id, tsupply(wa));
    } else if is_move(op) && op_to(op).is_none() {
        let o = op_from(op).unwrap();
        let wa = remove_owner_post(w1, o, id);
        lemma_remove_owner_pointwise(w1, o, id);
        lemma_supply_pointwise(wa);
        lemma_remove_global_pointwise(dec_supply_post(wa), id, (tsupply(wa) - 1) as u32);
    } else if is_move(op) && op_from(op) != op_to(op) {
        let wa = remove_owner_post(w1, op_from(op).unwrap(), id);
        lemma_remove_owner_pointwise(w1, op_from(op).unwrap(), id);
        lemma_add_owner_pointwise(wa, op_to(op).unwrap(), id);
    } else {}
}

/// C11 for one enumerable entry point (same statements as `lemma_op_c11`, on the wrapped state)
pub proof fn lemma_eop_c11(w: World, op: EOp)
    requires eop_guard(w, op), op_assume(w, base_op(op)),
    ensures ({
        let nop = base_op(op); let w2 = eop_post(w, op);
        //@@ C11:lemma.enum_op_actor_authorized
        &&& op_actor(nop).is_some() ==> w2.auths.contains(op_actor(nop).unwrap())
        //@@ C11:lemma.enum_move_only_by_owner_approved_or_live_operator
        &&& forall|id: u32| cur_owner(w, id).is_some() && #[trigger] cur_owner(w2, id) != cur_owner(w, id) ==>
                is_move(nop) && op_token(w, nop) == Some(id) && op_from(nop) == cur_owner(w, id)
                && spender_ok(w, op_actor(nop).unwrap(), cur_owner(w, id).unwrap(), id)
        //@@ C11:lemma.enum_move_clears_approval
        &&& is_move(nop) ==> appr_raw(w2, op_token(w, nop).unwrap()).is_none() && cur_approved(w2, op_token(w, nop).unwrap()).is_none()
        //@@ C11:lemma.enum_approval_set_only_by_owner_or_live_operator
        &&& forall|id: u32| (#[trigger] appr_raw(w2, id)) != appr_raw(w, id) ==>
                op_token(w, nop) == Some(id) && (is_move(nop) || (nop is Approve && cur_owner(w, id).is_some()
                    && (op_actor(nop) == cur_owner(w, id) || is_operator(w, cur_owner(w, id).unwrap(), op_actor(nop).unwrap()))))
        //@@ C11:lemma.enum_operator_set_only_by_owner
        &&& forall|o: Address, s: Address| (#[trigger] oper_raw(w2, o, s)) != oper_raw(w, o, s) ==>
                nop is ApproveForAll && op_actor(nop) == Some(o) && nop->ApproveForAll_operator == s
    }),
{
    let nop = base_op(op);
    let w1 = op_post(w, nop);
    let w2 = eop_post(w, op);
    lemma_op_c11(w, nop);
    lemma_enum_part_base_same(w1, nop, eop_id(w, op));
    assert forall|id: u32| cur_owner(w, id).is_some() && #[trigger] cur_owner(w2, id) != cur_owner(w, id) implies
            is_move(nop) && op_token(w, nop) == Some(id) && op_from(nop) == cur_owner(w, id)
            && spender_ok(w, op_actor(nop).unwrap(), cur_owner(w, id).unwrap(), id) by {
        assert(cur_owner(w2, id) == cur_owner(w1, id));
    }
    assert forall|id: u32| (#[trigger] appr_raw(w2, id)) != appr_raw(w, id) implies
            op_token(w, nop) == Some(id) && (is_move(nop) || (nop is Approve && cur_owner(w, id).is_some()
                && (op_actor(nop) == cur_owner(w, id) || is_operator(w, cur_owner(w, id).unwrap(), op_actor(nop).unwrap())))) by {
        assert(appr_raw(w2, id) == appr_raw(w1, id));
    }
    assert forall|o: Address, s: Address| (#[trigger] oper_raw(w2, o, s)) != oper_raw(w, o, s) implies
            nop is ApproveForAll && op_actor(nop) == Some(o) && nop->ApproveForAll_operator == s by {
        assert(oper_raw(w2, o, s) == oper_raw(w1, o, s));
    }
    if is_move(nop) {
        let id = op_token(w, nop).unwrap();
        assert(appr_raw(w2, id) == appr_raw(w1, id));
        assert(w2.ledger_seq == w1.ledger_seq);
    }
}
