// =================================================================================================
// spec pack `lists` — C16 (allow-list / block-list part) on top of the `fungible` spec pack
// (`FOp`, `op_guard`, `op_post`, `inv`, `inv_ev`, … come from ../fungible/{fungible,history}.rs).
// Everything here is ghost; the executable text comes from /repo.
// =================================================================================================

// ---- abstract view: presence flags in the persistent store ----
pub open spec fn al_key(a: Address) -> AllowListStorageKey { AllowListStorageKey::Allowed(a) }
pub open spec fn bl_key(a: Address) -> BlockListStorageKey { BlockListStorageKey::Blocked(a) }
pub open spec fn is_allowed(w: World, a: Address) -> bool { pget(w, al_key(a)).is_some() }
pub open spec fn is_blocked(w: World, a: Address) -> bool { pget(w, bl_key(a)).is_some() }

// ---- exact successor states of the list writers ----
pub open spec fn allow_post(w: World, u: Address) -> World {
    if is_allowed(w, u) { w } else { w_event(pset(w, al_key(u), ().sv()), UserAllowed { user: u }.ev()) }
}
pub open spec fn disallow_post(w: World, u: Address) -> World {
    if is_allowed(w, u) { w_event(pdel(w, al_key(u)), UserDisallowed { user: u }.ev()) } else { w }
}
pub open spec fn block_post(w: World, u: Address) -> World {
    if is_blocked(w, u) { w } else { w_event(pset(w, bl_key(u), ().sv()), UserBlocked { user: u }.ev()) }
}
pub open spec fn unblock_post(w: World, u: Address) -> World {
    if is_blocked(w, u) { w_event(pdel(w, bl_key(u)), UserUnblocked { user: u }.ev()) } else { w }
}

// ---- the gates: which parties each overridden entry point vets (read off the code) ----
/// AllowList: transfer / transfer_from vet `from` and `to` (NOT the spender); approve vets the owner
/// (NOT the spender); burn / burn_from vet `from` (NOT the spender).  `mint` is not overridden by the
/// library, so it carries no gate here.
pub open spec fn al_gate(w: World, op: FOp) -> bool {
    match op {
        FOp::Mint { to, amount } => true,
        FOp::Transfer { from, to, mux, amount } => is_allowed(w, from) && is_allowed(w, to),
        FOp::TransferFrom { spender, from, to, amount } => is_allowed(w, from) && is_allowed(w, to),
        FOp::Burn { from, amount } => is_allowed(w, from),
        FOp::BurnFrom { spender, from, amount } => is_allowed(w, from),
        FOp::Approve { owner, spender, amount, live } => is_allowed(w, owner),
    }
}
pub open spec fn bl_gate(w: World, op: FOp) -> bool {
    match op {
        FOp::Mint { to, amount } => true,
        FOp::Transfer { from, to, mux, amount } => !is_blocked(w, from) && !is_blocked(w, to),
        FOp::TransferFrom { spender, from, to, amount } => !is_blocked(w, from) && !is_blocked(w, to),
        FOp::Burn { from, amount } => !is_blocked(w, from),
        FOp::BurnFrom { spender, from, amount } => !is_blocked(w, from),
        FOp::Approve { owner, spender, amount, live } => !is_blocked(w, owner),
    }
}
/// the account whose allowance an operation creates or consumes
pub open spec fn op_owner(op: FOp) -> Option<Address> {
    match op {
        FOp::TransferFrom { spender, from, to, amount } => Some(from),
        FOp::BurnFrom { spender, from, amount } => Some(from),
        FOp::Approve { owner, spender, amount, live } => Some(owner),
        _ => None,
    }
}

// ---- key hygiene: list flags, balances and each other never share an entry ----
pub proof fn lemma_list_keys(a: Address, x: Address)
    ensures
        al_key(a).sv() != bal_key(x), bl_key(a).sv() != bal_key(x), al_key(a).sv() != bl_key(x).sv(),
        !is_bal_key(al_key(a).sv()), !is_bal_key(bl_key(a).sv()),
{
    assert(sv_tag(al_key(a).sv()) != sv_tag(bal_key(x)));
    assert(sv_tag(bl_key(a).sv()) != sv_tag(bal_key(x)));
    assert(sv_tag(al_key(a).sv()) != sv_tag(bl_key(x).sv()));
    assert(al_key(a).sv()->Vec_0[0] != bal_key(Address { id: 0 })->Vec_0[0]);
    assert(bl_key(a).sv()->Vec_0[0] != bal_key(Address { id: 0 })->Vec_0[0]);
}

/// a token operation writes no list flag (persistent store: only balance entries move)
pub proof fn lemma_op_keeps_lists(w: World, op: FOp, a: Address)
    ensures
        //@@ C16:lemma.token_ops_write_no_list_flag
        is_allowed(op_post(w, op), a) == is_allowed(w, a),
        is_blocked(op_post(w, op), a) == is_blocked(w, a),
{
    lemma_op_shape(w, op);
    let w1 = op_pre(w, op);
    assert(w1.persistent == w.persistent);
    let k1 = al_key(a).sv();
    let k2 = bl_key(a).sv();
    if !is_approve(op) {
        let (from, to, amount) = (op_from(op), op_to(op), op_amount(op));
        let wu = update_post(w1, from, to, amount);
        if from.is_some() { lemma_list_keys(a, from.unwrap()); }
        if to.is_some() { lemma_list_keys(a, to.unwrap()); }
        assert(wu.persistent.contains_key(k1) == w.persistent.contains_key(k1));
        assert(wu.persistent.contains_key(k2) == w.persistent.contains_key(k2));
    }
}

/// list writers (C16): immediate, idempotent, and they touch nothing else — no other flag, no balance,
/// no supply, no allowance, no authorization; at most one event
pub proof fn lemma_allow(w: World, u: Address)
    ensures
        //@@ C16:lemma.allow_user_immediate_idempotent_frame
        is_allowed(allow_post(w, u), u),
        allow_post(allow_post(w, u), u) == allow_post(w, u),
        forall|a: Address| a != u ==> #[trigger] is_allowed(allow_post(w, u), a) == is_allowed(w, a),
        forall|a: Address| #[trigger] is_blocked(allow_post(w, u), a) == is_blocked(w, a),
        list_frame(w, allow_post(w, u)),
{
    broadcast use sdk_store;
    let w2 = allow_post(w, u);
    assert forall|a: Address| #[trigger] is_blocked(w2, a) == is_blocked(w, a) by {
        lemma_list_keys(u, a);
        lemma_pget_pset_other(w, al_key(u), ().sv(), bl_key(a));
    }
    lemma_list_frame_set(w, al_key(u), UserAllowed { user: u }.ev());
    lemma_list_keys(u, u);
}
pub proof fn lemma_disallow(w: World, u: Address)
    ensures
        //@@ C16:lemma.disallow_user_immediate_idempotent_frame
        !is_allowed(disallow_post(w, u), u),
        disallow_post(disallow_post(w, u), u) == disallow_post(w, u),
        forall|a: Address| a != u ==> #[trigger] is_allowed(disallow_post(w, u), a) == is_allowed(w, a),
        forall|a: Address| #[trigger] is_blocked(disallow_post(w, u), a) == is_blocked(w, a),
        list_frame(w, disallow_post(w, u)),
{
    broadcast use sdk_store;
    let w2 = disallow_post(w, u);
    assert forall|a: Address| #[trigger] is_blocked(w2, a) == is_blocked(w, a) by {
        lemma_list_keys(u, a);
        lemma_pget_pset_other(w, al_key(u), ().sv(), bl_key(a));
    }
    lemma_list_frame_del(w, al_key(u), UserDisallowed { user: u }.ev());
    lemma_list_keys(u, u);
}
pub proof fn lemma_block(w: World, u: Address)
    ensures
        //@@ C16:lemma.block_user_immediate_idempotent_frame
        is_blocked(block_post(w, u), u),
        block_post(block_post(w, u), u) == block_post(w, u),
        forall|a: Address| a != u ==> #[trigger] is_blocked(block_post(w, u), a) == is_blocked(w, a),
        forall|a: Address| #[trigger] is_allowed(block_post(w, u), a) == is_allowed(w, a),
        list_frame(w, block_post(w, u)),
{
    broadcast use sdk_store;
    let w2 = block_post(w, u);
    assert forall|a: Address| #[trigger] is_allowed(w2, a) == is_allowed(w, a) by {
        lemma_list_keys(a, u);
        lemma_pget_pset_other(w, bl_key(u), ().sv(), al_key(a));
    }
    lemma_list_frame_set(w, bl_key(u), UserBlocked { user: u }.ev());
    lemma_list_keys(u, u);
}
pub proof fn lemma_unblock(w: World, u: Address)
    ensures
        //@@ C16:lemma.unblock_user_immediate_idempotent_frame
        !is_blocked(unblock_post(w, u), u),
        unblock_post(unblock_post(w, u), u) == unblock_post(w, u),
        forall|a: Address| a != u ==> #[trigger] is_blocked(unblock_post(w, u), a) == is_blocked(w, a),
        forall|a: Address| #[trigger] is_allowed(unblock_post(w, u), a) == is_allowed(w, a),
        list_frame(w, unblock_post(w, u)),
{
    broadcast use sdk_store;
    let w2 = unblock_post(w, u);
    assert forall|a: Address| #[trigger] is_allowed(w2, a) == is_allowed(w, a) by {
        lemma_list_keys(a, u);
        lemma_pget_pset_other(w, bl_key(u), ().sv(), al_key(a));
    }
    lemma_list_frame_del(w, bl_key(u), UserUnblocked { user: u }.ev());
    lemma_list_keys(u, u);
}

/// what a list writer leaves alone: everything except the persistent store and the event log is
/// identical; every balance, the supply and every allowance read the same; the fungible invariants
/// (C01: Σ balances = supply; replay of the event log reproduces the balances) carry over
pub open spec fn list_frame(w: World, w2: World) -> bool {
    &&& w2 == (World { persistent: w2.persistent, events: w2.events, ..w })
    &&& w2.events.len() <= w.events.len() + 1
    &&& forall|a: Address| #[trigger] bal(w2, a) == bal(w, a)
    &&& supply(w2) == supply(w)
    &&& forall|o: Address, s: Address| #[trigger] allow_data(w2, o, s) == allow_data(w, o, s)
    &&& (inv(w) ==> inv(w2))
    &&& (inv(w) && inv_ev(w) ==> inv_ev(w2))
}
/// an event that is neither transfer, mint nor burn does not move the replayed balances
pub open spec fn neutral_event(ev: SV) -> bool {
    ev_tag(ev) != tag_transfer() && ev_tag(ev) != tag_mint() && ev_tag(ev) != tag_burn()
}
pub proof fn lemma_neutral_event_push(w: World, w2: World, ev: SV)
    requires inv_ev(w), neutral_event(ev), w2.events == w.events.push(ev), supply(w2) == supply(w),
        forall|a: Address| #[trigger] bal(w2, a) == bal(w, a),
    ensures inv_ev(w2),
{
    assert forall|a: Address| replay_bal(w2.events, a) == bal(w2, a) by {
        lemma_replay_push(w.events, ev, a);
        assert(bal(w2, a) == bal(w, a));
    }
    lemma_replay_push(w.events, ev, a0());
}
pub proof fn lemma_list_frame_set<K: ToSV>(w: World, k: K, ev: SV)
    requires !is_bal_key(k.sv()), forall|x: Address| k.sv() != bal_key(x), neutral_event(ev),
    ensures list_frame(w, w_event(pset(w, k, ().sv()), ev)),
{
    let w2 = w_event(pset(w, k, ().sv()), ev);
    assert forall|a: Address| #[trigger] bal(w2, a) == bal(w, a) by {}
    lemma_psum_insert(w.persistent, bal_proj(), k.sv(), ().sv());
    if inv(w) {
        assert(sum_bal(w2) == sum_bal(w));
        assert forall|j: SV| #[trigger] w2.persistent.contains_key(j) && is_bal_key(j) implies (w2.persistent[j] is I128) && w2.persistent[j]->I128_0 >= 0 by {
            assert(w.persistent.contains_key(j));
        }
        if inv_ev(w) { lemma_neutral_event_push(w, w2, ev); }
    }
}
pub proof fn lemma_list_frame_del<K: ToSV>(w: World, k: K, ev: SV)
    requires !is_bal_key(k.sv()), forall|x: Address| k.sv() != bal_key(x), neutral_event(ev),
    ensures list_frame(w, w_event(pdel(w, k), ev)),
{
    let w2 = w_event(pdel(w, k), ev);
    assert forall|a: Address| #[trigger] bal(w2, a) == bal(w, a) by {}
    lemma_psum_remove_key(w.persistent, bal_proj(), k.sv());
    if inv(w) {
        assert(sum_bal(w2) == sum_bal(w));
        assert forall|j: SV| #[trigger] w2.persistent.contains_key(j) && is_bal_key(j) implies (w2.persistent[j] is I128) && w2.persistent[j]->I128_0 >= 0 by {
            assert(w.persistent.contains_key(j));
        }
        if inv_ev(w) { lemma_neutral_event_push(w, w2, ev); }
    }
}

// ---- the property in its own words, one call at a time ----
/// AllowList (C16): if a gated call returns, no party it must vet was disallowed — an account that is
/// not allowed can neither send (transfer, transfer_from, burn, burn_from as `from`), nor receive
/// (transfer, transfer_from as `to`), nor grant an allowance (approve as owner); and its balance and
/// the allowances it granted are exactly what they were
pub proof fn lemma_disallowed_cannot_move(w: World, op: FOp, a: Address)
    requires al_gate(w, op), !is_allowed(w, a), !(op is Mint),
    ensures
        //@@ C16:lemma.disallowed_account_neither_sends_nor_receives
        op_from(op) != Some(a), op_to(op) != Some(a), op_owner(op) != Some(a),
        upd_delta(op_from(op), op_to(op), op_amount(op), a) == 0,
{
}
pub proof fn lemma_blocked_cannot_move(w: World, op: FOp, a: Address)
    requires bl_gate(w, op), is_blocked(w, a), !(op is Mint),
    ensures
        //@@ C16:lemma.blocked_account_neither_sends_nor_receives
        op_from(op) != Some(a), op_to(op) != Some(a), op_owner(op) != Some(a),
        upd_delta(op_from(op), op_to(op), op_amount(op), a) == 0,
{
}
/// … hence the balance of a disallowed / blocked account is frozen under every gated entry point
pub proof fn lemma_gated_balance_frozen(w: World, op: FOp, a: Address)
    requires inv(w), inv_ev(w), w.ledger_ok(), op_guard(w, op), !(op is Mint),
        (al_gate(w, op) && !is_allowed(w, a)) || (bl_gate(w, op) && is_blocked(w, a)),
    ensures
        //@@ C01+C16:lemma.unlisted_balance_frozen
        bal(op_post(w, op), a) == bal(w, a),
{
    lemma_op_c01(w, op);
    if al_gate(w, op) && !is_allowed(w, a) { lemma_disallowed_cannot_move(w, op, a); } else { lemma_blocked_cannot_move(w, op, a); }
}

// ---- histories: token operations through the gated entry points, list changes, ledger advances ----
pub enum LMode { AllowList, BlockList }
pub enum LStep { F(FStep), Add(Address), Del(Address) }

/// membership in the list the token uses (allowed resp. blocked)
pub open spec fn listed(m: LMode, w: World, a: Address) -> bool {
    match m { LMode::AllowList => is_allowed(w, a), LMode::BlockList => is_blocked(w, a) }
}
/// `a` passes the vetting of the list
pub open spec fn vetted_ok(m: LMode, on_list: bool) -> bool {
    match m { LMode::AllowList => on_list, LMode::BlockList => !on_list }
}
pub open spec fn l_gate(m: LMode, w: World, op: FOp) -> bool {
    match m { LMode::AllowList => al_gate(w, op), LMode::BlockList => bl_gate(w, op) }
}
pub open spec fn l_step_ok(m: LMode, w: World, st: LStep) -> bool {
    match st {
        LStep::F(f) => step_ok(w, f) && (match f { FStep::Op(op) => l_gate(m, w, op), _ => true }),
        _ => true,
    }
}
pub open spec fn l_step_post(m: LMode, w: World, st: LStep) -> World {
    match st {
        LStep::F(f) => step_post(w, f),
        LStep::Add(u) => match m { LMode::AllowList => allow_post(w, u), LMode::BlockList => block_post(w, u) },
        LStep::Del(u) => match m { LMode::AllowList => disallow_post(w, u), LMode::BlockList => unblock_post(w, u) },
    }
}
pub open spec fn l_run(m: LMode, w0: World, steps: Seq<LStep>) -> World
    decreases steps.len()
{
    if steps.len() == 0 { w0 } else { l_step_post(m, l_run(m, w0, steps.drop_last()), steps.last()) }
}
pub open spec fn l_valid(m: LMode, w0: World, steps: Seq<LStep>) -> bool
    decreases steps.len()
{
    steps.len() == 0 || (l_valid(m, w0, steps.drop_last()) && l_step_ok(m, l_run(m, w0, steps.drop_last()), steps.last()))
}
/// list status of `a` as the history dictates it: the last Add(a) / Del(a) decides
pub open spec fn l_expected(init: bool, steps: Seq<LStep>, a: Address) -> bool
    decreases steps.len()
{
    if steps.len() == 0 { init }
    else if steps.last() == LStep::Add(a) { true }
    else if steps.last() == LStep::Del(a) { false }
    else { l_expected(init, steps.drop_last(), a) }
}
/// the parties an operation must vet
pub open spec fn op_vets(op: FOp, a: Address) -> bool {
    !(op is Mint) && (op_from(op) == Some(a) || op_to(op) == Some(a) || (op is Approve && op_owner(op) == Some(a)))
}

pub proof fn lemma_l_step(m: LMode, w: World, st: LStep, a: Address)
    requires l_step_ok(m, w, st), inv(w), inv_ev(w), w.ledger_ok(),
    ensures
        //@@ C16:lemma.list_status_step
        listed(m, l_step_post(m, w, st), a) == (if st == LStep::Add(a) { true } else if st == LStep::Del(a) { false } else { listed(m, w, a) }),
        inv(l_step_post(m, w, st)), inv_ev(l_step_post(m, w, st)), l_step_post(m, w, st).ledger_ok(),
{
    match st {
        LStep::F(f) => {
            lemma_step_inv(w, f);
            match f {
                FStep::Op(op) => {
                    lemma_op_keeps_lists(w, op, a);
                    assert(step_post(w, f).persistent == op_post(w, op).persistent);
                }
                FStep::Tick { seq, ts } => {}
            }
        }
        LStep::Add(u) => { lemma_allow(w, u); lemma_block(w, u); }
        LStep::Del(u) => { lemma_disallow(w, u); lemma_unblock(w, u); }
    }
}

/// history lemma (C16 + C01): in every valid history of a list-gated token
///  * the list status of every account is what the last allow/disallow (block/unblock) said — changes
///    are immediate, and nothing else writes the flags;
///  * the fungible invariants (supply conservation, event replay) keep holding
pub proof fn lemma_l_history(m: LMode, w0: World, steps: Seq<LStep>, a: Address)
    requires inv(w0), inv_ev(w0), w0.ledger_ok(), l_valid(m, w0, steps),
    ensures
        //@@ C16:history.list_status_written_only_by_list_ops
        listed(m, l_run(m, w0, steps), a) == l_expected(listed(m, w0, a), steps, a),
        //@@ C01+C16:history.inv_with_list_ops
        inv(l_run(m, w0, steps)), inv_ev(l_run(m, w0, steps)), l_run(m, w0, steps).ledger_ok(),
    decreases steps.len()
{
    if steps.len() != 0 {
        lemma_l_history(m, w0, steps.drop_last(), a);
        lemma_l_step(m, l_run(m, w0, steps.drop_last()), steps.last(), a);
    }
}

/// … so whenever a gated token operation succeeds at position `i` of a valid history, every party it
/// vets had, by the history of list changes before `i`, the required status: a disallowed (blocked)
/// account neither sends nor receives nor approves, from the very next call after the list change on
pub proof fn lemma_l_gated(m: LMode, w0: World, steps: Seq<LStep>, i: int, op: FOp, a: Address)
    requires inv(w0), inv_ev(w0), w0.ledger_ok(), l_valid(m, w0, steps), 0 <= i < steps.len(),
        steps[i] == LStep::F(FStep::Op(op)), op_vets(op, a),
    ensures
        //@@ C16:history.gated_op_only_with_vetted_parties
        vetted_ok(m, l_expected(listed(m, w0, a), steps.take(i), a)),
    decreases steps.len()
{
    if i == steps.len() - 1 {
        assert(steps.take(i) =~= steps.drop_last());
        lemma_l_history(m, w0, steps.drop_last(), a);
    } else {
        assert(steps.drop_last().take(i) =~= steps.take(i));
        lemma_l_gated(m, w0, steps.drop_last(), i, op, a);
    }
}

// ---- immediacy and re-opening, stated on consecutive calls ----
/// right after disallow_user(a) / block_user(a) every gated entry point that must vet `a` refuses
pub proof fn lemma_list_change_immediate(w: World, a: Address, op: FOp)
    requires op_vets(op, a),
    ensures
        //@@ C16:lemma.list_change_takes_effect_immediately
        !al_gate(disallow_post(w, a), op),
        !bl_gate(block_post(w, a), op),
{
    lemma_disallow(w, a);
    lemma_block(w, a);
}
/// … and after allow_user(a) / unblock_user(a) the gate is open again for `a` and as before for everyone else
pub proof fn lemma_list_reopens(w: World, a: Address, x: Address)
    ensures
        //@@ C16:lemma.gate_reopens_after_relisting
        is_allowed(allow_post(disallow_post(w, a), a), x) == (x == a || is_allowed(w, x)),
        is_blocked(unblock_post(block_post(w, a), a), x) == (x != a && is_blocked(w, x)),
{
    lemma_disallow(w, a);
    lemma_allow(disallow_post(w, a), a);
    lemma_block(w, a);
    lemma_unblock(block_post(w, a), a);
}

/// OBSERVATION (documented behaviour, not counted as a defect): the spender of an allowance is vetted
/// by none of the entry points — a disallowed / blocked spender holding an allowance can still move or
/// burn the tokens of an allowed / unblocked owner; likewise `approve` does not vet the spender.
pub proof fn lemma_spender_is_not_vetted(w: World, spender: Address, from: Address, to: Address, amount: i128, live: u32)
    requires is_blocked(w, spender), !is_blocked(w, from), !is_blocked(w, to),
    ensures
        //@@ C16:observation.spender_not_vetted
        bl_gate(w, FOp::TransferFrom { spender: spender, from: from, to: to, amount: amount }),
        bl_gate(w, FOp::BurnFrom { spender: spender, from: from, amount: amount }),
        bl_gate(w, FOp::Approve { owner: from, spender: spender, amount: amount, live: live }),
{
}
