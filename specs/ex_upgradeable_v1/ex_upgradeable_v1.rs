// expanded upgradeable-v1 example (C16 migration flag): what `#[derive(Upgradeable)]` really generates
//   upgrade  = _require_auth; enable_migration; update_current_contract_wasm      (no `migrate` entry point in v1)
pub open spec fn owner_key() -> Symbol { Symbol { code: Ghost(str_code("OWNER"@)) } }
pub open spec fn ex_owner(w: World) -> Option<Address> { dec::<Address>(iget(w, owner_key())) }
pub open spec fn upgrade_post(w: World, operator: Address, hash: Seq<u8>) -> World {
    let w1 = enable_post(w_auth(w, operator));
    World { calls: w1.calls.push(wasm_update_call(w1, hash)), ..w1 }
}
