// spec pack `ex_vault` — examples/fungible-vault (C05): the constructor's successor state
pub open spec fn constructor_post(w: World, wf: World, name: String, symbol: String, asset: Address, decimals_offset: u32) -> World {
    let w1 = set_offset_post(set_asset_post(w, asset), decimals_offset);
    let w2 = asset_decimals_post(w1, wf);
    let d = (obs_u32(w1, wf, 0) + decimals_offset) as u32;
    iset(w2, FungibleStorageKey::Meta, Metadata { decimals: d, name: name, symbol: symbol }.sv())
}
/// the two configuration keys are different, so after the constructor's two writes both read back
pub proof fn lemma_config_keys(w: World, asset: Address, offset: u32)
    ensures
        cur_asset(set_offset_post(set_asset_post(w, asset), offset)) == Some(asset),
        cur_offset(set_offset_post(set_asset_post(w, asset), offset)) == offset,
        offset_is_set(set_asset_post(w, asset)) == offset_is_set(w),
{
    broadcast use sdk_store;
    assert(VaultStorageKey::AssetAddress.sv()->Vec_0[0] != VaultStorageKey::VirtualDecimalsOffset.sv()->Vec_0[0]);
}
