// =================================================================================================
// spec pack `capped` — C16 (supply-cap part) on top of the `fungible` spec pack.
// Everything here is ghost; the executable text comes from /repo.
// =================================================================================================

// ---- abstract view ----
pub open spec fn cap_key() -> CapStorageKey { CapStorageKey::Cap }
pub open spec fn cap_of(w: World) -> Option<i128> { dec::<i128>(iget(w, cap_key())) }

// ---- exact successor state / guards ----
pub open spec fn set_cap_post(w: World, cap: i128) -> World { iset(w, cap_key(), cap.sv()) }
/// when `check_cap(amount)` can return at all
pub open spec fn check_cap_guard(w: World, amount: i128) -> bool {
    &&& cap_of(w).is_some()
    &&& i128::MIN <= supply(w) + amount <= i128::MAX
    &&& supply(w) + amount <= cap_of(w).unwrap()
}

pub proof fn lemma_cap_key()
    ensures cap_key().sv() != supply_key(),
{
    assert(sv_tag(cap_key().sv()) != sv_tag(supply_key()));
}

/// set_cap writes the cap and nothing else (in particular not the supply, no balance)
pub proof fn lemma_set_cap(w: World, cap: i128)
    ensures
        //@@ C16:lemma.set_cap_frame
        cap_of(set_cap_post(w, cap)) == Some(cap),
        supply(set_cap_post(w, cap)) == supply(w),
        set_cap_post(w, cap) == (World { instance: set_cap_post(w, cap).instance, ..w }),
{
    broadcast use sdk_store;
    lemma_cap_key();
}

/// no token operation writes the cap
pub proof fn lemma_op_keeps_cap(w: World, op: FOp)
    ensures
        //@@ C16:lemma.token_ops_write_no_cap
        cap_of(op_post(w, op)) == cap_of(w),
{
    lemma_op_shape(w, op);
    lemma_cap_key();
    let w1 = op_pre(w, op);
    assert(w1.instance == w.instance);
}

/// "a mint checked against the cap never lifts the supply above it" — one call: check_cap; Base::mint
pub proof fn lemma_capped_mint(w: World, to: Address, amount: i128)
    requires inv(w), inv_ev(w), w.ledger_ok(), check_cap_guard(w, amount), op_guard(w, FOp::Mint { to: to, amount: amount }),
    ensures
        //@@ C01+C16:lemma.capped_mint_stays_below_cap
        supply(op_post(w, FOp::Mint { to: to, amount: amount })) == supply(w) + amount,
        supply(op_post(w, FOp::Mint { to: to, amount: amount })) <= cap_of(w).unwrap(),
        cap_of(op_post(w, FOp::Mint { to: to, amount: amount })) == cap_of(w),
{
    lemma_op_c01(w, FOp::Mint { to: to, amount: amount });
    lemma_op_keeps_cap(w, FOp::Mint { to: to, amount: amount });
}

// ---- histories: cap fixed in the constructor; every mint goes through check_cap ----
pub enum CStep { CappedMint { to: Address, amount: i128 }, F(FStep) }

pub open spec fn c_fstep(st: CStep) -> FStep {
    match st { CStep::CappedMint { to, amount } => FStep::Op(FOp::Mint { to: to, amount: amount }), CStep::F(f) => f }
}
pub open spec fn c_step_ok(w: World, st: CStep) -> bool {
    match st {
        CStep::CappedMint { to, amount } => check_cap_guard(w, amount) && step_ok(w, c_fstep(st)),
        // every other entry point of the token, and ledger advances; an unchecked mint is not among them
        CStep::F(f) => step_ok(w, f) && !(f is Op && f->Op_0 is Mint),
    }
}
pub open spec fn c_run(w0: World, steps: Seq<CStep>) -> World
    decreases steps.len()
{
    if steps.len() == 0 { w0 } else { step_post(c_run(w0, steps.drop_last()), c_fstep(steps.last())) }
}
pub open spec fn c_valid(w0: World, steps: Seq<CStep>) -> bool
    decreases steps.len()
{
    steps.len() == 0 || (c_valid(w0, steps.drop_last()) && c_step_ok(c_run(w0, steps.drop_last()), steps.last()))
}

pub proof fn lemma_c_step(w: World, st: CStep, c: i128)
    requires inv(w), inv_ev(w), w.ledger_ok(), c_step_ok(w, st), cap_of(w) == Some(c), supply(w) <= c,
    ensures inv(step_post(w, c_fstep(st))), inv_ev(step_post(w, c_fstep(st))), step_post(w, c_fstep(st)).ledger_ok(),
        cap_of(step_post(w, c_fstep(st))) == Some(c), supply(step_post(w, c_fstep(st))) <= c,
{
    let f = c_fstep(st);
    lemma_step_inv(w, f);
    match f {
        FStep::Op(op) => {
            lemma_op_c01(w, op);
            lemma_op_keeps_cap(w, op);
            assert(step_post(w, f).instance == op_post(w, op).instance);
        }
        FStep::Tick { seq, ts } => {}
    }
}

/// history lemma (C16): with the cap `c` fixed at construction and the supply not above it, no
/// interleaving of cap-checked mints with transfers, burns, approvals and ledger advances ever makes
/// the supply exceed `c`; the cap itself never moves
pub proof fn lemma_c_history(w0: World, steps: Seq<CStep>, c: i128)
    requires inv(w0), inv_ev(w0), w0.ledger_ok(), cap_of(w0) == Some(c), supply(w0) <= c, c_valid(w0, steps),
    ensures
        //@@ C01+C16:history.supply_never_above_cap
        supply(c_run(w0, steps)) <= c,
        cap_of(c_run(w0, steps)) == Some(c),
        inv(c_run(w0, steps)), inv_ev(c_run(w0, steps)), c_run(w0, steps).ledger_ok(),
    decreases steps.len()
{
    if steps.len() != 0 {
        lemma_c_history(w0, steps.drop_last(), c);
        lemma_c_step(c_run(w0, steps.drop_last()), steps.last(), c);
    }
}
