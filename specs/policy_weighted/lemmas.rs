// =================================================================================================
// policy_weighted, lemma layer (C14): facts about the map model, reachability of a valid threshold,
// effect of the configuration functions
// =================================================================================================

// ---- the association-sequence model of soroban_sdk::Map behaves like a map (proved, not assumed) ----
pub proof fn lemma_smap_idx_char<K, V>(s: Seq<(K, V)>, k: K)
    ensures
        -1 <= smap_idx(s, k) < s.len(),
        smap_idx(s, k) >= 0 ==> s[smap_idx(s, k)].0 == k,
        forall|j: int| 0 <= j < s.len() && (smap_idx(s, k) < 0 || j < smap_idx(s, k)) ==> (#[trigger] s[j]).0 != k,
    decreases s.len()
{
    if s.len() > 0 && s[0].0 != k {
        let t = s.drop_first();
        lemma_smap_idx_char(t, k);
        assert forall|j: int| 0 <= j < s.len() && (smap_idx(s, k) < 0 || j < smap_idx(s, k)) implies (#[trigger] s[j]).0 != k by {
            if j > 0 { assert(t[j - 1] == s[j]); }
        }
    }
}
/// the first index holding key k is determined by its characterisation
pub proof fn lemma_smap_idx_unique<K, V>(s: Seq<(K, V)>, k: K, r: int)
    requires
        -1 <= r < s.len(),
        r >= 0 ==> s[r].0 == k,
        forall|j: int| 0 <= j < s.len() && (r < 0 || j < r) ==> (#[trigger] s[j]).0 != k,
    ensures smap_idx(s, k) == r,
{
    lemma_smap_idx_char(s, k);
    let i = smap_idx(s, k);
    if i >= 0 && (r < 0 || i < r) { assert(s[i].0 != k); }
    if r >= 0 && (i < 0 || r < i) { assert(s[r].0 != k); }
}
pub proof fn lemma_smap_idx_wf<K, V>(s: Seq<(K, V)>, i: int)
    requires smap_wf(s), 0 <= i < s.len(),
    ensures smap_idx(s, s[i].0) == i, smap_get(s, s[i].0) == Some(s[i].1),
{
    assert forall|j: int| 0 <= j < i implies (#[trigger] s[j]).0 != s[i].0 by {
        assert(s[j].0 != s[i].0);
    }
    lemma_smap_idx_unique(s, s[i].0, i);
}
/// read-over-write for `Map::set`, and well-formedness is preserved
pub proof fn lemma_smap_get_set<K, V>(s: Seq<(K, V)>, k: K, v: V, k2: K)
    requires smap_wf(s),
    ensures
        //@@ C14:model.map.get_set
        smap_get(smap_set(s, k, v), k2) == (if k2 == k { Some(v) } else { smap_get(s, k2) }),
        smap_wf(smap_set(s, k, v)),
{
    lemma_smap_idx_char(s, k);
    lemma_smap_idx_char(s, k2);
    lemma_smap_pos(s, k);
    let i = smap_idx(s, k);
    let s2 = smap_set(s, k, v);
    if i >= 0 {
        // update in place
        assert forall|a: int, b: int| 0 <= a < s2.len() && 0 <= b < s2.len() && a != b implies (#[trigger] s2[a]).0 != (#[trigger] s2[b]).0 by {
            assert(s2[a].0 == s[a].0 && s2[b].0 == s[b].0);
        }
        let r = smap_idx(s, k2);
        assert forall|j: int| 0 <= j < s2.len() && (r < 0 || j < r) implies (#[trigger] s2[j]).0 != k2 by {
            assert(s2[j].0 == s[j].0);
        }
        if r >= 0 { assert(s2[r].0 == s[r].0); }
        lemma_smap_idx_unique(s2, k2, r);
        if k2 == k { assert(r == i); } else if r >= 0 { assert(r != i); assert(s2[r] == s[r]); }
    } else {
        // insert at the host's position p
        let p = smap_pos(s, k);
        assert forall|j: int| 0 <= j < s2.len() implies
            #[trigger] s2[j] == (if j < p { s[j] } else if j == p { (k, v) } else { s[j - 1] }) by {}
        assert forall|a: int, b: int| 0 <= a < s2.len() && 0 <= b < s2.len() && a != b implies (#[trigger] s2[a]).0 != (#[trigger] s2[b]).0 by {
            let oa = if a < p { a } else { a - 1 };
            let ob = if b < p { b } else { b - 1 };
            if a != p && b != p { assert(s[oa].0 != s[ob].0); }
            else if a == p { assert(s[ob].0 != k); }
            else { assert(s[oa].0 != k); }
        }
        if k2 == k {
            assert forall|j: int| 0 <= j < p implies (#[trigger] s2[j]).0 != k2 by { assert(s[j].0 != k); }
            lemma_smap_idx_unique(s2, k2, p);
        } else {
            let r = smap_idx(s, k2);
            let r2 = if r < 0 { -1 } else if r < p { r } else { r + 1 };
            assert forall|j: int| 0 <= j < s2.len() && (r2 < 0 || j < r2) implies (#[trigger] s2[j]).0 != k2 by {
                if j < p { assert(s[j].0 != k2); } else if j > p { assert(s[j - 1].0 != k2); }
            }
            lemma_smap_idx_unique(s2, k2, r2);
        }
    }
}

// ---- sums ----
pub proof fn lemma_wt_sum_push(m: Seq<(Signer, u32)>, signers: Seq<Signer>, x: Signer)
    ensures wt_sum(m, signers.push(x)) == wt_sum(m, signers) + wt_weight_of(m, x), wt_weight_of(m, x) >= 0,
{
    assert(signers.push(x).drop_last() =~= signers);
}
pub proof fn lemma_u32_sum_push(s: Seq<u32>, x: u32)
    ensures u32_sum(s.push(x)) == u32_sum(s) + x,
{
    assert(s.push(x).drop_last() =~= s);
}
pub proof fn lemma_wt_sum_nonneg(m: Seq<(Signer, u32)>, signers: Seq<Signer>)
    ensures wt_sum(m, signers) >= 0,
    decreases signers.len()
{
    if signers.len() > 0 { lemma_wt_sum_nonneg(m, signers.drop_last()); }
}
/// the signers that have a configured weight, taken together, weigh exactly the total
pub proof fn lemma_wt_all_keys_prefix(m: Seq<(Signer, u32)>, j: int)
    requires smap_wf(m), 0 <= j <= m.len(),
    ensures wt_sum(m, smap_keys(m).take(j)) == u32_sum(smap_vals(m).take(j)),
    decreases j
{
    if j > 0 {
        lemma_wt_all_keys_prefix(m, j - 1);
        assert(smap_keys(m).take(j).drop_last() =~= smap_keys(m).take(j - 1));
        assert(smap_vals(m).take(j).drop_last() =~= smap_vals(m).take(j - 1));
        assert(smap_keys(m).take(j).last() == m[j - 1].0);
        assert(smap_vals(m).take(j).last() == m[j - 1].1);
        lemma_smap_idx_wf(m, j - 1);
    }
}
/// C14: a configuration accepted by install / set_threshold / set_signer_weight is *reachable*: the
/// configured signers together reach the threshold; and it is *non-trivial*: no signers reach nothing
pub proof fn lemma_wt_valid_reachable(m: Seq<(Signer, u32)>, t: u32)
    requires smap_wf(m), wt_valid(m, t),
    ensures
        //@@ C14:weighted.valid.reachable
        wt_sum(m, smap_keys(m)) == wt_total(m),
        wt_sum(m, smap_keys(m)) >= t,
        //@@ C14:weighted.valid.nonzero
        wt_sum(m, Seq::<Signer>::empty()) < t,
{
    lemma_wt_all_keys_prefix(m, m.len() as int);
    assert(smap_keys(m).take(m.len() as int) =~= smap_keys(m));
    assert(smap_vals(m).take(m.len() as int) =~= smap_vals(m));
}

// ---- effect of the configuration functions on the view ----
pub proof fn lemma_wt_store(w: World, a: Address, id: u32, m: Seq<(Signer, u32)>, t: u32)
    ensures
        //@@ C14:weighted.configure.effect
        wt_installed(wt_store_post(w, a, id, m, t), a, id),
        wt_weights(wt_store_post(w, a, id, m, t), a, id) == m,
        wt_thr(wt_store_post(w, a, id, m, t), a, id) == t,
        forall|a2: Address, id2: u32| (a2 != a || id2 != id) ==>
            #[trigger] wt_params(wt_store_post(w, a, id, m, t), a2, id2) == wt_params(w, a2, id2),
        forall|s: Seq<Signer>| #[trigger] wt_accepts(wt_store_post(w, a, id, m, t), a, id, s) == (wt_sum(m, s) >= t),
        wt_store_post(w, a, id, m, t) == (World { persistent: wt_store_post(w, a, id, m, t).persistent, auths: w.auths.insert(a), ..w }),
{
    broadcast use sdk_store;
    let p = WeightedThresholdAccountParams { signer_weights: SdkMap { s: Ghost(m) }, threshold: t };
    assert(wt_params(wt_store_post(w, a, id, m, t), a, id) == Some(p));
}
pub proof fn lemma_wt_uninstall(w: World, a: Address, id: u32)
    ensures
        //@@ C14:weighted.uninstall.effect
        !wt_installed(wt_uninstall_post(w, a, id), a, id),
        forall|s: Seq<Signer>| !#[trigger] wt_accepts(wt_uninstall_post(w, a, id), a, id, s),
        forall|a2: Address, id2: u32| (a2 != a || id2 != id) ==>
            #[trigger] wt_params(wt_uninstall_post(w, a, id), a2, id2) == wt_params(w, a2, id2),
{
    broadcast use sdk_store;
}
/// set_signer_weight: afterwards the signer has exactly the new weight, every other signer keeps theirs
pub proof fn lemma_wt_set_signer_weight(m: Seq<(Signer, u32)>, signer: Signer, weight: u32, other: Signer)
    requires smap_wf(m),
    ensures
        //@@ C14:weighted.set_signer_weight.effect
        wt_weight_of(smap_set(m, signer, weight), signer) == weight,
        other != signer ==> wt_weight_of(smap_set(m, signer, weight), other) == wt_weight_of(m, other),
        smap_wf(smap_set(m, signer, weight)),
{
    lemma_smap_get_set(m, signer, weight, signer);
    lemma_smap_get_set(m, signer, weight, other);
}

// ---- no subset of distinct signers can weigh more than the total: with a valid configuration
// (total <= u32::MAX) the checked sum never reverts for a duplicate-free signer list, so for such lists
// can_enforce / enforce decide *exactly* "Σ weights >= threshold" ----
pub proof fn lemma_u32_sum_remove(s: Seq<u32>, i: int)
    requires 0 <= i < s.len(),
    ensures u32_sum(s.remove(i)) == u32_sum(s) - s[i],
    decreases s.len()
{
    if i == s.len() - 1 {
        assert(s.remove(i) =~= s.drop_last());
    } else {
        assert(s.remove(i).drop_last() =~= s.drop_last().remove(i));
        assert(s.remove(i).last() == s.last());
        lemma_u32_sum_remove(s.drop_last(), i);
    }
}
pub proof fn lemma_smap_remove_entry(m: Seq<(Signer, u32)>, i: int, s: Signer)
    requires smap_wf(m), 0 <= i < m.len(), s != m[i].0,
    ensures wt_weight_of(m.remove(i), s) == wt_weight_of(m, s), smap_wf(m.remove(i)),
{
    let m2 = m.remove(i);
    assert forall|j: int| 0 <= j < m2.len() implies #[trigger] m2[j] == (if j < i { m[j] } else { m[j + 1] }) by {}
    assert forall|a: int, b: int| 0 <= a < m2.len() && 0 <= b < m2.len() && a != b implies (#[trigger] m2[a]).0 != (#[trigger] m2[b]).0 by {
        let oa = if a < i { a } else { a + 1 };
        let ob = if b < i { b } else { b + 1 };
        assert(m[oa].0 != m[ob].0);
    }
    lemma_smap_idx_char(m, s);
    let r = smap_idx(m, s);
    let r2 = if r < 0 { -1 } else if r < i { r } else { r - 1 };
    assert forall|j: int| 0 <= j < m2.len() && (r2 < 0 || j < r2) implies (#[trigger] m2[j]).0 != s by {
        if j < i { assert(m[j].0 != s); } else { assert(m[j + 1].0 != s); }
    }
    lemma_smap_idx_unique(m2, s, r2);
}
pub proof fn lemma_wt_sum_pointwise(m: Seq<(Signer, u32)>, m2: Seq<(Signer, u32)>, signers: Seq<Signer>)
    requires forall|j: int| 0 <= j < signers.len() ==> wt_weight_of(m, #[trigger] signers[j]) == wt_weight_of(m2, signers[j]),
    ensures wt_sum(m, signers) == wt_sum(m2, signers),
    decreases signers.len()
{
    if signers.len() > 0 {
        assert forall|j: int| 0 <= j < signers.drop_last().len() implies
            wt_weight_of(m, #[trigger] signers.drop_last()[j]) == wt_weight_of(m2, signers.drop_last()[j]) by {
            assert(signers.drop_last()[j] == signers[j]);
        }
        lemma_wt_sum_pointwise(m, m2, signers.drop_last());
        assert(signers.last() == signers[signers.len() - 1]);
    }
}
pub proof fn lemma_wt_sum_le_total(m: Seq<(Signer, u32)>, signers: Seq<Signer>)
    requires smap_wf(m), signers.no_duplicates(),
    ensures
        //@@ C14:weighted.sum_le_total
        wt_sum(m, signers) <= wt_total(m),
    decreases signers.len()
{
    if signers.len() == 0 {
        lemma_wt_all_keys_prefix(m, m.len() as int);
        assert(smap_keys(m).take(m.len() as int) =~= smap_keys(m));
        assert(smap_vals(m).take(m.len() as int) =~= smap_vals(m));
        lemma_wt_sum_nonneg(m, smap_keys(m));
    } else {
        let pre = signers.drop_last();
        let x = signers.last();
        assert(pre.no_duplicates()) by {
            assert forall|a: int, b: int| 0 <= a < pre.len() && 0 <= b < pre.len() && a != b implies pre[a] != pre[b] by {
                assert(pre[a] == signers[a] && pre[b] == signers[b]);
            }
        }
        lemma_smap_idx_char(m, x);
        let i = smap_idx(m, x);
        if i < 0 {
            lemma_wt_sum_le_total(m, pre);
        } else {
            let m2 = m.remove(i);
            assert forall|j: int| 0 <= j < pre.len() implies wt_weight_of(m, #[trigger] pre[j]) == wt_weight_of(m2, pre[j]) by {
                assert(pre[j] == signers[j] && x == signers[signers.len() - 1]);
                assert(pre[j] != x);
                lemma_smap_remove_entry(m, i, pre[j]);
            }
            lemma_wt_sum_pointwise(m, m2, pre);
            if m.len() > 1 { lemma_smap_remove_entry(m, i, m[if i == 0 { 1int } else { 0int }].0); }
            else { assert(smap_wf(m2)); }
            lemma_wt_sum_le_total(m2, pre);
            assert(smap_vals(m2) =~= smap_vals(m).remove(i));
            lemma_u32_sum_remove(smap_vals(m), i);
        }
    }
}
/// C14 (weighted, exactness): in a state with a valid configuration and for a duplicate-free list of
/// signers the weight sum fits in u32 — calculate_weight cannot hit MathOverflow
pub proof fn lemma_wt_no_overflow(m: Seq<(Signer, u32)>, t: u32, signers: Seq<Signer>)
    requires smap_wf(m), wt_valid(m, t), signers.no_duplicates(),
    ensures
        //@@ C14:weighted.no_overflow_for_distinct_signers
        0 <= wt_sum(m, signers) <= u32::MAX,
{
    lemma_wt_sum_le_total(m, signers);
    lemma_wt_sum_nonneg(m, signers);
}

// ---- representation invariant: every stored configuration is valid; kept by every state-changing function ----
pub open spec fn inv_wt(w: World) -> bool {
    forall|a: Address, id: u32| #[trigger] wt_installed(w, a, id) ==>
        smap_wf(wt_weights(w, a, id)) && wt_valid(wt_weights(w, a, id), wt_thr(w, a, id))
}
/// install (guard: wt_valid(params)), set_threshold (guard: wt_valid(old weights, new threshold)) and
/// set_signer_weight (guard: wt_valid(updated weights, old threshold) — the alternative `threshold == 0`
/// of its contract is excluded by the invariant) all store a valid configuration
pub proof fn lemma_wt_inv_store(w: World, a: Address, id: u32, m: Seq<(Signer, u32)>, t: u32)
    requires inv_wt(w), smap_wf(m), wt_valid(m, t),
    ensures
        //@@ C14:weighted.invariant.store
        inv_wt(wt_store_post(w, a, id, m, t)),
{
    lemma_wt_store(w, a, id, m, t);
    let w2 = wt_store_post(w, a, id, m, t);
    assert forall|a2: Address, id2: u32| #[trigger] wt_installed(w2, a2, id2) implies
        smap_wf(wt_weights(w2, a2, id2)) && wt_valid(wt_weights(w2, a2, id2), wt_thr(w2, a2, id2)) by {
        if a2 != a || id2 != id {
            assert(wt_params(w2, a2, id2) == wt_params(w, a2, id2));
            assert(wt_installed(w, a2, id2));
        }
    }
}
pub proof fn lemma_wt_inv_other(w: World, ctx: Context, signers: Vec<Signer>, a: Address, id: u32)
    requires inv_wt(w),
    ensures
        //@@ C14:weighted.invariant.enforce_uninstall
        inv_wt(wt_enforce_post(w, ctx, signers, id, a)),
        inv_wt(wt_uninstall_post(w, a, id)),
{
    lemma_wt_uninstall(w, a, id);
    let w2 = wt_uninstall_post(w, a, id);
    assert forall|a2: Address, id2: u32| #[trigger] wt_installed(w2, a2, id2) implies
        smap_wf(wt_weights(w2, a2, id2)) && wt_valid(wt_weights(w2, a2, id2), wt_thr(w2, a2, id2)) by {
        if a2 != a || id2 != id {
            assert(wt_params(w2, a2, id2) == wt_params(w, a2, id2));
            assert(wt_installed(w, a2, id2));
        }
    }
    let w3 = wt_enforce_post(w, ctx, signers, id, a);
    assert forall|a2: Address, id2: u32| #[trigger] wt_installed(w3, a2, id2) implies
        smap_wf(wt_weights(w3, a2, id2)) && wt_valid(wt_weights(w3, a2, id2), wt_thr(w3, a2, id2)) by {
        assert(wt_params(w3, a2, id2) == wt_params(w, a2, id2));
        assert(wt_installed(w, a2, id2));
    }
}
/// C14 (weighted), assembled: in a state satisfying the invariant, for a duplicate-free signer list,
/// the policy accepts exactly when the (unbounded) weight sum reaches the threshold, and that sum fits u32
pub proof fn lemma_wt_exact(w: World, a: Address, id: u32, signers: Seq<Signer>)
    requires inv_wt(w), wt_installed(w, a, id), signers.no_duplicates(),
    ensures
        //@@ C14:weighted.accepts_exactly
        wt_accepts(w, a, id, signers) == (wt_sum(wt_weights(w, a, id), signers) >= wt_thr(w, a, id)),
        wt_sum(wt_weights(w, a, id), signers) <= u32::MAX,
        wt_thr(w, a, id) >= 1,
{
    lemma_wt_no_overflow(wt_weights(w, a, id), wt_thr(w, a, id), signers);
}
