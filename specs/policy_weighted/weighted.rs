// =================================================================================================
// spec pack `policy_weighted` — packages/accounts/src/policies/weighted_threshold.rs (C14)
// =================================================================================================

// ---- abstract view ----
pub open spec fn wt_key(a: Address, id: u32) -> WeightedThresholdStorageKey { WeightedThresholdStorageKey::AccountContext(a, id) }
pub open spec fn wt_params(w: World, a: Address, id: u32) -> Option<WeightedThresholdAccountParams> {
    dec::<WeightedThresholdAccountParams>(pget(w, wt_key(a, id)))
}
pub open spec fn wt_installed(w: World, a: Address, id: u32) -> bool { wt_params(w, a, id).is_some() }
/// the configured weights (entries of the stored map) and threshold
pub open spec fn wt_weights(w: World, a: Address, id: u32) -> Seq<(Signer, u32)> { wt_params(w, a, id).unwrap().signer_weights@ }
pub open spec fn wt_thr(w: World, a: Address, id: u32) -> u32 { wt_params(w, a, id).unwrap().threshold }

/// configured weight of one signer; a signer without an entry weighs nothing
pub open spec fn wt_weight_of(m: Seq<(Signer, u32)>, s: Signer) -> int {
    match smap_get(m, s) { Some(x) => x as int, None => 0 }
}
/// C14: Σ configured weights of the supplied signers — a mathematical (unbounded) sum, one term per
/// supplied signer
pub open spec fn wt_sum(m: Seq<(Signer, u32)>, signers: Seq<Signer>) -> int
    decreases signers.len()
{
    if signers.len() == 0 { 0 } else { wt_sum(m, signers.drop_last()) + wt_weight_of(m, signers.last()) }
}
pub open spec fn u32_sum(s: Seq<u32>) -> int
    decreases s.len()
{
    if s.len() == 0 { 0 } else { u32_sum(s.drop_last()) + s.last() as int }
}
/// Σ of all configured weights: the most any set of signers can reach
pub open spec fn wt_total(m: Seq<(Signer, u32)>) -> int { u32_sum(smap_vals(m)) }

/// C14 (weighted threshold): accepts exactly when installed and the weight sum reaches the threshold
pub open spec fn wt_accepts(w: World, a: Address, id: u32, signers: Seq<Signer>) -> bool {
    wt_installed(w, a, id) && wt_sum(wt_weights(w, a, id), signers) >= wt_thr(w, a, id)
}
/// C14: a (weights, threshold) configuration is admissible iff the threshold is neither zero nor above
/// the total configured weight, and that total does not exceed u32::MAX
pub open spec fn wt_valid(m: Seq<(Signer, u32)>, t: u32) -> bool { t != 0 && t <= wt_total(m) && wt_total(m) <= u32::MAX }

// ---- exact successor states ----
pub open spec fn wt_store_post(w: World, a: Address, id: u32, m: Seq<(Signer, u32)>, t: u32) -> World {
    pset(w_auth(w, a), wt_key(a, id), WeightedThresholdAccountParams { signer_weights: SdkMap { s: Ghost(m) }, threshold: t }.sv())
}
pub open spec fn wt_enforce_post(w: World, ctx: Context, signers: Vec<Signer>, id: u32, a: Address) -> World {
    w_event(w_auth(w, a), WeightedPolicyEnforced { smart_account: a, context: ctx, context_rule_id: id, authenticated_signers: signers }.ev())
}
pub open spec fn wt_uninstall_post(w: World, a: Address, id: u32) -> World { pdel(w_auth(w, a), wt_key(a, id)) }

pub proof fn lemma_take_step<T>(s: Seq<T>, i: int)
    requires 0 <= i < s.len(),
    ensures s.take(i + 1).drop_last() == s.take(i), s.take(i + 1).last() == s[i],
{
    assert(s.take(i + 1).drop_last() =~= s.take(i));
}
