// Spec pack of unit `ex_verifiers` (property C18): the two example verifier contracts
// examples/multisig-smart-account/{ed25519-verifier,webauthn-verifier}.  Everything here is ghost code; the acceptance
// predicates of the library (`sig_ok`, `webauthn_accepts`) are those of the unit `verifiers`.

/// what the Ed25519 example has established when `verify` returns: the host accepted `sig_data` as a signature of
/// exactly `payload` under exactly `key_data` (32-byte key, 64-byte signature: no decoding step)
pub open spec fn ex_ed25519_accepts(payload: Seq<u8>, key_data: Seq<u8>, sig_data: Seq<u8>) -> bool {
    sig_ok(SigScheme::Ed25519, key_data, payload, sig_data)
}

/// the public key the WebAuthn example verifies against: the first 65 bytes of `key_data` (the rest is the credential id)
pub open spec fn ex_webauthn_key(key_data: Seq<u8>) -> Seq<u8> { key_data.subrange(0, 65) }
/// the assertion the WebAuthn example verifies: the XDR decoding of `sig_data` as `WebAuthnSigData`
pub open spec fn ex_webauthn_sig(sig_data: Seq<u8>) -> Option<WebAuthnSigData> { xdr_decode::<WebAuthnSigData>(sig_data) }
/// what the WebAuthn example has established when `verify` returns: both decodings succeeded and the library accepted the
/// decoded assertion for the SAME payload under the decoded key
pub open spec fn ex_webauthn_accepts(payload: Seq<u8>, key_data: Seq<u8>, sig_data: Seq<u8>) -> bool {
    &&& key_data.len() >= 65
    &&& ex_webauthn_sig(sig_data) is Some
    &&& webauthn_accepts(payload, ex_webauthn_key(key_data), ex_webauthn_sig(sig_data).unwrap())
}
