// =================================================================================================
// spec pack `tlctl` — the expanded TimelockController example (C09): the custom-account check and
// the macro-guarded entry points, on top of the access and timelock packs
// =================================================================================================
pub open spec fn role_sym(name: Seq<char>) -> Symbol { Symbol { code: Ghost(str_code(name)) } }
pub open spec fn executor_role() -> Symbol { role_sym("executor"@) }
pub open spec fn proposer_role() -> Symbol { role_sym("proposer"@) }
pub open spec fn canceller_role() -> Symbol { role_sym("canceller"@) }

/// the operation a contract context stands for, with the descriptor's predecessor and salt
pub open spec fn ctx_op(c: ContractContext, m: OperationMeta) -> Operation {
    Operation { target: c.contract, function: c.fn_name, args: c.args, predecessor: m.predecessor, salt: m.salt }
}
/// the argument list an executor must have authorized (`execute_op`-tagged)
pub open spec fn exec_auth_args(c: ContractContext, m: OperationMeta) -> Seq<SV> {
    seq![role_sym("execute_op"@).sv(), c.contract.sv(), c.fn_name.sv(), c.args.sv(), m.predecessor.sv(), m.salt.sv()]
}
/// one (context, descriptor) pair passes the custom-account check
pub open spec fn pair_guard(w: World, ctx: Context, m: OperationMeta) -> bool {
    &&& ctx is Contract
    &&& ctx->Contract_0.contract == w.this
    &&& (rcount(w, executor_role()) != 0 ==> m.executor.is_some() && is_member(w, m.executor.unwrap(), executor_role()))
    &&& set_execute_guard(pair_pre(w, ctx, m), ctx_op(ctx->Contract_0, m))
}
pub open spec fn pair_pre(w: World, ctx: Context, m: OperationMeta) -> World {
    if rcount(w, executor_role()) != 0 { w_auth_args(w, m.executor.unwrap(), exec_auth_args(ctx->Contract_0, m)) } else { w }
}
pub open spec fn pair_post(w: World, ctx: Context, m: OperationMeta) -> World {
    set_execute_post(pair_pre(w, ctx, m), ctx_op(ctx->Contract_0, m))
}
/// the world after the first n pairs
pub open spec fn pairs_post(w: World, ps: Seq<(Context, OperationMeta)>, n: int) -> World
    decreases n
{
    if n <= 0 { w } else { pair_post(pairs_post(w, ps, n - 1), ps[n - 1].0, ps[n - 1].1) }
}
/// every one of the first n pairs passed in the state it met
pub open spec fn pairs_guard(w: World, ps: Seq<(Context, OperationMeta)>, n: int) -> bool {
    forall|i: int| 0 <= i < n ==> pair_guard(#[trigger] pairs_post(w, ps, i), ps[i].0, ps[i].1)
}

/// C09 in the property's words: every authorized context consumed a ready operation for exactly that call
pub open spec fn context_consumed(w: World, w2: World, ctx: Context, m: OperationMeta) -> bool {
    &&& ctx is Contract && ctx->Contract_0.contract == w.this
    &&& op_state(w, op_id(ctx_op(ctx->Contract_0, m))) is Ready
    &&& op_state(w2, op_id(ctx_op(ctx->Contract_0, m))) is Done
}
