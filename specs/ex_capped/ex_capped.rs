// expanded fungible-capped example (C16 supply cap): the cap is set once by the constructor, every mint is cap-checked
