// expanded upgrader example (C06 `#[only_owner]`, C16: the upgrader calls exactly `upgrade` — and `migrate` — of the target)
pub open spec fn fn_migrate() -> int { str_code("migrate"@) }
pub open spec fn upgrade_call(target: Address, hash: BytesN<32>, operator: Address) -> Call {
    Call { callee: target, func: fn_upgrade(), args: seq![hash.sv(), operator.sv()], ret: SV::Void, ok: true }
}
pub open spec fn migrate_call(target: Address, data: Vec<Val>) -> Call {
    Call { callee: target, func: fn_migrate(), args: vals_sv(data@), ret: SV::Void, ok: true }
}
/// the world after the owner-authorized invocation issued `c1` (`ext`: whatever the callee did to itself)
pub open spec fn after_call(w: World, w2: World, c1: Call) -> World {
    let w1 = w_auth(w, cur_owner(w).unwrap());
    World { calls: w1.calls.push(c1), ext: w2.ext, ..w1 }
}
/// ... issued `c1` then `c2`
pub open spec fn after_calls2(w: World, w2: World, c1: Call, c2: Call) -> World {
    let w1 = w_auth(w, cur_owner(w).unwrap());
    World { calls: w1.calls.push(c1).push(c2), ext: w2.ext, ..w1 }
}
