// =================================================================================================
// irs, lemma + history layer (C20): every edit is the map operation it stands for, the recovery link is permanent,
// a recovered account is never registered again
// =================================================================================================
pub open spec fn same_irs_views(w: World, w2: World) -> bool {
    &&& forall|a: Address| #[trigger] ident(w2, a) == ident(w, a)
    &&& forall|a: Address| #[trigger] cur_profile(w2, a) == cur_profile(w, a)
    &&& forall|a: Address| #[trigger] recovered_to(w2, a) == recovered_to(w, a)
}
pub proof fn lemma_irs_frame(w: World, w2: World)
    requires w2.persistent == w.persistent,
    ensures same_irs_views(w, w2), inv_irs(w2) == inv_irs(w),
{
    assert forall|a: Address| #[trigger] ident(w2, a) == ident(w, a) by { assert(pget(w2, k_id(a)) == pget(w, k_id(a))); }
    assert forall|a: Address| #[trigger] cur_profile(w2, a) == cur_profile(w, a) by { assert(pget(w2, k_prof(a)) == pget(w, k_prof(a))); }
    assert forall|a: Address| #[trigger] recovered_to(w2, a) == recovered_to(w, a) by { assert(pget(w2, k_rec(a)) == pget(w, k_rec(a))); }
    if inv_irs(w) { lemma_irs_views_inv(w, w2); }
    if inv_irs(w2) { lemma_irs_views_inv(w2, w); }
}
pub proof fn lemma_irs_views_inv(w: World, w2: World)
    requires inv_irs(w),
        forall|a: Address| #[trigger] ident(w2, a) == ident(w, a),
        forall|a: Address| #[trigger] cur_profile(w2, a) == cur_profile(w, a),
        forall|a: Address| #[trigger] recovered_to(w2, a) == recovered_to(w, a),
    ensures inv_irs(w2),
{
    assert forall|a: Address| (#[trigger] ident(w2, a)).is_some() <==> cur_profile(w2, a).is_some() by {
        assert(ident(w2, a) == ident(w, a)); assert(cur_profile(w2, a) == cur_profile(w, a));
        assert(ident(w, a).is_some() <==> cur_profile(w, a).is_some());
    }
    assert forall|a: Address| (#[trigger] recovered_to(w2, a)).is_some() implies ident(w2, a).is_none() by {
        assert(recovered_to(w2, a) == recovered_to(w, a)); assert(ident(w2, a) == ident(w, a));
    }
    assert forall|a: Address| (#[trigger] cur_profile(w2, a)).is_some() implies
        1 <= countries(w2, a).len() <= MAX_COUNTRY_ENTRIES && cds_valid(countries(w2, a)) by {
        assert(cur_profile(w2, a) == cur_profile(w, a));
    }
}
pub proof fn lemma_emit_all_frame(w: World, kind: CountryDataEvent, a: Address, cds: Seq<CountryData>, n: int)
    ensures emit_all(w, kind, a, cds, n).persistent == w.persistent,
    decreases n
{
    if n > 0 { lemma_emit_all_frame(w, kind, a, cds, n - 1); }
}

// ---- the reference model: three maps ----
pub struct IrsAbs { pub ids: Map<Address, Address>, pub profs: Map<Address, IdentityProfile>, pub rec: Map<Address, Address> }
pub enum IrsOp {
    Add { a: Address, id: Address, ty: IdentityType, cds: Vec<CountryData> },
    Modify { a: Address, id: Address },
    Remove { a: Address },
    Recover { old: Address, new: Address },
    AddCd { a: Address, list: Vec<CountryData> },
    ModifyCd { a: Address, index: u32, cd: CountryData },
    DeleteCd { a: Address, index: u32 },
}
pub open spec fn irs_guard(w: World, op: IrsOp) -> bool {
    match op {
        IrsOp::Add { a, id, ty, cds } => add_id_guard(w, a, cds@),
        IrsOp::Modify { a, id } => modify_id_guard(w, a),
        IrsOp::Remove { a } => remove_id_guard(w, a),
        IrsOp::Recover { old, new } => recover_guard(w, old, new),
        IrsOp::AddCd { a, list } => add_cd_guard(w, a, list@),
        IrsOp::ModifyCd { a, index, cd } => modify_cd_guard(w, a, index, cd),
        IrsOp::DeleteCd { a, index } => delete_cd_guard(w, a, index),
    }
}
pub open spec fn irs_post(w: World, op: IrsOp) -> World {
    match op {
        IrsOp::Add { a, id, ty, cds } => add_id_post(w, a, id, ty, cds),
        IrsOp::Modify { a, id } => modify_id_post(w, a, id),
        IrsOp::Remove { a } => remove_id_post(w, a),
        IrsOp::Recover { old, new } => recover_post(w, old, new),
        IrsOp::AddCd { a, list } => add_cd_post(w, a, list@),
        IrsOp::ModifyCd { a, index, cd } => modify_cd_post(w, a, index, cd),
        IrsOp::DeleteCd { a, index } => delete_cd_post(w, a, index),
    }
}
pub open spec fn irs_abs_step(s: IrsAbs, op: IrsOp) -> IrsAbs {
    match op {
        IrsOp::Add { a, id, ty, cds } => IrsAbs { ids: s.ids.insert(a, id), profs: s.profs.insert(a, IdentityProfile { identity_type: ty, countries: cds }), ..s },
        IrsOp::Modify { a, id } => IrsAbs { ids: s.ids.insert(a, id), ..s },
        IrsOp::Remove { a } => IrsAbs { ids: s.ids.remove(a), profs: s.profs.remove(a), ..s },
        IrsOp::Recover { old, new } => IrsAbs {
            ids: s.ids.remove(old).insert(new, s.ids[old]),
            profs: s.profs.remove(old).insert(new, s.profs[old]),
            rec: s.rec.insert(old, new),
        },
        IrsOp::AddCd { a, list } => IrsAbs { profs: s.profs.insert(a, with_countries(s.profs[a], s.profs[a].countries@ + list@)), ..s },
        IrsOp::ModifyCd { a, index, cd } => IrsAbs { profs: s.profs.insert(a, with_countries(s.profs[a], s.profs[a].countries@.update(index as int, cd))), ..s },
        IrsOp::DeleteCd { a, index } => IrsAbs { profs: s.profs.insert(a, with_countries(s.profs[a], s.profs[a].countries@.remove(index as int))), ..s },
    }
}
/// when the reference accepts: no overwrite, nothing absent modified / removed, and a recovered account is never registered
pub open spec fn irs_abs_ok(s: IrsAbs, op: IrsOp) -> bool {
    match op {
        IrsOp::Add { a, id, ty, cds } => !s.ids.contains_key(a) && !s.rec.contains_key(a),
        IrsOp::Modify { a, id } => s.ids.contains_key(a),
        IrsOp::Remove { a } => s.ids.contains_key(a),
        IrsOp::Recover { old, new } => s.ids.contains_key(old) && !s.ids.contains_key(new) && !s.rec.contains_key(new),
        IrsOp::AddCd { a, list } => s.profs.contains_key(a),
        IrsOp::ModifyCd { a, index, cd } => s.profs.contains_key(a) && (index as int) < s.profs[a].countries@.len(),
        IrsOp::DeleteCd { a, index } => s.profs.contains_key(a) && (index as int) < s.profs[a].countries@.len(),
    }
}
pub open spec fn look<K, V>(m: Map<K, V>, k: K) -> Option<V> { if m.contains_key(k) { Some(m[k]) } else { None } }
pub open spec fn irs_abs_is(w: World, s: IrsAbs) -> bool {
    &&& forall|a: Address| #[trigger] ident(w, a) == look(s.ids, a)
    &&& forall|a: Address| #[trigger] cur_profile(w, a) == look(s.profs, a)
    &&& forall|a: Address| #[trigger] recovered_to(w, a) == look(s.rec, a)
}

/// pointwise effect of every edit on the three typed views
pub proof fn lemma_irs_pw(w: World, op: IrsOp)
    requires irs_guard(w, op),
    ensures
        ({
            let w2 = irs_post(w, op);
            match op {
                IrsOp::Add { a, id, ty, cds } =>
                    (forall|x: Address| #[trigger] ident(w2, x) == (if x == a { Some(id) } else { ident(w, x) }))
                    && (forall|x: Address| #[trigger] cur_profile(w2, x) == (if x == a { Some(IdentityProfile { identity_type: ty, countries: cds }) } else { cur_profile(w, x) }))
                    && (forall|x: Address| #[trigger] recovered_to(w2, x) == recovered_to(w, x)),
                IrsOp::Modify { a, id } =>
                    (forall|x: Address| #[trigger] ident(w2, x) == (if x == a { Some(id) } else { ident(w, x) }))
                    && (forall|x: Address| #[trigger] cur_profile(w2, x) == cur_profile(w, x))
                    && (forall|x: Address| #[trigger] recovered_to(w2, x) == recovered_to(w, x)),
                IrsOp::Remove { a } =>
                    (forall|x: Address| #[trigger] ident(w2, x) == (if x == a { None } else { ident(w, x) }))
                    && (forall|x: Address| #[trigger] cur_profile(w2, x) == (if x == a { None } else { cur_profile(w, x) }))
                    && (forall|x: Address| #[trigger] recovered_to(w2, x) == recovered_to(w, x)),
                IrsOp::Recover { old, new } =>
                    (forall|x: Address| #[trigger] ident(w2, x) == (if x == old { None } else if x == new { ident(w, old) } else { ident(w, x) }))
                    && (forall|x: Address| #[trigger] cur_profile(w2, x) == (if x == old { None } else if x == new { cur_profile(w, old) } else { cur_profile(w, x) }))
                    && (forall|x: Address| #[trigger] recovered_to(w2, x) == (if x == old { Some(new) } else { recovered_to(w, x) })),
                IrsOp::AddCd { a, list } =>
                    (forall|x: Address| #[trigger] ident(w2, x) == ident(w, x))
                    && (forall|x: Address| #[trigger] cur_profile(w2, x) == (if x == a { Some(with_countries(cur_profile(w, a).unwrap(), countries(w, a) + list@)) } else { cur_profile(w, x) }))
                    && (forall|x: Address| #[trigger] recovered_to(w2, x) == recovered_to(w, x)),
                IrsOp::ModifyCd { a, index, cd } =>
                    (forall|x: Address| #[trigger] ident(w2, x) == ident(w, x))
                    && (forall|x: Address| #[trigger] cur_profile(w2, x) == (if x == a { Some(with_countries(cur_profile(w, a).unwrap(), countries(w, a).update(index as int, cd))) } else { cur_profile(w, x) }))
                    && (forall|x: Address| #[trigger] recovered_to(w2, x) == recovered_to(w, x)),
                IrsOp::DeleteCd { a, index } =>
                    (forall|x: Address| #[trigger] ident(w2, x) == ident(w, x))
                    && (forall|x: Address| #[trigger] cur_profile(w2, x) == (if x == a { Some(with_countries(cur_profile(w, a).unwrap(), countries(w, a).remove(index as int))) } else { cur_profile(w, x) }))
                    && (forall|x: Address| #[trigger] recovered_to(w2, x) == recovered_to(w, x)),
            }
        }),
{
    let w2 = irs_post(w, op);
    match op {
        IrsOp::Add { a, id, ty, cds } => {
            let wc = add_id_core(w, a, id, ty, cds);
            lemma_emit_all_frame(wc, CountryDataEvent::Added, a, cds@, cds@.len() as int);
            lemma_irs_frame(wc, w2);
            let w1 = pset(w, k_id(a), id.sv());
            let w1e = w_event(w1, IdentityStored { account: a, identity: id }.ev());
            lemma_irs_frame(w1, w1e);
            assert(same_irs_views(w1, w1e));
            lemma_irs_pset_prof(w1e, a, IdentityProfile { identity_type: ty, countries: cds });
            lemma_irs_pset_id(w, a, id);
            assert forall|x: Address| #[trigger] ident(w2, x) == (if x == a { Some(id) } else { ident(w, x) }) by {
                assert(ident(w2, x) == ident(wc, x)); assert(ident(wc, x) == ident(w1e, x)); assert(ident(w1e, x) == ident(w1, x));
            }
            assert forall|x: Address| #[trigger] cur_profile(w2, x) == (if x == a { Some(IdentityProfile { identity_type: ty, countries: cds }) } else { cur_profile(w, x) }) by {
                assert(cur_profile(w2, x) == cur_profile(wc, x)); assert(cur_profile(w1e, x) == cur_profile(w1, x)); assert(cur_profile(w1, x) == cur_profile(w, x));
            }
            assert forall|x: Address| #[trigger] recovered_to(w2, x) == recovered_to(w, x) by {
                assert(recovered_to(w2, x) == recovered_to(wc, x)); assert(recovered_to(wc, x) == recovered_to(w1e, x));
                assert(recovered_to(w1e, x) == recovered_to(w1, x)); assert(recovered_to(w1, x) == recovered_to(w, x));
            }
        }
        IrsOp::Modify { a, id } => {
            let w1 = pset(w, k_id(a), id.sv());
            lemma_irs_frame(w1, w2);
            lemma_irs_pset_id(w, a, id);
            assert forall|x: Address| #[trigger] ident(w2, x) == (if x == a { Some(id) } else { ident(w, x) }) by { assert(ident(w2, x) == ident(w1, x)); }
            assert forall|x: Address| #[trigger] cur_profile(w2, x) == cur_profile(w, x) by { assert(cur_profile(w2, x) == cur_profile(w1, x)); assert(cur_profile(w1, x) == cur_profile(w, x)); }
            assert forall|x: Address| #[trigger] recovered_to(w2, x) == recovered_to(w, x) by { assert(recovered_to(w2, x) == recovered_to(w1, x)); assert(recovered_to(w1, x) == recovered_to(w, x)); }
        }
        IrsOp::Remove { a } => {
            let wc = remove_id_core(w, a);
            lemma_emit_all_frame(wc, CountryDataEvent::Removed, a, countries(w, a), countries(w, a).len() as int);
            lemma_irs_frame(wc, w2);
            let w1 = pdel(w, k_id(a));
            let w1e = w_event(w1, IdentityUnstored { account: a, identity: ident(w, a).unwrap() }.ev());
            lemma_irs_frame(w1, w1e);
            assert((forall|x: Address| #[trigger] ident(w1, x) == (if x == a { None } else { ident(w, x) }))
                && (forall|x: Address| #[trigger] cur_profile(w1, x) == cur_profile(w, x))
                && (forall|x: Address| #[trigger] recovered_to(w1, x) == recovered_to(w, x))) by { broadcast use sdk_store; }
            assert((forall|x: Address| #[trigger] ident(wc, x) == ident(w1e, x))
                && (forall|x: Address| #[trigger] cur_profile(wc, x) == (if x == a { None } else { cur_profile(w1e, x) }))
                && (forall|x: Address| #[trigger] recovered_to(wc, x) == recovered_to(w1e, x))) by { broadcast use sdk_store; }
            assert forall|x: Address| #[trigger] ident(w2, x) == (if x == a { None } else { ident(w, x) }) by {
                assert(ident(w2, x) == ident(wc, x)); assert(ident(wc, x) == ident(w1e, x)); assert(ident(w1e, x) == ident(w1, x));
            }
            assert forall|x: Address| #[trigger] cur_profile(w2, x) == (if x == a { None } else { cur_profile(w, x) }) by {
                assert(cur_profile(w2, x) == cur_profile(wc, x)); assert(cur_profile(w1e, x) == cur_profile(w1, x)); assert(cur_profile(w1, x) == cur_profile(w, x));
            }
            assert forall|x: Address| #[trigger] recovered_to(w2, x) == recovered_to(w, x) by {
                assert(recovered_to(w2, x) == recovered_to(wc, x)); assert(recovered_to(wc, x) == recovered_to(w1e, x));
                assert(recovered_to(w1e, x) == recovered_to(w1, x)); assert(recovered_to(w1, x) == recovered_to(w, x));
            }
        }
        IrsOp::Recover { old, new } => {
            let wc = recover_core(w, old, new);
            lemma_irs_frame(wc, w2);
            assert((forall|x: Address| #[trigger] ident(wc, x) == (if x == old { None } else if x == new { ident(w, old) } else { ident(w, x) }))
                && (forall|x: Address| #[trigger] cur_profile(wc, x) == (if x == old { None } else if x == new { cur_profile(w, old) } else { cur_profile(w, x) }))
                && (forall|x: Address| #[trigger] recovered_to(wc, x) == (if x == old { Some(new) } else { recovered_to(w, x) }))) by { broadcast use sdk_store; }
            assert forall|x: Address| #[trigger] ident(w2, x) == (if x == old { None } else if x == new { ident(w, old) } else { ident(w, x) }) by { assert(ident(w2, x) == ident(wc, x)); }
            assert forall|x: Address| #[trigger] cur_profile(w2, x) == (if x == old { None } else if x == new { cur_profile(w, old) } else { cur_profile(w, x) }) by { assert(cur_profile(w2, x) == cur_profile(wc, x)); }
            assert forall|x: Address| #[trigger] recovered_to(w2, x) == (if x == old { Some(new) } else { recovered_to(w, x) }) by { assert(recovered_to(w2, x) == recovered_to(wc, x)); }
        }
        IrsOp::AddCd { a, list } => {
            let p2 = with_countries(cur_profile(w, a).unwrap(), countries(w, a) + list@);
            let wc = add_cd_core(w, a, list@);
            lemma_emit_all_frame(wc, CountryDataEvent::Added, a, list@, list@.len() as int);
            lemma_irs_frame(wc, w2);
            lemma_irs_pset_prof(w, a, p2);
            assert forall|x: Address| #[trigger] ident(w2, x) == ident(w, x) by { assert(ident(w2, x) == ident(wc, x)); }
            assert forall|x: Address| #[trigger] cur_profile(w2, x) == (if x == a { Some(p2) } else { cur_profile(w, x) }) by { assert(cur_profile(w2, x) == cur_profile(wc, x)); }
            assert forall|x: Address| #[trigger] recovered_to(w2, x) == recovered_to(w, x) by { assert(recovered_to(w2, x) == recovered_to(wc, x)); }
        }
        IrsOp::ModifyCd { a, index, cd } => {
            let p2 = with_countries(cur_profile(w, a).unwrap(), countries(w, a).update(index as int, cd));
            let wc = pset(w, k_prof(a), p2.sv());
            lemma_irs_frame(wc, w2);
            lemma_irs_pset_prof(w, a, p2);
            assert forall|x: Address| #[trigger] ident(w2, x) == ident(w, x) by { assert(ident(w2, x) == ident(wc, x)); }
            assert forall|x: Address| #[trigger] cur_profile(w2, x) == (if x == a { Some(p2) } else { cur_profile(w, x) }) by { assert(cur_profile(w2, x) == cur_profile(wc, x)); }
            assert forall|x: Address| #[trigger] recovered_to(w2, x) == recovered_to(w, x) by { assert(recovered_to(w2, x) == recovered_to(wc, x)); }
        }
        IrsOp::DeleteCd { a, index } => {
            let p2 = with_countries(cur_profile(w, a).unwrap(), countries(w, a).remove(index as int));
            let wc = pset(w, k_prof(a), p2.sv());
            lemma_irs_frame(wc, w2);
            lemma_irs_pset_prof(w, a, p2);
            assert forall|x: Address| #[trigger] ident(w2, x) == ident(w, x) by { assert(ident(w2, x) == ident(wc, x)); }
            assert forall|x: Address| #[trigger] cur_profile(w2, x) == (if x == a { Some(p2) } else { cur_profile(w, x) }) by { assert(cur_profile(w2, x) == cur_profile(wc, x)); }
            assert forall|x: Address| #[trigger] recovered_to(w2, x) == recovered_to(w, x) by { assert(recovered_to(w2, x) == recovered_to(wc, x)); }
        }
    }
}
pub proof fn lemma_irs_pset_prof(w: World, a: Address, p: IdentityProfile)
    ensures
        forall|x: Address| #[trigger] ident(pset(w, k_prof(a), p.sv()), x) == ident(w, x),
        forall|x: Address| #[trigger] cur_profile(pset(w, k_prof(a), p.sv()), x) == (if x == a { Some(p) } else { cur_profile(w, x) }),
        forall|x: Address| #[trigger] recovered_to(pset(w, k_prof(a), p.sv()), x) == recovered_to(w, x),
{
    broadcast use sdk_store;
}
pub proof fn lemma_irs_pset_id(w: World, a: Address, id: Address)
    ensures
        forall|x: Address| #[trigger] ident(pset(w, k_id(a), id.sv()), x) == (if x == a { Some(id) } else { ident(w, x) }),
        forall|x: Address| #[trigger] cur_profile(pset(w, k_id(a), id.sv()), x) == cur_profile(w, x),
        forall|x: Address| #[trigger] recovered_to(pset(w, k_id(a), id.sv()), x) == recovered_to(w, x),
{
    broadcast use sdk_store;
}
