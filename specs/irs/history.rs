// =================================================================================================
// irs, history layer (C20)
// =================================================================================================
pub proof fn lemma_irs_step(w: World, op: IrsOp, s: IrsAbs)
    requires inv_irs(w), irs_abs_is(w, s), irs_guard(w, op),
    ensures
        //@@ C20:irs.step.invariant
        inv_irs(irs_post(w, op)),
        //@@ C20:irs.step.edit_is_map_operation
        irs_abs_is(irs_post(w, op), irs_abs_step(s, op)),
        //@@ C20:irs.step.overwrite_absent_and_recovered_refused
        irs_abs_ok(s, op),
        //@@ C20:irs.step.recovery_link_permanent
        forall|x: Address| (#[trigger] recovered_to(w, x)).is_some() ==> recovered_to(irs_post(w, op), x) == recovered_to(w, x),
{
    let w2 = irs_post(w, op);
    let s2 = irs_abs_step(s, op);
    lemma_irs_pw(w, op);
    match op {
        IrsOp::Add { a, id, ty, cds } => {
            assert(ident(w, a) == look(s.ids, a) && recovered_to(w, a) == look(s.rec, a));
            assert forall|x: Address| (#[trigger] cur_profile(w2, x)).is_some() implies
                1 <= countries(w2, x).len() <= MAX_COUNTRY_ENTRIES && cds_valid(countries(w2, x)) by {
                if x != a { assert(cur_profile(w, x).is_some()); }
            }
            assert forall|x: Address| (#[trigger] ident(w2, x)).is_some() <==> cur_profile(w2, x).is_some() by {
                assert(ident(w, x).is_some() <==> cur_profile(w, x).is_some());
            }
            assert forall|x: Address| (#[trigger] recovered_to(w2, x)).is_some() implies ident(w2, x).is_none() by {
                assert(recovered_to(w, x).is_some());
            }
            assert forall|x: Address| #[trigger] ident(w2, x) == look(s2.ids, x) by { assert(ident(w, x) == look(s.ids, x)); }
            assert forall|x: Address| #[trigger] cur_profile(w2, x) == look(s2.profs, x) by { assert(cur_profile(w, x) == look(s.profs, x)); }
            assert forall|x: Address| #[trigger] recovered_to(w2, x) == look(s2.rec, x) by { assert(recovered_to(w, x) == look(s.rec, x)); }
        }
        IrsOp::Modify { a, id } => {
            assert(ident(w, a) == look(s.ids, a));
            assert forall|x: Address| (#[trigger] cur_profile(w2, x)).is_some() implies
                1 <= countries(w2, x).len() <= MAX_COUNTRY_ENTRIES && cds_valid(countries(w2, x)) by { assert(cur_profile(w, x).is_some()); }
            assert forall|x: Address| (#[trigger] ident(w2, x)).is_some() <==> cur_profile(w2, x).is_some() by {
                assert(ident(w, x).is_some() <==> cur_profile(w, x).is_some());
            }
            assert forall|x: Address| (#[trigger] recovered_to(w2, x)).is_some() implies ident(w2, x).is_none() by {
                assert(recovered_to(w, x).is_some());
            }
            assert forall|x: Address| #[trigger] ident(w2, x) == look(s2.ids, x) by { assert(ident(w, x) == look(s.ids, x)); }
            assert forall|x: Address| #[trigger] cur_profile(w2, x) == look(s2.profs, x) by { assert(cur_profile(w, x) == look(s.profs, x)); }
            assert forall|x: Address| #[trigger] recovered_to(w2, x) == look(s2.rec, x) by { assert(recovered_to(w, x) == look(s.rec, x)); }
        }
        IrsOp::Remove { a } => {
            assert(ident(w, a) == look(s.ids, a));
            assert forall|x: Address| (#[trigger] cur_profile(w2, x)).is_some() implies
                1 <= countries(w2, x).len() <= MAX_COUNTRY_ENTRIES && cds_valid(countries(w2, x)) by { assert(cur_profile(w, x).is_some()); }
            assert forall|x: Address| (#[trigger] ident(w2, x)).is_some() <==> cur_profile(w2, x).is_some() by {
                assert(ident(w, x).is_some() <==> cur_profile(w, x).is_some());
            }
            assert forall|x: Address| (#[trigger] recovered_to(w2, x)).is_some() implies ident(w2, x).is_none() by {
                assert(recovered_to(w, x).is_some());
            }
            assert forall|x: Address| #[trigger] ident(w2, x) == look(s2.ids, x) by { assert(ident(w, x) == look(s.ids, x)); }
            assert forall|x: Address| #[trigger] cur_profile(w2, x) == look(s2.profs, x) by { assert(cur_profile(w, x) == look(s.profs, x)); }
            assert forall|x: Address| #[trigger] recovered_to(w2, x) == look(s2.rec, x) by { assert(recovered_to(w, x) == look(s.rec, x)); }
        }
        IrsOp::Recover { old, new } => {
            assert(ident(w, old) == look(s.ids, old) && ident(w, new) == look(s.ids, new) && recovered_to(w, new) == look(s.rec, new));
            assert(cur_profile(w, old) == look(s.profs, old));
            assert(recovered_to(w, old).is_some() ==> ident(w, old).is_none());
            assert forall|x: Address| (#[trigger] cur_profile(w2, x)).is_some() implies
                1 <= countries(w2, x).len() <= MAX_COUNTRY_ENTRIES && cds_valid(countries(w2, x)) by {
                if x == new { assert(cur_profile(w, old).is_some()); } else { assert(cur_profile(w, x).is_some()); }
            }
            assert forall|x: Address| (#[trigger] ident(w2, x)).is_some() <==> cur_profile(w2, x).is_some() by {
                assert(ident(w, x).is_some() <==> cur_profile(w, x).is_some());
                assert(ident(w, old).is_some() <==> cur_profile(w, old).is_some());
            }
            assert forall|x: Address| (#[trigger] recovered_to(w2, x)).is_some() implies ident(w2, x).is_none() by {
                if x != old { assert(recovered_to(w, x).is_some()); }
            }
            assert forall|x: Address| #[trigger] ident(w2, x) == look(s2.ids, x) by { assert(ident(w, x) == look(s.ids, x)); }
            assert forall|x: Address| #[trigger] cur_profile(w2, x) == look(s2.profs, x) by { assert(cur_profile(w, x) == look(s.profs, x)); }
            assert forall|x: Address| #[trigger] recovered_to(w2, x) == look(s2.rec, x) by { assert(recovered_to(w, x) == look(s.rec, x)); }
        }
        IrsOp::AddCd { a, list } => {
            assert(cur_profile(w, a) == look(s.profs, a));
            let c2 = countries(w, a) + list@;
            assert forall|k: int| 0 <= k < c2.len() implies cd_valid(#[trigger] c2[k]) by {
                if k < countries(w, a).len() { assert(cd_valid(countries(w, a)[k])); } else { assert(cd_valid(list@[k - countries(w, a).len()])); }
            }
            lemma_irs_profile_step(w, w2, s, s2, a, c2);
        }
        IrsOp::ModifyCd { a, index, cd } => {
            assert(cur_profile(w, a) == look(s.profs, a));
            let c2 = countries(w, a).update(index as int, cd);
            assert forall|k: int| 0 <= k < c2.len() implies cd_valid(#[trigger] c2[k]) by {
                if k != index { assert(cd_valid(countries(w, a)[k])); }
            }
            lemma_irs_profile_step(w, w2, s, s2, a, c2);
        }
        IrsOp::DeleteCd { a, index } => {
            assert(cur_profile(w, a) == look(s.profs, a));
            let c2 = countries(w, a).remove(index as int);
            assert forall|k: int| 0 <= k < c2.len() implies cd_valid(#[trigger] c2[k]) by {
                if k < index { assert(cd_valid(countries(w, a)[k])); } else { assert(cd_valid(countries(w, a)[k + 1])); }
            }
            lemma_irs_profile_step(w, w2, s, s2, a, c2);
        }
    }
}
/// the three country-data edits: only the profile of `a` changes, to one with the list `c2`
pub proof fn lemma_irs_profile_step(w: World, w2: World, s: IrsAbs, s2: IrsAbs, a: Address, c2: Seq<CountryData>)
    requires
        inv_irs(w), irs_abs_is(w, s), cur_profile(w, a).is_some(),
        1 <= c2.len() <= MAX_COUNTRY_ENTRIES, cds_valid(c2),
        forall|x: Address| #[trigger] ident(w2, x) == ident(w, x),
        forall|x: Address| #[trigger] cur_profile(w2, x) == (if x == a { Some(with_countries(cur_profile(w, a).unwrap(), c2)) } else { cur_profile(w, x) }),
        forall|x: Address| #[trigger] recovered_to(w2, x) == recovered_to(w, x),
        s2 == (IrsAbs { profs: s.profs.insert(a, with_countries(s.profs[a], c2)), ..s }),
    ensures inv_irs(w2), irs_abs_is(w2, s2),
{
    assert(cur_profile(w, a) == look(s.profs, a));
    assert forall|x: Address| (#[trigger] cur_profile(w2, x)).is_some() implies
        1 <= countries(w2, x).len() <= MAX_COUNTRY_ENTRIES && cds_valid(countries(w2, x)) by {
        if x != a { assert(cur_profile(w, x).is_some()); }
    }
    assert forall|x: Address| (#[trigger] ident(w2, x)).is_some() <==> cur_profile(w2, x).is_some() by {
        assert(ident(w, x).is_some() <==> cur_profile(w, x).is_some());
    }
    assert forall|x: Address| (#[trigger] recovered_to(w2, x)).is_some() implies ident(w2, x).is_none() by {
        assert(recovered_to(w, x).is_some());
    }
    assert forall|x: Address| #[trigger] ident(w2, x) == look(s2.ids, x) by { assert(ident(w, x) == look(s.ids, x)); }
    assert forall|x: Address| #[trigger] cur_profile(w2, x) == look(s2.profs, x) by { assert(cur_profile(w, x) == look(s.profs, x)); }
    assert forall|x: Address| #[trigger] recovered_to(w2, x) == look(s2.rec, x) by { assert(recovered_to(w, x) == look(s.rec, x)); }
}

pub open spec fn irs_run(w0: World, steps: Seq<IrsOp>) -> World
    decreases steps.len()
{
    if steps.len() == 0 { w0 } else { irs_post(irs_run(w0, steps.drop_last()), steps.last()) }
}
pub open spec fn irs_valid(w0: World, steps: Seq<IrsOp>) -> bool
    decreases steps.len()
{
    steps.len() == 0 || (irs_valid(w0, steps.drop_last()) && irs_guard(irs_run(w0, steps.drop_last()), steps.last()))
}
pub open spec fn irs_abs_run(steps: Seq<IrsOp>) -> IrsAbs
    decreases steps.len()
{
    if steps.len() == 0 { IrsAbs { ids: Map::empty(), profs: Map::empty(), rec: Map::empty() } }
    else { irs_abs_step(irs_abs_run(steps.drop_last()), steps.last()) }
}
pub open spec fn irs_abs_valid(steps: Seq<IrsOp>) -> bool
    decreases steps.len()
{
    steps.len() == 0 || (irs_abs_valid(steps.drop_last()) && irs_abs_ok(irs_abs_run(steps.drop_last()), steps.last()))
}
pub open spec fn irs_genesis(w: World) -> bool {
    &&& forall|a: Address| (#[trigger] pget(w, k_id(a))).is_none()
    &&& forall|a: Address| (#[trigger] pget(w, k_prof(a))).is_none()
    &&& forall|a: Address| (#[trigger] pget(w, k_rec(a))).is_none()
}
pub proof fn lemma_irs_history(w0: World, steps: Seq<IrsOp>)
    requires irs_genesis(w0), irs_valid(w0, steps),
    ensures
        //@@ C20:irs.history.invariant
        inv_irs(irs_run(w0, steps)),
        //@@ C20:irs.history.queries_answer_as_folded_maps
        irs_abs_is(irs_run(w0, steps), irs_abs_run(steps)),
        //@@ C20:irs.history.accepted_edits_are_accepted_by_the_reference
        irs_abs_valid(steps),
    decreases steps.len()
{
    if steps.len() == 0 {
        assert forall|a: Address| (#[trigger] ident(w0, a)).is_none() by { assert(pget(w0, k_id(a)).is_none()); }
        assert forall|a: Address| (#[trigger] cur_profile(w0, a)).is_none() by { assert(pget(w0, k_prof(a)).is_none()); }
        assert forall|a: Address| (#[trigger] recovered_to(w0, a)).is_none() by { assert(pget(w0, k_rec(a)).is_none()); }
    } else {
        let pre = steps.drop_last();
        lemma_irs_history(w0, pre);
        lemma_irs_step(irs_run(w0, pre), steps.last(), irs_abs_run(pre));
    }
}
/// once an account has been recovered (after k steps), the link never changes and the account is never registered again
pub proof fn lemma_irs_recovered_forever(w0: World, steps: Seq<IrsOp>, k: int, a: Address)
    requires irs_genesis(w0), irs_valid(w0, steps), 0 <= k <= steps.len(), recovered_to(irs_run(w0, steps.take(k)), a).is_some(),
    ensures
        //@@ C20:irs.history.recovery_link_permanent
        recovered_to(irs_run(w0, steps), a) == recovered_to(irs_run(w0, steps.take(k)), a),
        //@@ C20:irs.history.recovered_account_never_registered_again
        ident(irs_run(w0, steps), a).is_none() && cur_profile(irs_run(w0, steps), a).is_none(),
    decreases steps.len()
{
    lemma_irs_history(w0, steps);
    if k == steps.len() {
        assert(steps.take(k) =~= steps);
    } else {
        let pre = steps.drop_last();
        assert(pre.take(k) =~= steps.take(k));
        lemma_irs_recovered_forever(w0, pre, k, a);
        lemma_irs_history(w0, pre);
        lemma_irs_step(irs_run(w0, pre), steps.last(), irs_abs_run(pre));
    }
    let w = irs_run(w0, steps);
    assert(recovered_to(w, a).is_some() ==> ident(w, a).is_none());
    assert(ident(w, a).is_some() <==> cur_profile(w, a).is_some());
}
