// =================================================================================================
// spec pack `irs` — RWA identity registry storage (C20)
//   Identity(account): Address, IdentityProfile(account): {type, countries}, RecoveredTo(old account): new account
// =================================================================================================
pub open spec fn k_id(a: Address) -> IRSStorageKey { IRSStorageKey::Identity(a) }
pub open spec fn k_prof(a: Address) -> IRSStorageKey { IRSStorageKey::IdentityProfile(a) }
pub open spec fn k_rec(a: Address) -> IRSStorageKey { IRSStorageKey::RecoveredTo(a) }
pub open spec fn vcd(s: Seq<CountryData>) -> Vec<CountryData> { Vec { s: Ghost(s) } }

/// the identity contract registered for an account
pub open spec fn ident(w: World, a: Address) -> Option<Address> { dec::<Address>(pget(w, k_id(a))) }
pub open spec fn cur_profile(w: World, a: Address) -> Option<IdentityProfile> { dec::<IdentityProfile>(pget(w, k_prof(a))) }
/// the account an old account was recovered to
pub open spec fn recovered_to(w: World, a: Address) -> Option<Address> { dec::<Address>(pget(w, k_rec(a))) }
pub open spec fn countries(w: World, a: Address) -> Seq<CountryData> { match cur_profile(w, a) { Some(p) => p.countries@, None => Seq::empty() } }

/// what validate_country_data accepts
pub open spec fn cd_valid(cd: CountryData) -> bool {
    match cd.metadata {
        Some(m) => m@.len() <= MAX_METADATA_ENTRIES && forall|k: int| 0 <= k < m@.len() ==> (#[trigger] m@[k]).1.s@.len() <= MAX_METADATA_STRING_LEN,
        None => true,
    }
}
pub open spec fn cds_valid(s: Seq<CountryData>) -> bool { forall|k: int| 0 <= k < s.len() ==> cd_valid(#[trigger] s[k]) }

/// C20 representation invariant: identity and profile exist together, a recovered account is not registered, country
/// lists are non-empty, within the limit, and hold only validated entries
pub open spec fn inv_irs(w: World) -> bool {
    &&& forall|a: Address| (#[trigger] ident(w, a)).is_some() <==> cur_profile(w, a).is_some()
    &&& forall|a: Address| (#[trigger] recovered_to(w, a)).is_some() ==> ident(w, a).is_none()
    &&& forall|a: Address| (#[trigger] cur_profile(w, a)).is_some() ==>
            1 <= countries(w, a).len() <= MAX_COUNTRY_ENTRIES && cds_valid(countries(w, a))
}

// ---- events ----
pub open spec fn cd_ev(kind: CountryDataEvent, a: Address, cd: CountryData) -> SV {
    match kind {
        CountryDataEvent::Added => CountryDataAdded { account: a, country_data: cd }.ev(),
        CountryDataEvent::Removed => CountryDataRemoved { account: a, country_data: cd }.ev(),
        CountryDataEvent::Modified => CountryDataModified { account: a, country_data: cd }.ev(),
    }
}
/// one country-data event per entry, in order
pub open spec fn emit_all(w: World, kind: CountryDataEvent, a: Address, cds: Seq<CountryData>, n: int) -> World
    decreases n
{
    if n <= 0 { w } else { w_event(emit_all(w, kind, a, cds, n - 1), cd_ev(kind, a, cds[n - 1])) }
}

// ---- exact successor states ----
pub open spec fn add_id_guard(w: World, a: Address, cds: Seq<CountryData>) -> bool {
    &&& recovered_to(w, a).is_none()
    &&& 1 <= cds.len() <= MAX_COUNTRY_ENTRIES
    &&& cds_valid(cds)
    &&& ident(w, a).is_none()
}
pub open spec fn add_id_core(w: World, a: Address, id: Address, ty: IdentityType, cds: Vec<CountryData>) -> World {
    let w1 = pset(w, k_id(a), id.sv());
    let w2 = w_event(w1, IdentityStored { account: a, identity: id }.ev());
    pset(w2, k_prof(a), IdentityProfile { identity_type: ty, countries: cds }.sv())
}
pub open spec fn add_id_post(w: World, a: Address, id: Address, ty: IdentityType, cds: Vec<CountryData>) -> World {
    emit_all(add_id_core(w, a, id, ty, cds), CountryDataEvent::Added, a, cds@, cds@.len() as int)
}
pub open spec fn modify_id_guard(w: World, a: Address) -> bool { ident(w, a).is_some() }
pub open spec fn modify_id_post(w: World, a: Address, id: Address) -> World {
    w_event(pset(w, k_id(a), id.sv()), IdentityModified { old_identity: ident(w, a).unwrap(), new_identity: id }.ev())
}
pub open spec fn remove_id_guard(w: World, a: Address) -> bool { ident(w, a).is_some() && cur_profile(w, a).is_some() }
pub open spec fn remove_id_core(w: World, a: Address) -> World {
    let w1 = pdel(w, k_id(a));
    let w2 = w_event(w1, IdentityUnstored { account: a, identity: ident(w, a).unwrap() }.ev());
    pdel(w2, k_prof(a))
}
pub open spec fn remove_id_post(w: World, a: Address) -> World {
    emit_all(remove_id_core(w, a), CountryDataEvent::Removed, a, countries(w, a), countries(w, a).len() as int)
}
pub open spec fn recover_guard(w: World, old: Address, new: Address) -> bool {
    &&& recovered_to(w, new).is_none()
    &&& ident(w, old).is_some()
    &&& ident(w, new).is_none()
    &&& cur_profile(w, old).is_some()
}
pub open spec fn recover_core(w: World, old: Address, new: Address) -> World {
    let w1 = pset(w, k_id(new), ident(w, old).unwrap().sv());
    let w2 = pdel(w1, k_id(old));
    let w3 = pset(w2, k_prof(new), cur_profile(w, old).unwrap().sv());
    let w4 = pdel(w3, k_prof(old));
    pset(w4, k_rec(old), new.sv())
}
pub open spec fn recover_post(w: World, old: Address, new: Address) -> World {
    w_event(recover_core(w, old, new), IdentityRecovered { old_account: old, new_account: new }.ev())
}
pub open spec fn with_countries(p: IdentityProfile, s: Seq<CountryData>) -> IdentityProfile { IdentityProfile { identity_type: p.identity_type, countries: vcd(s) } }
pub open spec fn add_cd_guard(w: World, a: Address, list: Seq<CountryData>) -> bool {
    &&& list.len() > 0
    &&& cds_valid(list)
    &&& cur_profile(w, a).is_some()
    &&& countries(w, a).len() + list.len() <= MAX_COUNTRY_ENTRIES
}
pub open spec fn add_cd_core(w: World, a: Address, list: Seq<CountryData>) -> World {
    pset(w, k_prof(a), with_countries(cur_profile(w, a).unwrap(), countries(w, a) + list).sv())
}
pub open spec fn add_cd_post(w: World, a: Address, list: Seq<CountryData>) -> World {
    emit_all(add_cd_core(w, a, list), CountryDataEvent::Added, a, list, list.len() as int)
}
pub open spec fn modify_cd_guard(w: World, a: Address, index: u32, cd: CountryData) -> bool {
    cd_valid(cd) && cur_profile(w, a).is_some() && (index as int) < countries(w, a).len()
}
pub open spec fn modify_cd_post(w: World, a: Address, index: u32, cd: CountryData) -> World {
    w_event(pset(w, k_prof(a), with_countries(cur_profile(w, a).unwrap(), countries(w, a).update(index as int, cd)).sv()), cd_ev(CountryDataEvent::Modified, a, cd))
}
pub open spec fn delete_cd_guard(w: World, a: Address, index: u32) -> bool {
    cur_profile(w, a).is_some() && countries(w, a).len() != 1 && (index as int) < countries(w, a).len()
}
pub open spec fn delete_cd_post(w: World, a: Address, index: u32) -> World {
    w_event(pset(w, k_prof(a), with_countries(cur_profile(w, a).unwrap(), countries(w, a).remove(index as int)).sv()),
        cd_ev(CountryDataEvent::Removed, a, countries(w, a)[index as int]))
}
