// =================================================================================================
// C04 step lemmas: what each RWA operation does to the abstract view, and that it preserves
//   inv (Σ balances == supply, C01), inv_ev (event replay, C01) and inv_rwa (0 <= frozen <= balance, C04)
// =================================================================================================

pub open spec fn inv3(w: World) -> bool { inv(w) && inv_ev(w) && inv_rwa(w) }

/// the RWA-specific part of the view (everything but balances / supply / allowances)
pub open spec fn same_rwa_view(w: World, w2: World) -> bool {
    &&& forall|a: Address| #[trigger] frz_tokens(w2, a) == frz_tokens(w, a)
    &&& forall|a: Address| #[trigger] frz_addr(w2, a) == frz_addr(w, a)
    &&& is_paused(w2) == is_paused(w)
    &&& cur_compliance(w2) == cur_compliance(w)
    &&& cur_idv(w2) == cur_idv(w)
    &&& w2.this == w.this
}

// ---- key encodings: RWA keys are not balance keys / not the supply key ----
pub proof fn lemma_rwa_keys(a: Address)
    ensures
        !is_bal_key(RWAStorageKey::FrozenTokens(a).sv()),
        !is_bal_key(RWAStorageKey::AddressFrozen(a).sv()),
        RWAStorageKey::Compliance.sv() != supply_key(),
        RWAStorageKey::IdentityVerifier.sv() != supply_key(),
        RWAStorageKey::OnchainId.sv() != supply_key(),
        PausableStorageKey::Paused.sv() != supply_key(),
        PausableStorageKey::Paused.sv() != RWAStorageKey::Compliance.sv(),
        PausableStorageKey::Paused.sv() != RWAStorageKey::IdentityVerifier.sv(),
        PausableStorageKey::Paused.sv() != RWAStorageKey::OnchainId.sv(),
{
    assert(RWAStorageKey::FrozenTokens(a).sv()->Vec_0[0] != bal_key(Address { id: 0 })->Vec_0[0]);
    assert(RWAStorageKey::AddressFrozen(a).sv()->Vec_0[0] != bal_key(Address { id: 0 })->Vec_0[0]);
    assert(RWAStorageKey::Compliance.sv()->Vec_0[0] != supply_key()->Vec_0[0]);
    assert(RWAStorageKey::IdentityVerifier.sv()->Vec_0[0] != supply_key()->Vec_0[0]);
    assert(RWAStorageKey::OnchainId.sv()->Vec_0[0] != supply_key()->Vec_0[0]);
    assert(PausableStorageKey::Paused.sv()->Vec_0[0] != supply_key()->Vec_0[0]);
    assert(PausableStorageKey::Paused.sv()->Vec_0[0] != RWAStorageKey::Compliance.sv()->Vec_0[0]);
    assert(PausableStorageKey::Paused.sv()->Vec_0[0] != RWAStorageKey::IdentityVerifier.sv()->Vec_0[0]);
    assert(PausableStorageKey::Paused.sv()->Vec_0[0] != RWAStorageKey::OnchainId.sv()->Vec_0[0]);
}

pub proof fn lemma_rwa_key_vs_bal(a: Address, b: Address)
    ensures RWAStorageKey::FrozenTokens(a).sv() != bal_key(b), RWAStorageKey::AddressFrozen(a).sv() != bal_key(b),
{
    lemma_rwa_keys(a);
    lemma_bal_key_facts(b);
}

// ---- frames ----
/// `Base::update` touches balance keys and the supply key only
pub proof fn lemma_update_rwa_frame(w: World, from: Option<Address>, to: Option<Address>, amount: int)
    ensures same_rwa_view(w, update_post(w, from, to, amount)),
        update_post(w, from, to, amount).calls == w.calls,
{
    let w2 = update_post(w, from, to, amount);
    lemma_rwa_keys(Address { id: 0 });
    assert forall|a: Address| #[trigger] frz_tokens(w2, a) == frz_tokens(w, a) by {
        if from.is_some() { lemma_rwa_key_vs_bal(a, from.unwrap()); }
        if to.is_some() { lemma_rwa_key_vs_bal(a, to.unwrap()); }
    }
    assert forall|a: Address| #[trigger] frz_addr(w2, a) == frz_addr(w, a) by {
        if from.is_some() { lemma_rwa_key_vs_bal(a, from.unwrap()); }
        if to.is_some() { lemma_rwa_key_vs_bal(a, to.unwrap()); }
    }
}

/// a step that changes neither storage nor events (auth, cross-contract calls, ext)
pub proof fn lemma_log_frame(w: World, w1: World)
    requires inv3(w), w1.persistent == w.persistent, w1.instance == w.instance, w1.events == w.events, w1.this == w.this,
    ensures inv3(w1), same_rwa_view(w, w1), supply(w1) == supply(w), forall|a: Address| #[trigger] bal(w1, a) == bal(w, a),
{
    lemma_inv_frame(w, w1);
    assert forall|a: Address| 0 <= #[trigger] frz_tokens(w1, a) && frz_tokens(w1, a) <= bal(w1, a) by {
        assert(frz_tokens(w1, a) == frz_tokens(w, a));
        assert(bal(w1, a) == bal(w, a));
    }
}

/// an event that is neither Transfer, Mint nor Burn does not move the replayed balances
pub open spec fn neutral_ev(ev: SV) -> bool {
    ev_tag(ev) != tag_transfer() && ev_tag(ev) != tag_mint() && ev_tag(ev) != tag_burn()
}
pub proof fn lemma_neutral_event(w: World, ev: SV)
    requires inv3(w), neutral_ev(ev),
    ensures inv3(w_event(w, ev)), same_rwa_view(w, w_event(w, ev)), supply(w_event(w, ev)) == supply(w),
        forall|a: Address| #[trigger] bal(w_event(w, ev), a) == bal(w, a),
{
    let w2 = w_event(w, ev);
    assert(sum_bal(w2) == sum_bal(w));
    assert forall|a: Address| replay_bal(w2.events, a) == bal(w2, a) by {
        lemma_replay_push(w.events, ev, a);
        assert(bal(w2, a) == bal(w, a));
    }
    lemma_replay_push(w.events, ev, a0());
    assert forall|a: Address| 0 <= #[trigger] frz_tokens(w2, a) && frz_tokens(w2, a) <= bal(w2, a) by {
        assert(frz_tokens(w2, a) == frz_tokens(w, a));
        assert(bal(w2, a) == bal(w, a));
    }
}

/// a persistent write under a key that is not a balance key keeps Σ balances and every balance
pub proof fn lemma_nonbal_pset(w: World, k: SV, v: SV)
    requires inv(w), inv_ev(w), !is_bal_key(k),
    ensures
        inv(World { persistent: w.persistent.insert(k, v), ..w }),
        inv_ev(World { persistent: w.persistent.insert(k, v), ..w }),
        supply(World { persistent: w.persistent.insert(k, v), ..w }) == supply(w),
        forall|a: Address| #[trigger] bal(World { persistent: w.persistent.insert(k, v), ..w }, a) == bal(w, a),
{
    let w2 = World { persistent: w.persistent.insert(k, v), ..w };
    lemma_psum_insert(w.persistent, bal_proj(), k, v);
    assert(sum_bal(w2) == sum_bal(w));
    assert forall|a: Address| #[trigger] bal(w2, a) == bal(w, a) by { lemma_bal_key_facts(a); }
    assert forall|j: SV| #[trigger] w2.persistent.contains_key(j) && is_bal_key(j) implies (w2.persistent[j] is I128) && w2.persistent[j]->I128_0 >= 0 by {
        assert(j != k);
        assert(w.persistent.contains_key(j));
    }
    assert forall|a: Address| replay_bal(w2.events, a) == bal(w2, a) by { assert(bal(w2, a) == bal(w, a)); }
}

/// an instance write under a key other than the supply key
pub proof fn lemma_nonsupply_iset(w: World, k: SV, v: SV)
    requires inv(w), inv_ev(w), k != supply_key(),
    ensures
        inv(World { instance: w.instance.insert(k, v), ..w }),
        inv_ev(World { instance: w.instance.insert(k, v), ..w }),
        supply(World { instance: w.instance.insert(k, v), ..w }) == supply(w),
        forall|a: Address| #[trigger] bal(World { instance: w.instance.insert(k, v), ..w }, a) == bal(w, a),
{
    let w2 = World { instance: w.instance.insert(k, v), ..w };
    assert(sum_bal(w2) == sum_bal(w));
    assert forall|a: Address| replay_bal(w2.events, a) == bal(w2, a) by { assert(bal(w2, a) == bal(w, a)); }
}

// ---- partial freeze bookkeeping ----
pub proof fn lemma_set_frz(w: World, a: Address, v: int)
    requires inv(w), inv_ev(w), i128::MIN <= v <= i128::MAX,
    ensures
        frz_tokens(set_frz(w, a, v), a) == v,
        forall|b: Address| b != a ==> #[trigger] frz_tokens(set_frz(w, a, v), b) == frz_tokens(w, b),
        forall|b: Address| #[trigger] frz_addr(set_frz(w, a, v), b) == frz_addr(w, b),
        forall|b: Address| #[trigger] bal(set_frz(w, a, v), b) == bal(w, b),
        inv(set_frz(w, a, v)), inv_ev(set_frz(w, a, v)), supply(set_frz(w, a, v)) == supply(w),
        set_frz(w, a, v).instance == w.instance, set_frz(w, a, v).events == w.events, set_frz(w, a, v).calls == w.calls,
        set_frz(w, a, v).this == w.this,
{
    broadcast use sdk_store;
    lemma_rwa_keys(a);
    lemma_nonbal_pset(w, RWAStorageKey::FrozenTokens(a).sv(), SV::I128(v as i128));
    let w2 = set_frz(w, a, v);
    assert(w2 == World { persistent: w.persistent.insert(RWAStorageKey::FrozenTokens(a).sv(), SV::I128(v as i128)), ..w });
    assert(pget(w2, RWAStorageKey::FrozenTokens(a)) == Some(SV::I128(v as i128)));
    assert forall|b: Address| b != a implies #[trigger] frz_tokens(w2, b) == frz_tokens(w, b) by {
        assert(pget(w2, RWAStorageKey::FrozenTokens(b)) == pget(w, RWAStorageKey::FrozenTokens(b)));
    }
    assert forall|b: Address| #[trigger] frz_addr(w2, b) == frz_addr(w, b) by {
        assert(pget(w2, RWAStorageKey::AddressFrozen(b)) == pget(w, RWAStorageKey::AddressFrozen(b)));
    }
}

/// freeze_partial_tokens / unfreeze_partial_tokens: bounds and effect
pub proof fn lemma_freeze(w: World, a: Address, amount: i128)
    requires inv3(w), freeze_guard(w, a, amount),
    ensures
        //@@ C04:lemma.freeze_preserves_inv
        inv3(freeze_post(w, a, amount)),
        //@@ C04:lemma.freeze_effect
        frz_tokens(freeze_post(w, a, amount), a) == frz_tokens(w, a) + amount,
        forall|b: Address| b != a ==> #[trigger] frz_tokens(freeze_post(w, a, amount), b) == frz_tokens(w, b),
        forall|b: Address| #[trigger] frz_addr(freeze_post(w, a, amount), b) == frz_addr(w, b),
        forall|b: Address| #[trigger] bal(freeze_post(w, a, amount), b) == bal(w, b),
        supply(freeze_post(w, a, amount)) == supply(w),
        freeze_post(w, a, amount).instance == w.instance, freeze_post(w, a, amount).calls == w.calls,
{
    lemma_inv_bal_nonneg(w, a);
    let v = frz_tokens(w, a) + amount;
    lemma_set_frz(w, a, v);
    let w1 = set_frz(w, a, v);
    assert forall|b: Address| 0 <= #[trigger] frz_tokens(w1, b) && frz_tokens(w1, b) <= bal(w1, b) by {
        assert(bal(w1, b) == bal(w, b));
        if b != a { assert(frz_tokens(w1, b) == frz_tokens(w, b)); }
        assert(0 <= frz_tokens(w, b) && frz_tokens(w, b) <= bal(w, b));
    }
    let ev = TokensFrozen { user_address: a, amount: amount }.ev();
    lemma_neutral_event(w1, ev);
    let w2 = freeze_post(w, a, amount);
    assert(w2 == w_event(w1, ev));
    assert forall|b: Address| b != a implies #[trigger] frz_tokens(w2, b) == frz_tokens(w, b) by { assert(frz_tokens(w2, b) == frz_tokens(w1, b)); }
    assert forall|b: Address| #[trigger] frz_addr(w2, b) == frz_addr(w, b) by { assert(frz_addr(w2, b) == frz_addr(w1, b)); }
    assert forall|b: Address| #[trigger] bal(w2, b) == bal(w, b) by { assert(bal(w2, b) == bal(w1, b)); }
    assert(frz_tokens(w2, a) == frz_tokens(w1, a));
}

pub proof fn lemma_unfreeze(w: World, a: Address, amount: i128)
    requires inv3(w), unfreeze_guard(w, a, amount),
    ensures
        //@@ C04:lemma.unfreeze_preserves_inv
        inv3(unfreeze_post(w, a, amount)),
        //@@ C04:lemma.unfreeze_effect
        frz_tokens(unfreeze_post(w, a, amount), a) == frz_tokens(w, a) - amount,
        forall|b: Address| b != a ==> #[trigger] frz_tokens(unfreeze_post(w, a, amount), b) == frz_tokens(w, b),
        forall|b: Address| #[trigger] frz_addr(unfreeze_post(w, a, amount), b) == frz_addr(w, b),
        forall|b: Address| #[trigger] bal(unfreeze_post(w, a, amount), b) == bal(w, b),
        supply(unfreeze_post(w, a, amount)) == supply(w),
        unfreeze_post(w, a, amount).instance == w.instance, unfreeze_post(w, a, amount).calls == w.calls,
{
    lemma_inv_bal_nonneg(w, a);
    assert(0 <= frz_tokens(w, a) && frz_tokens(w, a) <= bal(w, a));
    let v = frz_tokens(w, a) - amount;
    lemma_set_frz(w, a, v);
    let w1 = set_frz(w, a, v);
    assert forall|b: Address| 0 <= #[trigger] frz_tokens(w1, b) && frz_tokens(w1, b) <= bal(w1, b) by {
        assert(bal(w1, b) == bal(w, b));
        if b != a { assert(frz_tokens(w1, b) == frz_tokens(w, b)); }
        assert(0 <= frz_tokens(w, b) && frz_tokens(w, b) <= bal(w, b));
    }
    let ev = TokensUnfrozen { user_address: a, amount: amount }.ev();
    lemma_neutral_event(w1, ev);
    let w2 = unfreeze_post(w, a, amount);
    assert(w2 == w_event(w1, ev));
    assert forall|b: Address| b != a implies #[trigger] frz_tokens(w2, b) == frz_tokens(w, b) by { assert(frz_tokens(w2, b) == frz_tokens(w1, b)); }
    assert forall|b: Address| #[trigger] frz_addr(w2, b) == frz_addr(w, b) by { assert(frz_addr(w2, b) == frz_addr(w1, b)); }
    assert forall|b: Address| #[trigger] bal(w2, b) == bal(w, b) by { assert(bal(w2, b) == bal(w1, b)); }
    assert(frz_tokens(w2, a) == frz_tokens(w1, a));
}

/// supervisory paths unfreeze exactly max(0, amount - free) — the minimum that lets `amount` leave
pub proof fn lemma_auto_unfreeze(w: World, a: Address, amount: int)
    requires inv3(w), 0 <= amount <= bal(w, a),
    ensures
        //@@ C04:lemma.auto_unfreeze_minimum
        frz_tokens(auto_unfreeze_post(w, a, amount), a) == frz_tokens(w, a) - unfreeze_need(w, a, amount),
        unfreeze_need(w, a, amount) == (if amount - free_amt(w, a) > 0 { amount - free_amt(w, a) } else { 0 }),
        free_amt(auto_unfreeze_post(w, a, amount), a) >= amount,
        unfreeze_need(w, a, amount) > 0 ==> free_amt(auto_unfreeze_post(w, a, amount), a) == amount,
        //@@ C04:lemma.auto_unfreeze_preserves_inv
        inv3(auto_unfreeze_post(w, a, amount)),
        forall|b: Address| b != a ==> #[trigger] frz_tokens(auto_unfreeze_post(w, a, amount), b) == frz_tokens(w, b),
        forall|b: Address| #[trigger] frz_addr(auto_unfreeze_post(w, a, amount), b) == frz_addr(w, b),
        forall|b: Address| #[trigger] bal(auto_unfreeze_post(w, a, amount), b) == bal(w, b),
        supply(auto_unfreeze_post(w, a, amount)) == supply(w),
        auto_unfreeze_post(w, a, amount).instance == w.instance, auto_unfreeze_post(w, a, amount).calls == w.calls,
        auto_unfreeze_post(w, a, amount).this == w.this,
{
    lemma_inv_bal_nonneg(w, a);
    assert(0 <= frz_tokens(w, a) && frz_tokens(w, a) <= bal(w, a));
    if free_amt(w, a) < amount {
        let n = amount - free_amt(w, a);
        assert(0 < n <= frz_tokens(w, a));
        lemma_unfreeze(w, a, n as i128);
        assert(auto_unfreeze_post(w, a, amount) == unfreeze_post(w, a, n as i128));
    }
}

pub proof fn lemma_saf(w: World, a: Address, b: bool)
    requires inv3(w),
    ensures
        //@@ C04:lemma.set_address_frozen
        inv3(saf_post(w, a, b)),
        frz_addr(saf_post(w, a, b), a) == b,
        forall|c: Address| c != a ==> #[trigger] frz_addr(saf_post(w, a, b), c) == frz_addr(w, c),
        forall|c: Address| #[trigger] frz_tokens(saf_post(w, a, b), c) == frz_tokens(w, c),
        forall|c: Address| #[trigger] bal(saf_post(w, a, b), c) == bal(w, c),
        supply(saf_post(w, a, b)) == supply(w),
        saf_post(w, a, b).instance == w.instance, saf_post(w, a, b).calls == w.calls,
{
    broadcast use sdk_store;
    lemma_rwa_keys(a);
    let k = RWAStorageKey::AddressFrozen(a);
    lemma_nonbal_pset(w, k.sv(), SV::Bool(b));
    let w1 = pset(w, k, SV::Bool(b));
    assert(w1 == World { persistent: w.persistent.insert(k.sv(), SV::Bool(b)), ..w });
    assert(pget(w1, k) == Some(SV::Bool(b)));
    assert forall|c: Address| #[trigger] frz_tokens(w1, c) == frz_tokens(w, c) by {
        assert(pget(w1, RWAStorageKey::FrozenTokens(c)) == pget(w, RWAStorageKey::FrozenTokens(c)));
    }
    assert forall|c: Address| c != a implies #[trigger] frz_addr(w1, c) == frz_addr(w, c) by {
        assert(pget(w1, RWAStorageKey::AddressFrozen(c)) == pget(w, RWAStorageKey::AddressFrozen(c)));
    }
    assert forall|c: Address| 0 <= #[trigger] frz_tokens(w1, c) && frz_tokens(w1, c) <= bal(w1, c) by {
        assert(frz_tokens(w1, c) == frz_tokens(w, c));
        assert(bal(w1, c) == bal(w, c));
        assert(0 <= frz_tokens(w, c) && frz_tokens(w, c) <= bal(w, c));
    }
    let ev = AddressFrozen { user_address: a, is_frozen: b }.ev();
    lemma_neutral_event(w1, ev);
    let w2 = saf_post(w, a, b);
    assert(w2 == w_event(w1, ev));
    assert forall|c: Address| c != a implies #[trigger] frz_addr(w2, c) == frz_addr(w, c) by { assert(frz_addr(w2, c) == frz_addr(w1, c)); }
    assert forall|c: Address| #[trigger] frz_tokens(w2, c) == frz_tokens(w, c) by { assert(frz_tokens(w2, c) == frz_tokens(w1, c)); }
    assert forall|c: Address| #[trigger] bal(w2, c) == bal(w, c) by { assert(bal(w2, c) == bal(w1, c)); }
    assert(frz_addr(w2, a) == frz_addr(w1, a));
}

// ---- the common tail "update; hook call; event" ----
pub open spec fn moved(w1: World, from: Option<Address>, to: Option<Address>, amount: int, c: Call, ev: SV) -> World {
    w_event(w_call(update_post(w1, from, to, amount), c), ev)
}
/// given that the frozen part of the debited account stays covered, a balance movement keeps all three invariants
pub proof fn lemma_moved(w1: World, from: Option<Address>, to: Option<Address>, amount: int, c: Call, ev: SV)
    requires inv3(w1), update_guard(w1, from, to, amount), from.is_some() || to.is_some(),
        from.is_some() ==> free_amt(w1, from.unwrap()) >= amount,
        forall|a: Address| #[trigger] ev_delta(ev, a) == upd_delta(from, to, amount, a),
        ev_supply_delta(ev) == upd_supply_delta(from, to, amount),
    ensures inv3(moved(w1, from, to, amount, c, ev)),
        same_rwa_view(w1, moved(w1, from, to, amount, c, ev)),
        supply(moved(w1, from, to, amount, c, ev)) == supply(w1) + upd_supply_delta(from, to, amount),
        forall|a: Address| #[trigger] bal(moved(w1, from, to, amount, c, ev), a) == bal(w1, a) + upd_delta(from, to, amount, a),
        moved(w1, from, to, amount, c, ev).calls == w1.calls.push(c),
{
    lemma_fin(w1, from, to, amount, ev);
    let f = fin(w1, from, to, amount, ev);
    let m = moved(w1, from, to, amount, c, ev);
    assert(m == World { calls: w1.calls.push(c), ..f });
    lemma_inv_frame(f, m);
    lemma_update_rwa_frame(w1, from, to, amount);
    let u = update_post(w1, from, to, amount);
    assert(same_rwa_view(w1, m)) by {
        assert forall|a: Address| #[trigger] frz_tokens(m, a) == frz_tokens(w1, a) by { assert(frz_tokens(m, a) == frz_tokens(u, a)); }
        assert forall|a: Address| #[trigger] frz_addr(m, a) == frz_addr(w1, a) by { assert(frz_addr(m, a) == frz_addr(u, a)); }
    }
    assert forall|a: Address| 0 <= #[trigger] frz_tokens(m, a) && frz_tokens(m, a) <= bal(m, a) by {
        assert(frz_tokens(m, a) == frz_tokens(w1, a));
        assert(0 <= frz_tokens(w1, a) && frz_tokens(w1, a) <= bal(w1, a));
        assert(bal(m, a) == bal(f, a));
        assert(bal(f, a) == bal(w1, a) + upd_delta(from, to, amount, a));
    }
    assert forall|a: Address| #[trigger] bal(m, a) == bal(w1, a) + upd_delta(from, to, amount, a) by {
        assert(bal(m, a) == bal(f, a));
    }
}
