// =================================================================================================
// spec pack `rwa` — C04 "RWA tokens never move past the compliance, identity, freeze and pause gates"
// (and C01 supply conservation for the RWA entry points).  Built on the fungible pack
// (`bal`, `supply`, `update_post`, `spend_post`, `inv`, …).  Everything here is ghost.
// =================================================================================================

// ---- abstract view ----
pub open spec fn frz_addr(w: World, a: Address) -> bool {
    match dec::<bool>(pget(w, RWAStorageKey::AddressFrozen(a))) { Some(b) => b, None => false }
}
pub open spec fn frz_tokens(w: World, a: Address) -> int {
    match dec::<i128>(pget(w, RWAStorageKey::FrozenTokens(a))) { Some(v) => v as int, None => 0 }
}
pub open spec fn free_amt(w: World, a: Address) -> int { bal(w, a) - frz_tokens(w, a) }
pub open spec fn is_paused(w: World) -> bool {
    match dec::<bool>(iget(w, PausableStorageKey::Paused)) { Some(b) => b, None => false }
}
pub open spec fn cur_compliance(w: World) -> Option<Address> { dec::<Address>(iget(w, RWAStorageKey::Compliance)) }
pub open spec fn cur_idv(w: World) -> Option<Address> { dec::<Address>(iget(w, RWAStorageKey::IdentityVerifier)) }
pub open spec fn cur_onchain_id(w: World) -> Option<Address> { dec::<Address>(iget(w, RWAStorageKey::OnchainId)) }
pub open spec fn configured(w: World) -> bool { cur_idv(w).is_some() && cur_compliance(w).is_some() }

/// C04 invariant: for every account 0 <= frozen tokens <= balance
pub open spec fn inv_rwa(w: World) -> bool {
    forall|a: Address| 0 <= #[trigger] frz_tokens(w, a) && frz_tokens(w, a) <= bal(w, a)
}

// ---- cross-contract call records (M8) ----
pub open spec fn mk_call(callee: Address, func: int, args: Seq<SV>, ret: SV) -> Call {
    Call { callee: callee, func: func, args: args, ret: ret, ok: true }
}
pub open spec fn w_call(w: World, c: Call) -> World { World { calls: w.calls.push(c), ..w } }
/// the state of the other contracts after the invocation is whatever the callees made of it
pub open spec fn with_ext(w: World, x: int) -> World { World { ext: x, ..w } }
/// everything of `w` except the call log and the external state, which are taken from `w2`
pub open spec fn with_calls_of(w: World, w2: World) -> World { World { calls: w2.calls, ext: w2.ext, ..w } }

pub open spec fn c_verify(w: World, a: Address) -> Call {
    mk_call(cur_idv(w).unwrap(), fn_verify_identity(), seq![a.sv()], SV::Void)
}
pub open spec fn c_recovery(w: World, old_a: Address, new_a: Address) -> Call {
    mk_call(cur_idv(w).unwrap(), fn_recovery_target(), seq![old_a.sv()], Some(new_a).sv())
}
pub open spec fn c_can_transfer(w: World, from: Address, to: Address, amount: i128) -> Call {
    mk_call(cur_compliance(w).unwrap(), fn_can_transfer(), seq![from.sv(), to.sv(), amount.sv(), w.this.sv()], SV::Bool(true))
}
pub open spec fn c_transferred(w: World, from: Address, to: Address, amount: i128) -> Call {
    mk_call(cur_compliance(w).unwrap(), fn_transferred(), seq![from.sv(), to.sv(), amount.sv(), w.this.sv()], SV::Void)
}
pub open spec fn c_can_create(w: World, to: Address, amount: i128) -> Call {
    mk_call(cur_compliance(w).unwrap(), fn_can_create(), seq![to.sv(), amount.sv(), w.this.sv()], SV::Bool(true))
}
pub open spec fn c_created(w: World, to: Address, amount: i128) -> Call {
    mk_call(cur_compliance(w).unwrap(), fn_created(), seq![to.sv(), amount.sv(), w.this.sv()], SV::Void)
}
pub open spec fn c_destroyed(w: World, from: Address, amount: i128) -> Call {
    mk_call(cur_compliance(w).unwrap(), fn_destroyed(), seq![from.sv(), amount.sv(), w.this.sv()], SV::Void)
}

// ---- the gates (property statement, first sentence) ----
/// state gates: not paused, neither party frozen, amount within the sender's unfrozen balance
pub open spec fn gates(w: World, from: Address, to: Address, amount: int) -> bool {
    &&& !is_paused(w)
    &&& !frz_addr(w, from)
    &&& !frz_addr(w, to)
    &&& bal(w, from) - frz_tokens(w, from) >= amount
}
/// oracle gates: the calls appended by this invocation start with verify_identity(from),
/// verify_identity(to) on the configured identity verifier and can_transfer(from,to,amount,this) ↦ true
/// on the configured compliance contract (a call that returned at all passed: a failing
/// verify_identity traps, M6)
pub open spec fn gate_calls(w: World, w2: World, from: Address, to: Address, amount: i128) -> bool {
    let n = w.calls.len() as int;
    &&& configured(w)
    &&& w2.calls.len() >= n + 3
    &&& w2.calls.subrange(0, n) =~= w.calls
    &&& w2.calls[n] == c_verify(w, from)
    &&& w2.calls[n + 1] == c_verify(w, to)
    &&& w2.calls[n + 2] == c_can_transfer(w, from, to, amount)
}
/// the hook call `c` is the last call of the invocation and no other call of this invocation goes
/// to a function of that name: "notified exactly once, with the exact parties and amount"
pub open spec fn notified_once(w: World, w2: World, c: Call) -> bool {
    let n = w.calls.len() as int;
    let m = w2.calls.len() as int;
    &&& m > n
    &&& w2.calls.subrange(0, n) =~= w.calls
    &&& w2.calls[m - 1] == c
    &&& forall|j: int| n <= j < m - 1 ==> (#[trigger] w2.calls[j]).func != c.func
}

/// mint: the calls appended by this invocation start with verify_identity(to) and can_create(to,amount,this) ↦ true
pub open spec fn mint_gate_calls(w: World, w2: World, to: Address, amount: i128) -> bool {
    let n = w.calls.len() as int;
    &&& configured(w)
    &&& w2.calls.len() >= n + 2
    &&& w2.calls.subrange(0, n) =~= w.calls
    &&& w2.calls[n] == c_verify(w, to)
    &&& w2.calls[n + 1] == c_can_create(w, to, amount)
}

pub open spec fn validate_post(w: World, from: Address, to: Address, amount: i128) -> World {
    w_call(w_call(w_call(w, c_verify(w, from)), c_verify(w, to)), c_can_transfer(w, from, to, amount))
}

// ---- holder-initiated movements, as the PROPERTY wants them: gates, then the fungible operation, then the hook ----
pub open spec fn transfer_post(w: World, from: Address, to: Address, amount: i128) -> World {
    let w1 = validate_post(w_auth(w, from), from, to, amount);
    let w2 = update_post(w1, Some(from), Some(to), amount as int);
    w_event(w_call(w2, c_transferred(w2, from, to, amount)), Transfer { from: from, to: to, to_muxed_id: None, amount: amount }.ev())
}
pub open spec fn transfer_guard(w: World, from: Address, to: Address, amount: i128) -> bool {
    gates(w, from, to, amount as int) && configured(w) && amount >= 0
}
pub open spec fn transfer_from_post(w: World, spender: Address, from: Address, to: Address, amount: i128) -> World {
    let w1 = validate_post(spend_post(w_auth(w, spender), from, spender, amount), from, to, amount);
    let w2 = update_post(w1, Some(from), Some(to), amount as int);
    w_event(w_call(w2, c_transferred(w2, from, to, amount)), Transfer { from: from, to: to, to_muxed_id: None, amount: amount }.ev())
}
pub open spec fn transfer_from_guard(w: World, spender: Address, from: Address, to: Address, amount: i128) -> bool {
    &&& gates(w, from, to, amount as int)
    &&& configured(w)
    &&& op_guard(w, FOp::TransferFrom { spender: spender, from: from, to: to, amount: amount })
}

// ---- partial freeze bookkeeping ----
pub open spec fn set_frz(w: World, a: Address, v: int) -> World { pset(w, RWAStorageKey::FrozenTokens(a), SV::I128(v as i128)) }
/// the minimum that has to be unfrozen so that `amount` can leave the account
pub open spec fn unfreeze_need(w: World, a: Address, amount: int) -> int {
    if free_amt(w, a) < amount { amount - free_amt(w, a) } else { 0 }
}
pub open spec fn auto_unfreeze_post(w: World, a: Address, amount: int) -> World {
    if free_amt(w, a) < amount {
        w_event(set_frz(w, a, frz_tokens(w, a) - (amount - free_amt(w, a))),
            TokensUnfrozen { user_address: a, amount: (amount - free_amt(w, a)) as i128 }.ev())
    } else { w }
}
pub open spec fn freeze_post(w: World, a: Address, amount: i128) -> World {
    w_event(set_frz(w, a, frz_tokens(w, a) + amount), TokensFrozen { user_address: a, amount: amount }.ev())
}
pub open spec fn freeze_guard(w: World, a: Address, amount: i128) -> bool {
    amount >= 0 && frz_tokens(w, a) + amount <= bal(w, a)
}
pub open spec fn unfreeze_post(w: World, a: Address, amount: i128) -> World {
    w_event(set_frz(w, a, frz_tokens(w, a) - amount), TokensUnfrozen { user_address: a, amount: amount }.ev())
}
pub open spec fn unfreeze_guard(w: World, a: Address, amount: i128) -> bool {
    amount >= 0 && frz_tokens(w, a) >= amount
}
pub open spec fn saf_post(w: World, a: Address, b: bool) -> World {
    w_event(pset(w, RWAStorageKey::AddressFrozen(a), SV::Bool(b)), AddressFrozen { user_address: a, is_frozen: b }.ev())
}

// ---- supervisory operations ----
pub open spec fn forced_post(w: World, from: Address, to: Address, amount: i128) -> World {
    let w1 = auto_unfreeze_post(w, from, amount as int);
    let w2 = update_post(w1, Some(from), Some(to), amount as int);
    w_event(w_call(w2, c_transferred(w2, from, to, amount)), Transfer { from: from, to: to, to_muxed_id: None, amount: amount }.ev())
}
pub open spec fn forced_guard(w: World, from: Address, to: Address, amount: i128) -> bool {
    &&& bal(w, from) >= amount
    &&& update_guard(auto_unfreeze_post(w, from, amount as int), Some(from), Some(to), amount as int)
    &&& cur_compliance(w).is_some()
}
pub open spec fn mint_post(w: World, to: Address, amount: i128) -> World {
    let w1 = w_call(w_call(w, c_verify(w, to)), c_can_create(w, to, amount));
    let w2 = update_post(w1, None, Some(to), amount as int);
    w_event(w_call(w2, c_created(w, to, amount)), Mint { to: to, amount: amount }.ev())
}
pub open spec fn mint_guard(w: World, to: Address, amount: i128) -> bool {
    configured(w) && update_guard(w, None, Some(to), amount as int)
}
pub open spec fn burn_post(w: World, a: Address, amount: i128) -> World {
    let w1 = auto_unfreeze_post(w, a, amount as int);
    let w2 = update_post(w1, Some(a), None, amount as int);
    w_event(w_call(w2, c_destroyed(w2, a, amount)), Burn { from: a, amount: amount }.ev())
}
pub open spec fn burn_guard(w: World, a: Address, amount: i128) -> bool {
    &&& bal(w, a) >= amount
    &&& update_guard(auto_unfreeze_post(w, a, amount as int), Some(a), None, amount as int)
    &&& cur_compliance(update_post(auto_unfreeze_post(w, a, amount as int), Some(a), None, amount as int)).is_some()
}
/// recover_balance: identity of the new account, recovery target of the old one, then (if there is
/// anything to move) the whole balance by forced transfer, the partial freeze and the address flag re-applied
pub open spec fn recover_pre(w: World, old_a: Address, new_a: Address) -> World {
    w_call(w_call(w, c_verify(w, new_a)), c_recovery(w, old_a, new_a))
}
pub open spec fn recover_moved(w: World, old_a: Address, new_a: Address) -> World {
    forced_post(recover_pre(w, old_a, new_a), old_a, new_a, bal(w, old_a) as i128)
}
pub open spec fn recover_refrozen(w: World, old_a: Address, new_a: Address) -> World {
    let w2 = recover_moved(w, old_a, new_a);
    if frz_tokens(w, old_a) > 0 { freeze_post(w2, new_a, frz_tokens(w, old_a) as i128) } else { w2 }
}
pub open spec fn recover_post(w: World, old_a: Address, new_a: Address) -> World {
    if bal(w, old_a) == 0 { recover_pre(w, old_a, new_a) } else {
        let w3 = recover_refrozen(w, old_a, new_a);
        let w4 = if frz_addr(w, old_a) { saf_post(w3, new_a, true) } else { w3 };
        w_event(w4, RecoverySuccess { old_account: old_a, new_account: new_a }.ev())
    }
}
pub open spec fn recover_guard(w: World, old_a: Address, new_a: Address) -> bool {
    &&& cur_idv(w).is_some()
    &&& bal(w, old_a) != 0 ==> {
        &&& forced_guard(recover_pre(w, old_a, new_a), old_a, new_a, bal(w, old_a) as i128)
        &&& frz_tokens(w, old_a) > 0 ==> freeze_guard(recover_moved(w, old_a, new_a), new_a, frz_tokens(w, old_a) as i128)
    }
}

// ---- configuration / pause ----
pub open spec fn set_compliance_post(w: World, c: Address) -> World {
    w_event(iset(w, RWAStorageKey::Compliance, c.sv()), ComplianceSet { compliance: c }.ev())
}
pub open spec fn set_idv_post(w: World, c: Address) -> World {
    w_event(iset(w, RWAStorageKey::IdentityVerifier, c.sv()), IdentityVerifierSet { identity_verifier: c }.ev())
}
pub open spec fn set_onchain_post(w: World, c: Address) -> World {
    w_event(iset(w, RWAStorageKey::OnchainId, c.sv()), TokenOnchainIdUpdated { onchain_id: c }.ev())
}
pub open spec fn pause_post(w: World) -> World {
    w_event(iset(w, PausableStorageKey::Paused, SV::Bool(true)), Paused {}.ev())
}
pub open spec fn unpause_post(w: World) -> World {
    w_event(iset(w, PausableStorageKey::Paused, SV::Bool(false)), Unpaused {}.ev())
}
