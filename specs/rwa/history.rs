// =================================================================================================
// C04 at the level of whole operations and histories.
// NOTE on transfer_from: the operation relation below is the one the PROPERTY demands (gates first).
// The extracted code of `RWA::transfer_from` is tied to it by the function-level obligation
// `C04:transfer_from.gates`, which FAILS on the current tree (DESIGN.md §5 D1): the history lemma
// speaks about the specified token, and that obligation is exactly the missing refinement step.
// =================================================================================================

// ---- holder-initiated movements ----
pub proof fn lemma_transfer(w: World, from: Address, to: Address, amount: i128)
    requires inv3(w), transfer_guard(w, from, to, amount),
    ensures
        //@@ C01+C04:lemma.transfer_preserves_inv
        inv3(transfer_post(w, from, to, amount)),
        supply(transfer_post(w, from, to, amount)) == supply(w),
        forall|a: Address| #[trigger] bal(transfer_post(w, from, to, amount), a) == bal(w, a) + upd_delta(Some(from), Some(to), amount as int, a),
        same_rwa_view(w, transfer_post(w, from, to, amount)),
        //@@ C04:lemma.transfer_calls
        transfer_post(w, from, to, amount).calls =~= w.calls + seq![c_verify(w, from), c_verify(w, to),
            c_can_transfer(w, from, to, amount), c_transferred(w, from, to, amount)],
{
    let w0 = w_auth(w, from);
    lemma_log_frame(w, w0);
    let w1 = validate_post(w0, from, to, amount);
    lemma_log_frame(w0, w1);
    assert(0 <= frz_tokens(w, from) && frz_tokens(w, from) <= bal(w, from));
    assert(frz_tokens(w1, from) == frz_tokens(w, from));
    assert(bal(w1, from) == bal(w, from));
    let ev = Transfer { from: from, to: to, to_muxed_id: None, amount: amount }.ev();
    assert forall|a: Address| #[trigger] ev_delta(ev, a) == upd_delta(Some(from), Some(to), amount as int, a) by {
        lemma_ev_transfer(from, to, None, amount, a);
    }
    lemma_ev_transfer(from, to, None, amount, a0());
    let u = update_post(w1, Some(from), Some(to), amount as int);
    lemma_update_rwa_frame(w1, Some(from), Some(to), amount as int);
    let c = c_transferred(u, from, to, amount);
    lemma_moved(w1, Some(from), Some(to), amount as int, c, ev);
    let p = transfer_post(w, from, to, amount);
    assert(p == moved(w1, Some(from), Some(to), amount as int, c, ev));
    assert(c == c_transferred(w, from, to, amount));
    assert(same_rwa_view(w, p)) by {
        assert forall|a: Address| #[trigger] frz_tokens(p, a) == frz_tokens(w, a) by { assert(frz_tokens(p, a) == frz_tokens(w1, a)); assert(frz_tokens(w1, a) == frz_tokens(w, a)); }
        assert forall|a: Address| #[trigger] frz_addr(p, a) == frz_addr(w, a) by { assert(frz_addr(p, a) == frz_addr(w1, a)); assert(frz_addr(w1, a) == frz_addr(w, a)); }
    }
    assert forall|a: Address| #[trigger] bal(p, a) == bal(w, a) + upd_delta(Some(from), Some(to), amount as int, a) by {
        assert(bal(w1, a) == bal(w, a));
    }
}

pub proof fn lemma_transfer_from(w: World, spender: Address, from: Address, to: Address, amount: i128)
    requires inv3(w), w.ledger_ok(), transfer_from_guard(w, spender, from, to, amount),
    ensures
        //@@ C01+C04:lemma.transfer_from_preserves_inv
        inv3(transfer_from_post(w, spender, from, to, amount)),
        supply(transfer_from_post(w, spender, from, to, amount)) == supply(w),
        forall|a: Address| #[trigger] bal(transfer_from_post(w, spender, from, to, amount), a) == bal(w, a) + upd_delta(Some(from), Some(to), amount as int, a),
        same_rwa_view(w, transfer_from_post(w, spender, from, to, amount)),
        transfer_from_post(w, spender, from, to, amount).same_ledger(w),
        //@@ C04:lemma.transfer_from_calls
        transfer_from_post(w, spender, from, to, amount).calls =~= w.calls + seq![c_verify(w, from), c_verify(w, to),
            c_can_transfer(w, from, to, amount), c_transferred(w, from, to, amount)],
{
    let op = FOp::TransferFrom { spender: spender, from: from, to: to, amount: amount };
    lemma_op_pre(w, op);
    let w0 = op_pre(w, op);
    assert(w0 == spend_post(w_auth(w, spender), from, spender, amount));
    lemma_spend(w_auth(w, spender), from, spender, amount);
    assert(w0.this == w.this);
    lemma_log_frame(w, w0);
    let w1 = validate_post(w0, from, to, amount);
    lemma_log_frame(w0, w1);
    assert(0 <= frz_tokens(w, from) && frz_tokens(w, from) <= bal(w, from));
    assert(frz_tokens(w1, from) == frz_tokens(w, from));
    assert(bal(w1, from) == bal(w, from));
    let ev = Transfer { from: from, to: to, to_muxed_id: None, amount: amount }.ev();
    assert forall|a: Address| #[trigger] ev_delta(ev, a) == upd_delta(Some(from), Some(to), amount as int, a) by {
        lemma_ev_transfer(from, to, None, amount, a);
    }
    lemma_ev_transfer(from, to, None, amount, a0());
    let u = update_post(w1, Some(from), Some(to), amount as int);
    lemma_update_rwa_frame(w1, Some(from), Some(to), amount as int);
    let c = c_transferred(u, from, to, amount);
    lemma_moved(w1, Some(from), Some(to), amount as int, c, ev);
    let p = transfer_from_post(w, spender, from, to, amount);
    assert(p == moved(w1, Some(from), Some(to), amount as int, c, ev));
    assert(c == c_transferred(w, from, to, amount));
    assert(w0.calls == w.calls);
    assert(same_rwa_view(w, p)) by {
        assert forall|a: Address| #[trigger] frz_tokens(p, a) == frz_tokens(w, a) by { assert(frz_tokens(p, a) == frz_tokens(w1, a)); assert(frz_tokens(w1, a) == frz_tokens(w, a)); }
        assert forall|a: Address| #[trigger] frz_addr(p, a) == frz_addr(w, a) by { assert(frz_addr(p, a) == frz_addr(w1, a)); assert(frz_addr(w1, a) == frz_addr(w, a)); }
    }
    assert forall|a: Address| #[trigger] bal(p, a) == bal(w, a) + upd_delta(Some(from), Some(to), amount as int, a) by {
        assert(bal(w1, a) == bal(w, a));
    }
}

// ---- supervisory operations ----
pub proof fn lemma_forced(w: World, from: Address, to: Address, amount: i128)
    requires inv3(w), forced_guard(w, from, to, amount),
    ensures
        //@@ C01+C04:lemma.forced_preserves_inv
        inv3(forced_post(w, from, to, amount)),
        supply(forced_post(w, from, to, amount)) == supply(w),
        forall|a: Address| #[trigger] bal(forced_post(w, from, to, amount), a) == bal(w, a) + upd_delta(Some(from), Some(to), amount as int, a),
        //@@ C04:lemma.forced_unfreezes_minimum
        frz_tokens(forced_post(w, from, to, amount), from) == frz_tokens(w, from) - unfreeze_need(w, from, amount as int),
        forall|a: Address| a != from ==> #[trigger] frz_tokens(forced_post(w, from, to, amount), a) == frz_tokens(w, a),
        forall|a: Address| #[trigger] frz_addr(forced_post(w, from, to, amount), a) == frz_addr(w, a),
        //@@ C04:lemma.forced_notifies_once
        forced_post(w, from, to, amount).calls == w.calls.push(c_transferred(w, from, to, amount)),
        forced_post(w, from, to, amount).instance == w.instance,
        forced_post(w, from, to, amount).this == w.this,
{
    lemma_auto_unfreeze(w, from, amount as int);
    let w1 = auto_unfreeze_post(w, from, amount as int);
    let ev = Transfer { from: from, to: to, to_muxed_id: None, amount: amount }.ev();
    assert forall|a: Address| #[trigger] ev_delta(ev, a) == upd_delta(Some(from), Some(to), amount as int, a) by {
        lemma_ev_transfer(from, to, None, amount, a);
    }
    lemma_ev_transfer(from, to, None, amount, a0());
    let u = update_post(w1, Some(from), Some(to), amount as int);
    lemma_update_rwa_frame(w1, Some(from), Some(to), amount as int);
    let c = c_transferred(u, from, to, amount);
    lemma_moved(w1, Some(from), Some(to), amount as int, c, ev);
    let p = forced_post(w, from, to, amount);
    assert(p == moved(w1, Some(from), Some(to), amount as int, c, ev));
    assert(u.instance == w.instance);
    assert(c == c_transferred(w, from, to, amount));
    assert forall|a: Address| #[trigger] bal(p, a) == bal(w, a) + upd_delta(Some(from), Some(to), amount as int, a) by { assert(bal(w1, a) == bal(w, a)); }
    assert forall|a: Address| a != from implies #[trigger] frz_tokens(p, a) == frz_tokens(w, a) by { assert(frz_tokens(p, a) == frz_tokens(w1, a)); }
    assert forall|a: Address| #[trigger] frz_addr(p, a) == frz_addr(w, a) by { assert(frz_addr(p, a) == frz_addr(w1, a)); assert(frz_addr(w1, a) == frz_addr(w, a)); }
    assert(frz_tokens(p, from) == frz_tokens(w1, from));
}

pub proof fn lemma_burn(w: World, a: Address, amount: i128)
    requires inv3(w), burn_guard(w, a, amount),
    ensures
        //@@ C01+C04:lemma.burn_preserves_inv
        inv3(burn_post(w, a, amount)),
        supply(burn_post(w, a, amount)) == supply(w) - amount,
        forall|b: Address| #[trigger] bal(burn_post(w, a, amount), b) == bal(w, b) + upd_delta(Some(a), None, amount as int, b),
        //@@ C04:lemma.burn_unfreezes_minimum
        frz_tokens(burn_post(w, a, amount), a) == frz_tokens(w, a) - unfreeze_need(w, a, amount as int),
        forall|b: Address| b != a ==> #[trigger] frz_tokens(burn_post(w, a, amount), b) == frz_tokens(w, b),
        forall|b: Address| #[trigger] frz_addr(burn_post(w, a, amount), b) == frz_addr(w, b),
        //@@ C04:lemma.burn_notifies_once
        burn_post(w, a, amount).calls == w.calls.push(c_destroyed(w, a, amount)),
        is_paused(burn_post(w, a, amount)) == is_paused(w), cur_compliance(burn_post(w, a, amount)) == cur_compliance(w),
        cur_idv(burn_post(w, a, amount)) == cur_idv(w),
{
    lemma_auto_unfreeze(w, a, amount as int);
    let w1 = auto_unfreeze_post(w, a, amount as int);
    let ev = Burn { from: a, amount: amount }.ev();
    assert forall|b: Address| #[trigger] ev_delta(ev, b) == upd_delta(Some(a), None, amount as int, b) by {
        lemma_ev_burn(a, amount, b);
    }
    lemma_ev_burn(a, amount, a0());
    let u = update_post(w1, Some(a), None, amount as int);
    lemma_update_rwa_frame(w1, Some(a), None, amount as int);
    let c = c_destroyed(u, a, amount);
    lemma_moved(w1, Some(a), None, amount as int, c, ev);
    let p = burn_post(w, a, amount);
    assert(p == moved(w1, Some(a), None, amount as int, c, ev));
    assert(cur_compliance(w1) == cur_compliance(w));
    assert(c == c_destroyed(w, a, amount));
    assert forall|b: Address| #[trigger] bal(p, b) == bal(w, b) + upd_delta(Some(a), None, amount as int, b) by { assert(bal(w1, b) == bal(w, b)); }
    assert forall|b: Address| b != a implies #[trigger] frz_tokens(p, b) == frz_tokens(w, b) by { assert(frz_tokens(p, b) == frz_tokens(w1, b)); }
    assert forall|b: Address| #[trigger] frz_addr(p, b) == frz_addr(w, b) by { assert(frz_addr(p, b) == frz_addr(w1, b)); assert(frz_addr(w1, b) == frz_addr(w, b)); }
    assert(frz_tokens(p, a) == frz_tokens(w1, a));
    assert(is_paused(w1) == is_paused(w));
    assert(cur_idv(w1) == cur_idv(w));
}

pub proof fn lemma_mint(w: World, to: Address, amount: i128)
    requires inv3(w), mint_guard(w, to, amount),
    ensures
        //@@ C01+C04:lemma.mint_preserves_inv
        inv3(mint_post(w, to, amount)),
        supply(mint_post(w, to, amount)) == supply(w) + amount,
        forall|b: Address| #[trigger] bal(mint_post(w, to, amount), b) == bal(w, b) + upd_delta(None, Some(to), amount as int, b),
        same_rwa_view(w, mint_post(w, to, amount)),
        //@@ C04:lemma.mint_gates_and_hook
        mint_post(w, to, amount).calls =~= w.calls + seq![c_verify(w, to), c_can_create(w, to, amount), c_created(w, to, amount)],
{
    let w1 = w_call(w_call(w, c_verify(w, to)), c_can_create(w, to, amount));
    lemma_log_frame(w, w1);
    let ev = Mint { to: to, amount: amount }.ev();
    assert forall|b: Address| #[trigger] ev_delta(ev, b) == upd_delta(None, Some(to), amount as int, b) by {
        lemma_ev_mint(to, amount, b);
    }
    lemma_ev_mint(to, amount, a0());
    let c = c_created(w, to, amount);
    lemma_moved(w1, None, Some(to), amount as int, c, ev);
    let p = mint_post(w, to, amount);
    assert(p == moved(w1, None, Some(to), amount as int, c, ev));
    assert(same_rwa_view(w, p)) by {
        assert forall|a: Address| #[trigger] frz_tokens(p, a) == frz_tokens(w, a) by { assert(frz_tokens(p, a) == frz_tokens(w1, a)); assert(frz_tokens(w1, a) == frz_tokens(w, a)); }
        assert forall|a: Address| #[trigger] frz_addr(p, a) == frz_addr(w, a) by { assert(frz_addr(p, a) == frz_addr(w1, a)); assert(frz_addr(w1, a) == frz_addr(w, a)); }
    }
    assert forall|b: Address| #[trigger] bal(p, b) == bal(w, b) + upd_delta(None, Some(to), amount as int, b) by { assert(bal(w1, b) == bal(w, b)); }
}

/// recovery: the whole balance, the partial freeze and the address flag go to `new_a` — and `new_a` is
/// what the identity verifier answered for recovery_target(old_a) (the call record says so)
pub proof fn lemma_recover(w: World, old_a: Address, new_a: Address)
    requires inv3(w), recover_guard(w, old_a, new_a),
    ensures
        //@@ C01+C04:lemma.recover_preserves_inv
        inv3(recover_post(w, old_a, new_a)),
        supply(recover_post(w, old_a, new_a)) == supply(w),
        //@@ C04:lemma.recover_moves_whole_balance
        old_a != new_a ==> bal(recover_post(w, old_a, new_a), old_a) == 0
            && bal(recover_post(w, old_a, new_a), new_a) == bal(w, new_a) + bal(w, old_a),
        old_a == new_a ==> bal(recover_post(w, old_a, new_a), old_a) == bal(w, old_a),
        forall|c: Address| c != old_a && c != new_a ==> #[trigger] bal(recover_post(w, old_a, new_a), c) == bal(w, c),
        //@@ C04:lemma.recover_moves_freeze_status
        old_a != new_a ==> frz_tokens(recover_post(w, old_a, new_a), new_a) == frz_tokens(w, new_a) + frz_tokens(w, old_a),
        old_a != new_a && bal(w, old_a) != 0 ==> frz_tokens(recover_post(w, old_a, new_a), old_a) == 0,
        old_a == new_a ==> frz_tokens(recover_post(w, old_a, new_a), old_a) == frz_tokens(w, old_a),
        forall|c: Address| c != old_a && c != new_a ==> #[trigger] frz_tokens(recover_post(w, old_a, new_a), c) == frz_tokens(w, c),
        bal(w, old_a) != 0 ==> frz_addr(recover_post(w, old_a, new_a), new_a) == (frz_addr(w, new_a) || frz_addr(w, old_a)),
        forall|c: Address| c != new_a ==> #[trigger] frz_addr(recover_post(w, old_a, new_a), c) == frz_addr(w, c),
        //@@ C04:lemma.recover_target_only
        recover_post(w, old_a, new_a).calls.len() >= w.calls.len() + 2,
        recover_post(w, old_a, new_a).calls[w.calls.len() as int] == c_verify(w, new_a),
        recover_post(w, old_a, new_a).calls[w.calls.len() as int + 1] == c_recovery(w, old_a, new_a),
        c_recovery(w, old_a, new_a).ret == Some(new_a).sv(),
        bal(w, old_a) != 0 ==> recover_post(w, old_a, new_a).calls =~= w.calls + seq![c_verify(w, new_a), c_recovery(w, old_a, new_a),
            c_transferred(w, old_a, new_a, bal(w, old_a) as i128)],
        recover_post(w, old_a, new_a).instance == w.instance,
{
    let w1 = recover_pre(w, old_a, new_a);
    lemma_log_frame(w, w1);
    lemma_inv_bal_nonneg(w, old_a);
    lemma_inv_bal_nonneg(w, new_a);
    assert(0 <= frz_tokens(w, old_a) && frz_tokens(w, old_a) <= bal(w, old_a));
    assert(0 <= frz_tokens(w, new_a) && frz_tokens(w, new_a) <= bal(w, new_a));
    if bal(w, old_a) != 0 {
        let amt = bal(w, old_a) as i128;
        assert(bal(w1, old_a) == bal(w, old_a));
        assert(frz_tokens(w1, old_a) == frz_tokens(w, old_a));
        assert(frz_tokens(w1, new_a) == frz_tokens(w, new_a));
        assert(bal(w1, new_a) == bal(w, new_a));
        lemma_forced(w1, old_a, new_a, amt);
        let w2 = recover_moved(w, old_a, new_a);
        assert(w2 == forced_post(w1, old_a, new_a, amt));
        assert(unfreeze_need(w1, old_a, amt as int) == frz_tokens(w, old_a));
        assert(frz_tokens(w2, old_a) == 0);
        assert(c_transferred(w1, old_a, new_a, amt) == c_transferred(w, old_a, new_a, amt));
        let fz = frz_tokens(w, old_a);
        let w3 = recover_refrozen(w, old_a, new_a);
        assert(bal(w2, new_a) == bal(w1, new_a) + upd_delta(Some(old_a), Some(new_a), amt as int, new_a));
        assert(bal(w2, old_a) == bal(w1, old_a) + upd_delta(Some(old_a), Some(new_a), amt as int, old_a));
        if fz > 0 {
            if old_a != new_a { assert(frz_tokens(w2, new_a) == frz_tokens(w1, new_a)); }
            lemma_freeze(w2, new_a, fz as i128);
            assert(w3 == freeze_post(w2, new_a, fz as i128));
        } else {
            assert(w3 == w2);
        }
        assert(inv3(w3));
        assert(frz_tokens(w3, new_a) == frz_tokens(w2, new_a) + fz);
        assert forall|c: Address| c != new_a implies #[trigger] frz_tokens(w3, c) == frz_tokens(w2, c) by {}
        assert forall|c: Address| #[trigger] frz_addr(w3, c) == frz_addr(w, c) by { assert(frz_addr(w3, c) == frz_addr(w2, c)); assert(frz_addr(w2, c) == frz_addr(w1, c)); assert(frz_addr(w1, c) == frz_addr(w, c)); }
        assert forall|c: Address| #[trigger] bal(w3, c) == bal(w2, c) by {}
        let w4 = if frz_addr(w, old_a) { saf_post(w3, new_a, true) } else { w3 };
        if frz_addr(w, old_a) { lemma_saf(w3, new_a, true); }
        assert(inv3(w4));
        let ev = RecoverySuccess { old_account: old_a, new_account: new_a }.ev();
        lemma_neutral_event(w4, ev);
        let p = recover_post(w, old_a, new_a);
        assert(p == w_event(w4, ev));
        assert(p.calls == w2.calls);
        assert forall|c: Address| #[trigger] bal(p, c) == bal(w2, c) by { assert(bal(p, c) == bal(w4, c)); assert(bal(w4, c) == bal(w3, c)); assert(bal(w3, c) == bal(w2, c)); }
        assert forall|c: Address| #[trigger] frz_tokens(p, c) == frz_tokens(w3, c) by { assert(frz_tokens(p, c) == frz_tokens(w4, c)); assert(frz_tokens(w4, c) == frz_tokens(w3, c)); }
        assert forall|c: Address| c != new_a implies #[trigger] frz_addr(p, c) == frz_addr(w, c) by { assert(frz_addr(p, c) == frz_addr(w4, c)); assert(frz_addr(w4, c) == frz_addr(w3, c)); assert(frz_addr(w3, c) == frz_addr(w, c)); }
        assert(frz_addr(p, new_a) == frz_addr(w4, new_a));
        assert(frz_addr(w3, new_a) == frz_addr(w, new_a));
        assert forall|c: Address| c != old_a && c != new_a implies #[trigger] bal(p, c) == bal(w, c) by {
            assert(bal(p, c) == bal(w2, c));
            assert(bal(w2, c) == bal(w1, c) + upd_delta(Some(old_a), Some(new_a), amt as int, c));
            assert(bal(w1, c) == bal(w, c));
        }
        assert forall|c: Address| c != old_a && c != new_a implies #[trigger] frz_tokens(p, c) == frz_tokens(w, c) by {
            assert(frz_tokens(p, c) == frz_tokens(w3, c));
            assert(frz_tokens(w3, c) == frz_tokens(w2, c));
            assert(frz_tokens(w2, c) == frz_tokens(w1, c));
            assert(frz_tokens(w1, c) == frz_tokens(w, c));
        }
        assert(bal(p, old_a) == bal(w2, old_a));
        assert(bal(p, new_a) == bal(w2, new_a));
        assert(frz_tokens(p, new_a) == frz_tokens(w3, new_a));
        assert(frz_tokens(p, old_a) == frz_tokens(w3, old_a));
        assert(supply(p) == supply(w4));
        assert(supply(w4) == supply(w3));
        assert(supply(w3) == supply(w2));
    }
}

// ---- configuration writes and pause ----
pub proof fn lemma_config_write(w: World, k: SV, v: SV, ev: SV)
    requires inv3(w), k != supply_key(), neutral_ev(ev),
    ensures inv3(w_event(World { instance: w.instance.insert(k, v), ..w }, ev)),
{
    lemma_nonsupply_iset(w, k, v);
    let w1 = World { instance: w.instance.insert(k, v), ..w };
    assert forall|a: Address| 0 <= #[trigger] frz_tokens(w1, a) && frz_tokens(w1, a) <= bal(w1, a) by {
        assert(frz_tokens(w1, a) == frz_tokens(w, a));
        assert(bal(w1, a) == bal(w, a));
    }
    lemma_neutral_event(w1, ev);
}

// ---- the public operations of an RWA token as a relation on worlds ----
pub enum ROp {
    Transfer { from: Address, to: Address, amount: i128 },
    TransferFrom { spender: Address, from: Address, to: Address, amount: i128 },
    Approve { owner: Address, spender: Address, amount: i128, live: u32 },
    Mint { to: Address, amount: i128 },
    Burn { a: Address, amount: i128 },
    Forced { from: Address, to: Address, amount: i128 },
    Recover { old_a: Address, new_a: Address },
    Freeze { a: Address, amount: i128 },
    Unfreeze { a: Address, amount: i128 },
    SetFrozen { a: Address, b: bool },
    Pause,
    Unpause,
    SetCompliance { c: Address },
    SetIdv { c: Address },
    SetOnchainId { c: Address },
}

pub open spec fn rop_guard(w: World, op: ROp) -> bool {
    match op {
        ROp::Transfer { from, to, amount } => transfer_guard(w, from, to, amount),
        ROp::TransferFrom { spender, from, to, amount } => transfer_from_guard(w, spender, from, to, amount),
        ROp::Approve { owner, spender, amount, live } => op_guard(w, FOp::Approve { owner: owner, spender: spender, amount: amount, live: live }),
        ROp::Mint { to, amount } => mint_guard(w, to, amount),
        ROp::Burn { a, amount } => burn_guard(w, a, amount),
        ROp::Forced { from, to, amount } => forced_guard(w, from, to, amount),
        ROp::Recover { old_a, new_a } => recover_guard(w, old_a, new_a),
        ROp::Freeze { a, amount } => freeze_guard(w, a, amount),
        ROp::Unfreeze { a, amount } => unfreeze_guard(w, a, amount),
        ROp::SetFrozen { a, b } => true,
        ROp::Pause => !is_paused(w),
        ROp::Unpause => is_paused(w),
        ROp::SetCompliance { c } => true,
        ROp::SetIdv { c } => true,
        ROp::SetOnchainId { c } => true,
    }
}
pub open spec fn rop_post(w: World, op: ROp) -> World {
    match op {
        ROp::Transfer { from, to, amount } => transfer_post(w, from, to, amount),
        ROp::TransferFrom { spender, from, to, amount } => transfer_from_post(w, spender, from, to, amount),
        ROp::Approve { owner, spender, amount, live } => op_post(w, FOp::Approve { owner: owner, spender: spender, amount: amount, live: live }),
        ROp::Mint { to, amount } => mint_post(w, to, amount),
        ROp::Burn { a, amount } => burn_post(w, a, amount),
        ROp::Forced { from, to, amount } => forced_post(w, from, to, amount),
        ROp::Recover { old_a, new_a } => recover_post(w, old_a, new_a),
        ROp::Freeze { a, amount } => freeze_post(w, a, amount),
        ROp::Unfreeze { a, amount } => unfreeze_post(w, a, amount),
        ROp::SetFrozen { a, b } => saf_post(w, a, b),
        ROp::Pause => pause_post(w),
        ROp::Unpause => unpause_post(w),
        ROp::SetCompliance { c } => set_compliance_post(w, c),
        ROp::SetIdv { c } => set_idv_post(w, c),
        ROp::SetOnchainId { c } => set_onchain_post(w, c),
    }
}

/// every operation preserves  Σ balances == supply,  event replay,  and  0 <= frozen <= balance
pub proof fn lemma_rop(w: World, op: ROp)
    requires inv3(w), w.ledger_ok(), rop_guard(w, op),
    ensures
        //@@ C01+C04:lemma.op_preserves_inv
        inv3(rop_post(w, op)),
        rop_post(w, op).same_ledger(w),
{
    lemma_rwa_keys(a0());
    match op {
        ROp::Transfer { from, to, amount } => { lemma_transfer(w, from, to, amount); }
        ROp::TransferFrom { spender, from, to, amount } => { lemma_transfer_from(w, spender, from, to, amount); }
        ROp::Approve { owner, spender, amount, live } => {
            let fop = FOp::Approve { owner: owner, spender: spender, amount: amount, live: live };
            lemma_op_c01(w, fop);
            lemma_op_shape(w, fop);
            lemma_op_pre(w, fop);
            let p = op_post(w, fop);
            assert(p.persistent == w.persistent);
            assert forall|a: Address| 0 <= #[trigger] frz_tokens(p, a) && frz_tokens(p, a) <= bal(p, a) by {
                assert(frz_tokens(p, a) == frz_tokens(w, a));
                assert(bal(p, a) == bal(w, a) + upd_delta(None, None, 0, a));
            }
        }
        ROp::Mint { to, amount } => { lemma_mint(w, to, amount); }
        ROp::Burn { a, amount } => { lemma_burn(w, a, amount); }
        ROp::Forced { from, to, amount } => { lemma_forced(w, from, to, amount); }
        ROp::Recover { old_a, new_a } => { lemma_recover(w, old_a, new_a); }
        ROp::Freeze { a, amount } => { lemma_freeze(w, a, amount); }
        ROp::Unfreeze { a, amount } => { lemma_unfreeze(w, a, amount); }
        ROp::SetFrozen { a, b } => { lemma_saf(w, a, b); }
        ROp::Pause => { lemma_config_write(w, PausableStorageKey::Paused.sv(), SV::Bool(true), Paused {}.ev()); }
        ROp::Unpause => { lemma_config_write(w, PausableStorageKey::Paused.sv(), SV::Bool(false), Unpaused {}.ev()); }
        ROp::SetCompliance { c } => { lemma_config_write(w, RWAStorageKey::Compliance.sv(), c.sv(), ComplianceSet { compliance: c }.ev()); }
        ROp::SetIdv { c } => { lemma_config_write(w, RWAStorageKey::IdentityVerifier.sv(), c.sv(), IdentityVerifierSet { identity_verifier: c }.ev()); }
        ROp::SetOnchainId { c } => { lemma_config_write(w, RWAStorageKey::OnchainId.sv(), c.sv(), TokenOnchainIdUpdated { onchain_id: c }.ev()); }
    }
}

// ---- histories: genesis, public operations (each with whatever the callees did to `ext`) and ledger advances ----
pub enum RStep { Op(ROp, int), Tick { seq: u32, ts: u64 } }

pub open spec fn rwa_genesis(w: World) -> bool {
    &&& genesis(w)
    &&& forall|a: Address| pget(w, RWAStorageKey::FrozenTokens(a)).is_none()
}
pub open spec fn rstep_ok(w: World, st: RStep) -> bool {
    match st { RStep::Op(op, x) => rop_guard(w, op), RStep::Tick { seq, ts } => seq >= w.ledger_seq }
}
pub open spec fn rstep_post(w: World, st: RStep) -> World {
    match st {
        RStep::Op(op, x) => World { auths: Set::empty(), ext: x, ..rop_post(w, op) },
        RStep::Tick { seq, ts } => World { ledger_seq: seq, timestamp: ts, auths: Set::empty(), auth_args: Set::empty(), ..w },
    }
}
pub open spec fn rwa_run(w0: World, steps: Seq<RStep>) -> World
    decreases steps.len()
{
    if steps.len() == 0 { World { auths: Set::empty(), ..w0 } } else { rstep_post(rwa_run(w0, steps.drop_last()), steps.last()) }
}
pub open spec fn rwa_valid(w0: World, steps: Seq<RStep>) -> bool
    decreases steps.len()
{
    steps.len() == 0 || (rwa_valid(w0, steps.drop_last()) && rstep_ok(rwa_run(w0, steps.drop_last()), steps.last()))
}

pub proof fn lemma_rstep(w: World, st: RStep)
    requires inv3(w), w.ledger_ok(), rstep_ok(w, st),
    ensures inv3(rstep_post(w, st)), rstep_post(w, st).ledger_ok(),
{
    let w2 = rstep_post(w, st);
    match st {
        RStep::Op(op, x) => {
            lemma_rop(w, op);
            lemma_log_frame(rop_post(w, op), w2);
        }
        RStep::Tick { seq, ts } => { lemma_log_frame(w, w2); }
    }
}

/// C04 (and C01 for the RWA token) over all histories of mint / transfer / transfer_from / approve /
/// forced_transfer / burn / recover_balance / freeze / unfreeze / set_address_frozen / pause / unpause /
/// configuration operations interleaved with ledger advances: in every reachable state
///   for every account  0 <= frozen tokens <= balance,   Σ balances == total supply,
///   and replaying the emitted Transfer / Mint / Burn events reproduces every balance
pub proof fn lemma_rwa_history(w0: World, steps: Seq<RStep>)
    requires rwa_genesis(w0), rwa_valid(w0, steps),
    ensures
        //@@ C04:history.frozen_le_balance
        inv_rwa(rwa_run(w0, steps)),
        //@@ C01:history.rwa_supply
        inv(rwa_run(w0, steps)),
        //@@ C01:history.rwa_replay
        inv_ev(rwa_run(w0, steps)),
        rwa_run(w0, steps).ledger_ok(),
    decreases steps.len()
{
    if steps.len() == 0 {
        lemma_genesis(w0);
        let w = rwa_run(w0, steps);
        assert(w == run(w0, Seq::empty()));
        assert forall|a: Address| 0 <= #[trigger] frz_tokens(w, a) && frz_tokens(w, a) <= bal(w, a) by {
            assert(pget(w, RWAStorageKey::FrozenTokens(a)) == pget(w0, RWAStorageKey::FrozenTokens(a)));
            lemma_inv_bal_nonneg(w, a);
        }
    } else {
        let pre = steps.drop_last();
        lemma_rwa_history(w0, pre);
        lemma_rstep(rwa_run(w0, pre), steps.last());
    }
}
