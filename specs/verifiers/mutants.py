#!/usr/bin/env python3
"""mutation self-test of unit `verifiers` (C18).  Usage (from the framework root / worktree):
     mkdir -p /var/tmp/m_verifiers && cp -r /repo/packages /repo/examples /repo/Cargo.toml /repo/Cargo.lock /var/tmp/m_verifiers/
     VERIF_REPO=/var/tmp/m_verifiers python3 specs/verifiers/mutants.py [--kani] ; rm -rf /var/tmp/m_verifiers
   For every mutant: the failing Verus labels, and with --kani the failing Kani harnesses (kani/verifiers/run.sh).
   Expected:
     M0 unmodified / H1 harmless reorder ....... nothing fails
     M1 alphabet '-','_' swapped ............... Verus lemma.base64.alphabet + base64.rfc4648 ; Kani base64_*, challenge_len32_*
     M2 third character of a 2-byte tail lost .. Verus base64.rfc4648 ; Kani base64_len32_complete, base64_len0to12_bounded, challenge_len32_*
     M3 authenticator data of 36 bytes accepted  Verus webauthn.accepts
     M4 user-verified check skipped ............ Verus webauthn.accepts
     M5 UV constant 0x02 ....................... Verus flags.uv ; Kani flags_user_verified_exact, flags_all_three_exact
     M6 digest over sha256(cd) || auth_data .... Verus webauthn.accepts
     M7 ed25519 host call dropped .............. Verus ed25519.signature
     M8 type "webauthn.create" ................. Verus webauthn.type
     M9 backup check stricter (|| for &&) ...... Verus nothing (partial correctness) ; Kani flags_backup_state_exact, flags_all_three_exact
     M10 challenge over payload bytes 1..33 .... Verus webauthn.challenge ; Kani challenge_*
     M11 authenticator data must have 38 bytes . Verus (verifiers) nothing — stricter ; (verifiers_strict) webauthn.complete
   Unit `verifiers_strict` (completeness) must additionally report: M1 (vacuous: the table lemma is false), M2 base64.*,
   M5 flags.uv.complete, M8 webauthn.type.complete, M9 flags.backup.complete, M10 webauthn.challenge.complete; the mutants
   that only DROP a check (M3, M4, M6 changes the signed bytes -> webauthn.complete, M7) stay complete."""
import importlib.machinery, importlib.util, sys, os, subprocess
ROOT = os.path.dirname(os.path.dirname(os.path.dirname(os.path.abspath(__file__))))
os.chdir(ROOT); sys.path.insert(0, '.')
SCR = os.environ['VERIF_REPO']
KANI = '--kani' in sys.argv
sys.argv = ['check']
loader = importlib.machinery.SourceFileLoader('checkmod', './check')
spec = importlib.util.spec_from_loader('checkmod', loader); m = importlib.util.module_from_spec(spec); loader.exec_module(m)
D = 'packages/accounts/src/verifiers/'
W, B, E = D + 'webauthn.rs', D + 'utils/base64_url.rs', D + 'ed25519.rs'
orig = {f: open('/repo/' + f).read() for f in (W, B, E)}
K_B64 = "base64_len32_complete base64_len0to12_bounded challenge_len32_exact challenge_len32_genuine_accepted"
K_FLAGS = "flags_user_present_exact flags_user_verified_exact flags_backup_state_exact flags_all_three_exact"
MUT = {
 'M0_unmodified': ([], None),
 'M1_alphabet_swap': ([(B, '0123456789-_"', '0123456789_-"')], K_B64),
 'M2_tail_third_char_lost': ([(B, "    if remain == 2 {\n        dst[di + 2] = ALPHABET[val >> 6 & 0x3F];\n    }\n", "")], K_B64),
 'M3_auth_data_len_36': ([(W, "AUTHENTICATOR_DATA_MIN_LEN: usize = 37;", "AUTHENTICATOR_DATA_MIN_LEN: usize = 36;")], None),
 'M4_skip_uv_check': ([(W, "    validate_user_verified_bit_set(e, flags);\n", "")], None),
 'M5_uv_constant_0x02': ([(W, "AUTH_DATA_FLAGS_UV: u8 = 0x04;", "AUTH_DATA_FLAGS_UV: u8 = 0x02;")], K_FLAGS),
 'M6_digest_order': ([(W, "    let mut message_digest = authenticator_data.clone();\n    message_digest.extend_from_array(&client_data_hash.to_array());\n",
                          "    let mut message_digest = Bytes::from_array(e, &client_data_hash.to_array());\n    message_digest.append(authenticator_data);\n")], None),
 'M7_ed25519_no_host_call': ([(E, "    e.crypto().ed25519_verify(public_key, signature_payload, signature);\n", "")], None),
 'M8_type_create': ([(W, 'String::from_str(e, "webauthn.get")', 'String::from_str(e, "webauthn.create")')], None),
 'M9_backup_stricter': ([(W, "(flags & AUTH_DATA_FLAGS_BE) == 0 && (flags & AUTH_DATA_FLAGS_BS) != 0", "(flags & AUTH_DATA_FLAGS_BE) == 0 || (flags & AUTH_DATA_FLAGS_BS) != 0")], K_FLAGS),
 'M10_challenge_offset': ([(W, "extract_from_bytes(e, signature_payload, 0..32)", "extract_from_bytes(e, signature_payload, 1..33)")],
                          "challenge_len32_exact challenge_len32_genuine_accepted challenge_short_payload_rejected"),
 'M11_auth_data_len_38': ([(W, "AUTHENTICATOR_DATA_MIN_LEN: usize = 37;", "AUTHENTICATOR_DATA_MIN_LEN: usize = 38;")], None),
 'H1_harmless_reorder': ([(W, "    validate_user_present_bit_set(e, flags);\n    validate_user_verified_bit_set(e, flags);\n", "    validate_user_verified_bit_set(e, flags);\n    validate_user_present_bit_set(e, flags);\n")], K_FLAGS),
}
only = [a for a in sys.argv[1:] if not a.startswith('--')]
for name, (reps, kh) in MUT.items():
    if only and name.split('_')[0] not in only:
        continue
    s = dict(orig)
    for f, a, b in reps:
        assert a in s[f], (name, a)
        s[f] = s[f].replace(a, b)
    for f in s:
        open(os.path.join(SCR, f), 'w').write(s[f])
    for unit in ('verifiers', 'verifiers_strict'):
        try:
            r = m.check_unit(unit, 'A', '/var/tmp/vxdev/chk_verifiers', 'quick')
            print(name, unit, 'VERUS FAILED LABELS:', sorted(r['failed'].keys()), 'undecided:', r['undecided'], 'canaries_ok:', r['canary_failed'] == r['expected_canaries'], '%.1fs' % r['wall'], flush=True)
        except Exception as ex:
            print(name, unit, 'VERUS EXC', type(ex).__name__, str(ex)[:300], flush=True)
    if KANI and kh:
        p = subprocess.run(['kani/verifiers/run.sh'] + kh.split(), capture_output=True, text=True, env=dict(os.environ, VERIF_REPO=SCR))
        bad = [l.split()[0] for l in p.stdout.splitlines() if not l.startswith('#') and ' SUCCESS ' not in l + ' ']
        print(name, 'KANI rc', p.returncode, 'NOT SUCCESSFUL:', bad, flush=True)
for f in orig:
    open(os.path.join(SCR, f), 'w').write(orig[f])
