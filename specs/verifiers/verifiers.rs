// Spec pack of unit `verifiers` (property C18): signature verifiers of packages/accounts/src/verifiers.
// Everything here is ghost code.

// ---------------------------------------------------------------------------------------------------------------
// RFC 4648 section 5 ("base64url"), WITHOUT padding — written from the RFC text, independently of the code:
// the input is cut into groups of 3 octets = 24 bits = 4 sextets (most significant first); a final group of 1 octet
// gives 2 characters, of 2 octets 3 characters (missing low bits are zero); no '=' is appended.
// Table 2 of the RFC: 0..25 'A'..'Z', 26..51 'a'..'z', 52..61 '0'..'9', 62 '-', 63 '_'.
// ---------------------------------------------------------------------------------------------------------------
pub open spec fn b64url_char(i: int) -> u8 {
    if 0 <= i < 26 { (65 + i) as u8 }
    else if 26 <= i < 52 { (97 + (i - 26)) as u8 }
    else if 52 <= i < 62 { (48 + (i - 52)) as u8 }
    else if i == 62 { 45u8 }
    else { 95u8 }
}
pub open spec fn b64_group3(a: u8, b: u8, c: u8) -> Seq<u8> {
    seq![b64url_char(a as int / 4), b64url_char((a as int % 4) * 16 + b as int / 16), b64url_char((b as int % 16) * 4 + c as int / 64), b64url_char(c as int % 64)]
}
pub open spec fn b64_group2(a: u8, b: u8) -> Seq<u8> {
    seq![b64url_char(a as int / 4), b64url_char((a as int % 4) * 16 + b as int / 16), b64url_char((b as int % 16) * 4)]
}
pub open spec fn b64_group1(a: u8) -> Seq<u8> {
    seq![b64url_char(a as int / 4), b64url_char((a as int % 4) * 16)]
}
pub open spec fn rfc4648_url(src: Seq<u8>) -> Seq<u8>
    decreases src.len()
{
    if src.len() == 0 { Seq::<u8>::empty() }
    else if src.len() == 1 { b64_group1(src[0]) }
    else if src.len() == 2 { b64_group2(src[0], src[1]) }
    else { b64_group3(src[0], src[1], src[2]) + rfc4648_url(src.skip(3)) }
}
/// length of the unpadded encoding of `n` octets
pub open spec fn b64_len(n: int) -> int { (n / 3) * 4 + (if n % 3 == 0 { 0int } else { n % 3 + 1 }) }

pub proof fn lemma_rfc4648_len(src: Seq<u8>)
    ensures
        //@@ C18:lemma.base64.length
        rfc4648_url(src).len() == b64_len(src.len() as int),
    decreases src.len()
{
    if src.len() >= 3 { lemma_rfc4648_len(src.skip(3)); }
}

/// the table of the code IS Table 2 of the RFC (all 64 entries, by computation)
pub proof fn lemma_alphabet()
    ensures
        //@@ C18:lemma.base64.alphabet
        forall|i: int| 0 <= i < 64 ==> #[trigger] ALPHABET[i] == b64url_char(i),
{
    assert(forall|i: int| 0 <= i < 64 ==> #[trigger] ALPHABET[i] == b64url_char(i)) by (compute);
}
/// the shift-and-mask sextets of the code are the arithmetic sextets of the specification (bit-vector reasoning)
pub proof fn lemma_b64_bits(a: u8, b: u8, c: u8)
    ensures ({
        let val = (a as usize) << 16 | (b as usize) << 8 | (c as usize);
        &&& (val >> 18 & 0x3F) == a / 4
        &&& (val >> 12 & 0x3F) == (a % 4) * 16 + b / 16
        &&& (val >> 6 & 0x3F) == (b % 16) * 4 + c / 64
        &&& (val & 0x3F) == c % 64
    }),
{
    let val = (a as usize) << 16 | (b as usize) << 8 | (c as usize);
    assert((val >> 18 & 0x3F) == a / 4) by (bit_vector) requires val == (a as usize) << 16 | (b as usize) << 8 | (c as usize);
    assert((val >> 12 & 0x3F) == (a % 4) * 16 + b / 16) by (bit_vector) requires val == (a as usize) << 16 | (b as usize) << 8 | (c as usize);
    assert((val >> 6 & 0x3F) == (b % 16) * 4 + c / 64) by (bit_vector) requires val == (a as usize) << 16 | (b as usize) << 8 | (c as usize);
    assert((val & 0x3F) == c % 64) by (bit_vector) requires val == (a as usize) << 16 | (b as usize) << 8 | (c as usize);
}
/// encoding distributes over concatenation when the first part consists of whole 3-octet groups
pub proof fn lemma_rfc4648_concat(s: Seq<u8>, t: Seq<u8>)
    requires s.len() % 3 == 0,
    ensures rfc4648_url(s + t) == rfc4648_url(s) + rfc4648_url(t),
    decreases s.len()
{
    if s.len() == 0 {
        assert(s + t =~= t);
        assert(rfc4648_url(s) + rfc4648_url(t) =~= rfc4648_url(t));
    } else {
        assert((s + t).skip(3) =~= s.skip(3) + t);
        lemma_rfc4648_concat(s.skip(3), t);
        assert(rfc4648_url(s + t) =~= rfc4648_url(s) + rfc4648_url(t));
    }
}

// -- the encoding is injective on inputs of equal length (so a challenge determines the 32 payload bytes)
pub proof fn lemma_b64url_char_inj(i: int, j: int)
    requires 0 <= i < 64, 0 <= j < 64, b64url_char(i) == b64url_char(j),
    ensures i == j,
{}
pub proof fn lemma_concat_split(x: Seq<u8>, y: Seq<u8>, x2: Seq<u8>, y2: Seq<u8>)
    requires x.len() == x2.len(), x + y == x2 + y2,
    ensures x == x2, y == y2,
{
    assert((x + y).subrange(0, x.len() as int) =~= x);
    assert((x2 + y2).subrange(0, x.len() as int) =~= x2);
    assert((x + y).subrange(x.len() as int, (x + y).len() as int) =~= y);
    assert((x2 + y2).subrange(x.len() as int, (x2 + y2).len() as int) =~= y2);
}
pub proof fn lemma_rfc4648_injective(a: Seq<u8>, b: Seq<u8>)
    requires a.len() == b.len(), rfc4648_url(a) == rfc4648_url(b),
    ensures
        //@@ C18:lemma.base64.injective
        a == b,
    decreases a.len()
{
    if a.len() == 0 {
        assert(a =~= b);
    } else if a.len() == 1 {
        let (x, y) = (b64_group1(a[0]), b64_group1(b[0]));
        assert(x[0] == y[0] && x[1] == y[1]);
        lemma_b64url_char_inj(a[0] as int / 4, b[0] as int / 4);
        lemma_b64url_char_inj((a[0] as int % 4) * 16, (b[0] as int % 4) * 16);
        assert(a =~= b);
    } else if a.len() == 2 {
        let (x, y) = (b64_group2(a[0], a[1]), b64_group2(b[0], b[1]));
        assert(x[0] == y[0] && x[1] == y[1] && x[2] == y[2]);
        lemma_b64url_char_inj(a[0] as int / 4, b[0] as int / 4);
        lemma_b64url_char_inj((a[0] as int % 4) * 16 + a[1] as int / 16, (b[0] as int % 4) * 16 + b[1] as int / 16);
        lemma_b64url_char_inj((a[1] as int % 16) * 4, (b[1] as int % 16) * 4);
        assert(a =~= b);
    } else {
        let (x, y) = (b64_group3(a[0], a[1], a[2]), b64_group3(b[0], b[1], b[2]));
        lemma_concat_split(x, rfc4648_url(a.skip(3)), y, rfc4648_url(b.skip(3)));
        lemma_rfc4648_injective(a.skip(3), b.skip(3));
        assert(x[0] == y[0] && x[1] == y[1] && x[2] == y[2] && x[3] == y[3]);
        lemma_b64url_char_inj(a[0] as int / 4, b[0] as int / 4);
        lemma_b64url_char_inj((a[0] as int % 4) * 16 + a[1] as int / 16, (b[0] as int % 4) * 16 + b[1] as int / 16);
        lemma_b64url_char_inj((a[1] as int % 16) * 4 + a[2] as int / 64, (b[1] as int % 16) * 4 + b[2] as int / 64);
        lemma_b64url_char_inj(a[2] as int % 64, b[2] as int % 64);
        assert forall|i: int| 0 <= i < a.len() implies a[i] == b[i] by {
            if i >= 3 { assert(a.skip(3)[i - 3] == b.skip(3)[i - 3]); }
        }
        assert(a =~= b);
    }
}

// ---------------------------------------------------------------------------------------------------------------
// WebAuthn authenticator-data flags (https://www.w3.org/TR/webauthn-2/#flags): bit 0 UP, bit 2 UV, bit 3 BE, bit 4 BS.
// ---------------------------------------------------------------------------------------------------------------
pub open spec fn flag_bit(flags: u8, k: u8) -> bool { (flags >> k) & 1u8 == 1u8 }
pub open spec fn flag_up(flags: u8) -> bool { flag_bit(flags, 0) }
pub open spec fn flag_uv(flags: u8) -> bool { flag_bit(flags, 2) }
pub open spec fn flag_be(flags: u8) -> bool { flag_bit(flags, 3) }
pub open spec fn flag_bs(flags: u8) -> bool { flag_bit(flags, 4) }
/// "backed up" implies "backup eligible"
pub open spec fn backup_consistent(flags: u8) -> bool { flag_bs(flags) ==> flag_be(flags) }
pub open spec fn flags_ok(flags: u8) -> bool { flag_up(flags) && flag_uv(flags) && backup_consistent(flags) }

// ---------------------------------------------------------------------------------------------------------------
// extract_from_bytes: the bounds the function computes (NOT those of Bytes::slice: an excluded START bound is taken
// as inclusive here, see the report)
// ---------------------------------------------------------------------------------------------------------------
pub open spec fn efb_start(b: Bound<u32>) -> int {
    match b { Bound::Unbounded => 0, Bound::Included(n) => n as int, Bound::Excluded(n) => n as int }
}
pub open spec fn efb_end(b: Bound<u32>, len: int) -> int {
    match b { Bound::Unbounded => len, Bound::Included(n) => n + 1, Bound::Excluded(n) => n as int }
}

// ---------------------------------------------------------------------------------------------------------------
// acceptance predicates
// ---------------------------------------------------------------------------------------------------------------
pub open spec fn type_ok(type_field: Seq<u8>) -> bool { type_field == "webauthn.get".spec_bytes() }
/// the challenge is the base64url of exactly the first 32 bytes of the payload (the payload must have >= 32 bytes)
pub open spec fn challenge_ok(challenge: Seq<u8>, payload: Seq<u8>) -> bool {
    payload.len() >= 32 && challenge == rfc4648_url(payload.subrange(0, 32))
}
/// the message whose SHA-256 digest is signed: authenticator data followed by the SHA-256 of the client data
pub open spec fn webauthn_signed_digest(authenticator_data: Seq<u8>, client_data: Seq<u8>) -> Seq<u8> {
    sha256_spec(authenticator_data + sha256_spec(client_data))
}
/// everything `webauthn::verify` has checked when it returns
pub open spec fn webauthn_accepts(payload: Seq<u8>, key: Seq<u8>, sd: WebAuthnSigData) -> bool {
    &&& sd.client_data@.len() <= 1024
    &&& json_str_field(sd.client_data@, "type"@) is Some
    &&& type_ok(json_str_field(sd.client_data@, "type"@).unwrap())
    &&& json_str_field(sd.client_data@, "challenge"@) is Some
    &&& challenge_ok(json_str_field(sd.client_data@, "challenge"@).unwrap(), payload)
    &&& sd.authenticator_data@.len() >= 37
    &&& flags_ok(sd.authenticator_data@[32])
    &&& sig_ok(SigScheme::Secp256r1, key, webauthn_signed_digest(sd.authenticator_data@, sd.client_data@), sd.signature@)
}

// ---------------------------------------------------------------------------------------------------------------
// consequences, in the words of the property
// ---------------------------------------------------------------------------------------------------------------
/// "any change to the payload is rejected": one assertion (client data, authenticator data, signature) is accepted
/// for at most one value of the 32 authorized payload bytes — whatever the key.
pub proof fn lemma_assertion_binds_payload(p1: Seq<u8>, k1: Seq<u8>, p2: Seq<u8>, k2: Seq<u8>, sd: WebAuthnSigData)
    requires webauthn_accepts(p1, k1, sd), webauthn_accepts(p2, k2, sd),
    ensures
        //@@ C18:lemma.payload_bound
        p1.subrange(0, 32) == p2.subrange(0, 32),
{
    lemma_rfc4648_injective(p1.subrange(0, 32), p2.subrange(0, 32));
}
/// "any change to flags ... is rejected": acceptance fixes UP = UV = 1 and excludes BS without BE; as a mask test
pub proof fn lemma_flags_mask(f: u8)
    ensures
        //@@ C18:lemma.flags_mask
        flags_ok(f) == ((f & 0x05u8) == 0x05u8 && (f & 0x18u8) != 0x10u8),
{
    assert((((f >> 0u8) & 1u8 == 1u8) && ((f >> 2u8) & 1u8 == 1u8) && (((f >> 4u8) & 1u8 == 1u8) ==> ((f >> 3u8) & 1u8 == 1u8)))
        == ((f & 0x05u8) == 0x05u8 && (f & 0x18u8) != 0x10u8)) by (bit_vector);
}
/// an accepted assertion carries a signature that the host accepted over exactly
/// sha256(authenticator_data || sha256(client_data)) under the given key, and has the two mandatory flags
pub proof fn lemma_accept_unfolds(p: Seq<u8>, k: Seq<u8>, sd: WebAuthnSigData)
    requires webauthn_accepts(p, k, sd),
    ensures
        //@@ C18:lemma.accept_unfolds
        flag_up(sd.authenticator_data@[32]) && flag_uv(sd.authenticator_data@[32]),
        sig_ok(SigScheme::Secp256r1, k, sha256_spec(sd.authenticator_data@ + sha256_spec(sd.client_data@)), sd.signature@),
        p.len() >= 32,
{}
