// =================================================================================================
// spec pack `fee` — packages/fee-abstraction (C19)
// =================================================================================================

// ---- abstract view of the allow-list ----
pub open spec fn k_count() -> FeeAbstractionStorageKey { FeeAbstractionStorageKey::Count }
pub open spec fn k_tok(i: u32) -> FeeAbstractionStorageKey { FeeAbstractionStorageKey::Token(i) }
pub open spec fn k_idx(t: Address) -> FeeAbstractionStorageKey { FeeAbstractionStorageKey::TokenIndex(t) }
/// number of allowed fee tokens (instance `Count`, absent = 0)
pub open spec fn fcount(w: World) -> u32 { match dec::<u32>(iget(w, k_count())) { Some(c) => c, None => 0 } }
/// i-th enumeration entry (persistent `Token(i)`)
pub open spec fn ftoken(w: World, i: u32) -> Option<Address> { dec::<Address>(pget(w, k_tok(i))) }
/// index of a token (persistent `TokenIndex(t)`); present == "t is on the allow-list"
pub open spec fn fidx(w: World, t: Address) -> Option<u32> { dec::<u32>(pget(w, k_idx(t))) }
pub open spec fn listed(w: World, t: Address) -> bool { fidx(w, t).is_some() }
/// the acceptance rule of C19: "only if the allow-list is empty or contains it"
pub open spec fn fee_token_allowed(w: World, t: Address) -> bool { fcount(w) == 0 || listed(w, t) }

/// enumeration invariant: `Token(i)` / `TokenIndex(t)` are inverse bijections between 0..count-1 and the
/// listed tokens; no `Token(i)` entry at or beyond count
pub open spec fn inv_fee(w: World) -> bool {
    &&& forall|t: Address| (#[trigger] fidx(w, t)).is_some() ==> fidx(w, t).unwrap() < fcount(w) && ftoken(w, fidx(w, t).unwrap()) == Some(t)
    &&& forall|i: u32| i < fcount(w) ==> (#[trigger] ftoken(w, i)).is_some() && fidx(w, ftoken(w, i).unwrap()) == Some(i)
    &&& forall|i: u32| i >= fcount(w) ==> (#[trigger] ftoken(w, i)).is_none()
}


// ---- exact successor states of set_allowed_fee_token ----
pub open spec fn allow_store(w: World, t: Address) -> World {
    let c = fcount(w);
    iset(pset(pset(w, k_tok(c), t.sv()), k_idx(t), c.sv()), k_count(), ((c + 1) as u32).sv())
}
pub open spec fn allow_guard(w: World, t: Address) -> bool { !listed(w, t) && fcount(w) < u32::MAX }
pub open spec fn disallow_store(w: World, t: Address) -> World {
    let c = fcount(w);
    let idx = fidx(w, t).unwrap();
    let last = (c - 1) as u32;
    let w1 = if idx != last {
        let lt = ftoken(w, last).unwrap();
        pset(pset(w, k_tok(idx), lt.sv()), k_idx(lt), idx.sv())
    } else { w };
    iset(pdel(pdel(w1, k_tok(last)), k_idx(t)), k_count(), last.sv())
}
pub open spec fn disallow_guard(w: World, t: Address) -> bool {
    fcount(w) > 0 && listed(w, t) && (fidx(w, t).unwrap() != fcount(w) - 1 ==> ftoken(w, (fcount(w) - 1) as u32).is_some())
}
pub open spec fn set_allowed_guard(w: World, t: Address, allowed: bool) -> bool {
    if allowed { allow_guard(w, t) } else { disallow_guard(w, t) }
}
pub open spec fn set_allowed_store(w: World, t: Address, allowed: bool) -> World {
    if allowed { allow_store(w, t) } else { disallow_store(w, t) }
}
pub open spec fn set_allowed_post(w: World, t: Address, allowed: bool) -> World {
    w_event(set_allowed_store(w, t, allowed), FeeTokenAllowlistUpdated { token: t, allowed: allowed }.ev())
}

// ---- pointwise descriptions and the step lemmas (swap-and-pop keeps the bijection) ----
pub proof fn lemma_allow_pointwise(w: World, t: Address)
    ensures
        forall|t2: Address| #[trigger] fidx(allow_store(w, t), t2) == (if t2 == t { Some(fcount(w)) } else { fidx(w, t2) }),
        forall|i: u32| #[trigger] ftoken(allow_store(w, t), i) == (if i == fcount(w) { Some(t) } else { ftoken(w, i) }),
        fcount(allow_store(w, t)) == (fcount(w) + 1) as u32,
{
    broadcast use sdk_store;
}

pub proof fn lemma_allow_step(w: World, t: Address)
    requires inv_fee(w), allow_guard(w, t),
    ensures
        //@@ C19:lemma.allow_keeps_bijection
        inv_fee(set_allowed_post(w, t, true)),
        //@@ C19:lemma.allow_adds_exactly_t
        forall|t2: Address| #[trigger] listed(set_allowed_post(w, t, true), t2) == (listed(w, t2) || t2 == t),
        fcount(set_allowed_post(w, t, true)) == fcount(w) + 1,
{
    lemma_allow_pointwise(w, t);
    let w2 = allow_store(w, t);
    let w3 = set_allowed_post(w, t, true);
    assert(forall|t2: Address| #[trigger] fidx(w3, t2) == fidx(w2, t2));
    assert(forall|i: u32| #[trigger] ftoken(w3, i) == ftoken(w2, i));
    assert(fcount(w3) == fcount(w2));
    assert forall|i: u32| i < fcount(w3) implies (#[trigger] ftoken(w3, i)).is_some() && fidx(w3, ftoken(w3, i).unwrap()) == Some(i) by {
        if i == fcount(w) {} else {
            assert(ftoken(w, i).is_some());
            let m = ftoken(w, i).unwrap();
            assert(fidx(w, m) == Some(i));
        }
    }
    assert forall|t2: Address| (#[trigger] fidx(w3, t2)).is_some() implies
        fidx(w3, t2).unwrap() < fcount(w3) && ftoken(w3, fidx(w3, t2).unwrap()) == Some(t2) by {
        if t2 == t {} else { assert(fidx(w, t2).is_some()); }
    }
    assert forall|i: u32| i >= fcount(w3) implies (#[trigger] ftoken(w3, i)).is_none() by {
        assert(ftoken(w, i).is_none());
    }
}

pub proof fn lemma_disallow_pointwise(w: World, t: Address)
    requires inv_fee(w), disallow_guard(w, t),
    ensures
        ({
            let idx = fidx(w, t).unwrap(); let last = (fcount(w) - 1) as u32; let lt = ftoken(w, last).unwrap();
            let w2 = disallow_store(w, t);
            &&& forall|t2: Address| #[trigger] fidx(w2, t2) == (if t2 == t { None } else if t2 == lt && idx != last { Some(idx) } else { fidx(w, t2) })
            &&& forall|i: u32| #[trigger] ftoken(w2, i) == (if i == last { None } else if i == idx { Some(lt) } else { ftoken(w, i) })
            &&& fcount(w2) == last
        }),
{
    broadcast use sdk_store;
    let idx = fidx(w, t).unwrap(); let last = (fcount(w) - 1) as u32;
    assert(ftoken(w, idx) == Some(t));
    assert(ftoken(w, last).is_some());
    let lt = ftoken(w, last).unwrap();
    assert(fidx(w, lt) == Some(last));
}

pub proof fn lemma_disallow_step(w: World, t: Address)
    requires inv_fee(w), disallow_guard(w, t),
    ensures
        //@@ C19:lemma.disallow_keeps_bijection
        inv_fee(set_allowed_post(w, t, false)),
        //@@ C19:lemma.disallow_removes_exactly_t
        forall|t2: Address| #[trigger] listed(set_allowed_post(w, t, false), t2) == (listed(w, t2) && t2 != t),
        fcount(set_allowed_post(w, t, false)) == fcount(w) - 1,
{
    lemma_disallow_pointwise(w, t);
    let w2 = disallow_store(w, t);
    let w3 = set_allowed_post(w, t, false);
    assert(forall|t2: Address| #[trigger] fidx(w3, t2) == fidx(w2, t2));
    assert(forall|i: u32| #[trigger] ftoken(w3, i) == ftoken(w2, i));
    assert(fcount(w3) == fcount(w2));
    let idx = fidx(w, t).unwrap(); let last = (fcount(w) - 1) as u32;
    assert(ftoken(w, idx) == Some(t));
    assert(ftoken(w, last).is_some());
    let lt = ftoken(w, last).unwrap();
    assert(fidx(w, lt) == Some(last));
    assert forall|i: u32| i < fcount(w3) implies (#[trigger] ftoken(w3, i)).is_some() && fidx(w3, ftoken(w3, i).unwrap()) == Some(i) by {
        assert(ftoken(w, i).is_some());
        let m = ftoken(w, i).unwrap();
        assert(fidx(w, m) == Some(i));
        if i == idx {} else { assert(m != t); assert(m != lt || idx == last); }
    }
    assert forall|t2: Address| (#[trigger] fidx(w3, t2)).is_some() implies
        fidx(w3, t2).unwrap() < fcount(w3) && ftoken(w3, fidx(w3, t2).unwrap()) == Some(t2) by {
        if t2 == lt && idx != last {} else {
            assert(fidx(w, t2).is_some());
            let i = fidx(w, t2).unwrap();
            assert(ftoken(w, i) == Some(t2));
        }
    }
    assert forall|i: u32| i >= fcount(w3) implies (#[trigger] ftoken(w3, i)).is_none() by {
        if i == last {} else if i == idx {} else { assert(ftoken(w, i).is_none()); }
    }
    assert forall|t2: Address| #[trigger] listed(w3, t2) == (listed(w, t2) && t2 != t) by {
        if t2 == lt && idx != last { assert(listed(w, lt)); }
    }
}

/// under the invariant the code's own guard of the disallow branch needs nothing beyond "t is listed"
pub proof fn lemma_disallow_guard(w: World, t: Address)
    requires inv_fee(w), listed(w, t),
    ensures disallow_guard(w, t),
{
    let idx = fidx(w, t).unwrap();
    assert(idx < fcount(w));
    let last = (fcount(w) - 1) as u32;
    assert(ftoken(w, last).is_some());
}

// ---- fee collection: calls issued, in order ----
pub open spec fn mk_call(callee: Address, func: int, args: Seq<SV>, ret: SV) -> Call {
    Call { callee: callee, func: func, args: args, ret: ret, ok: true }
}
pub open spec fn c_allowance(tok: Address, user: Address, this: Address, answer: i128) -> Call {
    mk_call(tok, fn_allowance(), seq![user.sv(), this.sv()], answer.sv())
}
pub open spec fn c_approve(tok: Address, user: Address, this: Address, max: i128, exp: u32) -> Call {
    mk_call(tok, fn_approve(), seq![user.sv(), this.sv(), max.sv(), exp.sv()], SV::Void)
}
pub open spec fn c_transfer_from(tok: Address, this: Address, user: Address, to: Address, fee: i128) -> Call {
    mk_call(tok, fn_transfer_from(), seq![this.sv(), user.sv(), to.sv(), fee.sv()], SV::Void)
}
pub open spec fn c_invoke(target: Address, f: Symbol, args: Seq<Val>, ret: SV) -> Call {
    mk_call(target, f.code@, vals_sv(args), ret)
}
pub open spec fn c_balance(tok: Address, this: Address, answer: i128) -> Call {
    mk_call(tok, fn_balance(), seq![this.sv()], answer.sv())
}
pub open spec fn c_transfer(tok: Address, this: Address, to: Address, amount: i128) -> Call {
    mk_call(tok, fn_transfer(), seq![this.sv(), to.sv(), amount.sv()], SV::Void)
}

/// does this run of collect_fee issue `approve`?  (`al` = the token's answer to `allowance`, Lazy only)
pub open spec fn approves(approval: FeeAbstractionApproval, al: i128, max: i128) -> bool {
    match approval { FeeAbstractionApproval::Eager => true, FeeAbstractionApproval::Lazy => al < max }
}
/// the calls collect_fee issues: [allowance]? [approve(user, this, max, exp)]? transfer_from(this, user, recipient, fee)
pub open spec fn fee_calls(this: Address, tok: Address, fee: i128, max: i128, exp: u32, user: Address, recipient: Address,
                           approval: FeeAbstractionApproval, al: i128) -> Seq<Call> {
    let q = match approval { FeeAbstractionApproval::Eager => Seq::<Call>::empty(), FeeAbstractionApproval::Lazy => seq![c_allowance(tok, user, this, al)] };
    let a = if approves(approval, al, max) { seq![c_approve(tok, user, this, max, exp)] } else { Seq::<Call>::empty() };
    q + a + seq![c_transfer_from(tok, this, user, recipient, fee)]
}
/// the same, as the call log after collect_fee (in the order the code appends)
pub open spec fn calls_after_fee(base: Seq<Call>, this: Address, tok: Address, fee: i128, max: i128, exp: u32, user: Address, recipient: Address,
                                 approval: FeeAbstractionApproval, al: i128) -> Seq<Call> {
    let s1 = match approval { FeeAbstractionApproval::Eager => base, FeeAbstractionApproval::Lazy => base.push(c_allowance(tok, user, this, al)) };
    let s2 = if approves(approval, al, max) { s1.push(c_approve(tok, user, this, max, exp)) } else { s1 };
    s2.push(c_transfer_from(tok, this, user, recipient, fee))
}
pub proof fn lemma_calls_after_fee(base: Seq<Call>, this: Address, tok: Address, fee: i128, max: i128, exp: u32, user: Address, recipient: Address,
                                   approval: FeeAbstractionApproval, al: i128)
    ensures calls_after_fee(base, this, tok, fee, max, exp, user, recipient, approval, al)
                =~= base + fee_calls(this, tok, fee, max, exp, user, recipient, approval, al),
{}
/// what must have held for collect_fee to return
pub open spec fn collect_fee_guard(w: World, tok: Address, fee: i128, max: i128, exp: u32, user: Address,
                                   approval: FeeAbstractionApproval, al: i128) -> bool {
    &&& fee_token_allowed(w, tok)
    &&& user != w.this
    &&& 0 < fee && fee <= max
    &&& (!approves(approval, al, max) ==> exp >= w.ledger_seq)
}
/// the token's answer to the `allowance` query = return value of the first call recorded after `w`
pub open spec fn observed_allowance(w: World, w2: World) -> i128 { <i128 as ToSV>::unsv(w2.calls[w.calls.len() as int].ret) }

pub open spec fn collect_fee_post(w: World, w2: World, tok: Address, fee: i128, max: i128, exp: u32, user: Address, recipient: Address,
                                  approval: FeeAbstractionApproval) -> World {
    let al = observed_allowance(w, w2);
    World {
        calls: calls_after_fee(w.calls, w.this, tok, fee, max, exp, user, recipient, approval, al),
        events: w.events.push(FeeCollected { user: user, recipient: recipient, token: tok, amount: fee }.ev()),
        ext: w2.ext,
        ..w
    }
}

/// the argument list the user must have authorized (exactly the tuple the code builds)
pub open spec fn auth_payload(tok: Address, max: i128, exp: u32, target: Address, f: Symbol, args: Vec<Val>) -> Seq<SV> {
    seq![tok.sv(), max.sv(), exp.sv(), target.sv(), f.sv(), args.sv()]
}
pub open spec fn forward_post(w: World, w2: World, tok: Address, fee: i128, max: i128, exp: u32, target: Address, f: Symbol,
                              args: Vec<Val>, user: Address, recipient: Address, approval: FeeAbstractionApproval, ret: Val) -> World {
    let al = observed_allowance(w, w2);
    World {
        auth_args: w.auth_args.insert((user, auth_payload(tok, max, exp, target, f, args))),
        calls: calls_after_fee(w.calls, w.this, tok, fee, max, exp, user, recipient, approval, al).push(c_invoke(target, f, args@, ret.sv())),
        events: w.events.push(FeeCollected { user: user, recipient: recipient, token: tok, amount: fee }.ev())
                        .push(ForwardExecuted { user: user, target_contract: target, target_fn: f, target_args: args }.ev()),
        ext: w2.ext,
        ..w
    }
}

pub open spec fn sweep_post(w: World, w2: World, tok: Address, recipient: Address, amount: i128) -> World {
    World {
        calls: w.calls.push(c_balance(tok, w.this, amount)).push(c_transfer(tok, w.this, recipient, amount)),
        events: w.events.push(TokensSwept { token: tok, recipient: recipient, amount: amount }.ev()),
        ext: w2.ext,
        ..w
    }
}

// ---- C19 in the property's own words, derived from the exact successor of collect_fee_and_invoke ----
pub open spec fn is_prelude_call(c: Call, this: Address, tok: Address, max: i128, exp: u32, user: Address) -> bool {
    (exists|al: i128| c == c_allowance(tok, user, this, al)) || c == c_approve(tok, user, this, max, exp)
}
/// hypothesis about the *fee token* (SEP-41 text for `approve`: the expiration "cannot be less than the
/// current ledger number unless the amount is being set to 0"): a recorded successful approve obeyed it
pub open spec fn sep41_approve_checks_expiry(w: World, max: i128, exp: u32) -> bool { max == 0 || exp >= w.ledger_seq }

pub proof fn lemma_forward_property(w: World, w2: World, tok: Address, fee: i128, max: i128, exp: u32, target: Address, f: Symbol,
                                    args: Vec<Val>, user: Address, recipient: Address, approval: FeeAbstractionApproval, ret: Val)
    requires
        collect_fee_guard(w, tok, fee, max, exp, user, approval, observed_allowance(w, w2)),
        w2 == forward_post(w, w2, tok, fee, max, exp, target, f, args, user, recipient, approval, ret),
    ensures
        //@@ C19:forward.needs_user_auth_over_exact_args
        w2.auth_args.contains((user, seq![tok.sv(), max.sv(), exp.sv(), target.sv(), f.sv(), args.sv()])),
        //@@ C19:forward.fee_positive_and_at_most_max
        0 < fee <= max,
        //@@ C19:forward.user_is_not_forwarder
        user != w2.this,
        //@@ C19:forward.token_accepted_iff_list_empty_or_member
        fcount(w) == 0 || listed(w, tok),
        //@@ C19:forward.call_suffix
        ({
            let n = w.calls.len() as int;
            let suf = w2.calls.subrange(n, w2.calls.len() as int);
            let al = observed_allowance(w, w2);
            &&& w2.calls.subrange(0, n) == w.calls
            &&& suf.len() == (match approval { FeeAbstractionApproval::Eager => 3int, FeeAbstractionApproval::Lazy => if al < max { 4int } else { 3int } })
            // the target call is last, issued once, with exactly the authorized callee / function / arguments
            &&& suf[suf.len() - 1] == c_invoke(target, f, args@, ret.sv())
            // immediately before it the only fund-moving call: transfer_from(spender = this, from = user, to = recipient, amount = fee)
            &&& suf[suf.len() - 2] == c_transfer_from(tok, w.this, user, recipient, fee)
            // everything before is a balance-neutral allowance query or the approve of (user -> this, max, exp)
            &&& forall|i: int| 0 <= i < suf.len() - 2 ==> is_prelude_call(#[trigger] suf[i], w.this, tok, max, exp, user)
            &&& (approves(approval, al, max) ==> suf[suf.len() - 3] == c_approve(tok, user, w.this, max, exp))
        }),
        //@@ C19:forward.nothing_else_changes
        w2.same_storage(w) && w2.same_ledger(w) && w2.auths == w.auths && w2.self_auths == w.self_auths,
        //@@ C19:forward.expiration_checked_or_delegated_to_approve
        exp >= w.ledger_seq || approves(approval, observed_allowance(w, w2), max),
        //@@ C19:forward.expiration_not_passed_given_sep41_token
        sep41_approve_checks_expiry(w, max, exp) ==> exp >= w.ledger_seq,
{
    let n = w.calls.len() as int;
    let al = observed_allowance(w, w2);
    let fc = fee_calls(w.this, tok, fee, max, exp, user, recipient, approval, al);
    let suf = w2.calls.subrange(n, w2.calls.len() as int);
    lemma_calls_after_fee(w.calls, w.this, tok, fee, max, exp, user, recipient, approval, al);
    assert(w2.calls == (w.calls + fc).push(c_invoke(target, f, args@, ret.sv())));
    assert(suf =~= fc.push(c_invoke(target, f, args@, ret.sv())));
    assert(w2.calls.subrange(0, n) =~= w.calls);
    assert forall|i: int| 0 <= i < suf.len() - 2 implies is_prelude_call(#[trigger] suf[i], w.this, tok, max, exp, user) by {
        if suf[i] == c_approve(tok, user, w.this, max, exp) {} else {
            assert(suf[i] == c_allowance(tok, user, w.this, al));
        }
    }
}

