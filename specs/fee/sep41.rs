// =================================================================================================
// C19 "debits the user exactly the stated fee ... credits exactly that amount to the fee recipient":
// what the recorded token calls do *if the fee token follows SEP-41* (M8a).  Nothing here is trusted:
// SEP-41 is written down as an explicit transition system over typed operations and the result is a
// lemma about the operations whose encodings are exactly the calls collect_fee issues.
// =================================================================================================

pub enum TokOp {
    Allowance { from: Address, spender: Address, answer: i128 },
    Approve { from: Address, spender: Address, amount: i128, exp: u32 },
    TransferFrom { spender: Address, from: Address, to: Address, amount: i128 },
}
/// the call the token client issues for an operation
pub open spec fn op_call(tok: Address, op: TokOp) -> Call {
    match op {
        TokOp::Allowance { from, spender, answer } => c_allowance(tok, from, spender, answer),
        TokOp::Approve { from, spender, amount, exp } => c_approve(tok, from, spender, amount, exp),
        TokOp::TransferFrom { spender, from, to, amount } => c_transfer_from(tok, spender, from, to, amount),
    }
}
/// abstract SEP-41 ledger of one token: balances and *live* allowances (absent = 0)
pub struct TokState { pub bal: Map<Address, int>, pub alw: Map<(Address, Address), int> }
pub open spec fn bal_of(s: TokState, a: Address) -> int { if s.bal.contains_key(a) { s.bal[a] } else { 0 } }
pub open spec fn alw_of(s: TokState, from: Address, spender: Address) -> int { if s.alw.contains_key((from, spender)) { s.alw[(from, spender)] } else { 0 } }

/// SEP-41: the operation returns (does not trap) only if ...
pub open spec fn tok_ok(s: TokState, ledger: u32, op: TokOp) -> bool {
    match op {
        TokOp::Allowance { from, spender, answer } => answer == alw_of(s, from, spender),
        TokOp::Approve { from, spender, amount, exp } => amount >= 0 && (amount == 0 || exp >= ledger),
        TokOp::TransferFrom { spender, from, to, amount } => amount >= 0 && alw_of(s, from, spender) >= amount && bal_of(s, from) >= amount,
    }
}
/// ... and then has this effect
pub open spec fn tok_next(s: TokState, op: TokOp) -> TokState {
    match op {
        TokOp::Allowance { .. } => s,
        TokOp::Approve { from, spender, amount, exp } => TokState { alw: s.alw.insert((from, spender), amount as int), ..s },
        TokOp::TransferFrom { spender, from, to, amount } => {
            let b1 = s.bal.insert(from, bal_of(s, from) - amount);
            let s1 = TokState { bal: b1, alw: s.alw.insert((from, spender), alw_of(s, from, spender) - amount) };
            TokState { bal: s1.bal.insert(to, bal_of(s1, to) + amount), ..s1 }
        }
    }
}
pub open spec fn tok_run(s: TokState, ops: Seq<TokOp>) -> TokState
    decreases ops.len()
{
    if ops.len() == 0 { s } else { tok_next(tok_run(s, ops.drop_last()), ops.last()) }
}
pub open spec fn tok_all_ok(s: TokState, ledger: u32, ops: Seq<TokOp>) -> bool
    decreases ops.len()
{
    ops.len() == 0 || (tok_all_ok(s, ledger, ops.drop_last()) && tok_ok(tok_run(s, ops.drop_last()), ledger, ops.last()))
}
pub proof fn lemma_tok_push(s: TokState, ledger: u32, ops: Seq<TokOp>, op: TokOp)
    ensures tok_run(s, ops.push(op)) == tok_next(tok_run(s, ops), op),
        tok_all_ok(s, ledger, ops.push(op)) == (tok_all_ok(s, ledger, ops) && tok_ok(tok_run(s, ops), ledger, op)),
{
    assert(ops.push(op).drop_last() =~= ops);
}

/// the SEP-41 operations behind collect_fee's calls, in order
pub open spec fn fee_ops(this: Address, fee: i128, max: i128, exp: u32, user: Address, recipient: Address,
                         approval: FeeAbstractionApproval, al: i128) -> Seq<TokOp> {
    let s0 = Seq::<TokOp>::empty();
    let s1 = match approval { FeeAbstractionApproval::Eager => s0, FeeAbstractionApproval::Lazy => s0.push(TokOp::Allowance { from: user, spender: this, answer: al }) };
    let s2 = if approves(approval, al, max) { s1.push(TokOp::Approve { from: user, spender: this, amount: max, exp: exp }) } else { s1 };
    s2.push(TokOp::TransferFrom { spender: this, from: user, to: recipient, amount: fee })
}
pub proof fn lemma_fee_ops_are_the_calls(this: Address, tok: Address, fee: i128, max: i128, exp: u32, user: Address, recipient: Address,
                                         approval: FeeAbstractionApproval, al: i128)
    ensures
        //@@ C19:sep41.calls_encode_ops
        ({
            let ops = fee_ops(this, fee, max, exp, user, recipient, approval, al);
            fee_calls(this, tok, fee, max, exp, user, recipient, approval, al) =~= Seq::new(ops.len(), |i: int| op_call(tok, ops[i]))
        }),
{}

/// exact debit / credit, residual allowance and expiry under SEP-41
pub proof fn lemma_sep41_fee_effect(s0: TokState, w: World, tok: Address, fee: i128, max: i128, exp: u32, user: Address, recipient: Address,
                                    approval: FeeAbstractionApproval, al: i128)
    requires
        collect_fee_guard(w, tok, fee, max, exp, user, approval, al),
        tok_all_ok(s0, w.ledger_seq, fee_ops(w.this, fee, max, exp, user, recipient, approval, al)),
    ensures
        ({
            let s = tok_run(s0, fee_ops(w.this, fee, max, exp, user, recipient, approval, al));
            //@@ C19:sep41.user_debited_exactly_fee
            &&& user != recipient ==> bal_of(s, user) == bal_of(s0, user) - fee
            //@@ C19:sep41.recipient_credited_exactly_fee
            &&& user != recipient ==> bal_of(s, recipient) == bal_of(s0, recipient) + fee
            &&& user == recipient ==> bal_of(s, user) == bal_of(s0, user)
            //@@ C19:sep41.no_other_balance_moves
            &&& forall|a: Address| a != user && a != recipient ==> bal_of(s, a) == #[trigger] bal_of(s0, a)
            //@@ C19:sep41.user_could_pay
            &&& bal_of(s0, user) >= fee
            //@@ C19:sep41.residual_allowance
            &&& alw_of(s, user, w.this) == (if approves(approval, al, max) { max as int } else { alw_of(s0, user, w.this) }) - fee
            &&& alw_of(s, user, w.this) >= 0
            &&& forall|f: Address, sp: Address| !(f == user && sp == w.this) ==> alw_of(s, f, sp) == #[trigger] alw_of(s0, f, sp)
            //@@ C19:sep41.expiration_not_passed
            &&& exp >= w.ledger_seq
        }),
{
    let this = w.this;
    let l = w.ledger_seq;
    let e0 = Seq::<TokOp>::empty();
    let o_al = TokOp::Allowance { from: user, spender: this, answer: al };
    let o_ap = TokOp::Approve { from: user, spender: this, amount: max, exp: exp };
    let o_tf = TokOp::TransferFrom { spender: this, from: user, to: recipient, amount: fee };
    assert(tok_run(s0, e0) == s0 && tok_all_ok(s0, l, e0));
    match approval {
        FeeAbstractionApproval::Eager => {
            lemma_tok_push(s0, l, e0, o_ap);
            lemma_tok_push(s0, l, e0.push(o_ap), o_tf);
        }
        FeeAbstractionApproval::Lazy => {
            lemma_tok_push(s0, l, e0, o_al);
            if al < max {
                lemma_tok_push(s0, l, e0.push(o_al), o_ap);
                lemma_tok_push(s0, l, e0.push(o_al).push(o_ap), o_tf);
            } else {
                lemma_tok_push(s0, l, e0.push(o_al), o_tf);
            }
        }
    }
}
