// =================================================================================================
// C19 history lemma: under any sequence of successful allow / disallow calls (interleaved with any
// other entry point of the package, none of which writes storage, and with ledger ticks) the
// allow-list enumeration is exactly the set of tokens allowed and not since removed.
// =================================================================================================

pub enum FeeStep {
    /// set_allowed_fee_token(t, true)
    Allow(Address),
    /// set_allowed_fee_token(t, false)
    Disallow(Address),
    /// anything that leaves this contract's instance and persistent stores alone: collect_fee,
    /// collect_fee_and_invoke, sweep_token, the read-only getters, a ledger tick (see lemma_frame_steps)
    Frame(World),
}

pub open spec fn fee_genesis(w: World) -> bool {
    &&& fcount(w) == 0
    &&& forall|t: Address| (#[trigger] fidx(w, t)).is_none()
    &&& forall|i: u32| (#[trigger] ftoken(w, i)).is_none()
}
pub open spec fn store_frame(w: World, w2: World) -> bool { w2.instance == w.instance && w2.persistent == w.persistent }

pub open spec fn fstep_ok(w: World, st: FeeStep) -> bool {
    match st {
        FeeStep::Allow(t) => set_allowed_guard(w, t, true),
        FeeStep::Disallow(t) => set_allowed_guard(w, t, false),
        FeeStep::Frame(w2) => store_frame(w, w2),
    }
}
pub open spec fn fstep_post(w: World, st: FeeStep) -> World {
    match st {
        FeeStep::Allow(t) => set_allowed_post(w, t, true),
        FeeStep::Disallow(t) => set_allowed_post(w, t, false),
        FeeStep::Frame(w2) => w2,
    }
}
pub open spec fn frun(w0: World, steps: Seq<FeeStep>) -> World
    decreases steps.len()
{
    if steps.len() == 0 { w0 } else { fstep_post(frun(w0, steps.drop_last()), steps.last()) }
}
pub open spec fn fvalid(w0: World, steps: Seq<FeeStep>) -> bool
    decreases steps.len()
{
    steps.len() == 0 || (fvalid(w0, steps.drop_last()) && fstep_ok(frun(w0, steps.drop_last()), steps.last()))
}
/// the ghost set: tokens allowed and not since removed
pub open spec fn allowed_set(steps: Seq<FeeStep>) -> Set<Address>
    decreases steps.len()
{
    if steps.len() == 0 { Set::empty() } else {
        let s = allowed_set(steps.drop_last());
        match steps.last() {
            FeeStep::Allow(t) => s.insert(t),
            FeeStep::Disallow(t) => s.remove(t),
            FeeStep::Frame(_) => s,
        }
    }
}

/// the views depend on the two stores only
pub proof fn lemma_views_frame(w: World, w2: World)
    requires store_frame(w, w2),
    ensures fcount(w2) == fcount(w), forall|t: Address| #[trigger] fidx(w2, t) == fidx(w, t), forall|i: u32| #[trigger] ftoken(w2, i) == ftoken(w, i),
        inv_fee(w) ==> inv_fee(w2),
{
    assert(forall|t: Address| #[trigger] fidx(w2, t) == fidx(w, t));
    assert(forall|i: u32| #[trigger] ftoken(w2, i) == ftoken(w, i));
}

/// the other entry points are frame steps
pub proof fn lemma_frame_steps(w: World, w2: World, tok: Address, fee: i128, max: i128, exp: u32, target: Address, f: Symbol,
                               args: Vec<Val>, user: Address, recipient: Address, approval: FeeAbstractionApproval, ret: Val, amount: i128)
    ensures
        //@@ C19:history.forward_and_sweep_do_not_write_storage
        store_frame(w, forward_post(w, w2, tok, fee, max, exp, target, f, args, user, recipient, approval, ret)),
        store_frame(w, collect_fee_post(w, w2, tok, fee, max, exp, user, recipient, approval)),
        store_frame(w, sweep_post(w, w2, tok, recipient, amount)),
{}

pub open spec fn enumerated(w: World, t: Address) -> bool { exists|i: u32| i < fcount(w) && #[trigger] ftoken(w, i) == Some(t) }

pub proof fn lemma_fee_history(w0: World, steps: Seq<FeeStep>)
    requires fee_genesis(w0), fvalid(w0, steps),
    ensures
        //@@ C19:history.bijection_invariant
        inv_fee(frun(w0, steps)),
        //@@ C19:history.listed_is_the_set
        forall|t: Address| #[trigger] listed(frun(w0, steps), t) <==> allowed_set(steps).contains(t),
        //@@ C19:history.count_is_cardinality
        fcount(frun(w0, steps)) == allowed_set(steps).len(),
    decreases steps.len()
{
    if steps.len() == 0 {
        let w = frun(w0, steps);
        assert(w == w0);
        assert forall|t: Address| #[trigger] listed(w, t) <==> allowed_set(steps).contains(t) by { assert(fidx(w0, t).is_none()); }
    } else {
        let pre = steps.drop_last();
        lemma_fee_history(w0, pre);
        let w = frun(w0, pre);
        let w2 = frun(w0, steps);
        let s = allowed_set(pre);
        match steps.last() {
            FeeStep::Allow(t) => {
                lemma_allow_step(w, t);
                assert(!s.contains(t)) by { assert(!listed(w, t)); }
                assert forall|t2: Address| #[trigger] listed(w2, t2) <==> allowed_set(steps).contains(t2) by {
                    assert(listed(w, t2) <==> s.contains(t2));
                }
            }
            FeeStep::Disallow(t) => {
                lemma_disallow_step(w, t);
                assert(s.contains(t)) by { assert(listed(w, t)); }
                assert forall|t2: Address| #[trigger] listed(w2, t2) <==> allowed_set(steps).contains(t2) by {
                    assert(listed(w, t2) <==> s.contains(t2));
                }
            }
            FeeStep::Frame(w3) => {
                lemma_views_frame(w, w3);
                assert forall|t2: Address| #[trigger] listed(w2, t2) <==> allowed_set(steps).contains(t2) by {
                    assert(listed(w, t2) <==> s.contains(t2));
                }
            }
        }
    }
}

/// C19, last sentence, in its own words
pub proof fn lemma_fee_history_words(w0: World, steps: Seq<FeeStep>, t: Address)
    requires fee_genesis(w0), fvalid(w0, steps),
    ensures
        //@@ C19:history.enumeration_matches_set
        enumerated(frun(w0, steps), t) <==> allowed_set(steps).contains(t),
        //@@ C19:history.accepted_iff_empty_or_member
        fee_token_allowed(frun(w0, steps), t) <==> (allowed_set(steps) =~= Set::<Address>::empty() || allowed_set(steps).contains(t)),
{
    lemma_fee_history(w0, steps);
    let w = frun(w0, steps);
    let s = allowed_set(steps);
    if enumerated(w, t) {
        let i = choose|i: u32| i < fcount(w) && #[trigger] ftoken(w, i) == Some(t);
        assert(ftoken(w, i).is_some() && fidx(w, ftoken(w, i).unwrap()) == Some(i));
        assert(listed(w, t));
    }
    if s.contains(t) {
        assert(listed(w, t));
        let i = fidx(w, t).unwrap();
        assert(i < fcount(w) && ftoken(w, i) == Some(t));
    }
    if s =~= Set::<Address>::empty() { assert(s.len() == 0); }
    if fcount(w) == 0 {
        assert(s.len() == 0);
        assert forall|a: Address| !s.contains(a) by { if s.contains(a) { assert(s.remove(a).len() + 1 == s.len()); } }
    }
}

/// a disallow of a listed token can never get stuck on the swap branch, and an allow is possible unless 2^32-1 tokens are listed
pub proof fn lemma_fee_history_liveness(w0: World, steps: Seq<FeeStep>, t: Address)
    requires fee_genesis(w0), fvalid(w0, steps),
    ensures
        //@@ C19:history.disallow_guard_is_membership
        set_allowed_guard(frun(w0, steps), t, false) <==> allowed_set(steps).contains(t),
        //@@ C19:history.allow_guard_is_non_membership
        set_allowed_guard(frun(w0, steps), t, true) <==> (!allowed_set(steps).contains(t) && allowed_set(steps).len() < u32::MAX),
{
    lemma_fee_history(w0, steps);
    let w = frun(w0, steps);
    assert(listed(w, t) <==> allowed_set(steps).contains(t));
    if listed(w, t) { lemma_disallow_guard(w, t); }
}

/// non-vacuity witness: a genesis world exists and allow(a); allow(b); disallow(a) is a valid history ending in {b}
pub open spec fn empty_world(this: Address) -> World {
    World { instance: Map::empty(), persistent: Map::empty(), temporary: Map::empty(), temp_live: Map::empty(), ledger_seq: 1, timestamp: 0,
            max_entry_ttl: 100, min_temp_ttl: 1, network_id: Seq::empty(), this: this, auths: Set::empty(), auth_args: Set::empty(),
            self_auths: Seq::empty(), events: Seq::empty(), calls: Seq::empty(), ext: 0 }
}
pub proof fn lemma_fee_witness(this: Address, a: Address, b: Address)
    requires a != b,
    ensures
        //@@ C19:history.witness
        ({
            let w0 = empty_world(this);
            let steps = seq![FeeStep::Allow(a), FeeStep::Allow(b), FeeStep::Disallow(a)];
            fee_genesis(w0) && fvalid(w0, steps) && listed(frun(w0, steps), b) && !listed(frun(w0, steps), a) && fcount(frun(w0, steps)) == 1
        }),
{
    let w0 = empty_world(this);
    let s0 = Seq::<FeeStep>::empty();
    let s1 = s0.push(FeeStep::Allow(a));
    let s2 = s1.push(FeeStep::Allow(b));
    let s3 = s2.push(FeeStep::Disallow(a));
    assert(fee_genesis(w0));
    assert(fvalid(w0, s0));
    assert(s1.drop_last() =~= s0);
    assert(s2.drop_last() =~= s1);
    assert(s3.drop_last() =~= s2);
    assert(allowed_set(s0) =~= Set::<Address>::empty());
    assert(allowed_set(s1) =~= Set::<Address>::empty().insert(a));
    assert(allowed_set(s2) =~= Set::<Address>::empty().insert(a).insert(b));
    assert(allowed_set(s3) =~= Set::<Address>::empty().insert(b));
    lemma_fee_history_liveness(w0, s0, a);
    assert(fvalid(w0, s1));
    lemma_fee_history_liveness(w0, s1, b);
    assert(allowed_set(s1).len() == 1);
    assert(fvalid(w0, s2));
    lemma_fee_history_liveness(w0, s2, a);
    assert(fvalid(w0, s3));
    lemma_fee_history(w0, s3);
    assert(allowed_set(s3).len() == 1);
    assert(s3 =~= seq![FeeStep::Allow(a), FeeStep::Allow(b), FeeStep::Disallow(a)]);
}
