// =================================================================================================
// spec pack `cti` — RWA claim topics and trusted issuers registry (C20)
//   ClaimTopics: Vec<u32>, TrustedIssuers: Vec<Address>,
//   IssuerClaimTopics(i): Vec<u32>  <->  ClaimTopicIssuers(t): Vec<Address>   (two directions of one relation)
// =================================================================================================

// ---- keys and typed views ----
pub open spec fn k_ct() -> ClaimTopicsAndIssuersStorageKey { ClaimTopicsAndIssuersStorageKey::ClaimTopics }
pub open spec fn k_ti() -> ClaimTopicsAndIssuersStorageKey { ClaimTopicsAndIssuersStorageKey::TrustedIssuers }
pub open spec fn k_ict(i: Address) -> ClaimTopicsAndIssuersStorageKey { ClaimTopicsAndIssuersStorageKey::IssuerClaimTopics(i) }
pub open spec fn k_cti(t: u32) -> ClaimTopicsAndIssuersStorageKey { ClaimTopicsAndIssuersStorageKey::ClaimTopicIssuers(t) }

pub open spec fn vu32(s: Seq<u32>) -> Vec<u32> { Vec { s: Ghost(s) } }
pub open spec fn vaddr(s: Seq<Address>) -> Vec<Address> { Vec { s: Ghost(s) } }

/// the registered claim topics, in storage order
pub open spec fn ctopics(w: World) -> Seq<u32> {
    match dec::<Vec<u32>>(pget(w, k_ct())) { Some(v) => v@, None => Seq::empty() }
}
/// the trusted issuers, in storage order
pub open spec fn cissuers(w: World) -> Seq<Address> {
    match dec::<Vec<Address>>(pget(w, k_ti())) { Some(v) => v@, None => Seq::empty() }
}
/// direction 1: the topics an issuer is trusted for (None: no entry)
pub open spec fn itopics_opt(w: World, i: Address) -> Option<Seq<u32>> {
    match dec::<Vec<u32>>(pget(w, k_ict(i))) { Some(v) => Some(v@), None => None }
}
/// direction 2: the issuers trusted for a topic (None: no entry)
pub open spec fn tissuers_opt(w: World, t: u32) -> Option<Seq<Address>> {
    match dec::<Vec<Address>>(pget(w, k_cti(t))) { Some(v) => Some(v@), None => None }
}
pub open spec fn itopics(w: World, i: Address) -> Seq<u32> { match itopics_opt(w, i) { Some(s) => s, None => Seq::empty() } }
pub open spec fn tissuers(w: World, t: u32) -> Seq<Address> { match tissuers_opt(w, t) { Some(s) => s, None => Seq::empty() } }

// ---- the registry as sets and a relation (what the getters answer) ----
pub open spec fn has_topic(w: World, t: u32) -> bool { ctopics(w).contains(t) }
pub open spec fn has_issuer(w: World, i: Address) -> bool { cissuers(w).contains(i) }
/// issuer -> topics direction
pub open spec fn rel(w: World, i: Address, t: u32) -> bool { itopics_opt(w, i).is_some() && itopics(w, i).contains(t) }
/// topic -> issuers direction
pub open spec fn rel_rev(w: World, i: Address, t: u32) -> bool { tissuers_opt(w, t).is_some() && tissuers(w, t).contains(i) }

/// C20 representation invariant: lists are duplicate-free and within their limits, an entry exists exactly for the
/// listed topics / issuers, and the two directions are the same relation
pub open spec fn inv_cti(w: World) -> bool {
    &&& ctopics(w).no_duplicates()
    &&& ctopics(w).len() <= MAX_CLAIM_TOPICS
    &&& cissuers(w).no_duplicates()
    &&& cissuers(w).len() <= MAX_ISSUERS
    &&& forall|t: u32| (#[trigger] tissuers_opt(w, t)).is_some() <==> has_topic(w, t)
    &&& forall|i: Address| (#[trigger] itopics_opt(w, i)).is_some() <==> has_issuer(w, i)
    &&& forall|i: Address, t: u32| #[trigger] rel(w, i, t) <==> rel_rev(w, i, t)
    &&& forall|i: Address| (#[trigger] itopics_opt(w, i)).is_some() ==> itopics(w, i).no_duplicates() && itopics(w, i).len() <= MAX_CLAIM_TOPICS
    &&& forall|t: u32| (#[trigger] tissuers_opt(w, t)).is_some() ==> tissuers(w, t).no_duplicates()
}

/// a topic list acceptable to add_trusted_issuer / update_issuer_claim_topics
pub open spec fn topics_arg_ok(w: World, ts: Seq<u32>) -> bool {
    &&& 0 < ts.len() <= MAX_CLAIM_TOPICS
    &&& ts.no_duplicates()
    &&& forall|k: int| 0 <= k < ts.len() ==> has_topic(w, #[trigger] ts[k])
}

// ---- exact successor states ----
pub open spec fn add_topic_guard(w: World, t: u32) -> bool { ctopics(w).len() < MAX_CLAIM_TOPICS && !has_topic(w, t) }
pub open spec fn add_topic_core(w: World, t: u32) -> World {
    let w1 = pset(w, k_ct(), vu32(ctopics(w).push(t)).sv());
    pset(w1, k_cti(t), vaddr(Seq::empty()).sv())
}
pub open spec fn add_topic_post(w: World, t: u32) -> World {
    w_event(add_topic_core(w, t), ClaimTopicAdded { claim_topic: t }.ev())
}

/// remove topic `t` from issuer `i`'s list (one iteration of the sweep in remove_claim_topic)
pub open spec fn sweep_one(w: World, i: Address, t: u32) -> World {
    match itopics_opt(w, i) {
        Some(s) => if s.contains(t) { pset(w, k_ict(i), vu32(s.remove(first_idx(s, t))).sv()) } else { w },
        None => w,
    }
}
pub open spec fn sweep(w: World, iss: Seq<Address>, t: u32, n: int) -> World
    decreases n
{
    if n <= 0 { w } else { sweep_one(sweep(w, iss, t, n - 1), iss[n - 1], t) }
}
pub open spec fn remove_topic_guard(w: World, t: u32) -> bool { has_topic(w, t) }
pub open spec fn remove_topic_w1(w: World, t: u32) -> World { pset(w, k_ct(), vu32(ctopics(w).remove(first_idx(ctopics(w), t))).sv()) }
pub open spec fn remove_topic_core(w: World, t: u32) -> World {
    let w1 = remove_topic_w1(w, t);
    let w2 = sweep(w1, cissuers(w1), t, cissuers(w1).len() as int);
    pdel(w2, k_cti(t))
}
pub open spec fn remove_topic_post(w: World, t: u32) -> World {
    w_event(remove_topic_core(w, t), ClaimTopicRemoved { claim_topic: t }.ev())
}

/// append issuer `i` to the list of topic `t`
pub open spec fn link_one(w: World, i: Address, t: u32) -> World { pset(w, k_cti(t), vaddr(tissuers(w, t).push(i)).sv()) }
pub open spec fn link_all(w: World, i: Address, ts: Seq<u32>, n: int) -> World
    decreases n
{
    if n <= 0 { w } else { link_one(link_all(w, i, ts, n - 1), i, ts[n - 1]) }
}
/// every topic visited had an entry (get_claim_topic_issuers returned)
pub open spec fn link_ok(w: World, i: Address, ts: Seq<u32>, n: int) -> bool
    decreases n
{
    n <= 0 || (link_ok(w, i, ts, n - 1) && tissuers_opt(link_all(w, i, ts, n - 1), ts[n - 1]).is_some())
}
/// remove issuer `i` from the list of topic `t`
pub open spec fn unlink_one(w: World, i: Address, t: u32) -> World {
    match tissuers_opt(w, t) {
        Some(s) => if s.contains(i) { pset(w, k_cti(t), vaddr(s.remove(first_idx(s, i))).sv()) } else { w },
        None => w,
    }
}
pub open spec fn unlink_all(w: World, i: Address, ts: Seq<u32>, n: int) -> World
    decreases n
{
    if n <= 0 { w } else { unlink_one(unlink_all(w, i, ts, n - 1), i, ts[n - 1]) }
}
pub open spec fn unlink_ok(w: World, i: Address, ts: Seq<u32>, n: int) -> bool
    decreases n
{
    n <= 0 || (unlink_ok(w, i, ts, n - 1) && tissuers_opt(unlink_all(w, i, ts, n - 1), ts[n - 1]).is_some())
}

pub open spec fn add_issuer_w2(w: World, i: Address, ts: Vec<u32>) -> World {
    pset(pset(w, k_ti(), vaddr(cissuers(w).push(i)).sv()), k_ict(i), ts.sv())
}
pub open spec fn add_issuer_guard(w: World, i: Address, ts: Vec<u32>) -> bool {
    &&& topics_arg_ok(w, ts@)
    &&& cissuers(w).len() < MAX_ISSUERS
    &&& !has_issuer(w, i)
    &&& link_ok(add_issuer_w2(w, i, ts), i, ts@, ts@.len() as int)
}
pub open spec fn add_issuer_core(w: World, i: Address, ts: Vec<u32>) -> World {
    link_all(add_issuer_w2(w, i, ts), i, ts@, ts@.len() as int)
}
pub open spec fn add_issuer_post(w: World, i: Address, ts: Vec<u32>) -> World {
    w_event(add_issuer_core(w, i, ts), TrustedIssuerAdded { trusted_issuer: i, claim_topics: ts }.ev())
}

pub open spec fn remove_issuer_w2(w: World, i: Address) -> World {
    pdel(pset(w, k_ti(), vaddr(cissuers(w).remove(first_idx(cissuers(w), i))).sv()), k_ict(i))
}
pub open spec fn remove_issuer_guard(w: World, i: Address) -> bool {
    &&& has_issuer(w, i)
    &&& itopics_opt(w, i).is_some()
    &&& unlink_ok(remove_issuer_w2(w, i), i, itopics(w, i), itopics(w, i).len() as int)
}
pub open spec fn remove_issuer_core(w: World, i: Address) -> World {
    unlink_all(remove_issuer_w2(w, i), i, itopics(w, i), itopics(w, i).len() as int)
}
pub open spec fn remove_issuer_post(w: World, i: Address) -> World {
    w_event(remove_issuer_core(w, i), TrustedIssuerRemoved { trusted_issuer: i }.ev())
}

/// the items of `s` that do not occur in `other`, in order (what `iter().filter(|x| !other.contains(x))` yields)
pub open spec fn seq_without<T>(s: Seq<T>, other: Seq<T>) -> Seq<T> {
    seq_keep(s, Seq::new(s.len(), |k: int| !other.contains(s[k])))
}
pub open spec fn update_w1(w: World, i: Address, ts: Vec<u32>) -> World { pset(w, k_ict(i), ts.sv()) }
pub open spec fn update_w2(w: World, i: Address, ts: Vec<u32>) -> World {
    let rm = seq_without(itopics(w, i), ts@);
    unlink_all(update_w1(w, i, ts), i, rm, rm.len() as int)
}
pub open spec fn update_guard(w: World, i: Address, ts: Vec<u32>) -> bool {
    let rm = seq_without(itopics(w, i), ts@);
    let ad = seq_without(ts@, itopics(w, i));
    &&& topics_arg_ok(w, ts@)
    &&& has_issuer(w, i)
    &&& itopics_opt(w, i).is_some()
    &&& unlink_ok(update_w1(w, i, ts), i, rm, rm.len() as int)
    &&& link_ok(update_w2(w, i, ts), i, ad, ad.len() as int)
}
pub open spec fn update_core(w: World, i: Address, ts: Vec<u32>) -> World {
    let ad = seq_without(ts@, itopics(w, i));
    link_all(update_w2(w, i, ts), i, ad, ad.len() as int)
}
pub open spec fn update_post(w: World, i: Address, ts: Vec<u32>) -> World {
    w_event(update_core(w, i, ts), IssuerTopicsUpdated { trusted_issuer: i, claim_topics: ts }.ev())
}
