// =================================================================================================
// cti, lemma layer (C20): pointwise effect of every edit on the typed views, preservation of inv_cti,
// "each edit = the abstract set / relation operation"
// =================================================================================================

pub open spec fn del_opt<T>(o: Option<Seq<T>>, x: T) -> Option<Seq<T>> { match o { Some(s) => Some(seq_del(s, x)), None => None } }

/// all four views of two worlds agree
pub open spec fn same_cti_views(w: World, w2: World) -> bool {
    &&& ctopics(w2) == ctopics(w)
    &&& cissuers(w2) == cissuers(w)
    &&& forall|i: Address| #[trigger] itopics_opt(w2, i) == itopics_opt(w, i)
    &&& forall|t: u32| #[trigger] tissuers_opt(w2, t) == tissuers_opt(w, t)
}
pub proof fn lemma_same_views_inv(w: World, w2: World)
    requires same_cti_views(w, w2),
    ensures inv_cti(w) == inv_cti(w2),
        forall|t: u32| #[trigger] has_topic(w2, t) == has_topic(w, t),
        forall|i: Address| #[trigger] has_issuer(w2, i) == has_issuer(w, i),
        forall|i: Address, t: u32| #[trigger] rel(w2, i, t) == rel(w, i, t),
        forall|i: Address, t: u32| #[trigger] rel_rev(w2, i, t) == rel_rev(w, i, t),
{
    assert forall|i: Address, t: u32| #[trigger] rel(w2, i, t) == rel(w, i, t) by { assert(itopics_opt(w2, i) == itopics_opt(w, i)); }
    assert forall|i: Address, t: u32| #[trigger] rel_rev(w2, i, t) == rel_rev(w, i, t) by { assert(tissuers_opt(w2, t) == tissuers_opt(w, t)); }
    assert forall|i: Address| #[trigger] itopics(w2, i) == itopics(w, i) by { assert(itopics_opt(w2, i) == itopics_opt(w, i)); }
    assert forall|t: u32| #[trigger] tissuers(w2, t) == tissuers(w, t) by { assert(tissuers_opt(w2, t) == tissuers_opt(w, t)); }
    if inv_cti(w) {
        assert forall|i: Address| (#[trigger] itopics_opt(w2, i)).is_some() implies itopics(w2, i).no_duplicates() && itopics(w2, i).len() <= MAX_CLAIM_TOPICS by {
            assert(itopics_opt(w, i).is_some()); assert(itopics(w2, i) == itopics(w, i));
        }
        assert forall|t: u32| (#[trigger] tissuers_opt(w2, t)).is_some() implies tissuers(w2, t).no_duplicates() by {
            assert(tissuers_opt(w, t).is_some()); assert(tissuers(w2, t) == tissuers(w, t));
        }
        assert forall|i: Address, t: u32| #[trigger] rel(w2, i, t) <==> rel_rev(w2, i, t) by { assert(rel(w, i, t) <==> rel_rev(w, i, t)); }
        assert forall|t: u32| (#[trigger] tissuers_opt(w2, t)).is_some() <==> has_topic(w2, t) by { assert(tissuers_opt(w, t).is_some() <==> has_topic(w, t)); }
        assert forall|i: Address| (#[trigger] itopics_opt(w2, i)).is_some() <==> has_issuer(w2, i) by { assert(itopics_opt(w, i).is_some() <==> has_issuer(w, i)); }
    }
    if inv_cti(w2) {
        assert forall|i: Address| (#[trigger] itopics_opt(w, i)).is_some() implies itopics(w, i).no_duplicates() && itopics(w, i).len() <= MAX_CLAIM_TOPICS by {
            assert(itopics_opt(w2, i).is_some()); assert(itopics(w2, i) == itopics(w, i));
        }
        assert forall|t: u32| (#[trigger] tissuers_opt(w, t)).is_some() implies tissuers(w, t).no_duplicates() by {
            assert(tissuers_opt(w2, t).is_some()); assert(tissuers(w2, t) == tissuers(w, t));
        }
        assert forall|i: Address, t: u32| #[trigger] rel(w, i, t) <==> rel_rev(w, i, t) by { assert(rel(w2, i, t) <==> rel_rev(w2, i, t)); }
        assert forall|t: u32| (#[trigger] tissuers_opt(w, t)).is_some() <==> has_topic(w, t) by { assert(tissuers_opt(w2, t).is_some() <==> has_topic(w2, t)); }
        assert forall|i: Address| (#[trigger] itopics_opt(w, i)).is_some() <==> has_issuer(w, i) by { assert(itopics_opt(w2, i).is_some() <==> has_issuer(w2, i)); }
    }
}
/// publishing an event changes no view
pub proof fn lemma_event_views(w: World, ev: SV)
    ensures same_cti_views(w, w_event(w, ev)),
{
    let w2 = w_event(w, ev);
    assert(pget(w2, k_ct()) == pget(w, k_ct()));
    assert(pget(w2, k_ti()) == pget(w, k_ti()));
    assert forall|i: Address| #[trigger] itopics_opt(w2, i) == itopics_opt(w, i) by { assert(pget(w2, k_ict(i)) == pget(w, k_ict(i))); }
    assert forall|t: u32| #[trigger] tissuers_opt(w2, t) == tissuers_opt(w, t) by { assert(pget(w2, k_cti(t)) == pget(w, k_cti(t))); }
}

// ---- pointwise descriptions of the loops ----
pub proof fn lemma_sweep_one_pw(w: World, i: Address, t: u32)
    ensures
        ctopics(sweep_one(w, i, t)) == ctopics(w),
        cissuers(sweep_one(w, i, t)) == cissuers(w),
        forall|t2: u32| #[trigger] tissuers_opt(sweep_one(w, i, t), t2) == tissuers_opt(w, t2),
        forall|j: Address| #[trigger] itopics_opt(sweep_one(w, i, t), j) == (if j == i { del_opt(itopics_opt(w, i), t) } else { itopics_opt(w, j) }),
{
    broadcast use sdk_store;
}
pub proof fn lemma_sweep_pw(w: World, iss: Seq<Address>, t: u32, n: int)
    requires iss.no_duplicates(), 0 <= n <= iss.len(),
    ensures
        ctopics(sweep(w, iss, t, n)) == ctopics(w),
        cissuers(sweep(w, iss, t, n)) == cissuers(w),
        forall|t2: u32| #[trigger] tissuers_opt(sweep(w, iss, t, n), t2) == tissuers_opt(w, t2),
        forall|j: Address| #[trigger] itopics_opt(sweep(w, iss, t, n), j) ==
            (if iss.take(n).contains(j) { del_opt(itopics_opt(w, j), t) } else { itopics_opt(w, j) }),
    decreases n
{
    if n > 0 {
        let wp = sweep(w, iss, t, n - 1);
        lemma_sweep_pw(w, iss, t, n - 1);
        lemma_sweep_one_pw(wp, iss[n - 1], t);
        lemma_take_step(iss, n - 1);
        lemma_take_nodup(iss, n - 1);
        assert forall|j: Address| #[trigger] itopics_opt(sweep(w, iss, t, n), j) ==
            (if iss.take(n).contains(j) { del_opt(itopics_opt(w, j), t) } else { itopics_opt(w, j) }) by {
            assert(itopics_opt(wp, j) == (if iss.take(n - 1).contains(j) { del_opt(itopics_opt(w, j), t) } else { itopics_opt(w, j) }));
        }
        assert forall|t2: u32| #[trigger] tissuers_opt(sweep(w, iss, t, n), t2) == tissuers_opt(w, t2) by {
            assert(tissuers_opt(wp, t2) == tissuers_opt(w, t2));
        }
    } else {
        assert(iss.take(0) =~= Seq::<Address>::empty());
    }
}

pub proof fn lemma_unlink_one_pw(w: World, i: Address, t: u32)
    ensures
        ctopics(unlink_one(w, i, t)) == ctopics(w),
        cissuers(unlink_one(w, i, t)) == cissuers(w),
        forall|j: Address| #[trigger] itopics_opt(unlink_one(w, i, t), j) == itopics_opt(w, j),
        forall|t2: u32| #[trigger] tissuers_opt(unlink_one(w, i, t), t2) == (if t2 == t { del_opt(tissuers_opt(w, t), i) } else { tissuers_opt(w, t2) }),
{
    broadcast use sdk_store;
}
pub proof fn lemma_unlink_pw(w: World, i: Address, ts: Seq<u32>, n: int)
    requires ts.no_duplicates(), 0 <= n <= ts.len(),
    ensures
        ctopics(unlink_all(w, i, ts, n)) == ctopics(w),
        cissuers(unlink_all(w, i, ts, n)) == cissuers(w),
        forall|j: Address| #[trigger] itopics_opt(unlink_all(w, i, ts, n), j) == itopics_opt(w, j),
        forall|t: u32| #[trigger] tissuers_opt(unlink_all(w, i, ts, n), t) ==
            (if ts.take(n).contains(t) { del_opt(tissuers_opt(w, t), i) } else { tissuers_opt(w, t) }),
    decreases n
{
    if n > 0 {
        let wp = unlink_all(w, i, ts, n - 1);
        lemma_unlink_pw(w, i, ts, n - 1);
        lemma_unlink_one_pw(wp, i, ts[n - 1]);
        lemma_take_step(ts, n - 1);
        lemma_take_nodup(ts, n - 1);
        assert forall|t: u32| #[trigger] tissuers_opt(unlink_all(w, i, ts, n), t) ==
            (if ts.take(n).contains(t) { del_opt(tissuers_opt(w, t), i) } else { tissuers_opt(w, t) }) by {
            assert(tissuers_opt(wp, t) == (if ts.take(n - 1).contains(t) { del_opt(tissuers_opt(w, t), i) } else { tissuers_opt(w, t) }));
        }
        assert forall|j: Address| #[trigger] itopics_opt(unlink_all(w, i, ts, n), j) == itopics_opt(w, j) by {
            assert(itopics_opt(wp, j) == itopics_opt(w, j));
        }
    } else {
        assert(ts.take(0) =~= Seq::<u32>::empty());
    }
}

pub proof fn lemma_link_one_pw(w: World, i: Address, t: u32)
    ensures
        ctopics(link_one(w, i, t)) == ctopics(w),
        cissuers(link_one(w, i, t)) == cissuers(w),
        forall|j: Address| #[trigger] itopics_opt(link_one(w, i, t), j) == itopics_opt(w, j),
        forall|t2: u32| #[trigger] tissuers_opt(link_one(w, i, t), t2) == (if t2 == t { Some(tissuers(w, t).push(i)) } else { tissuers_opt(w, t2) }),
{
    broadcast use sdk_store;
}
pub proof fn lemma_link_pw(w: World, i: Address, ts: Seq<u32>, n: int)
    requires ts.no_duplicates(), 0 <= n <= ts.len(),
    ensures
        ctopics(link_all(w, i, ts, n)) == ctopics(w),
        cissuers(link_all(w, i, ts, n)) == cissuers(w),
        forall|j: Address| #[trigger] itopics_opt(link_all(w, i, ts, n), j) == itopics_opt(w, j),
        forall|t: u32| #[trigger] tissuers_opt(link_all(w, i, ts, n), t) ==
            (if ts.take(n).contains(t) { Some(tissuers(w, t).push(i)) } else { tissuers_opt(w, t) }),
    decreases n
{
    if n > 0 {
        let wp = link_all(w, i, ts, n - 1);
        lemma_link_pw(w, i, ts, n - 1);
        lemma_link_one_pw(wp, i, ts[n - 1]);
        lemma_take_step(ts, n - 1);
        lemma_take_nodup(ts, n - 1);
        assert forall|t: u32| #[trigger] tissuers_opt(link_all(w, i, ts, n), t) ==
            (if ts.take(n).contains(t) { Some(tissuers(w, t).push(i)) } else { tissuers_opt(w, t) }) by {
            assert(tissuers_opt(wp, t) == (if ts.take(n - 1).contains(t) { Some(tissuers(w, t).push(i)) } else { tissuers_opt(w, t) }));
            if t == ts[n - 1] { assert(tissuers_opt(wp, t) == tissuers_opt(w, t)); }
        }
        assert forall|j: Address| #[trigger] itopics_opt(link_all(w, i, ts, n), j) == itopics_opt(w, j) by {
            assert(itopics_opt(wp, j) == itopics_opt(w, j));
        }
    } else {
        assert(ts.take(0) =~= Seq::<u32>::empty());
    }
}

// ---- facts about filter results ----
pub proof fn lemma_keep_facts<T>(s: Seq<T>, keep: Seq<bool>)
    requires keep.len() == s.len(),
    ensures
        forall|x: T| #[trigger] seq_keep(s, keep).contains(x) <==> exists|k: int| 0 <= k < s.len() && s[k] == x && keep[k],
        s.no_duplicates() ==> seq_keep(s, keep).no_duplicates(),
        seq_keep(s, keep).len() <= s.len(),
    decreases s.len()
{
    if s.len() > 0 {
        let s0 = s.drop_last(); let k0 = keep.drop_last();
        lemma_keep_facts(s0, k0);
        let r0 = seq_keep(s0, k0);
        let r = seq_keep(s, keep);
        lemma_push_contains(r0, s.last());
        assert forall|x: T| #[trigger] r.contains(x) <==> exists|k: int| 0 <= k < s.len() && s[k] == x && keep[k] by {
            if r.contains(x) {
                if keep.last() && x == s.last() { assert(s[s.len() - 1] == x && keep[s.len() - 1]); }
                else {
                    assert(r0.contains(x));
                    let k = choose|k: int| 0 <= k < s0.len() && s0[k] == x && k0[k];
                    assert(s[k] == x && keep[k]);
                }
            }
            if exists|k: int| 0 <= k < s.len() && s[k] == x && keep[k] {
                let k = choose|k: int| 0 <= k < s.len() && s[k] == x && keep[k];
                if k < s.len() - 1 { assert(s0[k] == x && k0[k]); assert(r0.contains(x)); }
            }
        }
        if s.no_duplicates() {
            assert(s0.no_duplicates());
            if keep.last() {
                if r0.contains(s.last()) {
                    let k = choose|k: int| 0 <= k < s0.len() && s0[k] == s.last() && k0[k];
                    assert(s[k] == s[s.len() - 1]);
                }
                lemma_push_facts(r0, s.last());
            }
        }
    }
}
pub proof fn lemma_without_facts<T>(s: Seq<T>, o: Seq<T>)
    ensures
        forall|x: T| #[trigger] seq_without(s, o).contains(x) <==> (s.contains(x) && !o.contains(x)),
        s.no_duplicates() ==> seq_without(s, o).no_duplicates(),
        seq_without(s, o).len() <= s.len(),
{
    let keep = Seq::new(s.len(), |k: int| !o.contains(s[k]));
    lemma_keep_facts(s, keep);
    assert forall|x: T| #[trigger] seq_without(s, o).contains(x) <==> (s.contains(x) && !o.contains(x)) by {
        if s.contains(x) && !o.contains(x) {
            let k = choose|k: int| 0 <= k < s.len() && s[k] == x;
            assert(s[k] == x && keep[k]);
        }
        if seq_without(s, o).contains(x) {
            let k = choose|k: int| 0 <= k < s.len() && s[k] == x && keep[k];
            assert(s[k] == x);
        }
    }
}

// ---- each edit preserves inv_cti and is the abstract set / relation operation ----
pub proof fn lemma_add_topic(w: World, t: u32)
    requires inv_cti(w), add_topic_guard(w, t),
    ensures
        //@@ C20:cti.lemma.add_topic
        inv_cti(add_topic_post(w, t)),
        forall|t2: u32| #[trigger] has_topic(add_topic_post(w, t), t2) == (has_topic(w, t2) || t2 == t),
        forall|i: Address| #[trigger] has_issuer(add_topic_post(w, t), i) == has_issuer(w, i),
        forall|i: Address, t2: u32| #[trigger] rel(add_topic_post(w, t), i, t2) == rel(w, i, t2),
        ctopics(add_topic_post(w, t)).len() == ctopics(w).len() + 1,
{
    let wc = add_topic_core(w, t);
    lemma_event_views(wc, ClaimTopicAdded { claim_topic: t }.ev());
    lemma_same_views_inv(wc, add_topic_post(w, t));
    lemma_add_topic_core(w, t);
}
pub proof fn lemma_add_topic_core(w: World, t: u32)
    requires inv_cti(w), add_topic_guard(w, t),
    ensures
        inv_cti(add_topic_core(w, t)),
        forall|t2: u32| #[trigger] has_topic(add_topic_core(w, t), t2) == (has_topic(w, t2) || t2 == t),
        forall|i: Address| #[trigger] has_issuer(add_topic_core(w, t), i) == has_issuer(w, i),
        forall|i: Address, t2: u32| #[trigger] rel(add_topic_core(w, t), i, t2) == rel(w, i, t2),
        ctopics(add_topic_core(w, t)) == ctopics(w).push(t),
{
    let w2 = add_topic_core(w, t);
    assert(ctopics(w2) == ctopics(w).push(t) && cissuers(w2) == cissuers(w)
        && (forall|i: Address| #[trigger] itopics_opt(w2, i) == itopics_opt(w, i))
        && (forall|t2: u32| #[trigger] tissuers_opt(w2, t2) == (if t2 == t { Some(Seq::<Address>::empty()) } else { tissuers_opt(w, t2) }))) by {
        broadcast use sdk_store;
    }
    lemma_push_facts(ctopics(w), t);
    assert forall|i: Address, t2: u32| #[trigger] rel(w2, i, t2) == rel(w, i, t2) by { assert(itopics_opt(w2, i) == itopics_opt(w, i)); }
    assert forall|i: Address, t2: u32| #[trigger] rel(w2, i, t2) <==> rel_rev(w2, i, t2) by {
        assert(rel(w, i, t2) <==> rel_rev(w, i, t2));
        assert(tissuers_opt(w2, t2) == (if t2 == t { Some(Seq::<Address>::empty()) } else { tissuers_opt(w, t2) }));
        if t2 == t { assert(tissuers_opt(w, t).is_some() <==> has_topic(w, t)); }
    }
    assert forall|t2: u32| (#[trigger] tissuers_opt(w2, t2)).is_some() <==> has_topic(w2, t2) by {
        assert(tissuers_opt(w, t2).is_some() <==> has_topic(w, t2));
    }
    assert forall|i: Address| (#[trigger] itopics_opt(w2, i)).is_some() <==> has_issuer(w2, i) by {
        assert(itopics_opt(w, i).is_some() <==> has_issuer(w, i));
    }
    assert forall|i: Address| (#[trigger] itopics_opt(w2, i)).is_some() implies itopics(w2, i).no_duplicates() && itopics(w2, i).len() <= MAX_CLAIM_TOPICS by {
        assert(itopics_opt(w, i).is_some());
    }
    assert forall|t2: u32| (#[trigger] tissuers_opt(w2, t2)).is_some() implies tissuers(w2, t2).no_duplicates() by {
        if t2 != t { assert(tissuers_opt(w, t2).is_some()); }
    }
}

pub proof fn lemma_remove_topic_core(w: World, t: u32)
    requires inv_cti(w), remove_topic_guard(w, t),
    ensures
        inv_cti(remove_topic_core(w, t)),
        forall|t2: u32| #[trigger] has_topic(remove_topic_core(w, t), t2) == (has_topic(w, t2) && t2 != t),
        forall|i: Address| #[trigger] has_issuer(remove_topic_core(w, t), i) == has_issuer(w, i),
        forall|i: Address, t2: u32| #[trigger] rel(remove_topic_core(w, t), i, t2) == (rel(w, i, t2) && t2 != t),
        ctopics(remove_topic_core(w, t)).len() == ctopics(w).len() - 1,
{
    let w1 = remove_topic_w1(w, t);
    assert(ctopics(w1) == seq_del(ctopics(w), t) && cissuers(w1) == cissuers(w)
        && (forall|i: Address| #[trigger] itopics_opt(w1, i) == itopics_opt(w, i))
        && (forall|t2: u32| #[trigger] tissuers_opt(w1, t2) == tissuers_opt(w, t2))) by {
        broadcast use sdk_store;
    }
    let iss = cissuers(w);
    let w2 = sweep(w1, iss, t, iss.len() as int);
    lemma_sweep_pw(w1, iss, t, iss.len() as int);
    lemma_take_all(iss);
    let w3 = pdel(w2, k_cti(t));
    assert(w3 == remove_topic_core(w, t));
    assert(ctopics(w3) == ctopics(w2) && cissuers(w3) == cissuers(w2)
        && (forall|i: Address| #[trigger] itopics_opt(w3, i) == itopics_opt(w2, i))
        && (forall|t2: u32| #[trigger] tissuers_opt(w3, t2) == (if t2 == t { None } else { tissuers_opt(w2, t2) }))) by {
        broadcast use sdk_store;
    }
    lemma_del_facts(ctopics(w), t);
    // every issuer's list lost `t` (issuers without an entry have none before and after)
    assert forall|i: Address| #[trigger] itopics_opt(w3, i) == del_opt(itopics_opt(w, i), t) by {
        assert(itopics_opt(w2, i) == (if iss.take(iss.len() as int).contains(i) { del_opt(itopics_opt(w1, i), t) } else { itopics_opt(w1, i) }));
        assert(itopics_opt(w1, i) == itopics_opt(w, i));
        assert(itopics_opt(w, i).is_some() <==> has_issuer(w, i));
    }
    assert forall|t2: u32| #[trigger] tissuers_opt(w3, t2) == (if t2 == t { None } else { tissuers_opt(w, t2) }) by {
        assert(tissuers_opt(w2, t2) == tissuers_opt(w1, t2));
        assert(tissuers_opt(w1, t2) == tissuers_opt(w, t2));
    }
    assert forall|i: Address, t2: u32| #[trigger] rel(w3, i, t2) == (rel(w, i, t2) && t2 != t) by {
        assert(itopics_opt(w3, i) == del_opt(itopics_opt(w, i), t));
        if itopics_opt(w, i).is_some() { lemma_del_facts(itopics(w, i), t); }
    }
    assert forall|i: Address, t2: u32| #[trigger] rel(w3, i, t2) <==> rel_rev(w3, i, t2) by {
        assert(rel(w, i, t2) <==> rel_rev(w, i, t2));
        assert(tissuers_opt(w3, t2) == (if t2 == t { None } else { tissuers_opt(w, t2) }));
    }
    assert forall|t2: u32| (#[trigger] tissuers_opt(w3, t2)).is_some() <==> has_topic(w3, t2) by {
        assert(tissuers_opt(w, t2).is_some() <==> has_topic(w, t2));
    }
    assert forall|i: Address| (#[trigger] itopics_opt(w3, i)).is_some() <==> has_issuer(w3, i) by {
        assert(itopics_opt(w3, i) == del_opt(itopics_opt(w, i), t));
        assert(itopics_opt(w, i).is_some() <==> has_issuer(w, i));
    }
    assert forall|i: Address| (#[trigger] itopics_opt(w3, i)).is_some() implies itopics(w3, i).no_duplicates() && itopics(w3, i).len() <= MAX_CLAIM_TOPICS by {
        assert(itopics_opt(w3, i) == del_opt(itopics_opt(w, i), t));
        assert(itopics_opt(w, i).is_some());
        lemma_del_facts(itopics(w, i), t);
    }
    assert forall|t2: u32| (#[trigger] tissuers_opt(w3, t2)).is_some() implies tissuers(w3, t2).no_duplicates() by {
        assert(tissuers_opt(w, t2).is_some());
    }
}
pub proof fn lemma_remove_topic(w: World, t: u32)
    requires inv_cti(w), remove_topic_guard(w, t),
    ensures
        //@@ C20:cti.lemma.remove_topic
        inv_cti(remove_topic_post(w, t)),
        forall|t2: u32| #[trigger] has_topic(remove_topic_post(w, t), t2) == (has_topic(w, t2) && t2 != t),
        forall|i: Address| #[trigger] has_issuer(remove_topic_post(w, t), i) == has_issuer(w, i),
        //@@ C20:cti.lemma.remove_topic_sweeps_every_issuer
        forall|i: Address, t2: u32| #[trigger] rel(remove_topic_post(w, t), i, t2) == (rel(w, i, t2) && t2 != t),
{
    let wc = remove_topic_core(w, t);
    lemma_event_views(wc, ClaimTopicRemoved { claim_topic: t }.ev());
    lemma_same_views_inv(wc, remove_topic_post(w, t));
    lemma_remove_topic_core(w, t);
}

/// the recursive "every visited topic had an entry" condition is just: every listed topic has an entry
pub proof fn lemma_link_ok(w: World, i: Address, ts: Seq<u32>, n: int)
    requires ts.no_duplicates(), 0 <= n <= ts.len(),
    ensures link_ok(w, i, ts, n) <==> forall|k: int| 0 <= k < n ==> (#[trigger] tissuers_opt(w, ts[k])).is_some(),
    decreases n
{
    if n > 0 {
        lemma_link_ok(w, i, ts, n - 1);
        lemma_link_pw(w, i, ts, n - 1);
        lemma_take_nodup(ts, n - 1);
        assert(tissuers_opt(link_all(w, i, ts, n - 1), ts[n - 1]) == tissuers_opt(w, ts[n - 1]));
    }
}
pub proof fn lemma_unlink_ok(w: World, i: Address, ts: Seq<u32>, n: int)
    requires ts.no_duplicates(), 0 <= n <= ts.len(),
    ensures unlink_ok(w, i, ts, n) <==> forall|k: int| 0 <= k < n ==> (#[trigger] tissuers_opt(w, ts[k])).is_some(),
    decreases n
{
    if n > 0 {
        lemma_unlink_ok(w, i, ts, n - 1);
        lemma_unlink_pw(w, i, ts, n - 1);
        lemma_take_nodup(ts, n - 1);
        assert(tissuers_opt(unlink_all(w, i, ts, n - 1), ts[n - 1]) == tissuers_opt(w, ts[n - 1]));
    }
}

pub proof fn lemma_add_issuer_core(w: World, i: Address, ts: Vec<u32>)
    requires inv_cti(w), add_issuer_guard(w, i, ts),
    ensures
        inv_cti(add_issuer_core(w, i, ts)),
        forall|t: u32| #[trigger] has_topic(add_issuer_core(w, i, ts), t) == has_topic(w, t),
        forall|j: Address| #[trigger] has_issuer(add_issuer_core(w, i, ts), j) == (has_issuer(w, j) || j == i),
        forall|j: Address, t: u32| #[trigger] rel(add_issuer_core(w, i, ts), j, t) == (rel(w, j, t) || (j == i && ts@.contains(t))),
        cissuers(add_issuer_core(w, i, ts)).len() == cissuers(w).len() + 1,
{
    let w2 = add_issuer_w2(w, i, ts);
    assert(ctopics(w2) == ctopics(w) && cissuers(w2) == cissuers(w).push(i)
        && (forall|j: Address| #[trigger] itopics_opt(w2, j) == (if j == i { Some(ts@) } else { itopics_opt(w, j) }))
        && (forall|t: u32| #[trigger] tissuers_opt(w2, t) == tissuers_opt(w, t))) by {
        broadcast use sdk_store;
    }
    let w3 = add_issuer_core(w, i, ts);
    lemma_link_pw(w2, i, ts@, ts@.len() as int);
    lemma_take_all(ts@);
    lemma_push_facts(cissuers(w), i);
    assert(itopics_opt(w, i).is_some() <==> has_issuer(w, i));
    assert forall|j: Address| #[trigger] itopics_opt(w3, j) == (if j == i { Some(ts@) } else { itopics_opt(w, j) }) by {
        assert(itopics_opt(w3, j) == itopics_opt(w2, j));
    }
    assert forall|t: u32| #[trigger] tissuers_opt(w3, t) == (if ts@.contains(t) { Some(tissuers(w, t).push(i)) } else { tissuers_opt(w, t) }) by {
        assert(tissuers_opt(w3, t) == (if ts@.take(ts@.len() as int).contains(t) { Some(tissuers(w2, t).push(i)) } else { tissuers_opt(w2, t) }));
        assert(tissuers_opt(w2, t) == tissuers_opt(w, t));
    }
    assert forall|j: Address, t: u32| #[trigger] rel(w3, j, t) == (rel(w, j, t) || (j == i && ts@.contains(t))) by {
        assert(itopics_opt(w3, j) == (if j == i { Some(ts@) } else { itopics_opt(w, j) }));
    }
    assert forall|j: Address, t: u32| #[trigger] rel(w3, j, t) <==> rel_rev(w3, j, t) by {
        assert(rel(w, j, t) <==> rel_rev(w, j, t));
        assert(rel(w, i, t) <==> rel_rev(w, i, t));
        assert(tissuers_opt(w3, t) == (if ts@.contains(t) { Some(tissuers(w, t).push(i)) } else { tissuers_opt(w, t) }));
        if ts@.contains(t) {
            lemma_push_contains(tissuers(w, t), i);
            let k = choose|k: int| 0 <= k < ts@.len() && ts@[k] == t;
            assert(has_topic(w, ts@[k]));
            assert(tissuers_opt(w, t).is_some() <==> has_topic(w, t));
        }
    }
    assert forall|t: u32| (#[trigger] tissuers_opt(w3, t)).is_some() <==> has_topic(w3, t) by {
        assert(tissuers_opt(w, t).is_some() <==> has_topic(w, t));
        if ts@.contains(t) {
            let k = choose|k: int| 0 <= k < ts@.len() && ts@[k] == t;
            assert(has_topic(w, ts@[k]));
        }
    }
    assert forall|j: Address| (#[trigger] itopics_opt(w3, j)).is_some() <==> has_issuer(w3, j) by {
        assert(itopics_opt(w, j).is_some() <==> has_issuer(w, j));
        assert(itopics_opt(w3, j) == (if j == i { Some(ts@) } else { itopics_opt(w, j) }));
    }
    assert forall|j: Address| (#[trigger] itopics_opt(w3, j)).is_some() implies itopics(w3, j).no_duplicates() && itopics(w3, j).len() <= MAX_CLAIM_TOPICS by {
        assert(itopics_opt(w3, j) == (if j == i { Some(ts@) } else { itopics_opt(w, j) }));
        if j != i { assert(itopics_opt(w, j).is_some()); }
    }
    assert forall|t: u32| (#[trigger] tissuers_opt(w3, t)).is_some() implies tissuers(w3, t).no_duplicates() by {
        if ts@.contains(t) {
            let k = choose|k: int| 0 <= k < ts@.len() && ts@[k] == t;
            assert(has_topic(w, ts@[k]));
            assert(tissuers_opt(w, t).is_some() <==> has_topic(w, t));
            assert(rel(w, i, t) <==> rel_rev(w, i, t));
            lemma_push_facts(tissuers(w, t), i);
        } else { assert(tissuers_opt(w, t).is_some()); }
    }
}
pub proof fn lemma_add_issuer(w: World, i: Address, ts: Vec<u32>)
    requires inv_cti(w), add_issuer_guard(w, i, ts),
    ensures
        //@@ C20:cti.lemma.add_issuer
        inv_cti(add_issuer_post(w, i, ts)),
        forall|t: u32| #[trigger] has_topic(add_issuer_post(w, i, ts), t) == has_topic(w, t),
        forall|j: Address| #[trigger] has_issuer(add_issuer_post(w, i, ts), j) == (has_issuer(w, j) || j == i),
        forall|j: Address, t: u32| #[trigger] rel(add_issuer_post(w, i, ts), j, t) == (rel(w, j, t) || (j == i && ts@.contains(t))),
{
    let wc = add_issuer_core(w, i, ts);
    lemma_event_views(wc, TrustedIssuerAdded { trusted_issuer: i, claim_topics: ts }.ev());
    lemma_same_views_inv(wc, add_issuer_post(w, i, ts));
    lemma_add_issuer_core(w, i, ts);
}

pub proof fn lemma_remove_issuer_core(w: World, i: Address)
    requires inv_cti(w), remove_issuer_guard(w, i),
    ensures
        inv_cti(remove_issuer_core(w, i)),
        forall|t: u32| #[trigger] has_topic(remove_issuer_core(w, i), t) == has_topic(w, t),
        forall|j: Address| #[trigger] has_issuer(remove_issuer_core(w, i), j) == (has_issuer(w, j) && j != i),
        forall|j: Address, t: u32| #[trigger] rel(remove_issuer_core(w, i), j, t) == (rel(w, j, t) && j != i),
        //@@ C20:cti.lemma.last_issuer_leaves_empty_list
        forall|t: u32| has_topic(w, t) ==> (#[trigger] tissuers_opt(remove_issuer_core(w, i), t)).is_some(),
{
    let w2 = remove_issuer_w2(w, i);
    let its = itopics(w, i);
    assert(ctopics(w2) == ctopics(w) && cissuers(w2) == seq_del(cissuers(w), i)
        && (forall|j: Address| #[trigger] itopics_opt(w2, j) == (if j == i { None } else { itopics_opt(w, j) }))
        && (forall|t: u32| #[trigger] tissuers_opt(w2, t) == tissuers_opt(w, t))) by {
        broadcast use sdk_store;
    }
    let w3 = remove_issuer_core(w, i);
    assert(itopics_opt(w, i).is_some());
    lemma_unlink_pw(w2, i, its, its.len() as int);
    lemma_take_all(its);
    lemma_del_facts(cissuers(w), i);
    assert forall|j: Address| #[trigger] itopics_opt(w3, j) == (if j == i { None } else { itopics_opt(w, j) }) by {
        assert(itopics_opt(w3, j) == itopics_opt(w2, j));
    }
    assert forall|t: u32| #[trigger] tissuers_opt(w3, t) == (if its.contains(t) { del_opt(tissuers_opt(w, t), i) } else { tissuers_opt(w, t) }) by {
        assert(tissuers_opt(w3, t) == (if its.take(its.len() as int).contains(t) { del_opt(tissuers_opt(w2, t), i) } else { tissuers_opt(w2, t) }));
        assert(tissuers_opt(w2, t) == tissuers_opt(w, t));
    }
    assert forall|j: Address, t: u32| #[trigger] rel(w3, j, t) == (rel(w, j, t) && j != i) by {
        assert(itopics_opt(w3, j) == (if j == i { None } else { itopics_opt(w, j) }));
    }
    assert forall|j: Address, t: u32| #[trigger] rel(w3, j, t) <==> rel_rev(w3, j, t) by {
        assert(rel(w, j, t) <==> rel_rev(w, j, t));
        assert(rel(w, i, t) <==> rel_rev(w, i, t));
        assert(tissuers_opt(w3, t) == (if its.contains(t) { del_opt(tissuers_opt(w, t), i) } else { tissuers_opt(w, t) }));
        if tissuers_opt(w, t).is_some() { lemma_del_facts(tissuers(w, t), i); }
    }
    assert forall|t: u32| (#[trigger] tissuers_opt(w3, t)).is_some() <==> has_topic(w3, t) by {
        assert(tissuers_opt(w, t).is_some() <==> has_topic(w, t));
        assert(tissuers_opt(w3, t) == (if its.contains(t) { del_opt(tissuers_opt(w, t), i) } else { tissuers_opt(w, t) }));
    }
    assert forall|j: Address| (#[trigger] itopics_opt(w3, j)).is_some() <==> has_issuer(w3, j) by {
        assert(itopics_opt(w, j).is_some() <==> has_issuer(w, j));
        assert(itopics_opt(w3, j) == (if j == i { None } else { itopics_opt(w, j) }));
    }
    assert forall|j: Address| (#[trigger] itopics_opt(w3, j)).is_some() implies itopics(w3, j).no_duplicates() && itopics(w3, j).len() <= MAX_CLAIM_TOPICS by {
        assert(itopics_opt(w3, j) == (if j == i { None } else { itopics_opt(w, j) }));
        assert(itopics_opt(w, j).is_some());
    }
    assert forall|t: u32| (#[trigger] tissuers_opt(w3, t)).is_some() implies tissuers(w3, t).no_duplicates() by {
        assert(tissuers_opt(w3, t) == (if its.contains(t) { del_opt(tissuers_opt(w, t), i) } else { tissuers_opt(w, t) }));
        assert(tissuers_opt(w, t).is_some());
        lemma_del_facts(tissuers(w, t), i);
    }
    assert forall|t: u32| has_topic(w, t) implies (#[trigger] tissuers_opt(w3, t)).is_some() by {
        assert(tissuers_opt(w3, t).is_some() <==> has_topic(w3, t));
    }
}
pub proof fn lemma_remove_issuer(w: World, i: Address)
    requires inv_cti(w), remove_issuer_guard(w, i),
    ensures
        //@@ C20:cti.lemma.remove_issuer
        inv_cti(remove_issuer_post(w, i)),
        forall|t: u32| #[trigger] has_topic(remove_issuer_post(w, i), t) == has_topic(w, t),
        forall|j: Address| #[trigger] has_issuer(remove_issuer_post(w, i), j) == (has_issuer(w, j) && j != i),
        forall|j: Address, t: u32| #[trigger] rel(remove_issuer_post(w, i), j, t) == (rel(w, j, t) && j != i),
{
    let wc = remove_issuer_core(w, i);
    lemma_event_views(wc, TrustedIssuerRemoved { trusted_issuer: i }.ev());
    lemma_same_views_inv(wc, remove_issuer_post(w, i));
    lemma_remove_issuer_core(w, i);
}

pub proof fn lemma_update_core(w: World, i: Address, ts: Vec<u32>)
    requires inv_cti(w), update_guard(w, i, ts),
    ensures
        inv_cti(update_core(w, i, ts)),
        forall|t: u32| #[trigger] has_topic(update_core(w, i, ts), t) == has_topic(w, t),
        forall|j: Address| #[trigger] has_issuer(update_core(w, i, ts), j) == has_issuer(w, j),
        forall|j: Address, t: u32| #[trigger] rel(update_core(w, i, ts), j, t) == (if j == i { ts@.contains(t) } else { rel(w, j, t) }),
{
    let old = itopics(w, i);
    let rm = seq_without(old, ts@);
    let ad = seq_without(ts@, old);
    assert(itopics_opt(w, i).is_some());
    assert(old.no_duplicates());
    lemma_without_facts(old, ts@);
    lemma_without_facts(ts@, old);
    let w1 = update_w1(w, i, ts);
    assert(ctopics(w1) == ctopics(w) && cissuers(w1) == cissuers(w)
        && (forall|j: Address| #[trigger] itopics_opt(w1, j) == (if j == i { Some(ts@) } else { itopics_opt(w, j) }))
        && (forall|t: u32| #[trigger] tissuers_opt(w1, t) == tissuers_opt(w, t))) by {
        broadcast use sdk_store;
    }
    let w2 = update_w2(w, i, ts);
    lemma_unlink_pw(w1, i, rm, rm.len() as int);
    lemma_take_all(rm);
    let w3 = update_core(w, i, ts);
    lemma_link_pw(w2, i, ad, ad.len() as int);
    lemma_take_all(ad);
    assert forall|j: Address| #[trigger] itopics_opt(w3, j) == (if j == i { Some(ts@) } else { itopics_opt(w, j) }) by {
        assert(itopics_opt(w3, j) == itopics_opt(w2, j));
        assert(itopics_opt(w2, j) == itopics_opt(w1, j));
    }
    assert forall|t: u32| #[trigger] tissuers_opt(w3, t) ==
        (if ad.contains(t) { Some(tissuers(w, t).push(i)) } else if rm.contains(t) { del_opt(tissuers_opt(w, t), i) } else { tissuers_opt(w, t) }) by {
        assert(tissuers_opt(w3, t) == (if ad.take(ad.len() as int).contains(t) { Some(tissuers(w2, t).push(i)) } else { tissuers_opt(w2, t) }));
        assert(tissuers_opt(w2, t) == (if rm.take(rm.len() as int).contains(t) { del_opt(tissuers_opt(w1, t), i) } else { tissuers_opt(w1, t) }));
        assert(tissuers_opt(w1, t) == tissuers_opt(w, t));
        assert(!(ad.contains(t) && rm.contains(t)));
    }
    assert forall|j: Address, t: u32| #[trigger] rel(w3, j, t) == (if j == i { ts@.contains(t) } else { rel(w, j, t) }) by {
        assert(itopics_opt(w3, j) == (if j == i { Some(ts@) } else { itopics_opt(w, j) }));
    }
    assert forall|t: u32| ts@.contains(t) implies has_topic(w, t) by {
        let k = choose|k: int| 0 <= k < ts@.len() && ts@[k] == t;
        assert(has_topic(w, ts@[k]));
    }
    assert forall|j: Address, t: u32| #[trigger] rel(w3, j, t) <==> rel_rev(w3, j, t) by {
        assert(rel(w, j, t) <==> rel_rev(w, j, t));
        assert(rel(w, i, t) <==> rel_rev(w, i, t));
        assert(tissuers_opt(w, t).is_some() <==> has_topic(w, t));
        assert(tissuers_opt(w3, t) ==
            (if ad.contains(t) { Some(tissuers(w, t).push(i)) } else if rm.contains(t) { del_opt(tissuers_opt(w, t), i) } else { tissuers_opt(w, t) }));
        if ad.contains(t) { lemma_push_contains(tissuers(w, t), i); }
        else if tissuers_opt(w, t).is_some() { lemma_del_facts(tissuers(w, t), i); }
    }
    assert forall|t: u32| (#[trigger] tissuers_opt(w3, t)).is_some() <==> has_topic(w3, t) by {
        assert(tissuers_opt(w, t).is_some() <==> has_topic(w, t));
        assert(tissuers_opt(w3, t) ==
            (if ad.contains(t) { Some(tissuers(w, t).push(i)) } else if rm.contains(t) { del_opt(tissuers_opt(w, t), i) } else { tissuers_opt(w, t) }));
    }
    assert forall|j: Address| (#[trigger] itopics_opt(w3, j)).is_some() <==> has_issuer(w3, j) by {
        assert(itopics_opt(w, j).is_some() <==> has_issuer(w, j));
        assert(itopics_opt(w3, j) == (if j == i { Some(ts@) } else { itopics_opt(w, j) }));
    }
    assert forall|j: Address| (#[trigger] itopics_opt(w3, j)).is_some() implies itopics(w3, j).no_duplicates() && itopics(w3, j).len() <= MAX_CLAIM_TOPICS by {
        assert(itopics_opt(w3, j) == (if j == i { Some(ts@) } else { itopics_opt(w, j) }));
        if j != i { assert(itopics_opt(w, j).is_some()); }
    }
    assert forall|t: u32| (#[trigger] tissuers_opt(w3, t)).is_some() implies tissuers(w3, t).no_duplicates() by {
        assert(tissuers_opt(w3, t) ==
            (if ad.contains(t) { Some(tissuers(w, t).push(i)) } else if rm.contains(t) { del_opt(tissuers_opt(w, t), i) } else { tissuers_opt(w, t) }));
        assert(tissuers_opt(w, t).is_some() <==> has_topic(w, t));
        assert(rel(w, i, t) <==> rel_rev(w, i, t));
        if ad.contains(t) { assert(tissuers_opt(w, t).is_some()); lemma_push_facts(tissuers(w, t), i); }
        else { assert(tissuers_opt(w, t).is_some()); lemma_del_facts(tissuers(w, t), i); }
    }
}
pub proof fn lemma_update(w: World, i: Address, ts: Vec<u32>)
    requires inv_cti(w), update_guard(w, i, ts),
    ensures
        //@@ C20:cti.lemma.update_issuer_topics
        inv_cti(update_post(w, i, ts)),
        forall|t: u32| #[trigger] has_topic(update_post(w, i, ts), t) == has_topic(w, t),
        forall|j: Address| #[trigger] has_issuer(update_post(w, i, ts), j) == has_issuer(w, j),
        forall|j: Address, t: u32| #[trigger] rel(update_post(w, i, ts), j, t) == (if j == i { ts@.contains(t) } else { rel(w, j, t) }),
{
    let wc = update_core(w, i, ts);
    lemma_event_views(wc, IssuerTopicsUpdated { trusted_issuer: i, claim_topics: ts }.ev());
    lemma_same_views_inv(wc, update_post(w, i, ts));
    lemma_update_core(w, i, ts);
}

/// derived capacity bounds: a duplicate-free list drawn from a duplicate-free list is no longer than it
pub proof fn lemma_sublist_len<T>(s: Seq<T>, big: Seq<T>)
    requires s.no_duplicates(), forall|x: T| s.contains(x) ==> big.contains(x),
    ensures s.len() <= big.len(),
{
    s.unique_seq_to_set();
    assert(s.to_set().subset_of(big.to_set())) by {
        assert forall|x: T| s.to_set().contains(x) implies big.to_set().contains(x) by { assert(s.contains(x)); }
    }
    vstd::set_lib::lemma_len_subset(s.to_set(), big.to_set());
    big.lemma_cardinality_of_set();
}
pub proof fn lemma_limits(w: World)
    requires inv_cti(w),
    ensures
        //@@ C20:cti.lemma.capacity_limits
        ctopics(w).len() <= MAX_CLAIM_TOPICS && cissuers(w).len() <= MAX_ISSUERS,
        forall|i: Address| #[trigger] itopics(w, i).len() <= MAX_CLAIM_TOPICS,
        forall|t: u32| #[trigger] tissuers(w, t).len() <= MAX_ISSUERS,
{
    assert forall|t: u32| #[trigger] tissuers(w, t).len() <= MAX_ISSUERS by {
        if tissuers_opt(w, t).is_some() {
            assert forall|x: Address| tissuers(w, t).contains(x) implies cissuers(w).contains(x) by {
                assert(rel_rev(w, x, t)); assert(rel(w, x, t) <==> rel_rev(w, x, t));
                assert(itopics_opt(w, x).is_some() <==> has_issuer(w, x));
            }
            lemma_sublist_len(tissuers(w, t), cissuers(w));
        }
    }
    assert forall|i: Address| #[trigger] itopics(w, i).len() <= MAX_CLAIM_TOPICS by {
        if itopics_opt(w, i).is_some() {}
    }
}
