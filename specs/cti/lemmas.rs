// =================================================================================================
// cti, lemma layer (C20): pointwise effect of every edit on the typed views, preservation of inv_cti,
// "each edit = the abstract set / relation operation"
// =================================================================================================

pub open spec fn del_opt<T>(o: Option<Seq<T>>, x: T) -> Option<Seq<T>> { match o { Some(s) => Some(seq_del(s, x)), None => None } }

/// all four views of two worlds agree
pub open spec fn same_cti_views(w: World, w2: World) -> bool {
    &&& ctopics(w2) == ctopics(w)
    &&& cissuers(w2) == cissuers(w)
    &&& forall|i: Address| #[trigger] itopics_opt(w2, i) == itopics_opt(w, i)
    &&& forall|t: u32| #[trigger] tissuers_opt(w2, t) == tissuers_opt(w, t)
}
pub proof fn lemma_same_views_inv(w: World, w2: World)
    requires same_cti_views(w, w2),
    ensures inv_cti(w) == inv_cti(w2),
        forall|t: u32| #[trigger] has_topic(w2, t) == has_topic(w, t),
        forall|i: Address| #[trigger] has_issuer(w2, i) == has_issuer(w, i),
        forall|i: Address, t: u32| #[trigger] rel(w2, i, t) == rel(w, i, t),
        forall|i: Address, t: u32| #[trigger] rel_rev(w2, i, t) == rel_rev(w, i, t),
{
    assert forall|i: Address, t: u32| #[trigger] rel(w2, i, t) == rel(w, i, t) by { assert(itopics_opt(w2, i) == itopics_opt(w, i)); }
    assert forall|i: Address, t: u32| #[trigger] rel_rev(w2, i, t) == rel_rev(w, i, t) by { assert(tissuers_opt(w2, t) == tissuers_opt(w, t)); }
    assert forall|i: Address| #[trigger] itopics(w2, i) == itopics(w, i) by { assert(itopics_opt(w2, i) == itopics_opt(w, i)); }
    assert forall|t: u32| #[trigger] tissuers(w2, t) == tissuers(w, t) by { assert(tissuers_opt(w2, t) == tissuers_opt(w, t)); }
    if inv_cti(w) {
        assert forall|i: Address| (#[trigger] itopics_opt(w2, i)).is_some() implies itopics(w2, i).no_duplicates() && itopics(w2, i).len() <= MAX_CLAIM_TOPICS by {
            assert(itopics_opt(w, i).is_some()); assert(itopics(w2, i) == itopics(w, i));
        }
        assert forall|t: u32| (#[trigger] tissuers_opt(w2, t)).is_some() implies tissuers(w2, t).no_duplicates() by {
            assert(tissuers_opt(w, t).is_some()); assert(tissuers(w2, t) == tissuers(w, t));
        }
        assert forall|i: Address, t: u32| #[trigger] rel(w2, i, t) <==> rel_rev(w2, i, t) by { assert(rel(w, i, t) <==> rel_rev(w, i, t)); }
        assert forall|t: u32| (#[trigger] tissuers_opt(w2, t)).is_some() <==> has_topic(w2, t) by { assert(tissuers_opt(w, t).is_some() <==> has_topic(w, t)); }
        assert forall|i: Address| (#[trigger] itopics_opt(w2, i)).is_some() <==> has_issuer(w2, i) by { assert(itopics_opt(w, i).is_some() <==> has_issuer(w, i)); }
    }
    if inv_cti(w2) {
        assert forall|i: Address| (#[trigger] itopics_opt(w, i)).is_some() implies itopics(w, i).no_duplicates() && itopics(w, i).len() <= MAX_CLAIM_TOPICS by {
            assert(itopics_opt(w2, i).is_some()); assert(itopics(w2, i) == itopics(w, i));
        }
        assert forall|t: u32| (#[trigger] tissuers_opt(w, t)).is_some() implies tissuers(w, t).no_duplicates() by {
            assert(tissuers_opt(w2, t).is_some()); assert(tissuers(w2, t) == tissuers(w, t));
        }
        assert forall|i: Address, t: u32| #[trigger] rel(w, i, t) <==> rel_rev(w, i, t) by { assert(rel(w2, i, t) <==> rel_rev(w2, i, t)); }
        assert forall|t: u32| (#[trigger] tissuers_opt(w, t)).is_some() <==> has_topic(w, t) by { assert(tissuers_opt(w2, t).is_some() <==> has_topic(w2, t)); }
        assert forall|i: Address| (#[trigger] itopics_opt(w, i)).is_some() <==> has_issuer(w, i) by { assert(itopics_opt(w2, i).is_some() <==> has_issuer(w2, i)); }
    }
}
/// publishing an event changes no view
pub proof fn lemma_event_views(w: World, ev: SV)
    ensures same_cti_views(w, w_event(w, ev)),
{
    let w2 = w_event(w, ev);
    assert(pget(w2, k_ct()) == pget(w, k_ct()));
    assert(pget(w2, k_ti()) == pget(w, k_ti()));
    assert forall|i: Address| #[trigger] itopics_opt(w2, i) == itopics_opt(w, i) by { assert(pget(w2, k_ict(i)) == pget(w, k_ict(i))); }
    assert forall|t: u32| #[trigger] tissuers_opt(w2, t) == tissuers_opt(w, t) by { assert(pget(w2, k_cti(t)) == pget(w, k_cti(t))); }
}

// ---- pointwise descriptions of the loops ----
pub proof fn lemma_sweep_one_pw(w: World, i: Address, t: u32)
    ensures
        ctopics(sweep_one(w, i, t)) == ctopics(w),
        cissuers(sweep_one(w, i, t)) == cissuers(w),
        forall|t2: u32| #[trigger] tissuers_opt(sweep_one(w, i, t), t2) == tissuers_opt(w, t2),
        forall|j: Address| #[trigger] itopics_opt(sweep_one(w, i, t), j) == (if j == i { del_opt(itopics_opt(w, i), t) } else { itopics_opt(w, j) }),
{
    broadcast use sdk_store;
}
pub proof fn lemma_sweep_pw(w: World, iss: Seq<Address>, t: u32, n: int)
    requires iss.no_duplicates(), 0 <= n <= iss.len(),
    ensures
        ctopics(sweep(w, iss, t, n)) == ctopics(w),
        cissuers(sweep(w, iss, t, n)) == cissuers(w),
        forall|t2: u32| #[trigger] tissuers_opt(sweep(w, iss, t, n), t2) == tissuers_opt(w, t2),
        forall|j: Address| #[trigger] itopics_opt(sweep(w, iss, t, n), j) ==
            (if iss.take(n).contains(j) { del_opt(itopics_opt(w, j), t) } else { itopics_opt(w, j) }),
    decreases n
{
    if n > 0 {
        let wp = sweep(w, iss, t, n - 1);
        lemma_sweep_pw(w, iss, t, n - 1);
        lemma_sweep_one_pw(wp, iss[n - 1], t);
        lemma_take_step(iss, n - 1);
        lemma_take_nodup(iss, n - 1);
        assert forall|j: Address| #[trigger] itopics_opt(sweep(w, iss, t, n), j) ==
            (if iss.take(n).contains(j) { del_opt(itopics_opt(w, j), t) } else { itopics_opt(w, j) }) by {
            assert(itopics_opt(wp, j) == (if iss.take(n - 1).contains(j) { del_opt(itopics_opt(w, j), t) } else { itopics_opt(w, j) }));
        }
        assert forall|t2: u32| #[trigger] tissuers_opt(sweep(w, iss, t, n), t2) == tissuers_opt(w, t2) by {
            assert(tissuers_opt(wp, t2) == tissuers_opt(w, t2));
        }
    } else {
        assert(iss.take(0) =~= Seq::<Address>::empty());
    }
}

pub proof fn lemma_unlink_one_pw(w: World, i: Address, t: u32)
    ensures
        ctopics(unlink_one(w, i, t)) == ctopics(w),
        cissuers(unlink_one(w, i, t)) == cissuers(w),
        forall|j: Address| #[trigger] itopics_opt(unlink_one(w, i, t), j) == itopics_opt(w, j),
        forall|t2: u32| #[trigger] tissuers_opt(unlink_one(w, i, t), t2) == (if t2 == t { del_opt(tissuers_opt(w, t), i) } else { tissuers_opt(w, t2) }),
{
    broadcast use sdk_store;
}
pub proof fn lemma_unlink_pw(w: World, i: Address, ts: Seq<u32>, n: int)
    requires ts.no_duplicates(), 0 <= n <= ts.len(),
    ensures
        ctopics(unlink_all(w, i, ts, n)) == ctopics(w),
        cissuers(unlink_all(w, i, ts, n)) == cissuers(w),
        forall|j: Address| #[trigger] itopics_opt(unlink_all(w, i, ts, n), j) == itopics_opt(w, j),
        forall|t: u32| #[trigger] tissuers_opt(unlink_all(w, i, ts, n), t) ==
            (if ts.take(n).contains(t) { del_opt(tissuers_opt(w, t), i) } else { tissuers_opt(w, t) }),
    decreases n
{
    if n > 0 {
        let wp = unlink_all(w, i, ts, n - 1);
        lemma_unlink_pw(w, i, ts, n - 1);
        lemma_unlink_one_pw(wp, i, ts[n - 1]);
        lemma_take_step(ts, n - 1);
        lemma_take_nodup(ts, n - 1);
        assert forall|t: u32| #[trigger] tissuers_opt(unlink_all(w, i, ts, n), t) ==
            (if ts.take(n).contains(t) { del_opt(tissuers_opt(w, t), i) } else { tissuers_opt(w, t) }) by {
            assert(tissuers_opt(wp, t) == (if ts.take(n - 1).contains(t) { del_opt(tissuers_opt(w, t), i) } else { tissuers_opt(w, t) }));
        }
        assert forall|j: Address| #[trigger] itopics_opt(unlink_all(w, i, ts, n), j) == itopics_opt(w, j) by {
            assert(itopics_opt(wp, j) == itopics_opt(w, j));
        }
    } else {
        assert(ts.take(0) =~= Seq::<u32>::empty());
    }
}

pub proof fn lemma_link_one_pw(w: World, i: Address, t: u32)
    ensures
        ctopics(link_one(w, i, t)) == ctopics(w),
        cissuers(link_one(w, i, t)) == cissuers(w),
        forall|j: Address| #[trigger] itopics_opt(link_one(w, i, t), j) == itopics_opt(w, j),
        forall|t2: u32| #[trigger] tissuers_opt(link_one(w, i, t), t2) == (if t2 == t { Some(tissuers(w, t).push(i)) } else { tissuers_opt(w, t2) }),
{
    broadcast use sdk_store;
}
pub proof fn lemma_link_pw(w: World, i: Address, ts: Seq<u32>, n: int)
    requires ts.no_duplicates(), 0 <= n <= ts.len(),
    ensures
        ctopics(link_all(w, i, ts, n)) == ctopics(w),
        cissuers(link_all(w, i, ts, n)) == cissuers(w),
        forall|j: Address| #[trigger] itopics_opt(link_all(w, i, ts, n), j) == itopics_opt(w, j),
        forall|t: u32| #[trigger] tissuers_opt(link_all(w, i, ts, n), t) ==
            (if ts.take(n).contains(t) { Some(tissuers(w, t).push(i)) } else { tissuers_opt(w, t) }),
    decreases n
{
    if n > 0 {
        let wp = link_all(w, i, ts, n - 1);
        lemma_link_pw(w, i, ts, n - 1);
        lemma_link_one_pw(wp, i, ts[n - 1]);
        lemma_take_step(ts, n - 1);
        lemma_take_nodup(ts, n - 1);
        assert forall|t: u32| #[trigger] tissuers_opt(link_all(w, i, ts, n), t) ==
            (if ts.take(n).contains(t) { Some(tissuers(w, t).push(i)) } else { tissuers_opt(w, t) }) by {
            assert(tissuers_opt(wp, t) == (if ts.take(n - 1).contains(t) { Some(tissuers(w, t).push(i)) } else { tissuers_opt(w, t) }));
            if t == ts[n - 1] { assert(tissuers_opt(wp, t) == tissuers_opt(w, t)); }
        }
        assert forall|j: Address| #[trigger] itopics_opt(link_all(w, i, ts, n), j) == itopics_opt(w, j) by {
            assert(itopics_opt(wp, j) == itopics_opt(w, j));
        }
    } else {
        assert(ts.take(0) =~= Seq::<u32>::empty());
    }
}

// ---- facts about filter results ----
pub proof fn lemma_keep_facts<T>(s: Seq<T>, keep: Seq<bool>)
    requires keep.len() == s.len(),
    ensures
        forall|x: T| #[trigger] seq_keep(s, keep).contains(x) <==> exists|k: int| 0 <= k < s.len() && s[k] == x && keep[k],
        s.no_duplicates() ==> seq_keep(s, keep).no_duplicates(),
        seq_keep(s, keep).len() <= s.len(),
    decreases s.len()
{
    if s.len() > 0 {
        let s0 = s.drop_last(); let k0 = keep.drop_last();
        lemma_keep_facts(s0, k0);
        let r0 = seq_keep(s0, k0);
        let r = seq_keep(s, keep);
        lemma_push_contains(r0, s.last());
        assert forall|x: T| #[trigger] r.contains(x) <==> exists|k: int| 0 <= k < s.len() && s[k] == x && keep[k] by {
            if r.contains(x) {
                if keep.last() && x == s.last() { assert(s[s.len() - 1] == x && keep[s.len() - 1]); }
                else {
                    assert(r0.contains(x));
                    let k = choose|k: int| 0 <= k < s0.len() && s0[k] == x && k0[k];
                    assert(s[k] == x && keep[k]);
                }
            }
            if exists|k: int| 0 <= k < s.len() && s[k] == x && keep[k] {
                let k = choose|k: int| 0 <= k < s.len() && s[k] == x && keep[k];
                if k < s.len() - 1 { assert(s0[k] == x && k0[k]); assert(r0.contains(x)); }
            }
        }
        if s.no_duplicates() {
            assert(s0.no_duplicates());
            if keep.last() {
                if r0.contains(s.last()) {
                    let k = choose|k: int| 0 <= k < s0.len() && s0[k] == s.last() && k0[k];
                    assert(s[k] == s[s.len() - 1]);
                }
                lemma_push_facts(r0, s.last());
            }
        }
    }
}
pub proof fn lemma_without_facts<T>(s: Seq<T>, o: Seq<T>)
    ensures
        forall|x: T| #[trigger] seq_without(s, o).contains(x) <==> (s.contains(x) && !o.contains(x)),
        s.no_duplicates() ==> seq_without(s, o).no_duplicates(),
        seq_without(s, o).len() <= s.len(),
{
    let keep = Seq::new(s.len(), |k: int| !o.contains(s[k]));
    lemma_keep_facts(s, keep);
    assert forall|x: T| #[trigger] seq_without(s, o).contains(x) <==> (s.contains(x) && !o.contains(x)) by {
        if s.contains(x) && !o.contains(x) {
            let k = choose|k: int| 0 <= k < s.len() && s[k] == x;
            assert(s[k] == x && keep[k]);
        }
        if seq_without(s, o).contains(x) {
            let k = choose|k: int| 0 <= k < s.len() && s[k] == x && keep[k];
            assert(s[k] == x);
        }
    }
}
