// =================================================================================================
// cti, history layer (C20): after any sequence of accepted edits, starting from an empty registry, the stored
// lists answer every query as the plain sets / relation obtained by folding the edits
// =================================================================================================
pub enum CtiOp {
    AddTopic { t: u32 },
    RemoveTopic { t: u32 },
    AddIssuer { i: Address, ts: Vec<u32> },
    RemoveIssuer { i: Address },
    UpdateIssuer { i: Address, ts: Vec<u32> },
}
/// what must have held for the call to return (the `_guard` of the verified contract)
pub open spec fn cti_guard(w: World, op: CtiOp) -> bool {
    match op {
        CtiOp::AddTopic { t } => add_topic_guard(w, t),
        CtiOp::RemoveTopic { t } => remove_topic_guard(w, t),
        CtiOp::AddIssuer { i, ts } => add_issuer_guard(w, i, ts),
        CtiOp::RemoveIssuer { i } => remove_issuer_guard(w, i),
        CtiOp::UpdateIssuer { i, ts } => update_guard(w, i, ts),
    }
}
/// the exact successor state (the `_post` of the verified contract)
pub open spec fn cti_post(w: World, op: CtiOp) -> World {
    match op {
        CtiOp::AddTopic { t } => add_topic_post(w, t),
        CtiOp::RemoveTopic { t } => remove_topic_post(w, t),
        CtiOp::AddIssuer { i, ts } => add_issuer_post(w, i, ts),
        CtiOp::RemoveIssuer { i } => remove_issuer_post(w, i),
        CtiOp::UpdateIssuer { i, ts } => update_post(w, i, ts),
    }
}
pub open spec fn cti_run(w0: World, steps: Seq<CtiOp>) -> World
    decreases steps.len()
{
    if steps.len() == 0 { w0 } else { cti_post(cti_run(w0, steps.drop_last()), steps.last()) }
}
pub open spec fn cti_valid(w0: World, steps: Seq<CtiOp>) -> bool
    decreases steps.len()
{
    steps.len() == 0 || (cti_valid(w0, steps.drop_last()) && cti_guard(cti_run(w0, steps.drop_last()), steps.last()))
}

// ---- the reference model: two sets and a relation ----
pub struct CtiAbs { pub topics: Set<u32>, pub issuers: Set<Address>, pub pairs: Set<(Address, u32)> }
pub open spec fn add_pairs(r: Set<(Address, u32)>, i: Address, ts: Seq<u32>) -> Set<(Address, u32)>
    decreases ts.len()
{
    if ts.len() == 0 { r } else { add_pairs(r, i, ts.drop_last()).insert((i, ts.last())) }
}
pub open spec fn abs_step(a: CtiAbs, op: CtiOp) -> CtiAbs {
    match op {
        CtiOp::AddTopic { t } => CtiAbs { topics: a.topics.insert(t), ..a },
        CtiOp::RemoveTopic { t } => CtiAbs { topics: a.topics.remove(t), pairs: a.pairs.filter(|p: (Address, u32)| p.1 != t), ..a },
        CtiOp::AddIssuer { i, ts } => CtiAbs { issuers: a.issuers.insert(i), pairs: add_pairs(a.pairs, i, ts@), ..a },
        CtiOp::RemoveIssuer { i } => CtiAbs { issuers: a.issuers.remove(i), pairs: a.pairs.filter(|p: (Address, u32)| p.0 != i), ..a },
        CtiOp::UpdateIssuer { i, ts } => CtiAbs { pairs: add_pairs(a.pairs.filter(|p: (Address, u32)| p.0 != i), i, ts@), ..a },
    }
}
/// a topic list the reference model accepts: non-empty, duplicate-free, only registered topics
pub open spec fn abs_topics_ok(a: CtiAbs, ts: Seq<u32>) -> bool {
    ts.len() > 0 && ts.no_duplicates() && forall|k: int| 0 <= k < ts.len() ==> a.topics.contains(#[trigger] ts[k])
}
/// when the reference model accepts an edit: no duplicate is added, nothing absent is removed or updated
pub open spec fn abs_ok(a: CtiAbs, op: CtiOp) -> bool {
    match op {
        CtiOp::AddTopic { t } => !a.topics.contains(t),
        CtiOp::RemoveTopic { t } => a.topics.contains(t),
        CtiOp::AddIssuer { i, ts } => !a.issuers.contains(i) && abs_topics_ok(a, ts@),
        CtiOp::RemoveIssuer { i } => a.issuers.contains(i),
        CtiOp::UpdateIssuer { i, ts } => a.issuers.contains(i) && abs_topics_ok(a, ts@),
    }
}
pub open spec fn abs_run(steps: Seq<CtiOp>) -> CtiAbs
    decreases steps.len()
{
    if steps.len() == 0 { CtiAbs { topics: Set::empty(), issuers: Set::empty(), pairs: Set::empty() } }
    else { abs_step(abs_run(steps.drop_last()), steps.last()) }
}
pub open spec fn abs_valid(steps: Seq<CtiOp>) -> bool
    decreases steps.len()
{
    steps.len() == 0 || (abs_valid(steps.drop_last()) && abs_ok(abs_run(steps.drop_last()), steps.last()))
}
/// every query of the registry answers as the reference model (both directions of the relation)
pub open spec fn abs_is(w: World, a: CtiAbs) -> bool {
    &&& forall|t: u32| #[trigger] has_topic(w, t) <==> a.topics.contains(t)
    &&& forall|i: Address| #[trigger] has_issuer(w, i) <==> a.issuers.contains(i)
    &&& forall|i: Address, t: u32| #[trigger] rel(w, i, t) <==> a.pairs.contains((i, t))
    &&& forall|i: Address, t: u32| #[trigger] rel_rev(w, i, t) <==> a.pairs.contains((i, t))
}
/// a freshly deployed contract: no registry entry
pub open spec fn cti_genesis(w: World) -> bool {
    &&& pget(w, k_ct()).is_none()
    &&& pget(w, k_ti()).is_none()
    &&& forall|i: Address| (#[trigger] pget(w, k_ict(i))).is_none()
    &&& forall|t: u32| (#[trigger] pget(w, k_cti(t))).is_none()
}

pub proof fn lemma_add_pairs(r: Set<(Address, u32)>, i: Address, ts: Seq<u32>)
    ensures forall|j: Address, t: u32| #[trigger] add_pairs(r, i, ts).contains((j, t)) <==> (r.contains((j, t)) || (j == i && ts.contains(t))),
    decreases ts.len()
{
    if ts.len() > 0 {
        lemma_add_pairs(r, i, ts.drop_last());
        assert forall|j: Address, t: u32| #[trigger] add_pairs(r, i, ts).contains((j, t)) <==> (r.contains((j, t)) || (j == i && ts.contains(t))) by {
            let pre = ts.drop_last();
            assert(ts =~= pre.push(ts.last()));
            lemma_push_contains(pre, ts.last());
            assert(add_pairs(r, i, pre).contains((j, t)) <==> (r.contains((j, t)) || (j == i && pre.contains(t))));
            assert(add_pairs(r, i, ts) == add_pairs(r, i, pre).insert((i, ts.last())));
            assert(pre.push(ts.last()).contains(t) <==> (pre.contains(t) || t == ts.last()));
        }
    }
}

pub proof fn lemma_cti_genesis(w: World)
    requires cti_genesis(w),
    ensures inv_cti(w), abs_is(w, abs_run(Seq::empty())),
{
    assert(ctopics(w) =~= Seq::<u32>::empty());
    assert(cissuers(w) =~= Seq::<Address>::empty());
    assert forall|i: Address| (#[trigger] itopics_opt(w, i)).is_none() by { assert(pget(w, k_ict(i)).is_none()); }
    assert forall|t: u32| (#[trigger] tissuers_opt(w, t)).is_none() by { assert(pget(w, k_cti(t)).is_none()); }
    assert forall|i: Address, t: u32| !(#[trigger] rel(w, i, t)) by { assert(itopics_opt(w, i).is_none()); }
    assert forall|i: Address, t: u32| !(#[trigger] rel_rev(w, i, t)) by { assert(tissuers_opt(w, t).is_none()); }
}

/// one accepted edit: invariant kept, reference model followed, and the reference model accepts it too
pub proof fn lemma_cti_step(w: World, op: CtiOp, a: CtiAbs)
    requires inv_cti(w), abs_is(w, a), cti_guard(w, op),
    ensures
        //@@ C20:cti.step.invariant
        inv_cti(cti_post(w, op)),
        //@@ C20:cti.step.edit_is_abstract_operation
        abs_is(cti_post(w, op), abs_step(a, op)),
        //@@ C20:cti.step.duplicates_and_absent_refused
        abs_ok(a, op),
{
    let w2 = cti_post(w, op);
    match op {
        CtiOp::AddTopic { t } => { lemma_add_topic(w, t); }
        CtiOp::RemoveTopic { t } => { lemma_remove_topic(w, t); }
        CtiOp::AddIssuer { i, ts } => {
            lemma_add_issuer(w, i, ts);
            lemma_add_pairs(a.pairs, i, ts@);
            assert forall|k: int| 0 <= k < ts@.len() implies a.topics.contains(#[trigger] ts@[k]) by { assert(has_topic(w, ts@[k])); }
        }
        CtiOp::RemoveIssuer { i } => { lemma_remove_issuer(w, i); }
        CtiOp::UpdateIssuer { i, ts } => {
            lemma_update(w, i, ts);
            lemma_add_pairs(a.pairs.filter(|p: (Address, u32)| p.0 != i), i, ts@);
            assert forall|k: int| 0 <= k < ts@.len() implies a.topics.contains(#[trigger] ts@[k]) by { assert(has_topic(w, ts@[k])); }
        }
    }
    assert forall|i: Address, t: u32| #[trigger] rel_rev(w2, i, t) <==> abs_step(a, op).pairs.contains((i, t)) by {
        assert(rel(w2, i, t) <==> rel_rev(w2, i, t));
    }
}

pub proof fn lemma_cti_history(w0: World, steps: Seq<CtiOp>)
    requires cti_genesis(w0), cti_valid(w0, steps),
    ensures
        //@@ C20:cti.history.invariant
        inv_cti(cti_run(w0, steps)),
        //@@ C20:cti.history.queries_answer_as_folded_sets
        abs_is(cti_run(w0, steps), abs_run(steps)),
        //@@ C20:cti.history.accepted_edits_are_accepted_by_the_reference
        abs_valid(steps),
    decreases steps.len()
{
    if steps.len() == 0 {
        lemma_cti_genesis(w0);
        assert(steps =~= Seq::empty());
    } else {
        let pre = steps.drop_last();
        lemma_cti_history(w0, pre);
        lemma_cti_step(cti_run(w0, pre), steps.last(), abs_run(pre));
    }
}
