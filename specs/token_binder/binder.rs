// =================================================================================================
// spec pack `token_binder` — RWA token binder: a list of bound tokens stored in buckets of BUCKET_SIZE (C20)
//   TotalCount: u32, TokenBucket(b): Vec<Address>;  token number i lives at TokenBucket(i / 100)[i % 100]
// =================================================================================================
pub open spec fn k_cnt() -> TokenBinderStorageKey { TokenBinderStorageKey::TotalCount }
pub open spec fn k_bkt(b: u32) -> TokenBinderStorageKey { TokenBinderStorageKey::TokenBucket(b) }
pub open spec fn vaddr(s: Seq<Address>) -> Vec<Address> { Vec { s: Ghost(s) } }

/// number of bound tokens
pub open spec fn bcount(w: World) -> u32 { match dec::<u32>(pget(w, k_cnt())) { Some(c) => c, None => 0 } }
pub open spec fn bucket_opt(w: World, b: u32) -> Option<Seq<Address>> {
    match dec::<Vec<Address>>(pget(w, k_bkt(b))) { Some(v) => Some(v@), None => None }
}
pub open spec fn bkt(w: World, b: u32) -> Seq<Address> { match bucket_opt(w, b) { Some(s) => s, None => Seq::empty() } }
/// the token with number `i`
pub open spec fn tok_at(w: World, i: int) -> Address { bkt(w, (i / 100) as u32)[i % 100] }
/// how long bucket `b` must be when `c` tokens are bound
pub open spec fn want_len(c: int, b: int) -> int { if b * 100 >= c { 0 } else if c - b * 100 >= 100 { 100 } else { c - b * 100 } }

/// C20 representation invariant: buckets are filled front to back with no gap, and no token occurs twice
pub open spec fn inv_tb(w: World) -> bool {
    &&& bcount(w) <= MAX_TOKENS
    &&& forall|b: u32| (#[trigger] bkt(w, b)).len() == want_len(bcount(w) as int, b as int)
    &&& forall|i: int, j: int| 0 <= i < j < bcount(w) ==> #[trigger] tok_at(w, i) != #[trigger] tok_at(w, j)
}
/// the registry as a set: `t` has a number
pub open spec fn is_bound(w: World, t: Address) -> bool { exists|i: int| 0 <= i < bcount(w) && #[trigger] tok_at(w, i) == t }
/// the registry as a list
pub open spec fn bound_list(w: World) -> Seq<Address> { Seq::new(bcount(w) as nat, |i: int| tok_at(w, i)) }

// ---- what the scanning functions compute (no invariant assumed) ----
/// first bucket below `n` containing `t`, or -1
pub open spec fn first_bucket(w: World, t: Address, n: int) -> int
    decreases n
{
    if n <= 0 { -1 } else {
        let r = first_bucket(w, t, n - 1);
        if r >= 0 { r } else if bkt(w, (n - 1) as u32).contains(t) { n - 1 } else { -1 }
    }
}
/// number of buckets in use
pub open spec fn nbuckets(w: World) -> int { if bcount(w) == 0 { 0 } else { (bcount(w) - 1) / 100 + 1 } }
pub open spec fn scan_bound(w: World, t: Address) -> bool { first_bucket(w, t, nbuckets(w)) >= 0 }
pub open spec fn scan_index(w: World, t: Address) -> int {
    let b = first_bucket(w, t, nbuckets(w));
    b * 100 + seq_index_of(bkt(w, b as u32), t)
}
/// buckets 0 .. n-1 concatenated
pub open spec fn concat_buckets(w: World, n: int) -> Seq<Address>
    decreases n
{
    if n <= 0 { Seq::empty() } else { concat_buckets(w, n - 1) + bkt(w, (n - 1) as u32) }
}

pub proof fn lemma_first_bucket_found(w: World, t: Address, b: int, n: int)
    requires 0 <= b < n, first_bucket(w, t, b) == -1, bkt(w, b as u32).contains(t),
    ensures first_bucket(w, t, n) == b,
    decreases n
{
    if n > b + 1 { lemma_first_bucket_found(w, t, b, n - 1); }
}

// ---- exact successor states ----
pub open spec fn bind_guard(w: World, t: Address) -> bool { !scan_bound(w, t) && bcount(w) < MAX_TOKENS }
pub open spec fn bind_core(w: World, t: Address) -> World {
    let c = bcount(w);
    let b = (c / 100) as u32;
    pset(pset(w, k_bkt(b), vaddr(bkt(w, b).push(t)).sv()), k_cnt(), ((c + 1) as u32).sv())
}
pub open spec fn bind_post(w: World, t: Address) -> World { w_event(bind_core(w, t), TokenBound { token: t }.ev()) }

pub open spec fn unbind_guard(w: World, t: Address) -> bool {
    let ti = scan_index(w, t);
    let last = bcount(w) - 1;
    &&& bcount(w) > 0
    &&& scan_bound(w, t)
    &&& ti != last ==> bucket_opt(w, (last / 100) as u32).is_some() && last % 100 < bkt(w, (last / 100) as u32).len()
            && ti % 100 < bkt(w, (ti / 100) as u32).len()
}
pub open spec fn unbind_w1(w: World, t: Address) -> World {
    let ti = scan_index(w, t);
    let last = bcount(w) - 1;
    if ti != last { pset(w, k_bkt((ti / 100) as u32), vaddr(bkt(w, (ti / 100) as u32).update(ti % 100, tok_at(w, last))).sv()) } else { w }
}
pub open spec fn unbind_core(w: World, t: Address) -> World {
    let last = bcount(w) - 1;
    let w1 = unbind_w1(w, t);
    let lb = bkt(w1, (last / 100) as u32);
    let w2 = pset(w1, k_bkt((last / 100) as u32), vaddr(if lb.len() > 0 { lb.drop_last() } else { lb }).sv());
    pset(w2, k_cnt(), (last as u32).sv())
}
pub open spec fn unbind_post(w: World, t: Address) -> World { w_event(unbind_core(w, t), TokenUnbound { token: t }.ev()) }

// ---- bind_tokens: a batch appended token by token (the count is written once at the end) ----
pub open spec fn push_tok(w: World, c: int, t: Address) -> World {
    let b = (c / 100) as u32;
    w_event(pset(w, k_bkt(b), vaddr(bkt(w, b).push(t)).sv()), TokenBound { token: t }.ev())
}
pub open spec fn push_all(w: World, c0: int, ts: Seq<Address>, n: int) -> World
    decreases n
{
    if n <= 0 { w } else { push_tok(push_all(w, c0, ts, n - 1), c0 + n - 1, ts[n - 1]) }
}
pub open spec fn bind_many_guard(w: World, ts: Seq<Address>) -> bool {
    &&& ts.len() <= 200
    &&& bcount(w) + ts.len() <= MAX_TOKENS
    &&& ts.no_duplicates()
    &&& forall|k: int| 0 <= k < ts.len() ==> !concat_buckets(w, nbuckets(w)).contains(#[trigger] ts[k])
}
pub open spec fn bind_many_post(w: World, ts: Seq<Address>) -> World {
    pset(push_all(w, bcount(w) as int, ts, ts.len() as int), k_cnt(), ((bcount(w) + ts.len()) as u32).sv())
}
/// persistent store of `a`, event log of `b` (the state inside a chunk: the bucket is still in memory)
pub open spec fn mix(a: World, b: World) -> World { World { events: b.events, ..a } }

pub proof fn lemma_push_tok_pw(w: World, c: int, t: Address)
    requires 0 <= c < MAX_TOKENS,
    ensures
        bcount(push_tok(w, c, t)) == bcount(w),
        forall|b: u32| #[trigger] bucket_opt(push_tok(w, c, t), b) == (if b == c / 100 { Some(bkt(w, b).push(t)) } else { bucket_opt(w, b) }),
{
    let w1 = pset(w, k_bkt((c / 100) as u32), vaddr(bkt(w, (c / 100) as u32).push(t)).sv());
    assert(bcount(w1) == bcount(w)
        && (forall|b: u32| #[trigger] bucket_opt(w1, b) == (if b == c / 100 { Some(bkt(w, b).push(t)) } else { bucket_opt(w, b) }))) by {
        broadcast use sdk_store;
    }
    let w2 = push_tok(w, c, t);
    assert(pget(w2, k_cnt()) == pget(w1, k_cnt()));
    assert forall|b: u32| #[trigger] bucket_opt(w2, b) == (if b == c / 100 { Some(bkt(w, b).push(t)) } else { bucket_opt(w, b) }) by {
        assert(pget(w2, k_bkt(b)) == pget(w1, k_bkt(b)));
        assert(bucket_opt(w2, b) == bucket_opt(w1, b));
    }
}
/// bucket lengths and count after the first n tokens of a batch
pub proof fn lemma_push_all_view(w: World, c0: int, ts: Seq<Address>, n: int)
    requires
        c0 == bcount(w), 0 <= n <= ts.len(), c0 + n <= MAX_TOKENS,
        forall|b: u32| (#[trigger] bkt(w, b)).len() == want_len(c0, b as int),
    ensures
        bcount(push_all(w, c0, ts, n)) == bcount(w),
        forall|b: u32| (#[trigger] bkt(push_all(w, c0, ts, n), b)).len() == want_len(c0 + n, b as int),
    decreases n
{
    if n > 0 {
        let wp = push_all(w, c0, ts, n - 1);
        lemma_push_all_view(w, c0, ts, n - 1);
        lemma_push_tok_pw(wp, c0 + n - 1, ts[n - 1]);
        assert forall|b: u32| (#[trigger] bkt(push_all(w, c0, ts, n), b)).len() == want_len(c0 + n, b as int) by {
            assert(bkt(wp, b).len() == want_len(c0 + n - 1, b as int));
            assert(bucket_opt(push_all(w, c0, ts, n), b) == (if b == (c0 + n - 1) / 100 { Some(bkt(wp, b).push(ts[n - 1])) } else { bucket_opt(wp, b) }));
        }
    }
}
/// a chunk: tokens i0 .. j-1 all go to bucket B, so the store after them is the store before them with that one
/// bucket replaced by its old content followed by the chunk
pub proof fn lemma_chunk(w: World, c0: int, ts: Seq<Address>, i0: int, j: int, bk: u32)
    requires
        0 <= c0, 0 <= i0 <= j <= ts.len(), c0 + j <= MAX_TOKENS,
        j > i0 ==> (c0 + i0) / 100 == bk && (c0 + j - 1) / 100 == bk,
    ensures
        bkt(push_all(w, c0, ts, j), bk) =~= bkt(push_all(w, c0, ts, i0), bk) + ts.subrange(i0, j),
        j > i0 ==> push_all(w, c0, ts, j) ==
            pset(mix(push_all(w, c0, ts, i0), push_all(w, c0, ts, j)), k_bkt(bk), vaddr(bkt(push_all(w, c0, ts, i0), bk) + ts.subrange(i0, j)).sv()),
        j == i0 ==> push_all(w, c0, ts, j) == mix(push_all(w, c0, ts, i0), push_all(w, c0, ts, j)),
    decreases j - i0
{
    let w0 = push_all(w, c0, ts, i0);
    if j > i0 {
        let wp = push_all(w, c0, ts, j - 1);
        let wj = push_all(w, c0, ts, j);
        lemma_chunk(w, c0, ts, i0, j - 1, bk);
        lemma_push_tok_pw(wp, c0 + j - 1, ts[j - 1]);
        assert((c0 + (j - 1)) / 100 == bk);
        let sp = bkt(w0, bk) + ts.subrange(i0, j - 1);
        let sj = bkt(w0, bk) + ts.subrange(i0, j);
        assert(bkt(wp, bk) =~= sp);
        assert(sj =~= sp.push(ts[j - 1]));
        assert(bucket_opt(wj, bk) == Some(bkt(wp, bk).push(ts[j - 1])));
        assert(bkt(wj, bk) =~= sj);
        let rhs = pset(mix(w0, wj), k_bkt(bk), vaddr(sj).sv());
        assert(wj == w_event(pset(wp, k_bkt(bk), vaddr(bkt(wp, bk).push(ts[j - 1])).sv()), TokenBound { token: ts[j - 1] }.ev()));
        assert(vaddr(bkt(wp, bk).push(ts[j - 1])) == vaddr(sj));
        if j - 1 > i0 {
            let spv = vaddr(sp).sv();
            assert(wp == pset(mix(w0, wp), k_bkt(bk), spv));
            assert(wj.persistent =~= rhs.persistent);
        } else {
            assert(wp == mix(w0, wp));
            assert(wj.persistent =~= rhs.persistent);
        }
        assert(wj =~~= rhs);
    } else {
        assert(ts.subrange(i0, j) =~= Seq::<Address>::empty());
        assert(bkt(w0, bk) + ts.subrange(i0, j) =~= bkt(w0, bk));
    }
}
