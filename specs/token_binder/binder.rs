// =================================================================================================
// spec pack `token_binder` — RWA token binder: a list of bound tokens stored in buckets of BUCKET_SIZE (C20)
//   TotalCount: u32, TokenBucket(b): Vec<Address>;  token number i lives at TokenBucket(i / 100)[i % 100]
// =================================================================================================
pub open spec fn k_cnt() -> TokenBinderStorageKey { TokenBinderStorageKey::TotalCount }
pub open spec fn k_bkt(b: u32) -> TokenBinderStorageKey { TokenBinderStorageKey::TokenBucket(b) }
pub open spec fn vaddr(s: Seq<Address>) -> Vec<Address> { Vec { s: Ghost(s) } }

/// number of bound tokens
pub open spec fn bcount(w: World) -> u32 { match dec::<u32>(pget(w, k_cnt())) { Some(c) => c, None => 0 } }
pub open spec fn bucket_opt(w: World, b: u32) -> Option<Seq<Address>> {
    match dec::<Vec<Address>>(pget(w, k_bkt(b))) { Some(v) => Some(v@), None => None }
}
pub open spec fn bucket(w: World, b: u32) -> Seq<Address> { match bucket_opt(w, b) { Some(s) => s, None => Seq::empty() } }
/// the token with number `i`
pub open spec fn tok_at(w: World, i: int) -> Address { bucket(w, (i / 100) as u32)[i % 100] }
/// how long bucket `b` must be when `c` tokens are bound
pub open spec fn want_len(c: int, b: int) -> int { if b * 100 >= c { 0 } else if c - b * 100 >= 100 { 100 } else { c - b * 100 } }

/// C20 representation invariant: buckets are filled front to back with no gap, and no token occurs twice
pub open spec fn inv_tb(w: World) -> bool {
    &&& bcount(w) <= MAX_TOKENS
    &&& forall|b: u32| (#[trigger] bucket(w, b)).len() == want_len(bcount(w) as int, b as int)
    &&& forall|i: int, j: int| 0 <= i < j < bcount(w) ==> #[trigger] tok_at(w, i) != #[trigger] tok_at(w, j)
}
/// the registry as a set: `t` has a number
pub open spec fn is_bound(w: World, t: Address) -> bool { exists|i: int| 0 <= i < bcount(w) && #[trigger] tok_at(w, i) == t }
/// the registry as a list
pub open spec fn bound_list(w: World) -> Seq<Address> { Seq::new(bcount(w) as nat, |i: int| tok_at(w, i)) }

// ---- what the scanning functions compute (no invariant assumed) ----
/// first bucket below `n` containing `t`, or -1
pub open spec fn first_bucket(w: World, t: Address, n: int) -> int
    decreases n
{
    if n <= 0 { -1 } else {
        let r = first_bucket(w, t, n - 1);
        if r >= 0 { r } else if bucket(w, (n - 1) as u32).contains(t) { n - 1 } else { -1 }
    }
}
/// number of buckets in use
pub open spec fn nbuckets(w: World) -> int { if bcount(w) == 0 { 0 } else { (bcount(w) - 1) / 100 + 1 } }
pub open spec fn scan_bound(w: World, t: Address) -> bool { first_bucket(w, t, nbuckets(w)) >= 0 }
pub open spec fn scan_index(w: World, t: Address) -> int {
    let b = first_bucket(w, t, nbuckets(w));
    b * 100 + seq_index_of(bucket(w, b as u32), t)
}
/// buckets 0 .. n-1 concatenated
pub open spec fn concat_buckets(w: World, n: int) -> Seq<Address>
    decreases n
{
    if n <= 0 { Seq::empty() } else { concat_buckets(w, n - 1) + bucket(w, (n - 1) as u32) }
}

pub proof fn lemma_first_bucket_found(w: World, t: Address, b: int, n: int)
    requires 0 <= b < n, first_bucket(w, t, b) == -1, bucket(w, b as u32).contains(t),
    ensures first_bucket(w, t, n) == b,
    decreases n
{
    if n > b + 1 { lemma_first_bucket_found(w, t, b, n - 1); }
}

// ---- exact successor states ----
pub open spec fn bind_guard(w: World, t: Address) -> bool { !scan_bound(w, t) && bcount(w) < MAX_TOKENS }
pub open spec fn bind_core(w: World, t: Address) -> World {
    let c = bcount(w);
    let b = (c / 100) as u32;
    pset(pset(w, k_bkt(b), vaddr(bucket(w, b).push(t)).sv()), k_cnt(), ((c + 1) as u32).sv())
}
pub open spec fn bind_post(w: World, t: Address) -> World { w_event(bind_core(w, t), TokenBound { token: t }.ev()) }

pub open spec fn unbind_guard(w: World, t: Address) -> bool {
    let ti = scan_index(w, t);
    let last = bcount(w) - 1;
    &&& bcount(w) > 0
    &&& scan_bound(w, t)
    &&& ti != last ==> bucket_opt(w, (last / 100) as u32).is_some() && last % 100 < bucket(w, (last / 100) as u32).len()
            && ti % 100 < bucket(w, (ti / 100) as u32).len()
}
pub open spec fn unbind_w1(w: World, t: Address) -> World {
    let ti = scan_index(w, t);
    let last = bcount(w) - 1;
    if ti != last { pset(w, k_bkt((ti / 100) as u32), vaddr(bucket(w, (ti / 100) as u32).update(ti % 100, tok_at(w, last))).sv()) } else { w }
}
pub open spec fn unbind_core(w: World, t: Address) -> World {
    let last = bcount(w) - 1;
    let w1 = unbind_w1(w, t);
    let lb = bucket(w1, (last / 100) as u32);
    let w2 = pset(w1, k_bkt((last / 100) as u32), vaddr(if lb.len() > 0 { lb.drop_last() } else { lb }).sv());
    pset(w2, k_cnt(), (last as u32).sv())
}
pub open spec fn unbind_post(w: World, t: Address) -> World { w_event(unbind_core(w, t), TokenUnbound { token: t }.ev()) }
