// =================================================================================================
// token_binder, lemma layer (C20): scans agree with the set view, bind = insert at the end, unbind = swap-and-pop
// =================================================================================================
pub proof fn lemma_seq_index_of<T>(s: Seq<T>, x: T)
    ensures
        -1 <= seq_index_of(s, x) < s.len(),
        s.contains(x) <==> seq_index_of(s, x) >= 0,
        seq_index_of(s, x) >= 0 ==> s[seq_index_of(s, x)] == x,
    decreases s.len()
{
    if s.len() > 0 {
        if s[0] == x { assert(s.contains(x)); } else {
            let t = s.drop_first();
            lemma_seq_index_of(t, x);
            let r = seq_index_of(t, x);
            if r >= 0 { assert(s[r + 1] == t[r]); assert(s.contains(x)); }
            if s.contains(x) {
                let k = choose|k: int| 0 <= k < s.len() && s[k] == x;
                assert(t[k - 1] == x);
                assert(t.contains(x));
            }
        }
    }
}
pub proof fn lemma_first_bucket_char(w: World, t: Address, n: int)
    requires n >= 0,
    ensures
        -1 <= first_bucket(w, t, n) < n,
        first_bucket(w, t, n) >= 0 ==> bkt(w, first_bucket(w, t, n) as u32).contains(t),
        first_bucket(w, t, n) < 0 ==> forall|b: int| 0 <= b < n ==> !(#[trigger] bkt(w, b as u32)).contains(t),
    decreases n
{
    if n > 0 { lemma_first_bucket_char(w, t, n - 1); }
}

/// bucket lengths of a well-formed binder, spelled out
pub proof fn lemma_inv_lens(w: World, i: int)
    requires inv_tb(w), 0 <= i < bcount(w),
    ensures
        0 <= i / 100 < nbuckets(w), i / 100 <= u32::MAX,
        i % 100 < bkt(w, (i / 100) as u32).len(),
        bkt(w, (i / 100) as u32).contains(tok_at(w, i)),
{
    let b = (i / 100) as u32;
    assert(bkt(w, b).len() == want_len(bcount(w) as int, b as int));
    assert(bkt(w, b)[i % 100] == tok_at(w, i));
}
/// under the invariant the bucket scan of is_token_bound / get_token_index decides membership of the set view
pub proof fn lemma_scan_is_set(w: World, t: Address)
    requires inv_tb(w),
    ensures
        //@@ C20:binder.lemma.scan_is_membership
        scan_bound(w, t) == is_bound(w, t),
        scan_bound(w, t) ==> 0 <= scan_index(w, t) < bcount(w) && tok_at(w, scan_index(w, t)) == t,
{
    let n = nbuckets(w);
    lemma_first_bucket_char(w, t, n);
    if scan_bound(w, t) {
        let b = first_bucket(w, t, n);
        let s = bkt(w, b as u32);
        lemma_seq_index_of(s, t);
        let k = seq_index_of(s, t);
        assert(s.len() == want_len(bcount(w) as int, b as int));
        let i = b * 100 + k;
        assert(i / 100 == b && i % 100 == k);
        assert(tok_at(w, i) == t);
        assert(is_bound(w, t));
    }
    if is_bound(w, t) {
        let i = choose|i: int| 0 <= i < bcount(w) && tok_at(w, i) == t;
        lemma_inv_lens(w, i);
        if first_bucket(w, t, n) < 0 { assert(!bkt(w, (i / 100) as u32).contains(t)); }
    }
}

pub proof fn lemma_bind_pw(w: World, t: Address)
    requires bcount(w) < MAX_TOKENS,
    ensures
        bcount(bind_core(w, t)) == bcount(w) + 1,
        forall|b: u32| #[trigger] bucket_opt(bind_core(w, t), b) ==
            (if b == bcount(w) / 100 { Some(bkt(w, b).push(t)) } else { bucket_opt(w, b) }),
{
    broadcast use sdk_store;
}
pub proof fn lemma_bind_core(w: World, t: Address)
    requires inv_tb(w), bind_guard(w, t),
    ensures
        inv_tb(bind_core(w, t)),
        !is_bound(w, t),
        bcount(bind_core(w, t)) == bcount(w) + 1,
        forall|i: int| 0 <= i <= bcount(w) ==> #[trigger] tok_at(bind_core(w, t), i) == (if i == bcount(w) { t } else { tok_at(w, i) }),
        forall|x: Address| #[trigger] is_bound(bind_core(w, t), x) == (is_bound(w, x) || x == t),
        bound_list(bind_core(w, t)) =~= bound_list(w).push(t),
{
    let w2 = bind_core(w, t);
    let c = bcount(w) as int;
    lemma_bind_pw(w, t);
    lemma_scan_is_set(w, t);
    assert forall|b: u32| #[trigger] bkt(w2, b) == (if b == c / 100 { bkt(w, b).push(t) } else { bkt(w, b) }) by {
        assert(bucket_opt(w2, b) == (if b == bcount(w) / 100 { Some(bkt(w, b).push(t)) } else { bucket_opt(w, b) }));
    }
    assert forall|b: u32| (#[trigger] bkt(w2, b)).len() == want_len(c + 1, b as int) by {
        assert(bkt(w, b).len() == want_len(c, b as int));
    }
    assert forall|i: int| 0 <= i <= c implies #[trigger] tok_at(w2, i) == (if i == c { t } else { tok_at(w, i) }) by {
        let b = (i / 100) as u32;
        assert(bkt(w2, b) == (if b == c / 100 { bkt(w, b).push(t) } else { bkt(w, b) }));
        assert(bkt(w, b).len() == want_len(c, b as int));
    }
    assert forall|i: int, j: int| 0 <= i < j < bcount(w2) implies #[trigger] tok_at(w2, i) != #[trigger] tok_at(w2, j) by {
        if j == c { assert(tok_at(w, i) != t); }
    }
    assert forall|x: Address| #[trigger] is_bound(w2, x) == (is_bound(w, x) || x == t) by {
        if is_bound(w, x) { let i = choose|i: int| 0 <= i < bcount(w) && tok_at(w, i) == x; assert(tok_at(w2, i) == x); }
        if x == t { assert(tok_at(w2, c) == t); }
        if is_bound(w2, x) {
            let i = choose|i: int| 0 <= i < bcount(w2) && tok_at(w2, i) == x;
            if i < c { assert(tok_at(w, i) == x); }
        }
    }
}
pub proof fn lemma_tb_event(w: World, ev: SV)
    ensures
        bcount(w_event(w, ev)) == bcount(w),
        forall|b: u32| #[trigger] bkt(w_event(w, ev), b) == bkt(w, b),
        forall|i: int| #[trigger] tok_at(w_event(w, ev), i) == tok_at(w, i),
        inv_tb(w_event(w, ev)) == inv_tb(w),
        forall|x: Address| #[trigger] is_bound(w_event(w, ev), x) == is_bound(w, x),
        bound_list(w_event(w, ev)) =~= bound_list(w),
{
    let w2 = w_event(w, ev);
    assert(pget(w2, k_cnt()) == pget(w, k_cnt()));
    assert forall|b: u32| #[trigger] bkt(w2, b) == bkt(w, b) by { assert(pget(w2, k_bkt(b)) == pget(w, k_bkt(b))); }
    assert forall|i: int| #[trigger] tok_at(w2, i) == tok_at(w, i) by { assert(bkt(w2, (i / 100) as u32) == bkt(w, (i / 100) as u32)); }
    assert forall|x: Address| #[trigger] is_bound(w2, x) == is_bound(w, x) by {
        if is_bound(w, x) { let i = choose|i: int| 0 <= i < bcount(w) && tok_at(w, i) == x; assert(tok_at(w2, i) == x); }
        if is_bound(w2, x) { let i = choose|i: int| 0 <= i < bcount(w2) && tok_at(w2, i) == x; assert(tok_at(w, i) == x); }
    }
    if inv_tb(w) {
        assert forall|i: int, j: int| 0 <= i < j < bcount(w2) implies #[trigger] tok_at(w2, i) != #[trigger] tok_at(w2, j) by {
            assert(tok_at(w, i) != tok_at(w, j));
        }
    }
    if inv_tb(w2) {
        assert forall|i: int, j: int| 0 <= i < j < bcount(w) implies #[trigger] tok_at(w, i) != #[trigger] tok_at(w, j) by {
            assert(tok_at(w2, i) != tok_at(w2, j));
        }
        assert forall|b: u32| (#[trigger] bkt(w, b)).len() == want_len(bcount(w) as int, b as int) by { assert(bkt(w2, b) == bkt(w, b)); }
    }
}
pub proof fn lemma_bind(w: World, t: Address)
    requires inv_tb(w), bind_guard(w, t),
    ensures
        //@@ C20:binder.lemma.bind_is_insert
        inv_tb(bind_post(w, t)),
        !is_bound(w, t),
        bcount(bind_post(w, t)) == bcount(w) + 1 && bcount(bind_post(w, t)) <= MAX_TOKENS,
        forall|x: Address| #[trigger] is_bound(bind_post(w, t), x) == (is_bound(w, x) || x == t),
        bound_list(bind_post(w, t)) =~= bound_list(w).push(t),
{
    lemma_bind_core(w, t);
    lemma_tb_event(bind_core(w, t), TokenBound { token: t }.ev());
}

pub open spec fn drop_last_or_same<T>(s: Seq<T>) -> Seq<T> { if s.len() > 0 { s.drop_last() } else { s } }
pub proof fn lemma_unbind_pw(w: World, t: Address)
    requires bcount(w) > 0,
    ensures
        ({
            let ti = scan_index(w, t); let last = bcount(w) - 1; let w1 = unbind_w1(w, t); let w3 = unbind_core(w, t);
            &&& bcount(w3) == last
            &&& forall|b: u32| #[trigger] bucket_opt(w1, b) ==
                    (if ti != last && b == (ti / 100) as u32 { Some(bkt(w, b).update(ti % 100, tok_at(w, last))) } else { bucket_opt(w, b) })
            &&& forall|b: u32| #[trigger] bucket_opt(w3, b) ==
                    (if b == (last / 100) as u32 { Some(drop_last_or_same(bkt(w1, b))) } else { bucket_opt(w1, b) })
        }),
{
    broadcast use sdk_store;
}
pub proof fn lemma_unbind_core(w: World, t: Address)
    requires inv_tb(w), unbind_guard(w, t),
    ensures
        inv_tb(unbind_core(w, t)),
        is_bound(w, t),
        bcount(unbind_core(w, t)) == bcount(w) - 1,
        //@@ C20:binder.lemma.unbind_moves_last_into_hole
        forall|i: int| 0 <= i < bcount(w) - 1 ==> #[trigger] tok_at(unbind_core(w, t), i) ==
            (if i == scan_index(w, t) { tok_at(w, bcount(w) - 1) } else { tok_at(w, i) }),
        forall|x: Address| #[trigger] is_bound(unbind_core(w, t), x) == (is_bound(w, x) && x != t),
{
    let ti = scan_index(w, t); let c = bcount(w) as int; let last = c - 1;
    let w1 = unbind_w1(w, t); let w3 = unbind_core(w, t);
    lemma_unbind_pw(w, t);
    lemma_scan_is_set(w, t);
    let lbk = (last / 100) as u32; let tbk = (ti / 100) as u32;
    assert forall|b: u32| #[trigger] bkt(w1, b) ==
        (if ti != last && b == tbk { bkt(w, b).update(ti % 100, tok_at(w, last)) } else { bkt(w, b) }) by {
        assert(bucket_opt(w1, b) == (if ti != last && b == (ti / 100) as u32 { Some(bkt(w, b).update(ti % 100, tok_at(w, last))) } else { bucket_opt(w, b) }));
    }
    assert forall|b: u32| #[trigger] bkt(w3, b) == (if b == lbk { drop_last_or_same(bkt(w1, b)) } else { bkt(w1, b) }) by {
        assert(bucket_opt(w3, b) == (if b == (last / 100) as u32 { Some(drop_last_or_same(bkt(w1, b))) } else { bucket_opt(w1, b) }));
    }
    assert forall|b: u32| (#[trigger] bkt(w3, b)).len() == want_len(last, b as int) by {
        assert(bkt(w, b).len() == want_len(c, b as int));
        assert(bkt(w3, b) == (if b == lbk { drop_last_or_same(bkt(w1, b)) } else { bkt(w1, b) }));
        assert(bkt(w1, b) == (if ti != last && b == tbk { bkt(w, b).update(ti % 100, tok_at(w, last)) } else { bkt(w, b) }));
    }
    assert forall|i: int| 0 <= i < last implies #[trigger] tok_at(w3, i) == (if i == ti { tok_at(w, last) } else { tok_at(w, i) }) by {
        let b = (i / 100) as u32;
        assert(bkt(w, b).len() == want_len(c, b as int));
        assert(bkt(w3, b) == (if b == lbk { drop_last_or_same(bkt(w1, b)) } else { bkt(w1, b) }));
        assert(bkt(w1, b) == (if ti != last && b == tbk { bkt(w, b).update(ti % 100, tok_at(w, last)) } else { bkt(w, b) }));
        if b == tbk && i % 100 == ti % 100 { assert(i == ti); }
    }
    assert forall|i: int, j: int| 0 <= i < j < bcount(w3) implies #[trigger] tok_at(w3, i) != #[trigger] tok_at(w3, j) by {
        let i2 = if i == ti { last } else { i };
        let j2 = if j == ti { last } else { j };
        assert(tok_at(w3, i) == tok_at(w, i2) && tok_at(w3, j) == tok_at(w, j2));
        if i2 < j2 { assert(tok_at(w, i2) != tok_at(w, j2)); } else { assert(tok_at(w, j2) != tok_at(w, i2)); }
    }
    assert forall|x: Address| #[trigger] is_bound(w3, x) == (is_bound(w, x) && x != t) by {
        if is_bound(w3, x) {
            let i = choose|i: int| 0 <= i < bcount(w3) && tok_at(w3, i) == x;
            let i2 = if i == ti { last } else { i };
            assert(tok_at(w, i2) == x);
            if i2 < ti { assert(tok_at(w, i2) != tok_at(w, ti)); } else { assert(tok_at(w, ti) != tok_at(w, i2)); }
        }
        if is_bound(w, x) && x != t {
            let i = choose|i: int| 0 <= i < bcount(w) && tok_at(w, i) == x;
            let i2 = if i == last { ti } else { i };
            assert(i != ti);
            assert(tok_at(w3, i2) == x);
        }
    }
}
pub proof fn lemma_unbind(w: World, t: Address)
    requires inv_tb(w), unbind_guard(w, t),
    ensures
        //@@ C20:binder.lemma.unbind_is_remove
        inv_tb(unbind_post(w, t)),
        is_bound(w, t),
        bcount(unbind_post(w, t)) == bcount(w) - 1,
        forall|x: Address| #[trigger] is_bound(unbind_post(w, t), x) == (is_bound(w, x) && x != t),
{
    lemma_unbind_core(w, t);
    lemma_tb_event(unbind_core(w, t), TokenUnbound { token: t }.ev());
}

/// the list returned by linked_tokens is the list view: every bound token exactly once, in index order
pub proof fn lemma_concat_prefix(w: World, n: int)
    requires inv_tb(w), 0 <= n <= nbuckets(w),
    ensures
        concat_buckets(w, n).len() == (if n * 100 <= bcount(w) { n * 100 } else { bcount(w) as int }),
        forall|i: int| 0 <= i < concat_buckets(w, n).len() ==> #[trigger] concat_buckets(w, n)[i] == tok_at(w, i),
    decreases n
{
    if n > 0 {
        lemma_concat_prefix(w, n - 1);
        let b = (n - 1) as u32;
        assert(bkt(w, b).len() == want_len(bcount(w) as int, b as int));
        let p = concat_buckets(w, n - 1);
        assert(p.len() == (n - 1) * 100);
        assert forall|i: int| 0 <= i < concat_buckets(w, n).len() implies #[trigger] concat_buckets(w, n)[i] == tok_at(w, i) by {
            if i >= p.len() {
                assert(concat_buckets(w, n)[i] == bkt(w, b)[i - p.len()]);
                assert(i / 100 == n - 1 && i % 100 == i - p.len());
            }
        }
    }
}
pub proof fn lemma_linked_tokens(w: World)
    requires inv_tb(w),
    ensures
        //@@ C20:binder.lemma.linked_tokens_enumerates_each_once
        concat_buckets(w, nbuckets(w)) =~= bound_list(w),
        bound_list(w).no_duplicates(),
        forall|x: Address| #[trigger] bound_list(w).contains(x) <==> is_bound(w, x),
{
    lemma_concat_prefix(w, nbuckets(w));
    assert forall|i: int, j: int| 0 <= i < bound_list(w).len() && 0 <= j < bound_list(w).len() && i != j implies bound_list(w)[i] != bound_list(w)[j] by {
        if i < j { assert(tok_at(w, i) != tok_at(w, j)); } else { assert(tok_at(w, j) != tok_at(w, i)); }
    }
    assert forall|x: Address| #[trigger] bound_list(w).contains(x) <==> is_bound(w, x) by {
        if bound_list(w).contains(x) { let i = choose|i: int| 0 <= i < bound_list(w).len() && bound_list(w)[i] == x; assert(tok_at(w, i) == x); }
        if is_bound(w, x) { let i = choose|i: int| 0 <= i < bcount(w) && tok_at(w, i) == x; assert(bound_list(w)[i] == x); }
    }
}

// ---- bind_tokens = the batch appended to the list ----
pub proof fn lemma_push_all_toks(w: World, c0: int, ts: Seq<Address>, n: int)
    requires
        c0 == bcount(w), 0 <= n <= ts.len(), c0 + n <= MAX_TOKENS,
        forall|b: u32| (#[trigger] bkt(w, b)).len() == want_len(c0, b as int),
    ensures
        forall|i: int| 0 <= i < c0 + n ==> #[trigger] tok_at(push_all(w, c0, ts, n), i) == (if i < c0 { tok_at(w, i) } else { ts[i - c0] }),
    decreases n
{
    if n > 0 {
        let wp = push_all(w, c0, ts, n - 1);
        let wn = push_all(w, c0, ts, n);
        lemma_push_all_toks(w, c0, ts, n - 1);
        lemma_push_all_view(w, c0, ts, n - 1);
        lemma_push_tok_pw(wp, c0 + n - 1, ts[n - 1]);
        assert forall|i: int| 0 <= i < c0 + n implies #[trigger] tok_at(wn, i) == (if i < c0 { tok_at(w, i) } else { ts[i - c0] }) by {
            let b = (i / 100) as u32;
            assert(bkt(wp, b).len() == want_len(c0 + n - 1, b as int));
            assert(bucket_opt(wn, b) == (if b == (c0 + n - 1) / 100 { Some(bkt(wp, b).push(ts[n - 1])) } else { bucket_opt(wp, b) }));
            if i < c0 + n - 1 { assert(tok_at(wp, i) == (if i < c0 { tok_at(w, i) } else { ts[i - c0] })); }
        }
    }
}
pub proof fn lemma_bind_many(w: World, ts: Seq<Address>)
    requires inv_tb(w), bind_many_guard(w, ts),
    ensures
        //@@ C20:binder.lemma.bind_tokens_is_batch_insert
        inv_tb(bind_many_post(w, ts)),
        forall|k: int| 0 <= k < ts.len() ==> !is_bound(w, #[trigger] ts[k]),
        bcount(bind_many_post(w, ts)) == bcount(w) + ts.len() && bcount(bind_many_post(w, ts)) <= MAX_TOKENS,
        forall|x: Address| #[trigger] is_bound(bind_many_post(w, ts), x) == (is_bound(w, x) || ts.contains(x)),
        bound_list(bind_many_post(w, ts)) =~= bound_list(w) + ts,
{
    let c0 = bcount(w) as int; let n = ts.len() as int;
    let wn = push_all(w, c0, ts, n);
    let w2 = bind_many_post(w, ts);
    lemma_push_all_view(w, c0, ts, n);
    lemma_push_all_toks(w, c0, ts, n);
    lemma_linked_tokens(w);
    assert(bcount(w2) == c0 + n && (forall|b: u32| #[trigger] bucket_opt(w2, b) == bucket_opt(wn, b))) by { broadcast use sdk_store; }
    assert forall|b: u32| #[trigger] bkt(w2, b) == bkt(wn, b) by { assert(bucket_opt(w2, b) == bucket_opt(wn, b)); }
    assert forall|i: int| #[trigger] tok_at(w2, i) == tok_at(wn, i) by { assert(bkt(w2, (i / 100) as u32) == bkt(wn, (i / 100) as u32)); }
    assert forall|k: int| 0 <= k < ts.len() implies !is_bound(w, #[trigger] ts[k]) by {
        assert(!concat_buckets(w, nbuckets(w)).contains(ts[k]));
        assert(bound_list(w).contains(ts[k]) <==> is_bound(w, ts[k]));
    }
    assert forall|b: u32| (#[trigger] bkt(w2, b)).len() == want_len(bcount(w2) as int, b as int) by { assert(bkt(w2, b) == bkt(wn, b)); }
    assert forall|i: int| 0 <= i < c0 + n implies #[trigger] tok_at(w2, i) == (if i < c0 { tok_at(w, i) } else { ts[i - c0] }) by {
        assert(tok_at(w2, i) == tok_at(wn, i));
    }
    assert forall|i: int, j: int| 0 <= i < j < bcount(w2) implies #[trigger] tok_at(w2, i) != #[trigger] tok_at(w2, j) by {
        if j < c0 { assert(tok_at(w, i) != tok_at(w, j)); }
        else if i >= c0 { assert(ts[i - c0] != ts[j - c0]); }
        else { assert(!is_bound(w, ts[j - c0])); assert(tok_at(w, i) != ts[j - c0]); }
    }
    assert forall|x: Address| #[trigger] is_bound(w2, x) == (is_bound(w, x) || ts.contains(x)) by {
        if is_bound(w, x) { let i = choose|i: int| 0 <= i < bcount(w) && tok_at(w, i) == x; assert(tok_at(w2, i) == x); }
        if ts.contains(x) { let k = choose|k: int| 0 <= k < ts.len() && ts[k] == x; assert(tok_at(w2, c0 + k) == x); }
        if is_bound(w2, x) {
            let i = choose|i: int| 0 <= i < bcount(w2) && tok_at(w2, i) == x;
            if i < c0 { assert(tok_at(w, i) == x); } else { assert(ts[i - c0] == x); }
        }
    }
}
