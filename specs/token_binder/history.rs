// =================================================================================================
// token_binder, history layer (C20): after any accepted sequence of binds / unbinds on an empty binder the queries
// answer as the set obtained by folding the edits; every index 0..count-1 holds a distinct bound token
// =================================================================================================
pub enum TbOp { Bind { t: Address }, BindMany { ts: Seq<Address> }, Unbind { t: Address } }
pub open spec fn tb_guard(w: World, op: TbOp) -> bool {
    match op { TbOp::Bind { t } => bind_guard(w, t), TbOp::BindMany { ts } => bind_many_guard(w, ts), TbOp::Unbind { t } => unbind_guard(w, t) }
}
pub open spec fn tb_post(w: World, op: TbOp) -> World {
    match op { TbOp::Bind { t } => bind_post(w, t), TbOp::BindMany { ts } => bind_many_post(w, ts), TbOp::Unbind { t } => unbind_post(w, t) }
}
pub open spec fn tb_run(w0: World, steps: Seq<TbOp>) -> World
    decreases steps.len()
{
    if steps.len() == 0 { w0 } else { tb_post(tb_run(w0, steps.drop_last()), steps.last()) }
}
pub open spec fn tb_valid(w0: World, steps: Seq<TbOp>) -> bool
    decreases steps.len()
{
    steps.len() == 0 || (tb_valid(w0, steps.drop_last()) && tb_guard(tb_run(w0, steps.drop_last()), steps.last()))
}
pub open spec fn insert_all(s: Set<Address>, ts: Seq<Address>) -> Set<Address>
    decreases ts.len()
{
    if ts.len() == 0 { s } else { insert_all(s, ts.drop_last()).insert(ts.last()) }
}
pub open spec fn tb_set_step(s: Set<Address>, op: TbOp) -> Set<Address> {
    match op { TbOp::Bind { t } => s.insert(t), TbOp::BindMany { ts } => insert_all(s, ts), TbOp::Unbind { t } => s.remove(t) }
}
pub open spec fn tb_abs_ok(s: Set<Address>, op: TbOp) -> bool {
    match op {
        TbOp::Bind { t } => !s.contains(t),
        TbOp::BindMany { ts } => ts.no_duplicates() && forall|k: int| 0 <= k < ts.len() ==> !s.contains(#[trigger] ts[k]),
        TbOp::Unbind { t } => s.contains(t),
    }
}
/// the reference set
pub open spec fn tb_set(steps: Seq<TbOp>) -> Set<Address>
    decreases steps.len()
{
    if steps.len() == 0 { Set::empty() } else { tb_set_step(tb_set(steps.drop_last()), steps.last()) }
}
pub proof fn lemma_insert_all(s: Set<Address>, ts: Seq<Address>)
    requires ts.no_duplicates(), forall|k: int| 0 <= k < ts.len() ==> !s.contains(#[trigger] ts[k]),
    ensures
        forall|x: Address| #[trigger] insert_all(s, ts).contains(x) <==> (s.contains(x) || ts.contains(x)),
        insert_all(s, ts).len() == s.len() + ts.len(),
    decreases ts.len()
{
    if ts.len() > 0 {
        let pre = ts.drop_last();
        assert(ts =~= pre.push(ts.last()));
        lemma_push_contains(pre, ts.last());
        assert forall|k: int| 0 <= k < pre.len() implies !s.contains(#[trigger] pre[k]) by { assert(pre[k] == ts[k]); }
        lemma_insert_all(s, pre);
        assert(!s.contains(ts[ts.len() - 1]));
        if pre.contains(ts.last()) { let k = choose|k: int| 0 <= k < pre.len() && pre[k] == ts.last(); assert(ts[k] == ts[ts.len() - 1]); }
        assert forall|x: Address| #[trigger] insert_all(s, ts).contains(x) <==> (s.contains(x) || ts.contains(x)) by {
            assert(insert_all(s, pre).contains(x) <==> (s.contains(x) || pre.contains(x)));
            assert(pre.push(ts.last()).contains(x) <==> (pre.contains(x) || x == ts.last()));
        }
    }
}
/// the reference accepts: no duplicate bind, no unbind of an absent token
pub open spec fn tb_abs_valid(steps: Seq<TbOp>) -> bool
    decreases steps.len()
{
    steps.len() == 0 || (tb_abs_valid(steps.drop_last()) && tb_abs_ok(tb_set(steps.drop_last()), steps.last()))
}
pub open spec fn tb_genesis(w: World) -> bool {
    pget(w, k_cnt()).is_none() && forall|b: u32| (#[trigger] pget(w, k_bkt(b))).is_none()
}
pub open spec fn tb_set_is(w: World, s: Set<Address>) -> bool {
    &&& forall|x: Address| #[trigger] is_bound(w, x) <==> s.contains(x)
    &&& forall|x: Address| #[trigger] scan_bound(w, x) <==> s.contains(x)
    &&& s.len() == bcount(w)
}
pub proof fn lemma_tb_step(w: World, op: TbOp, s: Set<Address>)
    requires inv_tb(w), tb_set_is(w, s), tb_guard(w, op),
    ensures
        //@@ C20:binder.step.invariant
        inv_tb(tb_post(w, op)),
        //@@ C20:binder.step.edit_is_set_operation
        tb_set_is(tb_post(w, op), tb_set_step(s, op)),
        //@@ C20:binder.step.duplicates_and_absent_refused
        tb_abs_ok(s, op),
{
    let w2 = tb_post(w, op);
    match op {
        TbOp::Bind { t } => { lemma_bind(w, t); }
        TbOp::Unbind { t } => { lemma_unbind(w, t); }
        TbOp::BindMany { ts } => {
            lemma_bind_many(w, ts);
            assert forall|k: int| 0 <= k < ts.len() implies !s.contains(#[trigger] ts[k]) by { assert(!is_bound(w, ts[k])); }
            lemma_insert_all(s, ts);
        }
    }
    assert forall|x: Address| #[trigger] scan_bound(w2, x) <==> is_bound(w2, x) by { lemma_scan_is_set(w2, x); }
}
pub proof fn lemma_tb_history(w0: World, steps: Seq<TbOp>)
    requires tb_genesis(w0), tb_valid(w0, steps),
    ensures
        //@@ C20:binder.history.invariant
        inv_tb(tb_run(w0, steps)),
        //@@ C20:binder.history.queries_answer_as_folded_set
        tb_set_is(tb_run(w0, steps), tb_set(steps)),
        //@@ C20:binder.history.accepted_edits_are_accepted_by_the_reference
        tb_abs_valid(steps),
    decreases steps.len()
{
    if steps.len() == 0 {
        assert(bcount(w0) == 0);
        assert forall|b: u32| (#[trigger] bkt(w0, b)).len() == 0 by { assert(pget(w0, k_bkt(b)).is_none()); }
        assert forall|x: Address| !(#[trigger] scan_bound(w0, x)) by {}
    } else {
        let pre = steps.drop_last();
        lemma_tb_history(w0, pre);
        lemma_tb_step(tb_run(w0, pre), steps.last(), tb_set(pre));
    }
}
