// =================================================================================================
// token_binder, history layer (C20): after any accepted sequence of binds / unbinds on an empty binder the queries
// answer as the set obtained by folding the edits; every index 0..count-1 holds a distinct bound token
// =================================================================================================
pub enum TbOp { Bind { t: Address }, Unbind { t: Address } }
pub open spec fn tb_guard(w: World, op: TbOp) -> bool {
    match op { TbOp::Bind { t } => bind_guard(w, t), TbOp::Unbind { t } => unbind_guard(w, t) }
}
pub open spec fn tb_post(w: World, op: TbOp) -> World {
    match op { TbOp::Bind { t } => bind_post(w, t), TbOp::Unbind { t } => unbind_post(w, t) }
}
pub open spec fn tb_run(w0: World, steps: Seq<TbOp>) -> World
    decreases steps.len()
{
    if steps.len() == 0 { w0 } else { tb_post(tb_run(w0, steps.drop_last()), steps.last()) }
}
pub open spec fn tb_valid(w0: World, steps: Seq<TbOp>) -> bool
    decreases steps.len()
{
    steps.len() == 0 || (tb_valid(w0, steps.drop_last()) && tb_guard(tb_run(w0, steps.drop_last()), steps.last()))
}
/// the reference set
pub open spec fn tb_set(steps: Seq<TbOp>) -> Set<Address>
    decreases steps.len()
{
    if steps.len() == 0 { Set::empty() } else {
        match steps.last() { TbOp::Bind { t } => tb_set(steps.drop_last()).insert(t), TbOp::Unbind { t } => tb_set(steps.drop_last()).remove(t) }
    }
}
/// the reference accepts: no duplicate bind, no unbind of an absent token
pub open spec fn tb_abs_valid(steps: Seq<TbOp>) -> bool
    decreases steps.len()
{
    steps.len() == 0 || (tb_abs_valid(steps.drop_last()) && match steps.last() {
        TbOp::Bind { t } => !tb_set(steps.drop_last()).contains(t),
        TbOp::Unbind { t } => tb_set(steps.drop_last()).contains(t),
    })
}
pub open spec fn tb_genesis(w: World) -> bool {
    pget(w, k_cnt()).is_none() && forall|b: u32| (#[trigger] pget(w, k_bkt(b))).is_none()
}
pub open spec fn tb_set_is(w: World, s: Set<Address>) -> bool {
    &&& forall|x: Address| #[trigger] is_bound(w, x) <==> s.contains(x)
    &&& forall|x: Address| #[trigger] scan_bound(w, x) <==> s.contains(x)
    &&& s.len() == bcount(w)
}
pub proof fn lemma_tb_step(w: World, op: TbOp, s: Set<Address>)
    requires inv_tb(w), tb_set_is(w, s), tb_guard(w, op),
    ensures
        //@@ C20:binder.step.invariant
        inv_tb(tb_post(w, op)),
        //@@ C20:binder.step.edit_is_set_operation
        tb_set_is(tb_post(w, op), match op { TbOp::Bind { t } => s.insert(t), TbOp::Unbind { t } => s.remove(t) }),
        //@@ C20:binder.step.duplicates_and_absent_refused
        match op { TbOp::Bind { t } => !s.contains(t), TbOp::Unbind { t } => s.contains(t) },
{
    let w2 = tb_post(w, op);
    match op {
        TbOp::Bind { t } => { lemma_bind(w, t); }
        TbOp::Unbind { t } => { lemma_unbind(w, t); }
    }
    assert forall|x: Address| #[trigger] scan_bound(w2, x) <==> is_bound(w2, x) by { lemma_scan_is_set(w2, x); }
}
pub proof fn lemma_tb_history(w0: World, steps: Seq<TbOp>)
    requires tb_genesis(w0), tb_valid(w0, steps),
    ensures
        //@@ C20:binder.history.invariant
        inv_tb(tb_run(w0, steps)),
        //@@ C20:binder.history.queries_answer_as_folded_set
        tb_set_is(tb_run(w0, steps), tb_set(steps)),
        //@@ C20:binder.history.accepted_edits_are_accepted_by_the_reference
        tb_abs_valid(steps),
    decreases steps.len()
{
    if steps.len() == 0 {
        assert(bcount(w0) == 0);
        assert forall|b: u32| (#[trigger] bkt(w0, b)).len() == 0 by { assert(pget(w0, k_bkt(b)).is_none()); }
        assert forall|x: Address| !(#[trigger] scan_bound(w0, x)) by {}
    } else {
        let pre = steps.drop_last();
        lemma_tb_history(w0, pre);
        lemma_tb_step(tb_run(w0, pre), steps.last(), tb_set(pre));
    }
}
