// ---- strict flavour for the capacity clause of C20 (DESIGN.md §2.4 pass B, restricted to ONE failure reason):
// a revert with `ClaimIssuerError::LimitExceeded` is a proof obligation (`sdk_panic_strict requires false`), every other
// revert keeps its partial-correctness reading.  So `allow_key` is verified NOT to fail for capacity on the stated domain.
#[verifier::external_body]
pub fn sdk_panic_strict(code: u32) -> !
    requires false
{ panic!() }
macro_rules! panic_with_error {
    ($e:expr, ClaimIssuerError::LimitExceeded) => { sdk_panic_strict(355u32) };
    ($e:expr, $err:expr) => { sdk_panic($err as u32) };
}
