// expanded fungible-allowlist example (C16 wiring, C06 role-guarded list edits)
pub open spec fn manager_role() -> Symbol { Symbol { code: Ghost(str_code("manager"@)) } }
