// ---- strict flavour (pass B) of unit `verifiers`: a contract error is a proof obligation (`sdk_panic_strict requires
// ---- false`), host / library traps are preconditions (fragments sig_strict, verifiers_ops_strict), arithmetic is native.
// ---- What verifies here CANNOT fail on the stated domain: "every genuine assertion is accepted".
#[verifier::external_body]
pub fn sdk_panic_strict(code: u32) -> !
    requires false
{ panic!() }
macro_rules! panic_with_error {
    ($e:expr, $err:expr) => { sdk_panic_strict($err as u32) };
}

/// the domain of the completeness claim for `webauthn::verify`: everything `webauthn_accepts` lists, and the client
/// data is a document the external JSON parser accepts (uninterpreted, see fragment verifiers_ops_strict)
pub open spec fn webauthn_genuine(payload: Seq<u8>, key: Seq<u8>, sd: WebAuthnSigData) -> bool {
    json_client_data_parses(sd.client_data@) && webauthn_accepts(payload, key, sd)
}
