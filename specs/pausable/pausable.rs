// =================================================================================================
// spec pack `pausable` — C16 (pause part): the instance flag `Paused`, its two writers and the two
// guards.  Everything here is ghost; the executable text comes from /repo.
// Helper names carry the prefix `pz_` so that this file can be listed next to other spec packs.
// =================================================================================================

// ---- abstract view ----
pub open spec fn pz_key() -> PausableStorageKey { PausableStorageKey::Paused }
/// what `paused()` reports: an absent flag means "not paused"
pub open spec fn is_paused(w: World) -> bool {
    match dec::<bool>(iget(w, pz_key())) { Some(b) => b, None => false }
}
pub open spec fn pz_event(w: World, ev: SV) -> World { World { events: w.events.push(ev), ..w } }

// ---- exact successor states ----
pub open spec fn pause_post(w: World) -> World { pz_event(iset(w, pz_key(), true.sv()), Paused {}.ev()) }
pub open spec fn unpause_post(w: World) -> World { pz_event(iset(w, pz_key(), false.sv()), Unpaused {}.ev()) }

/// everything but the flag entry and the event log is the same
pub open spec fn pz_frame(w: World, w2: World) -> bool {
    &&& w2 == (World { instance: w2.instance, events: w2.events, ..w })
    &&& forall|k: SV| k != pz_key().sv() ==> (#[trigger] w2.instance.contains_key(k) == w.instance.contains_key(k) && w2.instance[k] == w.instance[k])
}

/// pause / unpause as single steps (C16): flag set resp. cleared, exactly one event, nothing else moves
pub proof fn lemma_pause_step(w: World)
    ensures
        //@@ C16:lemma.pause_step
        is_paused(pause_post(w)),
        !is_paused(unpause_post(w)),
        pz_frame(w, pause_post(w)), pz_frame(w, unpause_post(w)),
        pause_post(w).events == w.events.push(Paused {}.ev()),
        unpause_post(w).events == w.events.push(Unpaused {}.ev()),
{
    broadcast use sdk_store;
}

/// "works again unchanged after unpausing": pause followed by unpause leaves every store entry other
/// than the flag as it was and the flag reads "not paused" again
pub proof fn lemma_pause_unpause_roundtrip(w: World)
    requires !is_paused(w),
    ensures
        //@@ C16:lemma.pause_unpause_roundtrip
        !is_paused(unpause_post(pause_post(w))),
        pz_frame(w, unpause_post(pause_post(w))),
        unpause_post(pause_post(w)).events == w.events.push(Paused {}.ev()).push(Unpaused {}.ev()),
{
    broadcast use sdk_store;
    lemma_pause_step(w);
    lemma_pause_step(pause_post(w));
}

// ---- histories ----
/// the steps of a contract that embeds the pausable module:
///  * `Pause` / `Unpause`            — the two library writers;
///  * `Guarded { w2 }`               — an entry point declared `when_not_paused` whose own effect leads to `w2`;
///  * `GuardedPaused { w2 }`         — an entry point declared `when_paused`;
///  * `Other { w2 }`                 — any other entry point.
/// The embedding contract's own code is assumed not to write the `Paused` entry (`pz_flag_same`): the
/// library offers no other writer (frame obligations of this unit).
pub enum PzOp { Pause, Unpause, Guarded { w2: World }, GuardedPaused { w2: World }, Other { w2: World } }

pub open spec fn pz_flag_same(w: World, w2: World) -> bool { iget(w2, pz_key()) == iget(w, pz_key()) }

pub open spec fn pz_guard(w: World, op: PzOp) -> bool {
    match op {
        PzOp::Pause => !is_paused(w),
        PzOp::Unpause => is_paused(w),
        PzOp::Guarded { w2 } => !is_paused(w) && pz_flag_same(w, w2),
        PzOp::GuardedPaused { w2 } => is_paused(w) && pz_flag_same(w, w2),
        PzOp::Other { w2 } => pz_flag_same(w, w2),
    }
}
pub open spec fn pz_post(w: World, op: PzOp) -> World {
    match op {
        PzOp::Pause => pause_post(w),
        PzOp::Unpause => unpause_post(w),
        PzOp::Guarded { w2 } => w2,
        PzOp::GuardedPaused { w2 } => w2,
        PzOp::Other { w2 } => w2,
    }
}
pub open spec fn pz_run(w0: World, steps: Seq<PzOp>) -> World
    decreases steps.len()
{
    if steps.len() == 0 { w0 } else { pz_post(pz_run(w0, steps.drop_last()), steps.last()) }
}
pub open spec fn pz_valid(w0: World, steps: Seq<PzOp>) -> bool
    decreases steps.len()
{
    steps.len() == 0 || (pz_valid(w0, steps.drop_last()) && pz_guard(pz_run(w0, steps.drop_last()), steps.last()))
}
pub open spec fn n_pause(steps: Seq<PzOp>) -> int
    decreases steps.len()
{
    if steps.len() == 0 { 0 } else { n_pause(steps.drop_last()) + (if steps.last() is Pause { 1int } else { 0 }) }
}
pub open spec fn n_unpause(steps: Seq<PzOp>) -> int
    decreases steps.len()
{
    if steps.len() == 0 { 0 } else { n_unpause(steps.drop_last()) + (if steps.last() is Unpause { 1int } else { 0 }) }
}
/// the flag as the history dictates it: the last pause/unpause step decides
pub open spec fn pz_expected(steps: Seq<PzOp>) -> bool
    decreases steps.len()
{
    if steps.len() == 0 { false }
    else if steps.last() is Pause { true }
    else if steps.last() is Unpause { false }
    else { pz_expected(steps.drop_last()) }
}

pub proof fn lemma_pz_step(w: World, op: PzOp)
    requires pz_guard(w, op),
    ensures
        //@@ C16:lemma.flag_step
        is_paused(pz_post(w, op)) == (if op is Pause { true } else if op is Unpause { false } else { is_paused(w) }),
{
    lemma_pause_step(w);
}

/// history lemma (C16): starting from a contract that is not paused, in every valid history
///  * the flag is what the last pause/unpause step says (pause and unpause are the only writers),
///  * pauses and unpauses strictly alternate: #pause - #unpause is 1 when paused and 0 otherwise,
pub proof fn lemma_pz_history(w0: World, steps: Seq<PzOp>)
    requires !is_paused(w0), pz_valid(w0, steps),
    ensures
        //@@ C16:history.flag_written_only_by_pause_unpause
        is_paused(pz_run(w0, steps)) == pz_expected(steps),
        //@@ C16:history.pause_unpause_alternate
        n_pause(steps) - n_unpause(steps) == (if is_paused(pz_run(w0, steps)) { 1int } else { 0 }),
    decreases steps.len()
{
    if steps.len() != 0 {
        lemma_pz_history(w0, steps.drop_last());
        lemma_pz_step(pz_run(w0, steps.drop_last()), steps.last());
    }
}

/// a guarded entry point never runs between a pause and the matching unpause
pub proof fn lemma_pz_guarded_only_unpaused(w0: World, steps: Seq<PzOp>, i: int)
    requires !is_paused(w0), pz_valid(w0, steps), 0 <= i < steps.len(), steps[i] is Guarded,
    ensures
        //@@ C16:history.guarded_entry_point_never_runs_while_paused
        n_pause(steps.take(i)) == n_unpause(steps.take(i)),
        !pz_expected(steps.take(i)),
    decreases steps.len()
{
    if i == steps.len() - 1 {
        assert(steps.take(i) =~= steps.drop_last());
        lemma_pz_history(w0, steps.drop_last());
    } else {
        assert(steps.drop_last().take(i) =~= steps.take(i));
        lemma_pz_guarded_only_unpaused(w0, steps.drop_last(), i);
    }
}

// ---- non-vacuity: the hypotheses of the history lemmas are satisfiable ----
pub proof fn lemma_pz_push(w0: World, steps: Seq<PzOp>, op: PzOp)
    requires pz_valid(w0, steps), pz_guard(pz_run(w0, steps), op),
    ensures pz_valid(w0, steps.push(op)), pz_run(w0, steps.push(op)) == pz_post(pz_run(w0, steps), op),
{
    assert(steps.push(op).drop_last() =~= steps);
}
/// pause; unpause; a guarded entry point — is a valid history from any unpaused state
pub proof fn lemma_pz_witness(w0: World)
    requires !is_paused(w0),
    ensures
        //@@ C16:witness.pausable_history
        pz_valid(w0, seq![PzOp::Pause, PzOp::Unpause, PzOp::Guarded { w2: unpause_post(pause_post(w0)) }]),
{
    let s0 = Seq::<PzOp>::empty();
    lemma_pz_push(w0, s0, PzOp::Pause);
    lemma_pause_step(w0);
    let s1 = s0.push(PzOp::Pause);
    lemma_pz_push(w0, s1, PzOp::Unpause);
    lemma_pause_step(pause_post(w0));
    let s2 = s1.push(PzOp::Unpause);
    let w2 = unpause_post(pause_post(w0));
    lemma_pz_push(w0, s2, PzOp::Guarded { w2: w2 });
    assert(s2.push(PzOp::Guarded { w2: w2 }) =~= seq![PzOp::Pause, PzOp::Unpause, PzOp::Guarded { w2: w2 }]);
}
