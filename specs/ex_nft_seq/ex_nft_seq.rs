// expanded nft-sequential-minting example (C10/C11 wiring to Base, owner-only sequential mint)
pub open spec fn ex_owner(w: World) -> Option<Address> { dec::<Address>(iget(w, DataKey::Owner)) }
