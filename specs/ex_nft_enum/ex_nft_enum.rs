// expanded nft-enumerable example (C10/C11 wiring through `type ContractType = Enumerable`, owner-only sequential mint)
pub open spec fn ex_owner(w: World) -> Option<Address> { dec::<Address>(iget(w, DataKey::Owner)) }
