// expanded fungible-blocklist example (C16 wiring through `type ContractType = BlockList`, C06 role-guarded list edits)
pub open spec fn manager_role() -> Symbol { Symbol { code: Ghost(str_code("manager"@)) } }
