// expanded pausable example (C16): `#[when_not_paused]` / `#[when_paused]` gates and owner-only pause / unpause
pub open spec fn ex_owner(w: World) -> Option<Address> { dec::<Address>(iget(w, DataKey::Owner)) }
pub open spec fn ex_counter(w: World) -> Option<i32> { dec::<i32>(iget(w, DataKey::Counter)) }
