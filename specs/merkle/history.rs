// =================================================================================================
// C17 — history level: every sequence of calls of the distributor's state-changing functions
// (root changes, the unguarded admin `set_claimed`, claims in both forms, in any order)
// =================================================================================================
pub enum MOp {
    SetRoot { root: Seq<u8> },
    /// the unguarded `MerkleDistributor::set_claimed` ("admin functions that implement their own authorization")
    SetClaimed { index: u32 },
    ClaimSorted { index: u32, xdr: Seq<u8>, proof: Seq<Seq<u8>> },
    ClaimIndexed { index: u32, xdr: Seq<u8>, proof: Seq<Seq<u8>> },
}
/// what the contracts of the extracted functions say must hold for the call to return
pub open spec fn op_guard<H: Hasher>(w: World, op: MOp) -> bool {
    match op {
        MOp::SetRoot { root } => true,
        MOp::SetClaimed { index } => true,
        MOp::ClaimSorted { index, xdr, proof } => claim_sorted_guard::<H>(w, index, xdr, proof),
        MOp::ClaimIndexed { index, xdr, proof } => claim_indexed_guard::<H>(w, index, xdr, proof),
    }
}
/// ... and the exact successor state they establish
pub open spec fn op_post(w: World, op: MOp) -> World {
    match op {
        MOp::SetRoot { root } => set_root_post(w, root),
        MOp::SetClaimed { index } => set_claimed_post(w, index),
        MOp::ClaimSorted { index, xdr, proof } => set_claimed_post(w, index),
        MOp::ClaimIndexed { index, xdr, proof } => set_claimed_post(w, index),
    }
}
pub open spec fn is_claim_of(op: MOp, i: u32) -> bool {
    match op {
        MOp::ClaimSorted { index, xdr, proof } => index == i,
        MOp::ClaimIndexed { index, xdr, proof } => index == i,
        _ => false,
    }
}
pub open spec fn marks(op: MOp, i: u32) -> bool {
    is_claim_of(op, i) || op == (MOp::SetClaimed { index: i })
}
/// state after the first n steps
pub open spec fn run(w0: World, steps: Seq<MOp>, n: nat) -> World
    decreases n
{
    if n == 0 || n > steps.len() { w0 } else { op_post(run(w0, steps, (n - 1) as nat), steps[n - 1]) }
}
/// every step returned (its guard held in the state it ran in); failed calls leave no trace (M6)
pub open spec fn valid<H: Hasher>(w0: World, steps: Seq<MOp>) -> bool {
    forall|k: int| 0 <= k < steps.len() ==> op_guard::<H>(#[trigger] run(w0, steps, k as nat), steps[k])
}

pub proof fn lemma_step_claimed(w: World, op: MOp, j: u32)
    ensures
        //@@ C17:lemma.step_never_unsets
        claimed(op_post(w, op), j) == (claimed(w, j) || marks(op, j)),
{
    match op {
        MOp::SetRoot { root } => { lemma_set_root_frame(w, root, j); }
        MOp::SetClaimed { index } => { lemma_set_claimed_frame(w, index, j); }
        MOp::ClaimSorted { index, xdr, proof } => { lemma_set_claimed_frame(w, index, j); }
        MOp::ClaimIndexed { index, xdr, proof } => { lemma_set_claimed_frame(w, index, j); }
    }
}
/// once claimed, always claimed
pub proof fn lemma_claimed_forever(w0: World, steps: Seq<MOp>, a: nat, b: nat, j: u32)
    requires a <= b <= steps.len(), claimed(run(w0, steps, a), j),
    ensures
        //@@ C17:lemma.claimed_forever
        claimed(run(w0, steps, b), j),
    decreases b
{
    if b > a {
        lemma_claimed_forever(w0, steps, a, (b - 1) as nat, j);
        lemma_step_claimed(run(w0, steps, (b - 1) as nat), steps[b - 1], j);
    }
}
/// a second claim of the same index never returns: no valid history contains two claims of one index,
/// nor a claim after the index was marked by any other means
pub proof fn lemma_no_second_claim<H: Hasher>(w0: World, steps: Seq<MOp>, a: int, b: int, j: u32)
    requires valid::<H>(w0, steps), 0 <= a < b < steps.len(), marks(steps[a], j),
    ensures
        //@@ C17:lemma.no_second_claim
        !is_claim_of(steps[b], j),
{
    lemma_step_claimed(run(w0, steps, a as nat), steps[a], j);
    assert(run(w0, steps, (a + 1) as nat) == op_post(run(w0, steps, a as nat), steps[a]));
    lemma_claimed_forever(w0, steps, (a + 1) as nat, b as nat, j);
    assert(op_guard::<H>(run(w0, steps, b as nat), steps[b]));
}
/// a claim in a state where the index is already claimed does not return either
pub proof fn lemma_claim_needs_unclaimed<H: Hasher>(w: World, op: MOp, j: u32)
    requires is_claim_of(op, j), claimed(w, j),
    ensures
        //@@ C17:lemma.claimed_refuses
        !op_guard::<H>(w, op),
{}
/// an index is marked claimed only by a step that marks it: a claim whose proof folded to the root
/// stored at that moment (or the unguarded admin setter); a failed claim marks nothing (M6)
pub proof fn lemma_claimed_only_by_valid_claim<H: Hasher>(w0: World, steps: Seq<MOp>, n: nat, j: u32) -> (k: int)
    requires valid::<H>(w0, steps), n <= steps.len(), !claimed(w0, j), claimed(run(w0, steps, n), j),
    ensures
        //@@ C17:lemma.claimed_only_after_valid_proof
        0 <= k < n && marks(steps[k], j) && !claimed(run(w0, steps, k as nat), j)
            && op_guard::<H>(run(w0, steps, k as nat), steps[k]),
    decreases n
{
    let prev = run(w0, steps, (n - 1) as nat);
    lemma_step_claimed(prev, steps[n - 1], j);
    if claimed(prev, j) {
        lemma_claimed_only_by_valid_claim::<H>(w0, steps, (n - 1) as nat, j)
    } else {
        assert(op_guard::<H>(run(w0, steps, (n - 1) as nat), steps[n - 1]));
        n - 1
    }
}
/// the guard of a returning claim, spelled out: the proof was valid against the root current then
pub proof fn lemma_claim_guard_means(w: World, op: MOp, j: u32)
    ensures
        //@@ C17:lemma.claim_guard_is_valid_proof
        forall|index: u32, xdr: Seq<u8>, proof: Seq<Seq<u8>>| op == (MOp::ClaimSorted { index, xdr, proof }) && op_guard::<Sha256>(w, op)
            ==> !claimed(w, index) && fold_sorted::<Sha256>(proof, sha256_spec(xdr)) == root_bytes(w),
        forall|index: u32, xdr: Seq<u8>, proof: Seq<Seq<u8>>| op == (MOp::ClaimIndexed { index, xdr, proof }) && op_guard::<Sha256>(w, op)
            ==> !claimed(w, index) && (index as int) < pow2(proof.len()) && fold_indexed::<Sha256>(proof, sha256_spec(xdr), index as nat) == root_bytes(w),
{}
